/-
C11 (part b) — Bech32 / Bech32m error detection at the level of 5-bit symbols
and the checksum constant.

Every checksummed symbol string the library can emit (witness version + at most
64 program symbols + 6 checksum symbols) has at most 71 symbols.  An error
pattern `e` is XOR-ed position-wise onto the last `e.length` symbols; a
substitution of `k` characters is a pattern of weight `k` (symbols `< 32`).

Definitions used below (all in `Lemmas/BchDefs.lean`, `Lemmas/Bch.lean`):
  `Bch.T c      = Bech32.polymodStep c 0`                (linear part of a step)
  `Bch.syn e    = e.foldl (fun s v => T s ^^^ v) 0`      (syndrome of a pattern)
  `Bch.weight e = e.countP (· != 0)`                     (number of non-zero entries)
Helper facts proved in `Lemmas/Bch.lean`: `polymodStep_eq_T`, `T_linear`,
`T_injective`, `T_lt`.  The finite part of the argument — every triple of
offsets / positions passes a GF(2) echelon check — is evaluated by the kernel in
the generated modules `BtcHd/Bch/Row*.lean` over `Bech32.gen` and
`Bech32.bech32mConst`, i.e. over the constants extracted from the Python source
(`Lemmas/GF2.lean` proves the check sound).
-/
import BtcHd.Lemmas.BchDist

namespace BtcHd.C11
open BtcHd Bech32 Bch

/-- XOR-ing an error pattern onto the last symbols fed to `polymod` changes the result by exactly
the pattern's syndrome, whatever comes before (HRP expansion, earlier symbols) -/
theorem polymod_xor_error (pre xs e : List Nat) (h : xs.length = e.length) :
    polymod (pre ++ List.zipWith (· ^^^ ·) xs e) = polymod (pre ++ xs) ^^^ syn e := by
  unfold polymod syn
  rw [List.foldl_append, List.foldl_append]
  have := foldl_polymodStep_xor xs e (List.foldl polymodStep 1 pre) 0 h
  rwa [Nat.xor_zero] at this

/-- minimum distance 5 up to length 71: one to four wrong symbols among the last 71 never have
syndrome zero -/
theorem bch_distance {e : List Nat} (hlen : e.length ≤ 71) (hsym : ∀ v ∈ e, v < 32)
    (h1 : 1 ≤ weight e) (h4 : weight e ≤ 4) : syn e ≠ 0 := by
  rw [syn_eq_synS]
  exact synS_ne_zero (valid_sparse hlen hsym) (by rw [length_sparse_reverse]; exact h1)
    (by rw [length_sparse_reverse]; exact h4)

/-- at most three wrong symbols among the last 71 never have the syndrome `1 ^^^ bech32mConst` that
turns a Bech32 checksum into a Bech32m one (or back) -/
theorem bch_cross {e : List Nat} (hlen : e.length ≤ 71) (hsym : ∀ v ∈ e, v < 32)
    (h3 : weight e ≤ 3) : syn e ≠ 1 ^^^ bech32mConst := by
  rw [syn_eq_synS]
  exact synS_ne_D (valid_sparse hlen hsym) (by rw [length_sparse_reverse]; exact h3)

/-- the two checksum constants of the source differ -/
theorem const_ne : bech32mConst ≠ 1 := by decide

private theorem xor_right_eq_self {a b : Nat} (h : a ^^^ b = a) : b = 0 := by
  have : a ^^^ (a ^^^ b) = a ^^^ a := by rw [h]
  rwa [← Nat.xor_assoc, Nat.xor_self, Nat.zero_xor] at this

private theorem xor_eq_iff {a b c : Nat} (h : a ^^^ b = c) : b = a ^^^ c := by
  rw [← h, ← Nat.xor_assoc, Nat.xor_self, Nat.zero_xor]

/-- one to four wrong symbols among the last 71 always change the `polymod` value, so a string that
matched a checksum constant no longer matches the same constant -/
theorem detect_same_const {pre xs e : List Nat} {c : Nat} (hc : polymod (pre ++ xs) = c)
    (hl : xs.length = e.length) (hlen : e.length ≤ 71) (hsym : ∀ v ∈ e, v < 32)
    (h1 : 1 ≤ weight e) (h4 : weight e ≤ 4) :
    polymod (pre ++ List.zipWith (· ^^^ ·) xs e) ≠ c := by
  rw [polymod_xor_error pre xs e hl, hc]
  exact fun h => bch_distance hlen hsym h1 h4 (xor_right_eq_self h)

/-- one to three wrong symbols among the last 71 of a valid string are always rejected: the result
is neither the Bech32 nor the Bech32m constant -/
theorem detect_le3 {pre xs e : List Nat}
    (hc : polymod (pre ++ xs) = 1 ∨ polymod (pre ++ xs) = bech32mConst)
    (hl : xs.length = e.length) (hlen : e.length ≤ 71) (hsym : ∀ v ∈ e, v < 32)
    (h1 : 1 ≤ weight e) (h3 : weight e ≤ 3) :
    polymod (pre ++ List.zipWith (· ^^^ ·) xs e) ≠ 1 ∧
      polymod (pre ++ List.zipWith (· ^^^ ·) xs e) ≠ bech32mConst := by
  have hd := bch_distance hlen hsym h1 (by omega)
  have hx := bch_cross hlen hsym h3
  rw [polymod_xor_error pre xs e hl]
  rcases hc with hc | hc <;> rw [hc] <;> refine ⟨fun h => ?_, fun h => ?_⟩
  · exact hd (xor_right_eq_self h)
  · exact hx (xor_eq_iff h)
  · exact hx (by rw [xor_eq_iff h, Nat.xor_comm])
  · exact hd (xor_right_eq_self h)

/-- four wrong symbols among the last 71 of a valid string are accepted only if the checksum constant
switches (Bech32 ↔ Bech32m), which `decode` ties to witness version 0 versus non-zero -/
theorem detect_four {pre xs e : List Nat}
    (hc : polymod (pre ++ xs) = 1 ∨ polymod (pre ++ xs) = bech32mConst)
    (hc' : polymod (pre ++ List.zipWith (· ^^^ ·) xs e) = 1 ∨
      polymod (pre ++ List.zipWith (· ^^^ ·) xs e) = bech32mConst)
    (hl : xs.length = e.length) (hlen : e.length ≤ 71) (hsym : ∀ v ∈ e, v < 32)
    (h4 : weight e = 4) :
    polymod (pre ++ xs) ≠ polymod (pre ++ List.zipWith (· ^^^ ·) xs e) ∧
    ((polymod (pre ++ xs) = 1 ∧ polymod (pre ++ List.zipWith (· ^^^ ·) xs e) = bech32mConst) ∨
      (polymod (pre ++ xs) = bech32mConst ∧ polymod (pre ++ List.zipWith (· ^^^ ·) xs e) = 1)) := by
  have hne := detect_same_const (c := polymod (pre ++ xs)) rfl hl hlen hsym (by omega) (by omega)
  refine ⟨fun h => hne h.symm, ?_⟩
  rcases hc with hc | hc <;> rcases hc' with hc' | hc'
  · exact absurd (hc'.trans hc.symm) hne
  · exact Or.inl ⟨hc, hc'⟩
  · exact Or.inr ⟨hc, hc'⟩
  · exact absurd (hc'.trans hc.symm) hne

/-! ### the same at the level of `bech32_verify_checksum` -/

private theorem verify_some {hrp : List Char} {data : List Nat} {spec : Encoding}
    (h : verifyChecksum hrp data = some spec) : polymod (hrpExpand hrp ++ data) = constOf spec := by
  unfold verifyChecksum at h
  simp only at h
  split at h
  · next h1 => injection h with h; subst h; exact h1
  · split at h
    · next h2 => injection h with h; subst h; exact h2
    · cases h

/-- a data part that verifies (either encoding) is rejected after one to three symbol
substitutions among its last 71 symbols -/
theorem verify_detect_le3 {hrp : List Char} {d xs e : List Nat}
    (hv : verifyChecksum hrp (d ++ xs) ≠ none)
    (hl : xs.length = e.length) (hlen : e.length ≤ 71) (hsym : ∀ v ∈ e, v < 32)
    (h1 : 1 ≤ weight e) (h3 : weight e ≤ 3) :
    verifyChecksum hrp (d ++ List.zipWith (· ^^^ ·) xs e) = none := by
  have hc : polymod ((hrpExpand hrp ++ d) ++ xs) = 1 ∨
      polymod ((hrpExpand hrp ++ d) ++ xs) = bech32mConst := by
    cases hs : verifyChecksum hrp (d ++ xs) with
    | none => exact absurd hs hv
    | some spec =>
      have := verify_some hs
      rw [← List.append_assoc] at this
      cases spec
      · exact Or.inl this
      · exact Or.inr this
  obtain ⟨n1, n2⟩ := detect_le3 hc hl hlen hsym h1 h3
  unfold verifyChecksum
  rw [List.append_assoc] at n1 n2
  simp only [n1, n2, if_false]

/-- a data part that verifies with one encoding does not verify with the same encoding after one to
four symbol substitutions among its last 71 symbols (it is rejected or, for exactly four
substitutions, possibly accepted as the other encoding) -/
theorem verify_detect_le4 {hrp : List Char} {d xs e : List Nat} {spec : Encoding}
    (hv : verifyChecksum hrp (d ++ xs) = some spec)
    (hl : xs.length = e.length) (hlen : e.length ≤ 71) (hsym : ∀ v ∈ e, v < 32)
    (h1 : 1 ≤ weight e) (h4 : weight e ≤ 4) :
    verifyChecksum hrp (d ++ List.zipWith (· ^^^ ·) xs e) ≠ some spec := by
  intro hv'
  have a := verify_some hv
  have b := verify_some hv'
  rw [← List.append_assoc] at a b
  exact detect_same_const a hl hlen hsym h1 h4 b

/-! ### the same for substitutions: `ys` differs from `xs` in `diffCount xs ys` positions -/

/-- substituting one to three of the last (at most 71) symbols of a data part that verifies
(either encoding) gives a data part that is rejected -/
theorem verify_subst_le3 {hrp : List Char} {d xs ys : List Nat}
    (hv : verifyChecksum hrp (d ++ xs) ≠ none)
    (hl : xs.length = ys.length) (hlen : xs.length ≤ 71)
    (hx : ∀ v ∈ xs, v < 32) (hy : ∀ v ∈ ys, v < 32)
    (h1 : 1 ≤ diffCount xs ys) (h3 : diffCount xs ys ≤ 3) :
    verifyChecksum hrp (d ++ ys) = none := by
  have := verify_detect_le3 (e := List.zipWith (· ^^^ ·) xs ys) hv
    (length_pattern xs ys hl).symm (by rw [length_pattern xs ys hl]; exact hlen)
    (pattern_lt xs ys hx hy) (by rw [weight_pattern]; exact h1) (by rw [weight_pattern]; exact h3)
  rwa [zipWith_xor_pattern xs ys hl] at this

/-- substituting one to four of the last (at most 71) symbols of a data part that verifies with one
encoding gives a data part that does not verify with that encoding: it is rejected, or — only
possible for exactly four substitutions, by `verify_subst_le3` — accepted as the other encoding,
which `decode` then rejects unless the witness version also changed between 0 and non-zero -/
theorem verify_subst_le4 {hrp : List Char} {d xs ys : List Nat} {spec : Encoding}
    (hv : verifyChecksum hrp (d ++ xs) = some spec)
    (hl : xs.length = ys.length) (hlen : xs.length ≤ 71)
    (hx : ∀ v ∈ xs, v < 32) (hy : ∀ v ∈ ys, v < 32)
    (h1 : 1 ≤ diffCount xs ys) (h4 : diffCount xs ys ≤ 4) :
    verifyChecksum hrp (d ++ ys) ≠ some spec := by
  have := verify_detect_le4 (e := List.zipWith (· ^^^ ·) xs ys) hv
    (length_pattern xs ys hl).symm (by rw [length_pattern xs ys hl]; exact hlen)
    (pattern_lt xs ys hx hy) (by rw [weight_pattern]; exact h1) (by rw [weight_pattern]; exact h4)
  rwa [zipWith_xor_pattern xs ys hl] at this

/-- a concrete instance of the hypotheses of `verify_subst_le3`: the data part of the all-zero
32-byte version-0 program under HRP `bc`, with three symbols substituted -/
example :
    let xs := List.replicate 53 0 ++ createChecksum ['b', 'c'] (List.replicate 53 0) .bech32
    let ys := [3, 0, 9] ++ List.replicate 49 0 ++ [31] ++ xs.drop 53
    verifyChecksum ['b', 'c'] ([] ++ xs) ≠ none ∧ xs.length = ys.length ∧ xs.length ≤ 71 ∧
      (∀ v ∈ xs, v < 32) ∧ (∀ v ∈ ys, v < 32) ∧ diffCount xs ys = 3 := by decide +kernel

/-! ### non-vacuity and tightness -/

/-- a concrete instance of the hypotheses of `bch_distance` (a single wrong symbol, 71 symbols) -/
example : (List.replicate 70 0 ++ [7]).length ≤ 71 ∧ (∀ v ∈ List.replicate 70 0 ++ [7], v < 32) ∧
    1 ≤ weight (List.replicate 70 0 ++ [7]) ∧ weight (List.replicate 70 0 ++ [7]) ≤ 4 := by
  decide

/-- a concrete instance of the hypotheses of `detect_le3` / `detect_four`: the all-zero program of
witness version 0 under HRP `bc`, i.e. `hrpExpand "bc" ++ [0, …] ++ checksum`, verifies as Bech32 -/
example : verifyChecksum ['b', 'c'] (List.replicate 33 0 ++
    createChecksum ['b', 'c'] (List.replicate 33 0) .bech32) = some .bech32 := by decide +kernel

/-- the bound 4 in `bch_distance` is tight: five wrong symbols within 41 positions can cancel -/
theorem weight_five_undetected :
    let e := [25] ++ List.replicate 23 0 ++ [2] ++ List.replicate 5 0 ++ [18] ++
      List.replicate 8 0 ++ [1, 1]
    e.length = 41 ∧ (∀ v ∈ e, v < 32) ∧ weight e = 5 ∧ syn e = 0 := by decide +kernel

/-- the bound 3 in `bch_cross` is tight and the exception in `detect_four` is real: four wrong
symbols within the last 10 positions turn a Bech32 checksum into a Bech32m one -/
theorem weight_four_switches_const :
    let e := [26, 0, 0, 0, 17, 0, 0, 0, 13, 4]
    (∀ v ∈ e, v < 32) ∧ weight e = 4 ∧ syn e = 1 ^^^ bech32mConst := by decide +kernel

/-- the exception for four substitutions is real at the address level: these two `bc` addresses
differ in exactly four characters (one of them the witness-version character) and `decode`
accepts both, the first as version 0 and the second as version 1 -/
theorem four_substitutions_can_switch_version :
    let a1 := "bc1qqqqqqqqqqqqqqqqqqqqqqqqqqqqqqqqqqqqqqqqqqqqqqqqqqqqqthqst8".toList
    let a2 := "bc1pqqqqqqqqqqqqkqqqqqqqqlqqqqqqqqqqqqqqqqqqqeqqqqqqqqqqthqst8".toList
    decode ['b', 'c'] a1 = some (0, List.replicate 32 0) ∧
    decode ['b', 'c'] a2 = some (1, [0, 0, 0, 0, 0, 0, 0, 11, 0, 0, 0, 0, 0, 124, 0, 0, 0, 0, 0, 0,
      0, 0, 0, 0, 0, 6, 64, 0, 0, 0, 0, 0]) ∧
    a1.length = a2.length ∧ ((List.zip a1 a2).filter (fun p => p.1 != p.2)).length = 4 := by
  decide +kernel

end BtcHd.C11
