/-
C08 — New wallets take their entropy from the operating system's random source.

"Creating a new wallet or mnemonic of N words requests at least 32*N/3 bits from the
operating system's cryptographic random source, and its entropy comes from nowhere else
[...].  Every one of the ENT entropy bits, including the most significant one, varies
across fresh wallets, and no two fresh wallets coincide."

Property theorems only.  In the model (`Model/Bip39.lean`, `Model/Wallet.lean`) the only
source of randomness is the argument `osRandom : Nat → Bytes` — what `os.urandom(n)` returns
(`random = random.SystemRandom()` in `bip39.py`; `SystemRandom.getrandbits` reads
`os.urandom`).  No model function takes the state of a seedable PRNG, a clock or anything
else.  "Requests `r` bytes" is expressed as: the result depends on `osRandom` only through its
value at `r`.  That `os.urandom(r)` returns exactly `r` bytes is a hypothesis on `osRandom`.
-/
import BtcHd.Lemmas.BeFixed
import BtcHd.Lemmas.ToyCurve
import BtcHd.Props.C04
import BtcHd.Model.Wallet

namespace BtcHd.C08
open BtcHd Bip39 Wallet

variable {Pt : Type}

/-! ### 1. sizes -/

/-- the table word count ↦ entropy bits of the source is 12↦128, 15↦160, 18↦192, 21↦224,
24↦256: `bits = 32·N/3` (and `bits/8 = 4·N/3` bytes), pairing `CORRECT_MNEMONIC_LENGTH` with
`CORRECT_ENTROPY_BITS` in order -/
theorem lenToBits_table :
    Generated.lenToBits = [(12, 128), (15, 160), (18, 192), (21, 224), (24, 256)] ∧
    (∀ e ∈ Generated.lenToBits, e.2 = 32 * e.1 / 3 ∧ e.2 % 8 = 0 ∧ e.2 / 8 = 4 * e.1 / 3 ∧
      sentenceLength e.2 = e.1) ∧
    Generated.lenToBits = Generated.correctMnemonicLength.zip Generated.correctEntropyBits := by
  decide

/-- looking up a word count: the bit size `32·N/3` for 12/15/18/21/24, nothing otherwise -/
theorem lookup_bits (n : Nat) :
    (Generated.lenToBits.find? (·.1 = n)).map (·.2) =
      if n ∈ [12, 15, 18, 21, 24] then some (32 * n / 3) else none := by
  by_cases h : n ∈ [12, 15, 18, 21, 24]
  · rw [if_pos h]
    simp only [List.mem_cons, List.not_mem_nil, or_false] at h
    rcases h with rfl | rfl | rfl | rfl | rfl <;> decide
  · rw [if_neg h]
    simp only [List.mem_cons, List.not_mem_nil, or_false, not_or] at h
    obtain ⟨h1, h2, h3, h4, h5⟩ := h
    simp [Generated.lenToBits, List.find?, Ne.symm h1, Ne.symm h2, Ne.symm h3, Ne.symm h4,
      Ne.symm h5]

/-! ### 2. what is requested from the OS -/

/-- `SystemRandom.getrandbits(k)` reads the OS source once, for `⌈k/8⌉` bytes: its value
depends on `os.urandom` only through the answer to that request -/
theorem getrandbits_depends (os₁ os₂ : Nat → Bytes) (k : Nat)
    (h : os₁ ((k + 7) / 8) = os₂ ((k + 7) / 8)) : getrandbits os₁ k = getrandbits os₂ k := by
  unfold getrandbits
  simp only [h]

/-- for a whole number of bytes nothing is shifted away: `getrandbits(k)` is the big-endian
value of the `k/8` bytes the OS returned -/
theorem getrandbits_eq (os : Nat → Bytes) (k : Nat) (hk : k % 8 = 0) :
    getrandbits os k = beToNat (os (k / 8)) := by
  unfold getrandbits
  simp only
  have h1 : (k + 7) / 8 = k / 8 := by omega
  have h2 : k / 8 * 8 - k = 0 := by omega
  rw [h1, h2, Nat.shiftRight_zero]

private theorem bits_facts {bits : Nat} (h : bits ∈ Generated.correctEntropyBits) :
    bits % 8 = 0 ∧ (bits / 8) * 8 = bits ∧ bits / 8 = 4 * sentenceLength bits / 3 ∧
      bits = 32 * sentenceLength bits / 3 := by
  simp only [Generated.correctEntropyBits, List.mem_cons, List.not_mem_nil, or_false] at h
  rcases h with rfl | rfl | rfl | rfl | rfl <;> decide

/-- **request size**: `mnemonic_from_entropy_bits(bits)` makes exactly one request to the OS
source, for `bits/8` bytes — i.e. `bits = 32·N/3` bits for an `N`-word sentence — and its
result is a function of the answer alone (any two OS sources that answer this request alike
give the same result, whatever else they would answer) -/
theorem request_size (sha256 : Bytes → Bytes) (os₁ os₂ : Nat → Bytes) (bits : Nat)
    (h : os₁ (bits / 8) = os₂ (bits / 8)) :
    mnemonicFromEntropyBits sha256 os₁ bits = mnemonicFromEntropyBits sha256 os₂ bits := by
  unfold mnemonicFromEntropyBits
  split
  · next hb =>
    rw [getrandbits_eq os₁ bits (bits_facts hb).1, getrandbits_eq os₂ bits (bits_facts hb).1, h]
  · rfl

/-- the number of bits requested for an `N`-word sentence is `8·(bits/8) = bits = 32·N/3` -/
theorem requested_bits (bits : Nat) (h : bits ∈ Generated.correctEntropyBits) :
    8 * (bits / 8) = bits ∧ bits = 32 * sentenceLength bits / 3 ∧
      sentenceLength bits ∈ Generated.correctMnemonicLength := by
  obtain ⟨h1, h2, _, h4⟩ := bits_facts h
  refine ⟨by omega, h4, ?_⟩
  simp only [Generated.correctEntropyBits, List.mem_cons, List.not_mem_nil, or_false] at h
  rcases h with rfl | rfl | rfl | rfl | rfl <;> decide

/-- **the entropy is the OS bytes**: when the OS answers the request for `bits/8` bytes with
that many bytes, the new sentence is `mnemonic_from_entropy` of exactly those bytes (no bit is
dropped, masked or fixed: leading zero bytes survive the integer round trip) -/
theorem entropy_is_os_bytes (sha256 : Bytes → Bytes) (os : Nat → Bytes) (bits : Nat)
    (hb : bits ∈ Generated.correctEntropyBits) (hlen : (os (bits / 8)).length = bits / 8) :
    mnemonicFromEntropyBits sha256 os bits = mnemonicFromEntropy sha256 (toHex (os (bits / 8))) := by
  unfold mnemonicFromEntropyBits
  rw [if_pos hb, getrandbits_eq os bits (bits_facts hb).1]
  have hlt : beToNat (os (bits / 8)) < 256 ^ (bits / 8) := by
    have := BeFixed.beToNat_lt (os (bits / 8))
    rwa [hlen] at this
  rw [BeFixed.toBytesBE_eq_some hlt, Option.bind_some, BeFixed.beFixed_beToNat hlen]

example : ∃ os : Nat → Bytes, (256 : Nat) ∈ Generated.correctEntropyBits ∧
    (os (256 / 8)).length = 256 / 8 :=
  ⟨fun n => List.replicate n 0xAB, by decide, by simp⟩

/-- **the words spell the OS bits**: under the same hypotheses (and 32-byte SHA-256 outputs) a
sentence is produced, it has `N = 3·bits/32` words, and the 11-bit values of its words,
concatenated, are exactly the bits of the OS answer followed by `bits/32` checksum bits -/
theorem words_are_os_bits (sha256 : Bytes → Bytes) (hsha : ∀ x, (sha256 x).length = 32)
    (os : Nat → Bytes) (bits : Nat) (hb : bits ∈ Generated.correctEntropyBits)
    (hlen : (os (bits / 8)).length = bits / 8) :
    ∃ (idx : List Nat) (s : List Char), mnemonicFromEntropyBits sha256 os bits = some s ∧
      Text.splitOn ' ' s = idx.map (fun i => (Official.words[i]!).toList) ∧
      idx.length = sentenceLength bits ∧ (∀ i ∈ idx, i < 2048) ∧
      idx.flatMap (bitsBE 11) =
        bytesBits (os (bits / 8)) ++ (bytesBits (sha256 (os (bits / 8)))).take (bits / 32) ∧
      (idx.flatMap (bitsBE 11)).take bits = bytesBits (os (bits / 8)) := by
  have hbits : (os (bits / 8)).length * 8 ∈ Generated.correctEntropyBits := by
    rw [hlen, (bits_facts hb).2.1]; exact hb
  obtain ⟨idx, s, h1, h2, _, h4⟩ := C04.mnemonic_spec sha256 hsha _ _
    (C04.fromHex_toHex (os (bits / 8))) hbits
  obtain ⟨idx', h1', _, h3, h5, h6⟩ := C04.indexes_spec sha256 hsha _ hbits
  rw [h1] at h1'
  obtain rfl : idx = idx' := Option.some.inj h1'
  have hbl : (bytesBits (os (bits / 8))).length = bits := by
    rw [bytesBits_length, hlen]
    have := (bits_facts hb).2.1
    omega
  refine ⟨idx, s, by rw [entropy_is_os_bytes sha256 os bits hb hlen, h2], h4, ?_, h5, ?_, ?_⟩
  · rw [h3, hlen, (bits_facts hb).2.1]
  · rw [h6, hlen]
    have : bits / 8 / 4 = bits / 32 := by omega
    rw [this]
  · rw [h6, List.take_left' hbl]

/-! ### 3. no two fresh wallets coincide; every bit varies -/

/-- **injective**: two different OS answers (of the right length) give different sentences -/
theorem injective (sha256 : Bytes → Bytes) (hsha : ∀ x, (sha256 x).length = 32)
    (os₁ os₂ : Nat → Bytes) (bits : Nat) (hb : bits ∈ Generated.correctEntropyBits)
    (h₁ : (os₁ (bits / 8)).length = bits / 8) (h₂ : (os₂ (bits / 8)).length = bits / 8)
    (hne : os₁ (bits / 8) ≠ os₂ (bits / 8)) :
    mnemonicFromEntropyBits sha256 os₁ bits ≠ mnemonicFromEntropyBits sha256 os₂ bits ∧
      (mnemonicFromEntropyBits sha256 os₁ bits).isSome ∧
      (mnemonicFromEntropyBits sha256 os₂ bits).isSome := by
  have hb₁ : (os₁ (bits / 8)).length * 8 ∈ Generated.correctEntropyBits := by
    rw [h₁, (bits_facts hb).2.1]; exact hb
  have hb₂ : (os₂ (bits / 8)).length * 8 ∈ Generated.correctEntropyBits := by
    rw [h₂, (bits_facts hb).2.1]; exact hb
  rw [entropy_is_os_bytes sha256 os₁ bits hb h₁, entropy_is_os_bytes sha256 os₂ bits hb h₂]
  refine ⟨fun heq => hne ?_, ?_, ?_⟩
  · exact C04.mnemonic_lossless sha256 hsha _ _ _ _ (C04.fromHex_toHex _) (C04.fromHex_toHex _)
      hb₁ hb₂ heq
  · exact (C04.mnemonic_isSome_iff sha256 hsha _).mpr ⟨_, C04.fromHex_toHex _, hb₁⟩
  · exact (C04.mnemonic_isSome_iff sha256 hsha _).mpr ⟨_, C04.fromHex_toHex _, hb₂⟩

example : ∃ os₁ os₂ : Nat → Bytes, (os₁ (128 / 8)).length = 128 / 8 ∧
    (os₂ (128 / 8)).length = 128 / 8 ∧ os₁ (128 / 8) ≠ os₂ (128 / 8) :=
  ⟨fun n => List.replicate n 0, fun n => List.replicate n 1, by simp, by simp, by decide⟩

/-- **every bit varies**: bit `j` (0 = most significant) of the entropy encoded by the new
sentence is bit `j` of the OS answer, for every `j < bits`; so if two OS answers differ in bit
`j`, the entropies of the two sentences differ in bit `j` -/
theorem bit_varies (sha256 : Bytes → Bytes) (hsha : ∀ x, (sha256 x).length = 32)
    (os₁ os₂ : Nat → Bytes) (bits : Nat) (hb : bits ∈ Generated.correctEntropyBits)
    (h₁ : (os₁ (bits / 8)).length = bits / 8) (h₂ : (os₂ (bits / 8)).length = bits / 8)
    (j : Nat) (hj : j < bits)
    (hdiff : (bytesBits (os₁ (bits / 8)))[j]? ≠ (bytesBits (os₂ (bits / 8)))[j]?) :
    ∃ (idx₁ idx₂ : List Nat) (s₁ s₂ : List Char), mnemonicFromEntropyBits sha256 os₁ bits = some s₁ ∧
      mnemonicFromEntropyBits sha256 os₂ bits = some s₂ ∧
      Text.splitOn ' ' s₁ = idx₁.map (fun i => (Official.words[i]!).toList) ∧
      Text.splitOn ' ' s₂ = idx₂.map (fun i => (Official.words[i]!).toList) ∧
      (idx₁.flatMap (bitsBE 11))[j]? = (bytesBits (os₁ (bits / 8)))[j]? ∧
      (idx₂.flatMap (bitsBE 11))[j]? = (bytesBits (os₂ (bits / 8)))[j]? ∧
      (idx₁.flatMap (bitsBE 11))[j]? ≠ (idx₂.flatMap (bitsBE 11))[j]? := by
  obtain ⟨idx₁, s₁, a1, a2, _, _, _, a6⟩ := words_are_os_bits sha256 hsha os₁ bits hb h₁
  obtain ⟨idx₂, s₂, b1, b2, _, _, _, b6⟩ := words_are_os_bits sha256 hsha os₂ bits hb h₂
  have e1 : (idx₁.flatMap (bitsBE 11))[j]? = (bytesBits (os₁ (bits / 8)))[j]? := by
    rw [← a6, List.getElem?_take, if_pos hj]
  have e2 : (idx₂.flatMap (bitsBE 11))[j]? = (bytesBits (os₂ (bits / 8)))[j]? := by
    rw [← b6, List.getElem?_take, if_pos hj]
  exact ⟨idx₁, idx₂, s₁, s₂, a1, b1, a2, b2, e1, e2, by rw [e1, e2]; exact hdiff⟩

/-- the most significant bit is not special: OS answers starting `0x00…` and `0x80…` differ in
bit 0, so (by `bit_varies`) do the entropies of their sentences -/
example : (bytesBits (List.replicate 16 0))[0]? ≠ (bytesBits (0x80 :: List.replicate 15 0))[0]? := by
  decide

/-- **every entropy value is reachable**: for every byte string of the right length there is an
OS answer (that string) whose new sentence encodes exactly it — the map from OS answers to
sentences is the BIP39 encoding itself, with no value excluded -/
theorem every_entropy_reachable (sha256 : Bytes → Bytes) (bits : Nat)
    (hb : bits ∈ Generated.correctEntropyBits) (eb : Bytes) (hlen : eb.length = bits / 8) :
    mnemonicFromEntropyBits sha256 (fun _ => eb) bits = mnemonicFromEntropy sha256 (toHex eb) :=
  entropy_is_os_bytes sha256 (fun _ => eb) bits hb hlen

/-! ### 4. rejection -/

/-- a bit size other than 128/160/192/224/256 is rejected before the OS source is read -/
theorem bad_bits_rejected (sha256 : Bytes → Bytes) (os : Nat → Bytes) (bits : Nat)
    (h : bits ∉ Generated.correctEntropyBits) : mnemonicFromEntropyBits sha256 os bits = none := by
  unfold mnemonicFromEntropyBits
  rw [if_neg h]

/-- a word count other than 12/15/18/21/24 is rejected: no wallet -/
theorem bad_len_rejected (P : Prims Pt) (os : Nat → Bytes) (n : Nat) (pw : List Char) (t : Bool)
    (h : n ∉ [12, 15, 18, 21, 24]) : newWallet P os n pw t = none := by
  unfold newWallet
  rw [lookup_bits, if_neg h]
  rfl

example : (13 : Nat) ∉ [12, 15, 18, 21, 24] ∧ (129 : Nat) ∉ Generated.correctEntropyBits := by
  decide

/-! ### 5. `new_wallet` -/

/-- **new wallet**: for `N ∈ {12,15,18,21,24}` words, `new_wallet` requests `4·N/3` bytes
(`32·N/3` bits) from the OS source and, when it gets that many, builds the wallet of
`mnemonic_from_entropy` of exactly those bytes (with the given passphrase and network) -/
theorem newWallet_spec (P : Prims Pt) (os : Nat → Bytes) (n : Nat) (pw : List Char) (t : Bool)
    (hn : n ∈ [12, 15, 18, 21, 24]) (hlen : (os (4 * n / 3)).length = 4 * n / 3) :
    newWallet P os n pw t =
      (mnemonicFromEntropy P.sha256 (toHex (os (4 * n / 3)))).bind fun mn =>
        fromMnemonic P mn pw t := by
  unfold newWallet
  rw [lookup_bits, if_pos hn, Option.bind_some]
  have hb : 32 * n / 3 ∈ Generated.correctEntropyBits ∧ 32 * n / 3 / 8 = 4 * n / 3 := by
    simp only [List.mem_cons, List.not_mem_nil, or_false] at hn
    rcases hn with rfl | rfl | rfl | rfl | rfl <;> decide
  rw [entropy_is_os_bytes P.sha256 os _ hb.1 (by rw [hb.2]; exact hlen), hb.2]

/-- `new_wallet` depends on the OS source only through the answer to the one request for
`4·N/3` bytes: the entropy of a fresh wallet comes from nowhere else -/
theorem newWallet_request_size (P : Prims Pt) (os₁ os₂ : Nat → Bytes) (n : Nat) (pw : List Char)
    (t : Bool) (h : os₁ (4 * n / 3) = os₂ (4 * n / 3)) :
    newWallet P os₁ n pw t = newWallet P os₂ n pw t := by
  unfold newWallet
  rw [lookup_bits]
  split
  · next hn =>
    have hb : 32 * n / 3 / 8 = 4 * n / 3 := by
      simp only [List.mem_cons, List.not_mem_nil, or_false] at hn
      rcases hn with rfl | rfl | rfl | rfl | rfl <;> decide
    rw [Option.bind_some, Option.bind_some,
      request_size P.sha256 os₁ os₂ (32 * n / 3) (by rw [hb]; exact h)]
  · rfl

/-- a fresh wallet remembers the sentence spelled by the OS bytes and is built from its seed:
two OS answers of the right length that differ give wallets with different mnemonics -/
theorem newWallet_distinct (P : Prims Pt) (hsha : ∀ x, (P.sha256 x).length = 32)
    (os₁ os₂ : Nat → Bytes) (n : Nat) (pw : List Char) (t : Bool) (hn : n ∈ [12, 15, 18, 21, 24])
    (h₁ : (os₁ (4 * n / 3)).length = 4 * n / 3) (h₂ : (os₂ (4 * n / 3)).length = 4 * n / 3)
    (hne : os₁ (4 * n / 3) ≠ os₂ (4 * n / 3)) (w₁ w₂ : Wallet)
    (hw₁ : newWallet P os₁ n pw t = some w₁) (hw₂ : newWallet P os₂ n pw t = some w₂) :
    w₁.mnemonic ≠ w₂.mnemonic ∧ w₁ ≠ w₂ := by
  rw [newWallet_spec P os₁ n pw t hn h₁] at hw₁
  rw [newWallet_spec P os₂ n pw t hn h₂] at hw₂
  obtain ⟨m₁, hm₁, hw₁⟩ := Option.bind_eq_some_iff.mp hw₁
  obtain ⟨m₂, hm₂, hw₂⟩ := Option.bind_eq_some_iff.mp hw₂
  unfold fromMnemonic at hw₁ hw₂
  obtain ⟨v₁, _, rfl⟩ := Option.map_eq_some_iff.mp hw₁
  obtain ⟨v₂, _, rfl⟩ := Option.map_eq_some_iff.mp hw₂
  have hb : ∀ os : Nat → Bytes, (os (4 * n / 3)).length = 4 * n / 3 →
      (os (4 * n / 3)).length * 8 ∈ Generated.correctEntropyBits := by
    intro os h
    rw [h]
    simp only [List.mem_cons, List.not_mem_nil, or_false] at hn
    rcases hn with rfl | rfl | rfl | rfl | rfl <;> decide
  have hmne : m₁ ≠ m₂ := by
    intro e
    apply hne
    exact C04.mnemonic_lossless P.sha256 hsha _ _ _ _ (C04.fromHex_toHex _) (C04.fromHex_toHex _)
      (hb os₁ h₁) (hb os₂ h₂) (by rw [hm₁, hm₂, e])
  have : (some m₁ : Option (List Char)) ≠ some m₂ := fun e => hmne (Option.some.inj e)
  exact ⟨this, fun e => this (congrArg Wallet.mnemonic e)⟩

end BtcHd.C08
