/-
EXTRA — basic laws of the remaining small pieces of the library (`Model/Extra.lean`):
`helper.chunks`, the Merkle helpers, `bech32_decode_address`, `Script.__add__/__eq__/__repr__`,
the `Version` list helpers, the `Bip32Path` predicates and `__eq__`, the `__eq__` methods of
wallets / BIP85 objects / keys, `BIP85DeterministicEntropy.from_xprv`, and the texts written by
`PaperWallet.pprint` / `export_wallet` / `wasabi_json`.

Property theorems only (helper lemmas are in `Lemmas/Extra.lean`).
-/
import BtcHd.Lemmas.Extra
import BtcHd.Lemmas.Wallet
import BtcHd.Lemmas.ToyWallet
import BtcHd.Lemmas.WatchOnly
import BtcHd.Props.C06Json
import BtcHd.Props.C07
import BtcHd.Props.C11
import BtcHd.Props.C17

namespace BtcHd.ExtraProps
open BtcHd BtcHd.Extra BtcHd.ExtraLemmas

/-! ## 1. `helper.chunks` -/

private theorem chunks_some {α : Type} {n : Nat} {xs : List α} {cs : List (List α)}
    (h : chunks n xs = some cs) : 0 < n ∧ cs = chunkList n xs := by
  by_cases hn : n = 0
  · subst hn; simp [chunks] at h
  · have hp : 0 < n := by omega
    rw [chunks_pos hp] at h
    exact ⟨hp, (Option.some.inj h).symm⟩

/-- A step of 0 makes `range` raise: no chunks are produced. -/
theorem chunks_zero {α : Type} (xs : List α) : chunks 0 xs = none := rfl

/-- With a positive step `chunks` succeeds; only step 0 fails. -/
theorem chunks_isSome_iff {α : Type} (n : Nat) (xs : List α) : (chunks n xs).isSome ↔ 0 < n := by
  by_cases hn : n = 0
  · subst hn; simp [chunks]
  · rw [chunks_pos (by omega)]; simp; omega

/-- With a positive step the chunks, concatenated in order, give back the input list. -/
theorem chunks_join {α : Type} {n : Nat} (hn : 0 < n) (xs : List α) :
    ∃ cs, chunks n xs = some cs ∧ cs.flatten = xs :=
  ⟨chunkList n xs, chunks_pos hn xs, chunkList_flatten hn xs.length xs (Nat.le_refl _)⟩

example : chunks 2 [1, 2, 3, 4, 5] = some [[1, 2], [3, 4], [5]] := by decide

/-- The number of chunks is the length divided by the step, rounded up. -/
theorem chunks_count {α : Type} {n : Nat} {xs : List α} {cs : List (List α)}
    (h : chunks n xs = some cs) : cs.length = (xs.length + n - 1) / n := by
  obtain ⟨_, rfl⟩ := chunks_some h
  exact chunkList_length n xs

/-- Chunk number `i` is the slice `xs[n*i : n*i + n]`. -/
theorem chunks_getElem {α : Type} {n : Nat} {xs : List α} {cs : List (List α)}
    (h : chunks n xs = some cs) (i : Nat) (hi : i < cs.length) :
    cs[i] = (xs.drop (n * i)).take n := by
  obtain ⟨_, rfl⟩ := chunks_some h
  exact chunkList_getElem n xs i hi

/-- Every chunk except possibly the last has exactly `n` elements. -/
theorem chunks_full_length {α : Type} {n : Nat} {xs : List α} {cs : List (List α)}
    (h : chunks n xs = some cs) (i : Nat) (hi : i + 1 < cs.length) :
    (cs[i]'(by omega)).length = n := by
  have hc := chunks_count h
  obtain ⟨hn, _⟩ := chunks_some h
  rw [chunks_getElem h i (by omega), List.length_take, List.length_drop]
  have := chunk_fits (len := xs.length) hn (by omega : i + 1 < (xs.length + n - 1) / n)
  omega

/-- No chunk is empty and none has more than `n` elements (so the last one has 1..n). -/
theorem chunks_length_bounds {α : Type} {n : Nat} {xs : List α} {cs : List (List α)}
    (h : chunks n xs = some cs) : ∀ c ∈ cs, 1 ≤ c.length ∧ c.length ≤ n := by
  intro c hc
  obtain ⟨i, hi, rfl⟩ := List.getElem_of_mem hc
  have hcnt := chunks_count h
  obtain ⟨hn, _⟩ := chunks_some h
  rw [chunks_getElem h i hi, List.length_take, List.length_drop]
  have := chunk_starts (len := xs.length) hn (by omega : i < (xs.length + n - 1) / n)
  omega

/-- The empty list has no chunks. -/
theorem chunks_nil {α : Type} {n : Nat} (hn : 0 < n) : chunks n ([] : List α) = some [] := by
  rw [chunks_pos hn, chunkList_nil hn]

/-- The first chunk of a non-empty list is its first `n` elements; the remaining chunks are the
chunks of the rest. -/
theorem chunks_unfold {α : Type} {n : Nat} (hn : 0 < n) {xs : List α} (hx : xs ≠ []) :
    chunks n xs = (chunks n (xs.drop n)).map (xs.take n :: ·) := by
  rw [chunks_pos hn, chunks_pos hn, chunkList_step hn hx]; rfl

/-! ## 2. Merkle helpers -/

/-- The parent of two hashes is the hash of their concatenation. -/
theorem merkle_parent_def (h : Bytes → Bytes) (a b : Bytes) : merkleParent h a b = h (a ++ b) := rfl

/-- `merkle_parent_level` raises exactly on one-element lists. -/
theorem merkle_parent_level_none_iff (h : Bytes → Bytes) (xs : List Bytes) :
    merkleParentLevel h xs = none ↔ xs.length = 1 :=
  merkleParentLevel_eq_none_iff h xs

/-- The list the loop runs over (the argument after the call) always has even length, so the
`hashes[i + 1]` access never fails: it is the input when that has even length, and the input
with its last element repeated when it has odd length. -/
theorem pad_level_spec (xs : List Bytes) :
    (padLevel xs).length % 2 = 0 ∧ (xs.length % 2 = 0 → padLevel xs = xs) ∧
      (xs.length % 2 = 1 → ∃ l, xs.getLast? = some l ∧ padLevel xs = xs ++ [l]) := by
  refine ⟨by rw [padLevel_length]; omega, padLevel_of_even, padLevel_of_odd⟩

/-- Length of the parent level: half the child level, rounded up (`len/2` for an even length,
`(len+1)/2` for an odd one). -/
theorem merkle_parent_level_length {h : Bytes → Bytes} {xs ys : List Bytes}
    (hx : merkleParentLevel h xs = some ys) :
    ys.length = (xs.length + 1) / 2 ∧ (xs.length % 2 = 0 → ys.length = xs.length / 2) ∧
      (xs.length % 2 = 1 → ys.length = xs.length / 2 + 1) := by
  have hne : xs.length ≠ 1 := fun e => by
    rw [(merkleParentLevel_eq_none_iff h xs).mpr e] at hx; cases hx
  rw [merkleParentLevel_of_ne h hne] at hx
  cases hx
  rw [level_length]
  omega

/-- Entry `i` of the parent level is the parent of entries `2i` and `2i+1` of the (padded) child
level. -/
theorem merkle_parent_level_getElem {h : Bytes → Bytes} {xs ys : List Bytes}
    (hx : merkleParentLevel h xs = some ys) (i : Nat) (hi : i < ys.length) :
    ∃ (h0 : 2 * i < (padLevel xs).length) (h1 : 2 * i + 1 < (padLevel xs).length),
      ys[i] = h ((padLevel xs)[2 * i] ++ (padLevel xs)[2 * i + 1]) := by
  have hne : xs.length ≠ 1 := fun e => by
    rw [(merkleParentLevel_eq_none_iff h xs).mpr e] at hx; cases hx
  rw [merkleParentLevel_of_ne h hne] at hx
  cases hx
  have hl : (pairUp h (padLevel xs)).length = (padLevel xs).length / 2 := pairUp_length h _
  have h0 : 2 * i < (padLevel xs).length := by omega
  have h1 : 2 * i + 1 < (padLevel xs).length := by
    have := (pad_level_spec xs).1; omega
  exact ⟨h0, h1, pairUp_getElem h _ i hi h0 h1⟩

example : merkleParentLevel id [[1], [2], [3]] = some [[1, 2], [3, 3]] ∧
    merkleParentLevel id [] = some [] ∧ merkleParentLevel id [[1]] = none := by decide

/-- The side effect: after a successful call the caller's list is the padded list — unchanged for
an even length, one element longer for an odd length — and the input is a prefix of it. -/
theorem merkle_parent_level_mut {h : Bytes → Bytes} {xs ys arg : List Bytes}
    (hx : merkleParentLevelMut h xs = some (ys, arg)) :
    merkleParentLevel h xs = some ys ∧ arg = padLevel xs ∧ xs <+: arg ∧
      arg.length = xs.length + xs.length % 2 := by
  unfold merkleParentLevelMut at hx
  obtain ⟨r, hr, he⟩ := Option.map_eq_some_iff.mp hx
  cases he
  refine ⟨hr, rfl, ?_, padLevel_length xs⟩
  rcases Nat.mod_two_eq_zero_or_one xs.length with h2 | h2
  · rw [padLevel_of_even h2]
  · obtain ⟨l, _, e⟩ := padLevel_of_odd h2
    rw [e]; exact List.prefix_append _ _

example : merkleParentLevelMut id [[1], [2], [3]] = some ([[1, 2], [3, 3]], [[1], [2], [3], [3]]) := by
  decide

/-- The fuel is irrelevant: any fuel of at least the length of the list gives the result
`merkle_root` computes (the loop never runs out). -/
theorem merkle_root_fuel_irrelevant (h : Bytes → Bytes) (xs : List Bytes) (fuel : Nat)
    (hf : xs.length ≤ fuel) : merkleRootLoop h fuel xs = merkleRoot h xs := by
  obtain ⟨d, rfl⟩ : ∃ d, fuel = xs.length + d := ⟨fuel - xs.length, by omega⟩
  exact merkleRootLoop_of_le h xs d

/-- `merkle_root` satisfies the equation of the Python `while` loop: more than one element —
continue with the parent level; otherwise return the first element (an error if there is none). -/
theorem merkle_root_unfold (h : Bytes → Bytes) (xs : List Bytes) :
    merkleRoot h xs =
      if xs.length > 1 then (merkleParentLevel h xs).bind (merkleRoot h) else xs.head? := by
  unfold merkleRoot
  cases hl : xs.length with
  | zero =>
    have : xs = [] := List.eq_nil_of_length_eq_zero hl
    subst this; rfl
  | succ k =>
    rw [merkleRootLoop_succ, hl]
    by_cases h1 : k + 1 > 1
    · rw [if_pos h1, if_pos h1, merkleParentLevel_of_ne h (by omega)]
      simp only [Option.bind_some]
      have hlen := level_length h xs
      exact merkle_root_fuel_irrelevant h _ k (by omega)
    · rw [if_neg h1, if_neg h1]

/-- The empty list has no root (`current_level[0]` raises `IndexError`). -/
theorem merkle_root_nil (h : Bytes → Bytes) : merkleRoot h [] = none := rfl

/-- The root of a single hash is that hash (no hashing at all). -/
theorem merkle_root_single (h : Bytes → Bytes) (x : Bytes) : merkleRoot h [x] = some x := rfl

/-- The root of two hashes is their parent. -/
theorem merkle_root_two (h : Bytes → Bytes) (a b : Bytes) :
    merkleRoot h [a, b] = some (h (a ++ b)) := by
  simp [merkleRoot, merkleRootLoop, merkleParentLevel, padLevel, pairUp, merkleParent]

/-- The root of three hashes duplicates the third. -/
theorem merkle_root_three (h : Bytes → Bytes) (a b c : Bytes) :
    merkleRoot h [a, b, c] = some (h (h (a ++ b) ++ h (c ++ c))) := by
  simp [merkleRoot, merkleRootLoop, merkleParentLevel, padLevel, pairUp, merkleParent]

/-- The root of four hashes is the parent of the two pair parents. -/
theorem merkle_root_four (h : Bytes → Bytes) (a b c d : Bytes) :
    merkleRoot h [a, b, c, d] = some (h (h (a ++ b) ++ h (c ++ d))) := by
  simp [merkleRoot, merkleRootLoop, merkleParentLevel, padLevel, pairUp, merkleParent]

/-- Every non-empty list has a root; only the empty list fails. -/
theorem merkle_root_isSome_iff (h : Bytes → Bytes) (xs : List Bytes) :
    (merkleRoot h xs).isSome ↔ xs ≠ [] := by
  constructor
  · intro hs e; subst e; simp [merkle_root_nil] at hs
  · suffices H : ∀ (k : Nat) (xs : List Bytes), xs.length ≤ k → xs ≠ [] → (merkleRoot h xs).isSome by
      exact H xs.length xs (Nat.le_refl _)
    intro k
    induction k with
    | zero =>
      intro xs hk hne
      exact absurd (List.eq_nil_of_length_eq_zero (by omega)) hne
    | succ k ih =>
      intro xs hk hne
      have hpos : 0 < xs.length := List.length_pos_iff.mpr hne
      rw [merkle_root_unfold]
      by_cases h1 : xs.length > 1
      · rw [if_pos h1, merkleParentLevel_of_ne h (by omega)]
        simp only [Option.bind_some]
        have hlen := level_length h xs
        apply ih
        · omega
        · intro e; rw [e] at hlen; simp at hlen; omega
      · rw [if_neg h1]
        match xs, hne with
        | x :: _, _ => rfl

/-- Duplication (the known weakness of Bitcoin's Merkle tree): a list of odd length > 1 has the
same root as the list with its last element repeated. -/
theorem merkle_root_pad (h : Bytes → Bytes) {xs : List Bytes} (h1 : xs.length > 1) :
    merkleRoot h (padLevel xs) = merkleRoot h xs := by
  have hp := padLevel_length xs
  have he : (padLevel xs).length % 2 = 0 := (pad_level_spec xs).1
  rw [merkle_root_unfold h xs, merkle_root_unfold h (padLevel xs), if_pos h1, if_pos (by omega),
    merkleParentLevel_of_ne h (by omega), merkleParentLevel_of_ne h (by omega), padLevel_of_even he]

example : merkleRoot id [[1], [2], [3]] = merkleRoot id [[1], [2], [3], [3]] := by decide

example : merkleRoot id [[1], [2], [3], [4], [5]] = some [1, 2, 3, 4, 5, 5, 5, 5] ∧
    merkleRootArg [[1], [2], [3], [4], [5]] = [[1], [2], [3], [4], [5], [5]] := by decide

/-- What `merkle_root` does to the caller's list: nothing for at most one element or an even
length; for an odd length > 1 it leaves the last element appended once more. -/
theorem merkle_root_arg_spec (xs : List Bytes) :
    (xs.length ≤ 1 ∨ xs.length % 2 = 0 → merkleRootArg xs = xs) ∧
      (xs.length > 1 → xs.length % 2 = 1 →
        ∃ l, xs.getLast? = some l ∧ merkleRootArg xs = xs ++ [l]) := by
  unfold merkleRootArg
  constructor
  · rintro (h | h)
    · rw [if_neg (by omega)]
    · split
      · exact padLevel_of_even h
      · rfl
  · intro h1 h2
    rw [if_pos h1]
    exact padLevel_of_odd h2

/-! ## 3. `bech32_decode_address` -/

/-- `bytes(...)` never fails here: the function raises exactly when `bech32.decode` (called with
the first two characters of the address as expected prefix) returns `(None, None)`. -/
theorem bech32_decode_address_none_iff (addr : List Char) :
    bech32DecodeAddress addr = none ↔ Bech32.decode (addr.take 2) addr = none := by
  unfold bech32DecodeAddress
  cases hd : Bech32.decode (addr.take 2) addr with
  | none => simp
  | some r =>
    obtain ⟨v, prog⟩ := r
    obtain ⟨data, spec, _, hc, _⟩ := Bech32.decode_eq_some_iff.mp hd
    have hlt := convertbits_out_lt (f := 5) (t := 8) (by decide) (by decide) hc
    simp only [Option.bind_some]
    rw [bytesOfInts_of_lt (fun x hx => by have := hlt x hx; omega)]
    simp

/-- A returned byte string is the witness program `bech32.decode` found (2 to 40 bytes) for some
witness version 0..16. -/
theorem bech32_decode_address_some {addr : List Char} {bs : Bytes}
    (h : bech32DecodeAddress addr = some bs) :
    ∃ v, Bech32.decode (addr.take 2) addr = some (v, bs.map (·.toNat)) ∧ v ≤ 16 ∧
      2 ≤ bs.length ∧ bs.length ≤ 40 := by
  unfold bech32DecodeAddress at h
  obtain ⟨⟨v, prog⟩, hd, hb⟩ := Option.bind_eq_some_iff.mp h
  have e := bytesOfInts_some hb
  simp only at e
  subst e
  obtain ⟨data, spec, _, _, h2, h40, h16, _⟩ := Bech32.decode_eq_some_iff.mp hd
  rw [List.length_map] at h2 h40
  exact ⟨v, hd, h16, h2, h40⟩

/-- Round trip: an address that `bech32.encode` produces under a two-character prefix decodes back
to the witness program that went in. -/
theorem bech32_decode_address_encode {hrp : List Char} {v : Nat} {prog : Bytes} {s : List Char}
    (hl : hrp.length = 2) (h : Bech32.encode hrp v prog = some s) :
    bech32DecodeAddress s = some prog := by
  have hdec := C11.encode_some_roundtrip h
  obtain ⟨five, _, _, _, _, _, hs, _⟩ := Bech32.encode_some_inv h
  have ht : s.take 2 = hrp := by
    rw [hs, ← hl, List.take_left']
    rfl
  unfold bech32DecodeAddress
  rw [ht, hdec]
  exact bytesOfInts_map_toNat prog

/-- In particular every segwit address the wallet prints (`bc1…` / `tb1…`) decodes back to its
program. -/
theorem bech32_decode_address_segwit {prog : Bytes} {testnet : Bool} {s : List Char}
    (h : Wallet.segwitOf prog testnet = some s) : bech32DecodeAddress s = some prog := by
  unfold Wallet.segwitOf at h
  refine bech32_decode_address_encode ?_ h
  cases testnet <;> decide

example : ∃ s, Wallet.segwitOf (List.replicate 20 7) true = some s ∧
    bech32DecodeAddress s = some (List.replicate 20 7) := by
  obtain ⟨s, hs, _⟩ := C11.encode_decode (hrp := "tb".toList) (v := 0) (prog := List.replicate 20 7)
    (by decide +kernel)
  have hh : Generated.hrpTest = "tb".toList := by decide +kernel
  have hs' : Wallet.segwitOf (List.replicate 20 7) true = some s := by
    unfold Wallet.segwitOf
    rw [if_pos rfl, hh]
    exact hs
  exact ⟨s, hs', bech32_decode_address_segwit hs'⟩

-- the BIP 173 P2WPKH vector; its (equally valid) upper-case spelling is rejected, because
-- `addr[:2]` is then "BC" while `decode` compares with the lower-cased prefix
example : bech32DecodeAddress "bc1qw508d6qejxtdg4y5r3zarvary0c5xw7kv8f3t4".toList =
    some [0x75, 0x1e, 0x76, 0xe8, 0x19, 0x91, 0x96, 0xd4, 0x54, 0x94, 0x1c, 0x45, 0xd1, 0xb3, 0xa3,
      0x23, 0xf1, 0x43, 0x3b, 0xd6] := by decide +kernel
example : bech32DecodeAddress "BC1QW508D6QEJXTDG4Y5R3ZARVARY0C5XW7KV8F3T4".toList = none := by
  decide +kernel

/-- Shape of every accepted address: at least nine characters, the third one is the separator
`1` (so the human-readable part has exactly two characters), and those two characters are not
upper-case letters.  Addresses with a longer prefix (`bcrt1…`) and upper-case addresses are
rejected. -/
theorem bech32_decode_address_shape {addr : List Char} {bs : Bytes}
    (h : bech32DecodeAddress addr = some bs) :
    9 ≤ addr.length ∧ addr[2]? = some '1' ∧ ∀ c ∈ addr.take 2, Bech32.isUpperAscii c = false := by
  obtain ⟨v, hd, _⟩ := bech32_decode_address_some h
  obtain ⟨hup, hne, dp, hs, h6⟩ := decode_some_shape hd
  have hlen := congrArg List.length hs
  simp only [List.length_map, List.length_append, List.length_cons, List.length_take] at hlen
  have htl : (addr.take 2).length = 2 := by
    have : (addr.take 2).length ≠ 0 := fun e => hne (List.eq_nil_of_length_eq_zero e)
    simp only [List.length_take] at this ⊢
    omega
  refine ⟨by omega, ?_, hup⟩
  have h2 := congrArg (fun l => l[2]?) hs
  simp only [List.getElem?_map] at h2
  rw [List.getElem?_append_right (by omega), htl] at h2
  simp only [Nat.sub_self, List.getElem?_cons_zero] at h2
  cases ha : addr[2]? with
  | none => rw [ha] at h2; cases h2
  | some c =>
    rw [ha] at h2
    simp only [Option.map_some, Option.some.injEq] at h2
    rw [Bech32.toLowerAscii_eq_one.mp h2]

/-! ## 4. `Script.__add__`, `__eq__`, `__repr__` -/

open Script in
/-- Serialising a sum of scripts: both summands must serialise, and the result is the
concatenation of their serialisations. -/
theorem script_add_serialize (a b : List Cmd) :
    rawSerialize (scriptAdd a b) = (rawSerialize a).bind fun x => (rawSerialize b).map (x ++ ·) :=
  rawSerialize_append a b

open Script in
/-- If both scripts serialise, so does the sum, to the concatenation. -/
theorem script_add_serialize_some {a b : List Cmd} {x y : Bytes} (ha : rawSerialize a = some x)
    (hb : rawSerialize b = some y) : rawSerialize (scriptAdd a b) = some (x ++ y) := by
  rw [script_add_serialize, ha, hb]; rfl

open Script in
/-- The sum fails to serialise exactly when one of the summands does. -/
theorem script_add_serialize_none_iff (a b : List Cmd) :
    rawSerialize (scriptAdd a b) = none ↔ rawSerialize a = none ∨ rawSerialize b = none := by
  rw [script_add_serialize]
  cases rawSerialize a <;> cases rawSerialize b <;> simp

example : Script.rawSerialize (scriptAdd (Script.p2wpkhScript [1, 2]) [.op 0x87]) =
    some [0, 2, 1, 2, 0x87] := by decide

/-- Adding scripts is associative. -/
theorem script_add_assoc (a b c : List Script.Cmd) :
    scriptAdd (scriptAdd a b) c = scriptAdd a (scriptAdd b c) := List.append_assoc a b c

/-- The empty script is a left and right unit of the sum. -/
theorem script_add_nil (a : List Script.Cmd) : scriptAdd [] a = a ∧ scriptAdd a [] = a :=
  ⟨rfl, List.append_nil a⟩

/-- `Script.__eq__` holds exactly for identical command lists. -/
theorem script_eq_iff (a b : List Script.Cmd) : scriptEq a b = true ↔ a = b := by
  simp [scriptEq]

/-- An opcode and a data element are never equal (Python: `0 != b""`, `1 != b"\x01"`). -/
theorem script_eq_op_ne_data (n : Nat) (d : Bytes) : scriptEq [.op n] [.data d] = false := by
  simp [scriptEq]

/-- The names table has 92 distinct opcodes, and every name is non-empty, starts with `OP_` and
contains no space (so the printed form splits back into its items). -/
theorem op_code_names_wellformed :
    opCodeNames.length = 92 ∧ (opCodeNames.map (·.1)).Nodup ∧
      ∀ e ∈ opCodeNames, e.1 < 256 ∧ e.2.toList.take 3 = ['O', 'P', '_'] ∧ ' ' ∉ e.2.toList := by
  decide +kernel

/-- A named opcode prints as its name. -/
theorem cmd_repr_named {b : Nat} {name : String} (h : opCodeNames.lookup b = some name) :
    cmdRepr (.op b) = name.toList := by
  have hmem : (b, name) ∈ opCodeNames := by
    obtain ⟨l₁, l₂, e, _⟩ := List.lookup_eq_some_iff.mp h
    rw [e]; simp
  have hne : name.toList ≠ [] := by
    have := (op_code_names_wellformed.2.2 _ hmem).2.1
    intro e; rw [e] at this; cases this
  simp only [cmdRepr, opName?, h, if_neg hne]

/-- An opcode without a name prints as `OP_[n]` with `n` in decimal. -/
theorem cmd_repr_unnamed {b : Nat} (h : opCodeNames.lookup b = none) :
    cmdRepr (.op b) = "OP_[".toList ++ natToDec b ++ [']'] := by
  simp only [cmdRepr, opName?, h]

/-- A data element prints as its lower-case hex. -/
theorem cmd_repr_data (d : Bytes) : cmdRepr (.data d) = toHex d := rfl

example : cmdRepr (.op 118) = "OP_DUP".toList ∧ cmdRepr (.op 1) = "OP_[1]".toList ∧
    cmdRepr (.op 300) = "OP_[300]".toList ∧ cmdRepr (.data [0xab, 0x01]) = "ab01".toList := by
  decide +kernel

/-- The empty script prints as the empty string. -/
theorem script_repr_nil : scriptRepr [] = [] := rfl

/-- The printed form of a sum of two non-empty scripts is the two printed forms separated by one
space. -/
theorem script_repr_add {a b : List Script.Cmd} (ha : a ≠ []) (hb : b ≠ []) :
    scriptRepr (scriptAdd a b) = scriptRepr a ++ [' '] ++ scriptRepr b := by
  unfold scriptRepr scriptAdd
  rw [List.map_append]
  exact join_append_of_ne [' '] (by simpa using ha) (by simpa using hb)

example : scriptRepr (scriptAdd [.op 0] [.data [0xab], .op 0x87]) = "OP_0 ab OP_EQUAL".toList := by
  decide +kernel

/-- A P2PKH script prints as `OP_DUP OP_HASH160 <hex> OP_EQUALVERIFY OP_CHECKSIG`. -/
theorem script_repr_p2pkh (h160 : Bytes) :
    scriptRepr (Script.p2pkhScript h160) =
      "OP_DUP OP_HASH160 ".toList ++ toHex h160 ++ " OP_EQUALVERIFY OP_CHECKSIG".toList := by
  have e1 : cmdRepr (.op 0x76) = "OP_DUP".toList := by decide +kernel
  have e2 : cmdRepr (.op 0xa9) = "OP_HASH160".toList := by decide +kernel
  have e3 : cmdRepr (.op 0x88) = "OP_EQUALVERIFY".toList := by decide +kernel
  have e4 : cmdRepr (.op 0xac) = "OP_CHECKSIG".toList := by decide +kernel
  simp only [scriptRepr, Script.p2pkhScript, List.map_cons, List.map_nil, join_cons_cons, join_single,
    e1, e2, e3, e4, cmd_repr_data]
  simp

/-- A P2SH script prints as `OP_HASH160 <hex> OP_EQUAL`. -/
theorem script_repr_p2sh (h160 : Bytes) :
    scriptRepr (Script.p2shScript h160) =
      "OP_HASH160 ".toList ++ toHex h160 ++ " OP_EQUAL".toList := by
  have e2 : cmdRepr (.op 0xa9) = "OP_HASH160".toList := by decide +kernel
  have e3 : cmdRepr (.op 0x87) = "OP_EQUAL".toList := by decide +kernel
  simp only [scriptRepr, Script.p2shScript, List.map_cons, List.map_nil, join_cons_cons, join_single,
    e2, e3, cmd_repr_data]
  simp

/-- P2WPKH and P2WSH scripts print as `OP_0 <hex>`. -/
theorem script_repr_segwit (prog : Bytes) :
    scriptRepr (Script.p2wpkhScript prog) = "OP_0 ".toList ++ toHex prog ∧
      scriptRepr (Script.p2wshScript prog) = "OP_0 ".toList ++ toHex prog := by
  have e0 : cmdRepr (.op 0x00) = "OP_0".toList := by decide +kernel
  constructor <;>
  · simp only [scriptRepr, Script.p2wpkhScript, Script.p2wshScript, List.map_cons, List.map_nil,
      join_cons_cons, join_single, e0, cmd_repr_data]
    simp

example : scriptRepr (Script.p2pkhScript [0xab, 0xcd]) =
    "OP_DUP OP_HASH160 abcd OP_EQUALVERIFY OP_CHECKSIG".toList := by decide +kernel

/-! ## 5. `Version` helper lists -/

/-- Every `(key type, bip)` entry the helper dictionaries read exists in both network tables. -/
theorem tables_complete :
    ∀ k ∈ [0, 1], ∀ b ∈ [0, 1, 2], (Path.lookup Generated.versionsMain k b).isSome ∧
      (Path.lookup Generated.versionsTest k b).isSome := by decide

/-- The four lists, spelled out (SLIP-132 values, in the order Python returns them). -/
theorem version_lists_values :
    mainnetVersions = [0x0488B21E, 0x049d7cb2, 0x04b24746, 0x0488ADE4, 0x049d7878, 0x04b2430c] ∧
    testnetVersions = [0x043587CF, 0x044a5262, 0x045f1cf6, 0x04358394, 0x044a4e28, 0x045f18bc] ∧
    prvVersions = [0x04358394, 0x044a4e28, 0x045f18bc, 0x0488ADE4, 0x049d7878, 0x04b2430c] ∧
    pubVersions = [0x043587CF, 0x044a5262, 0x045f1cf6, 0x0488B21E, 0x049d7cb2, 0x04b24746] := by
  decide

/-- `testnet_versions() + mainnet_versions()` is the list `valid_version` searches: twelve
distinct versions. -/
theorem all_versions :
    testnetVersions ++ mainnetVersions = Path.allVersions ∧
      (testnetVersions ++ mainnetVersions).length = 12 ∧
      (testnetVersions ++ mainnetVersions).Nodup := by
  refine ⟨rfl, by decide, by decide⟩

/-- `valid_version(v)` is membership in the two network lists. -/
theorem valid_version_iff (v : Nat) :
    Path.validVersion v = true ↔ v ∈ testnetVersions ++ mainnetVersions := by
  rw [all_versions.1]
  unfold Path.validVersion
  exact decide_eq_true_iff

/-- The network lists split the twelve versions into six and six with nothing in common. -/
theorem network_partition :
    testnetVersions.length = 6 ∧ mainnetVersions.length = 6 ∧
      ∀ v ∈ testnetVersions, v ∉ mainnetVersions := by decide

/-- The key-type lists are a rearrangement of the twelve versions into six private and six public
ones with nothing in common (`prv_versions ∩ pub_versions = ∅`). -/
theorem key_partition :
    (prvVersions ++ pubVersions).Perm (testnetVersions ++ mainnetVersions) ∧
      prvVersions.length = 6 ∧ pubVersions.length = 6 ∧ ∀ v ∈ prvVersions, v ∉ pubVersions := by
  decide

/-- `key_versions` accepts exactly the two key-type names. -/
theorem key_versions_spec (k : Nat) :
    keyVersions k =
      if k = 0 then some prvVersions else if k = 1 then some pubVersions else none := by
  unfold keyVersions prvVersions pubVersions
  by_cases h0 : k = 0
  · subst h0; rfl
  · by_cases h1 : k = 1
    · subst h1; rfl
    · rw [if_neg (by omega), if_neg h0, if_neg h1]

/-- The three BIP dictionaries: their keys … -/
theorem bip_data_names :
    bip44Data.map (·.1) = ["xprv", "xpub", "tprv", "tpub"].map String.toList ∧
    bip49Data.map (·.1) = ["yprv", "ypub", "uprv", "upub"].map String.toList ∧
    bip84Data.map (·.1) = ["zprv", "zpub", "vprv", "vpub"].map String.toList := by
  decide +kernel

/-- … and their values. -/
theorem bip_data_values :
    bip44Data.map (·.2) = [0x0488ADE4, 0x0488B21E, 0x04358394, 0x043587CF] ∧
    bip49Data.map (·.2) = [0x049d7878, 0x049d7cb2, 0x044a4e28, 0x044a5262] ∧
    bip84Data.map (·.2) = [0x04b2430c, 0x04b24746, 0x045f18bc, 0x045f1cf6] := by
  decide +kernel

/-- The values of the three BIP dictionaries are a rearrangement of the twelve versions, four per
BIP, and no version belongs to two BIPs. -/
theorem bip_partition :
    ((bip44Data ++ bip49Data ++ bip84Data).map (·.2)).Perm (testnetVersions ++ mainnetVersions) ∧
      (∀ v ∈ bip44Data.map (·.2), v ∉ bip49Data.map (·.2) ∧ v ∉ bip84Data.map (·.2)) ∧
      (∀ v ∈ bip49Data.map (·.2), v ∉ bip84Data.map (·.2)) := by
  decide +kernel

/-- `Version.parse` expressed with the helper lists, exactly as the Python computes it: valid iff
in `testnet + mainnet`; private iff in `prv_versions()`; the BIP is the first dictionary holding
the version; testnet iff in `testnet_versions()`. -/
theorem version_parse_eq (v : Nat) :
    Path.Version.parse v =
      if v ∈ testnetVersions ++ mainnetVersions then
        some ⟨if v ∈ prvVersions then 0 else 1,
              if v ∈ bip44Data.map (·.2) then 0 else if v ∈ bip49Data.map (·.2) then 1
              else if v ∈ bip84Data.map (·.2) then 2 else 0,
              decide (v ∈ testnetVersions)⟩
      else none := by
  have key : ∀ v ∈ testnetVersions ++ mainnetVersions,
      Path.Version.parse v =
        some ⟨if v ∈ prvVersions then 0 else 1,
              if v ∈ bip44Data.map (·.2) then 0 else if v ∈ bip49Data.map (·.2) then 1
              else if v ∈ bip84Data.map (·.2) then 2 else 0,
              decide (v ∈ testnetVersions)⟩ := by decide +kernel
  by_cases hv : v ∈ testnetVersions ++ mainnetVersions
  · rw [if_pos hv]; exact key v hv
  · rw [if_neg hv]
    exact C07.version_parse_none v (by
      cases hvv : Path.validVersion v with
      | false => rfl
      | true => exact absurd ((valid_version_iff v).mp hvv) hv)

/-! ## 6. `Bip32Path` predicates and `__eq__` -/

/-- `Bip32Path.bip()` computed through the `bip44` / `bip49` / `bip84` predicates is the model's
`bipOf`. -/
theorem path_bip_eq (p : Path.Path) : pathBip p = Path.bipOf p := by
  obtain ⟨levels, priv⟩ := p
  cases levels with
  | nil => rfl
  | cons x xs =>
    simp only [pathBip, bip44, bip49, bip84, purpose, Path.bipOf, List.getElem?_cons_zero,
      List.head?_cons, beq_iff_eq, Option.some.injEq]

/-- A path is never both a testnet and a mainnet path, and has at most one of the three purposes. -/
theorem path_predicates_exclusive (p : Path.Path) :
    ¬ (bitcoinTestnet p = true ∧ bitcoinMainnet p = true) ∧
      ¬ (bip44 p = true ∧ bip49 p = true) ∧ ¬ (bip44 p = true ∧ bip84 p = true) ∧
      ¬ (bip49 p = true ∧ bip84 p = true) := by
  simp only [bitcoinTestnet, bitcoinMainnet, bip44, bip49, bip84, beq_iff_eq]
  refine ⟨?_, ?_, ?_, ?_⟩ <;>
  · rintro ⟨h1, h2⟩
    rw [h1] at h2
    revert h2
    decide

/-- The predicates read the slots they are named after: purpose is level 0, coin type level 1,
chain level 3; a missing level (Python `None`) makes every predicate false. -/
theorem path_predicates_spec (p : Path.Path) :
    (bip44 p = true ↔ p.levels[0]? = some 2147483692) ∧
    (bip49 p = true ↔ p.levels[0]? = some 2147483697) ∧
    (bip84 p = true ↔ p.levels[0]? = some 2147483732) ∧
    (bitcoinMainnet p = true ↔ p.levels[1]? = some 2147483648) ∧
    (bitcoinTestnet p = true ↔ p.levels[1]? = some 2147483649) ∧
    (externalChain p = true ↔ p.levels[3]? = some 0) := by
  simp [bitcoinTestnet, bitcoinMainnet, bip44, bip49, bip84, externalChain, purpose, coinType, chain]

example : (Path.parse "m/84'/1'/0'/0/5".toList).map (fun p =>
      ([bip84 p, bip44 p, bip49 p, bitcoinTestnet p, bitcoinMainnet p, externalChain p], pathBip p)) =
    some ([true, false, false, true, false, true], 2) := by decide +kernel
example : (Path.parse "M/44'/0'".toList).map (fun p =>
      ([bip44 p, bitcoinTestnet p, bitcoinMainnet p, externalChain p], pathBip p)) =
    some ([true, false, true, false], 0) := by decide +kernel

/-- `Bip32Path.__eq__` on path objects (at most five levels, as `parse` and the constructor
guarantee) holds exactly for identical paths: same mark, same levels. -/
theorem path_eq_iff {a b : Path.Path} (ha : a.levels.length ≤ 5) (hb : b.levels.length ≤ 5) :
    pathEq a b = true ↔ a = b := by
  constructor
  · intro h
    simp only [pathEq, Bool.and_eq_true, beq_iff_eq, purpose, coinType, account, chain,
      addrIndex] at h
    obtain ⟨⟨⟨⟨⟨hm, h0⟩, h1⟩, h2⟩, h3⟩, h4⟩ := h
    have hl := list_eq_of_slots ha hb h0 h1 h2 h3 h4
    obtain ⟨la, pa⟩ := a
    obtain ⟨lb, pb⟩ := b
    simp only at hl
    subst hl
    have hp : pa = pb := by
      cases pa <;> cases pb <;> simp [pathMark] at hm ⊢
    rw [hp]
  · rintro rfl
    simp [pathEq]

/-- For parsed paths `__eq__` is plain equality of the parse results. -/
theorem path_eq_parsed {s t : List Char} {a b : Path.Path} (ha : Path.parse s = some a)
    (hb : Path.parse t = some b) : pathEq a b = true ↔ a = b :=
  path_eq_iff (C17.parse_levels_bound ha).1 (C17.parse_levels_bound hb).1

example : (Path.parse "m/44h/0h".toList).bind (fun a => (Path.parse "m/44'/0'/".toList).map
    (fun b => pathEq a b)) = some true := by decide +kernel
example : (Path.parse "m/44'/0'".toList).bind (fun a => (Path.parse "M/44'/0'".toList).map
    (fun b => pathEq a b)) = some false := by decide +kernel

/-- `is_hardened` is the 2^31 threshold; `is_private` recognises only the mark `m`. -/
theorem is_hardened_private (num : Nat) (sign : List Char) :
    (isHardened num = true ↔ 2147483648 ≤ num) ∧ (isPrivate sign = true ↔ sign = ['m']) := by
  simp [isHardened, isPrivate]

/-- `list_get` returns the element inside the range and `None` beyond it. -/
theorem list_get_spec {α : Type} (xs : List α) (i : Nat) :
    (∀ h : i < xs.length, listGet xs i = some xs[i]) ∧ (xs.length ≤ i → listGet xs i = none) := by
  unfold listGet
  exact ⟨fun h => List.getElem?_eq_getElem h, fun h => List.getElem?_eq_none h⟩

/-! ## 7. `__eq__` of wallets, BIP85 objects and keys; `from_xprv` -/

/-- `BaseWallet.__eq__`: equal master nodes (as `PubKeyNode.__eq__` compares them) and equal
network flags — nothing else (mnemonic and password are not compared). -/
theorem wallet_eq_iff (a b : Wallet.Wallet) :
    walletEq a b = true ↔ Bip32.nodeEq a.master b.master = true ∧ a.testnet = b.testnet := by
  simp [walletEq]

/-- Wallet equality is reflexive, symmetric and transitive. -/
theorem wallet_eq_equivalence :
    (∀ a, walletEq a a = true) ∧ (∀ a b, walletEq a b = true → walletEq b a = true) ∧
      (∀ a b c, walletEq a b = true → walletEq b c = true → walletEq a c = true) := by
  refine ⟨fun a => (wallet_eq_iff a a).mpr ⟨nodeEq_refl _, rfl⟩, fun a b h => ?_, fun a b c h h' => ?_⟩
  · obtain ⟨h1, h2⟩ := (wallet_eq_iff a b).mp h
    exact (wallet_eq_iff b a).mpr ⟨nodeEq_symm h1, h2.symm⟩
  · obtain ⟨h1, h2⟩ := (wallet_eq_iff a b).mp h
    obtain ⟨g1, g2⟩ := (wallet_eq_iff b c).mp h'
    exact (wallet_eq_iff a c).mpr ⟨nodeEq_trans h1 g1, h2.trans g2⟩

/-- Two wallets that differ only in the stored mnemonic / password compare equal. -/
theorem wallet_eq_ignores_secrets (w : Wallet.Wallet) (m p : Option (List Char)) :
    walletEq w { w with mnemonic := m, password := p } = true :=
  (wallet_eq_iff _ _).mpr ⟨nodeEq_refl _, rfl⟩

/-- `BIP85DeterministicEntropy.__eq__`: equal master nodes and equal network flags. -/
theorem bip85_eq_iff (a b : Bip85Obj) :
    bip85Eq a b = true ↔ Bip32.nodeEq a.masterNode b.masterNode = true ∧ a.testnet = b.testnet := by
  simp [bip85Eq]

/-- BIP85-object equality is reflexive, symmetric and transitive. -/
theorem bip85_eq_equivalence :
    (∀ a, bip85Eq a a = true) ∧ (∀ a b, bip85Eq a b = true → bip85Eq b a = true) ∧
      (∀ a b c, bip85Eq a b = true → bip85Eq b c = true → bip85Eq a c = true) := by
  refine ⟨fun a => (bip85_eq_iff a a).mpr ⟨nodeEq_refl _, rfl⟩, fun a b h => ?_, fun a b c h h' => ?_⟩
  · obtain ⟨h1, h2⟩ := (bip85_eq_iff a b).mp h
    exact (bip85_eq_iff b a).mpr ⟨nodeEq_symm h1, h2.symm⟩
  · obtain ⟨h1, h2⟩ := (bip85_eq_iff a b).mp h
    obtain ⟨g1, g2⟩ := (bip85_eq_iff b c).mp h'
    exact (bip85_eq_iff a c).mpr ⟨nodeEq_trans h1 g1, h2.trans g2⟩

/-- `from_xprv` succeeds exactly when the string passes the Base58Check decoding; the object
holds the parsed node, built as a private node with the given network flag, and that flag. -/
theorem bip85_from_xprv_spec {Pt : Type} (P : Prims Pt) (xprv : List Char) (testnet : Bool) :
    ((bip85FromXprv P xprv testnet).isSome ↔ (Base58.decodeCheck P.hash256 xprv).isSome) ∧
      ∀ o, bip85FromXprv P xprv testnet = some o →
        Bip32.parseStr P true testnet xprv = some o.masterNode ∧ o.testnet = testnet ∧
        o.masterNode.isPrv = true ∧ o.masterNode.testnet = testnet := by
  unfold bip85FromXprv Bip32.parseStr
  constructor
  · cases Base58.decodeCheck P.hash256 xprv <;> simp
  · intro o ho
    cases hd : Base58.decodeCheck P.hash256 xprv with
    | none => rw [hd] at ho; cases ho
    | some bs =>
      rw [hd] at ho
      cases ho
      exact ⟨rfl, rfl, rfl, rfl⟩

/-- Round trip: the extended private key of a well-formed, BIP32-valid private node, fed to
`from_xprv` with the node's network flag, gives an object equal (`__eq__`) to the one built
directly from the node. -/
theorem bip85_from_xprv_roundtrip {Pt : Type} {P : Prims Pt} {nd : Bip32.Node}
    (hC : CurveLaws P.curve) (hlen : ∀ x, 4 ≤ (P.hash256 x).length) (hwf : Bip32.Node.WF P nd)
    (hvalid : Bip32.BIP32valid nd) (version : Option Nat) (s : List Char)
    (hs : Bip32.extendedPrivateKey P nd version = some s) :
    ∃ o, bip85FromXprv P s nd.testnet = some o ∧ bip85Eq o ⟨nd, nd.testnet⟩ = true := by
  obtain ⟨nd', hp, heq, _⟩ := C07.xprv_roundtrip hC hlen hwf hvalid version s hs
  refine ⟨⟨nd', nd.testnet⟩, ?_, (bip85_eq_iff _ _).mpr ⟨heq, rfl⟩⟩
  unfold bip85FromXprv
  rw [hp]; rfl

example : ∃ (P : Prims Nat) (nd : Bip32.Node) (s : List Char), CurveLaws P.curve ∧
    (∀ x, 4 ≤ (P.hash256 x).length) ∧ Bip32.Node.WF P nd ∧ Bip32.BIP32valid nd ∧
    Bip32.extendedPrivateKey P nd none = some s := by
  obtain ⟨ser, h, _⟩ := C07.serialize_length_private (P := Toy.prims) Toy.laws Toy.prvNode_wf rfl
    none (XKey.prvVersion_lt _)
  exact ⟨Toy.prims, Toy.prvNode, _, Toy.laws, fun x => by rw [Toy.hash256_length]; decide,
    Toy.prvNode_wf, Toy.prvNode_valid, by unfold Bip32.extendedPrivateKey; rw [h]; rfl⟩

/-- `PrivateKey.__eq__` on keys below 2^256 (every key the constructor accepts) is equality of the
secret exponents. -/
theorem priv_key_eq_iff {k1 k2 : Nat} (h1 : k1 < 2 ^ 256) (h2 : k2 < 2 ^ 256) :
    privKeyEq k1 k2 = true ↔ k1 = k2 := by
  unfold privKeyEq Keys.privBytes
  rw [decide_eq_true_iff]
  constructor
  · intro h
    have := congrArg beToNat h
    rwa [BeFixed.beToNat_beFixed (by rw [BytesL.pow_256_32]; exact h1),
      BeFixed.beToNat_beFixed (by rw [BytesL.pow_256_32]; exact h2)] at this
  · rintro rfl; rfl

/-- For keys built from byte strings, `__eq__` is equality of those byte strings. -/
theorem priv_key_eq_bytes {Pt : Type} {C : Curve Pt} {b1 b2 : Bytes} {k1 k2 : Nat}
    (h1 : Keys.mkPriv C b1 = some k1) (h2 : Keys.mkPriv C b2 = some k2) :
    privKeyEq k1 k2 = true ↔ b1 = b2 := by
  obtain ⟨l1, _, _, e1⟩ := Bip32.mkPriv_eq_some.mp h1
  obtain ⟨l2, _, _, e2⟩ := Bip32.mkPriv_eq_some.mp h2
  unfold privKeyEq Keys.privBytes
  rw [decide_eq_true_iff, e1, e2, BeFixed.beFixed_beToNat l1, BeFixed.beFixed_beToNat l2]

example : Keys.mkPriv Toy.curve (beFixed 32 3) = some 3 := by decide +kernel

/-- `PublicKey.__eq__` compares compressed SEC encodings; where the encoding is injective it is
equality of points. -/
theorem pub_key_eq_iff {Pt : Type} (C : Curve Pt) (p q : Pt) :
    (pubKeyEq C p q = true ↔ C.sec true p = C.sec true q) ∧
      ((∀ x y, C.sec true x = C.sec true y → x = y) → (pubKeyEq C p q = true ↔ p = q)) := by
  unfold pubKeyEq
  rw [decide_eq_true_iff]
  refine ⟨Iff.rfl, fun hinj => ⟨hinj p q, fun e => by rw [e]⟩⟩

/-! ## 8. The texts of `json` / `pprint` / `export_wallet` / `wasabi_json` -/

/-- A generated report is a non-empty dict, hence truthy. -/
private theorem generate_truthy {Pt : Type} {P : Prims Pt} {w : Wallet.Wallet} {acct a b : Nat}
    {j : Wallet.Json} (h : Wallet.generate P w acct a b = some j) : truthy j = true := by
  obtain ⟨_, _, _, _, _, _, _, _, rfl⟩ := Wallet.generate_eq_some.mp h
  rfl

/-- `data if data else self.generate()` always yields a truthy value, so evaluating it a second
time (as `pprint` → `json` does) changes nothing. -/
theorem data_or_generate_idem {Pt : Type} (P : Prims Pt) (w : Wallet.Wallet)
    (data : Option Wallet.Json) {j : Wallet.Json} (h : dataOrGenerate P w data = some j) :
    truthy j = true ∧ dataOrGenerate P w (some j) = some j := by
  have ht : truthy j = true := by
    unfold dataOrGenerate at h
    split at h
    · next d =>
      split at h
      · next hd => cases h; exact hd
      · exact generate_truthy h
    · exact generate_truthy h
  refine ⟨ht, ?_⟩
  simp only [dataOrGenerate, ht, if_true]

example {Pt : Type} (P : Prims Pt) (w : Wallet.Wallet) :
    dataOrGenerate P w (some (.arr [.null])) = some (.arr [.null]) := rfl

/-- A falsy `data` argument (`None`, `{}`, `[]`, `""`) is replaced by the default report
(account 0, addresses 0..19); a truthy one is used as it is. -/
theorem data_or_generate_spec {Pt : Type} (P : Prims Pt) (w : Wallet.Wallet) :
    dataOrGenerate P w none = Wallet.generate P w 0 0 20 ∧
    (∀ j, truthy j = false → dataOrGenerate P w (some j) = Wallet.generate P w 0 0 20) ∧
    (∀ j, truthy j = true → dataOrGenerate P w (some j) = some j) := by
  refine ⟨rfl, fun j hj => ?_, fun j hj => ?_⟩ <;> simp [dataOrGenerate, hj]

example : truthy (.obj []) = false ∧ truthy .null = false ∧ truthy (.arr []) = false ∧
    truthy (.str []) = false ∧ truthy (.obj [([], .null)]) = true := by decide

/-- What `pprint` writes is the `json()` text followed by one newline. -/
theorem pprint_text_eq {Pt : Type} (P : Prims Pt) (w : Wallet.Wallet) (data : Option Wallet.Json)
    (indent : Option Nat) :
    pprintText P w data indent = (jsonText P w data indent).map (· ++ ['\n']) := by
  unfold pprintText jsonText
  cases hd : dataOrGenerate P w data with
  | none => rfl
  | some j =>
    simp only [Option.bind_some, (data_or_generate_idem P w data hd).2, Option.map_some]
    rfl

/-- What `export_wallet` writes to the file is exactly the `json()` text (no trailing newline). -/
theorem export_wallet_text_eq {Pt : Type} (P : Prims Pt) (w : Wallet.Wallet)
    (data : Option Wallet.Json) (indent : Option Nat) :
    exportWalletText P w data indent = jsonText P w data indent := by
  unfold exportWalletText jsonText
  cases hd : dataOrGenerate P w data with
  | none => rfl
  | some j => simp only [Option.bind_some, (data_or_generate_idem P w data hd).2, Option.map_some]

/-- With truthy data the printed text is `json.dumps(data, indent=indent)` plus a newline,
whatever the wallet. -/
theorem pprint_text_of_data {Pt : Type} (P : Prims Pt) (w : Wallet.Wallet) {j : Wallet.Json}
    (hj : truthy j = true) (indent : Option Nat) :
    pprintText P w (some j) indent = some (JsonText.dumps indent j ++ ['\n']) := by
  rw [pprint_text_eq]
  simp [jsonText, dataOrGenerate, hj]

example {Pt : Type} (P : Prims Pt) (w : Wallet.Wallet) :
    pprintText P w (some (.obj [("a".toList, .null)])) (some 4) =
      some "{\n    \"a\": null\n}\n".toList := by
  rw [pprint_text_of_data P w (by decide)]
  decide +kernel

/-- Whatever `pprint` writes ends with a newline and parses back (`json.loads`) to the data that
was printed. -/
theorem pprint_text_loads {Pt : Type} {P : Prims Pt} {w : Wallet.Wallet}
    {data : Option Wallet.Json} {indent : Option Nat} {t : List Char}
    (h : pprintText P w data indent = some t) :
    t.getLast? = some '\n' ∧ ∃ j, dataOrGenerate P w data = some j ∧ JsonText.loads t = some j := by
  rw [pprint_text_eq] at h
  unfold jsonText at h
  cases hd : dataOrGenerate P w data with
  | none => rw [hd] at h; cases h
  | some j =>
    rw [hd] at h
    cases h
    refine ⟨by simp, j, rfl, ?_⟩
    have := C06.loads_dumps_padded j indent [] ['\n'] (by simp) (by simp)
    simpa using this

/-- The exported file parses back to the data that was exported. -/
theorem export_wallet_text_loads {Pt : Type} {P : Prims Pt} {w : Wallet.Wallet}
    {data : Option Wallet.Json} {indent : Option Nat} {t : List Char}
    (h : exportWalletText P w data indent = some t) :
    ∃ j, dataOrGenerate P w data = some j ∧ JsonText.loads t = some j := by
  rw [export_wallet_text_eq] at h
  unfold jsonText at h
  cases hd : dataOrGenerate P w data with
  | none => rw [hd] at h; cases h
  | some j =>
    rw [hd] at h
    cases h
    exact ⟨j, rfl, C06.loads_dumps j indent⟩

example {Pt : Type} (P : Prims Pt) (w : Wallet.Wallet) :
    exportWalletText P w (some (.arr [.null])) none = some "[null]".toList := by
  have h : dataOrGenerate P w (some (.arr [.null])) = some (.arr [.null]) := rfl
  rw [export_wallet_text_eq, jsonText, h]
  decide +kernel

/-- A watch-only wallet cannot print or export its default report (the BIP85 section raises). -/
theorem pprint_text_watch_only {Pt : Type} (P : Prims Pt) {w : Wallet.Wallet}
    (hw : w.master.isPrv = false) (indent : Option Nat) :
    pprintText P w none indent = none ∧ exportWalletText P w none indent = none := by
  rw [pprint_text_eq, export_wallet_text_eq]
  simp [jsonText, dataOrGenerate, WatchOnly.generate_wo P hw]

example : (⟨Toy.pubNode, true, none, none⟩ : Wallet.Wallet).master.isPrv = false := rfl

/-- `wasabi_json` is `json.dumps` of the Wasabi dict (which is never falsy, so the
`data if data else generate()` detour in `json()` is not taken). -/
theorem wasabi_json_text_eq {Pt : Type} (P : Prims Pt) (w : Wallet.Wallet) (indent : Option Nat) :
    wasabiJsonText P w indent = (Wallet.wasabi P w).map (JsonText.dumps indent) := by
  unfold wasabiJsonText
  cases hw : Wallet.wasabi P w with
  | none => rfl
  | some j =>
    have ht : truthy j = true := by
      unfold Wallet.wasabi at hw
      obtain ⟨nd, _, hw⟩ := Option.bind_eq_some_iff.mp hw
      obtain ⟨xpub, _, hw⟩ := Option.bind_eq_some_iff.mp hw
      obtain ⟨fp, _, hw⟩ := Option.map_eq_some_iff.mp hw
      subst hw
      rfl
    simp [jsonText, dataOrGenerate, ht]

example : (wasabiJsonText Toy.primsW (Toy.walletW true) none).isSome = true := by
  rw [wasabi_json_text_eq, Option.isSome_map]
  exact Toy.wasabi_toy true

end BtcHd.ExtraProps
