/-
C11 (part c) — Bech32 / Bech32m error detection at the level of the address
STRINGS users see.

`charDiff s s'` (`Lemmas/Bech32Subst.lean`) is the number of positions at which two strings differ.
`s` is an address produced by `encode hrp v prog`; `s'` is any string of the same length.  The
theorems say what `decode hrp s'` can return when `s'` differs from `s` in at most three / at most
four characters.  There is no assumption on WHERE the characters were substituted (prefix,
separator, witness-version character, program, checksum) nor on WHAT they were replaced with (any
Unicode character, including `1`, upper-case letters, characters outside the character set).

Proof idea: if `decode hrp s'` accepts, the decoder has already established that the lower-cased
`s'` is `hrp ++ "1" ++ dp'` with `dp'` over the character set, so the prefix and separator are
intact and the symbol strings of `s` and `s'` have the same length (≤ 71) and differ in at most
`charDiff s s'` positions (`Bech32.decode_subst_bridge`); then C11b's `verify_subst_le3` /
`verify_subst_le4` (BCH distance, kernel-checked over the constants of the source) apply.
-/
import BtcHd.Props.C11
import BtcHd.Props.C11b
import BtcHd.Lemmas.Bech32Subst

namespace BtcHd.C11
open BtcHd Bech32 Bch

private theorem specOf_ne {v v' : Nat} (h : specOf v' ≠ specOf v) :
    (v = 0 ∧ v' ≠ 0) ∨ (v ≠ 0 ∧ v' = 0) := by
  unfold specOf at h
  by_cases e : v = 0 <;> by_cases e' : v' = 0
  · simp [e, e'] at h
  · exact Or.inl ⟨e, e'⟩
  · exact Or.inr ⟨e, e'⟩
  · simp [e, e'] at h

/-- `charDiff` is the Hamming distance: the number of positions of the two strings, zipped, at
which the characters differ -/
theorem charDiff_spec (a b : List Char) :
    charDiff a b = ((List.zip a b).filter (fun p => p.1 != p.2)).length :=
  charDiff_eq_filter a b

/-- replacing at most three characters of an address (anywhere, by anything) gives a string that is
rejected — unless the new string is the same address written in upper case, which BIP 173 accepts
(possible only for an address with at most three letters) -/
theorem subst_le3_rejected {hrp : List Char} {v : Nat} {prog : Bytes} {s s' : List Char}
    (h : encode hrp v prog = some s) (hlen : s'.length = s.length) (h3 : charDiff s s' ≤ 3) :
    decode hrp s' = none ∨ s'.map toLowerAscii = s := by
  cases hd : decode hrp s' with
  | none => exact Or.inl rfl
  | some r =>
    right
    obtain ⟨xs, ys, hl, h71, hx, hy, hxv, hyv, hle, h0⟩ :=
      decode_subst_bridge h hlen (show decode hrp s' = some (r.1, r.2) from hd)
    rcases Nat.eq_zero_or_pos (diffCount xs ys) with hz | hpos
    · exact h0 hz
    · have hn := verify_subst_le3 (hrp := hrp) (d := []) (xs := xs) (ys := ys)
        (by rw [List.nil_append, hxv]; exact Option.some_ne_none _) hl h71 hx hy hpos (by omega)
      rw [List.nil_append, hyv] at hn
      cases hn

-- hypotheses of `subst_le3_rejected` with the first disjunct: the BIP 173 vector with one, two and
-- three characters replaced (checksum; program and witness-version character; separator, prefix
-- and a character outside the character set)
private def progEx : Bytes :=
  [0x75, 0x1e, 0x76, 0xe8, 0x19, 0x91, 0x96, 0xd4, 0x54, 0x94, 0x1c, 0x45, 0xd1, 0xb3, 0xa3, 0x23,
    0xf1, 0x43, 0x3b, 0xd6]

example :
    let s := "bc1qw508d6qejxtdg4y5r3zarvary0c5xw7kv8f3t4".toList
    let s1 := "bc1qw508d6qejxtdg4y5r3zarvary0c5xw7kv8f3t5".toList
    let s2 := "bc1pw508d6qejxtdg4y5r3zarvary0c5xw7kv8f3t4".toList
    let s2' := "bc1qw508d6qejxtdg4y5r3zarvary0c5xw7kv8f2s4".toList
    let s3 := "bc1qw508d7qejxtdg4y5r3zbrvary0c5xw7Kv8f3t4".toList
    let s3' := "tc1qw508d6qejxtdg4y1r3zarvary0c5xw7kv8f3tq".toList
    let s3'' := "bcqqw508d6qejxtdg4y5r3zarvary1c5xw7kv8f3t ".toList
    encode "bc".toList 0 progEx = some s ∧
    (s1.length = s.length ∧ charDiff s s1 = 1 ∧ decode "bc".toList s1 = none) ∧
    (s2.length = s.length ∧ charDiff s s2 = 1 ∧ decode "bc".toList s2 = none) ∧
    (s2'.length = s.length ∧ charDiff s s2' = 2 ∧ decode "bc".toList s2' = none) ∧
    (s3.length = s.length ∧ charDiff s s3 = 3 ∧ decode "bc".toList s3 = none) ∧
    (s3'.length = s.length ∧ charDiff s s3' = 3 ∧ decode "bc".toList s3' = none) ∧
    (s3''.length = s.length ∧ charDiff s s3'' = 3 ∧ decode "bc".toList s3'' = none) := by
  decide +kernel

/-- the second disjunct of `subst_le3_rejected` is real: this address (prefix `2`, witness version 5,
program bytes 41, 84) has only two letters; writing both in upper case changes two characters and the
result is accepted (as the same address) -/
theorem case_only_substitution_accepted :
    let s := "219992qq66330".toList
    let s' := "219992QQ66330".toList
    encode ['2'] 5 [41, 84] = some s ∧ s'.length = s.length ∧ charDiff s s' = 2 ∧
      decode ['2'] s' = some (5, [41, 84]) ∧ s'.map toLowerAscii = s := by
  decide +kernel

/-- replacing one to three characters of an address by characters that are not upper-case letters
always gives a string that is rejected -/
theorem subst_le3_rejected_lower {hrp : List Char} {v : Nat} {prog : Bytes} {s s' : List Char}
    (h : encode hrp v prog = some s) (hlen : s'.length = s.length) (h1 : 1 ≤ charDiff s s')
    (h3 : charDiff s s' ≤ 3) (hlow : ∀ c ∈ s', isUpperAscii c = false) : decode hrp s' = none := by
  rcases subst_le3_rejected h hlen h3 with hn | he
  · exact hn
  · rw [map_toLower_of_no_upper s' hlow] at he
    rw [he, charDiff_self] at h1
    omega

example :
    let s := "bc1qw508d6qejxtdg4y5r3zarvary0c5xw7kv8f3t4".toList
    let s' := "bc1qw508d6qejxtdg4y5r3zarvary0c5xw7kv8f2s4".toList
    encode "bc".toList 0 progEx = some s ∧ s'.length = s.length ∧ 1 ≤ charDiff s s' ∧
      charDiff s s' ≤ 3 ∧ ∀ c ∈ s', isUpperAscii c = false := by
  decide +kernel

/-- replacing at most four characters of an address (anywhere, by anything) gives a string that is
rejected, or is the same address in upper case, or — only with exactly four replaced characters —
is accepted as an address whose witness version switched between 0 and non-zero (the one case the
two checksum constants of BIP 350 do not cover) -/
theorem subst_four {hrp : List Char} {v : Nat} {prog : Bytes} {s s' : List Char}
    (h : encode hrp v prog = some s) (hlen : s'.length = s.length) (h4 : charDiff s s' ≤ 4) :
    decode hrp s' = none ∨ s'.map toLowerAscii = s ∨
      ∃ v' prog', decode hrp s' = some (v', prog') ∧ charDiff s s' = 4 ∧
        ((v = 0 ∧ v' ≠ 0) ∨ (v ≠ 0 ∧ v' = 0)) := by
  cases hd : decode hrp s' with
  | none => exact Or.inl rfl
  | some r =>
    right
    obtain ⟨xs, ys, hl, h71, hx, hy, hxv, hyv, hle, h0⟩ :=
      decode_subst_bridge h hlen (show decode hrp s' = some (r.1, r.2) from hd)
    rcases Nat.eq_zero_or_pos (diffCount xs ys) with hz | hpos
    · exact Or.inl (h0 hz)
    · right
      refine ⟨r.1, r.2, rfl, ?_, ?_⟩
      · rcases Nat.lt_or_ge (charDiff s s') 4 with hlt | hge
        · rcases subst_le3_rejected h hlen (Nat.le_of_lt_succ hlt) with hn | he
          · rw [hd] at hn; cases hn
          · -- `s'` is `s` up to case: then the symbols cannot differ
            have hn := verify_subst_le3 (hrp := hrp) (d := []) (xs := xs) (ys := ys)
              (by rw [List.nil_append, hxv]; exact Option.some_ne_none _) hl h71 hx hy hpos
              (by omega)
            rw [List.nil_append, hyv] at hn
            cases hn
        · omega
      · have hne := verify_subst_le4 (hrp := hrp) (d := []) (xs := xs) (ys := ys)
          (by rw [List.nil_append]; exact hxv) hl h71 hx hy hpos (by omega)
        rw [List.nil_append, hyv] at hne
        exact specOf_ne (fun e => hne (by rw [e]))

/-- the third disjunct of `subst_four` is real (and the first two are covered by the examples
above): the all-zero 32-byte version-0 address and a version-1 address four characters away, both
produced by `encode` and accepted by `decode` -/
theorem subst_four_switch_witness :
    let s := "bc1qqqqqqqqqqqqqqqqqqqqqqqqqqqqqqqqqqqqqqqqqqqqqqqqqqqqqthqst8".toList
    let s' := "bc1pqqqqqqqqqqqqkqqqqqqqqlqqqqqqqqqqqqqqqqqqqeqqqqqqqqqqthqst8".toList
    let prog' : Bytes := [0, 0, 0, 0, 0, 0, 0, 11, 0, 0, 0, 0, 0, 124, 0, 0, 0, 0, 0, 0,
      0, 0, 0, 0, 0, 6, 64, 0, 0, 0, 0, 0]
    encode "bc".toList 0 (List.replicate 32 0) = some s ∧ s'.length = s.length ∧
      charDiff s s' = 4 ∧ decode "bc".toList s' = some (1, prog'.map (·.toNat)) ∧
      encode "bc".toList 1 prog' = some s' := by
  decide +kernel

/-- if a string within four character substitutions of an address is accepted and is not just the
address in another letter case, then exactly one of the two witness versions (original, decoded) is
zero -/
theorem subst_le4_switches {hrp : List Char} {v : Nat} {prog : Bytes} {s s' : List Char}
    {v' : Nat} {prog' : List Nat}
    (h : encode hrp v prog = some s) (hlen : s'.length = s.length) (h4 : charDiff s s' ≤ 4)
    (hcase : s'.map toLowerAscii ≠ s) (hd : decode hrp s' = some (v', prog')) :
    ¬(v = 0 ↔ v' = 0) := by
  rcases subst_four h hlen h4 with hn | he | ⟨w, p, hw, _, hsw⟩
  · rw [hd] at hn; cases hn
  · exact absurd he hcase
  · rw [hd] at hw
    simp only [Option.some.injEq, Prod.mk.injEq] at hw
    obtain ⟨rfl, rfl⟩ := hw
    rcases hsw with ⟨a, b⟩ | ⟨a, b⟩
    · exact fun hiff => b (hiff.mp a)
    · exact fun hiff => a (hiff.mpr b)

/-- replacing one to four characters of an address by characters that are not upper-case letters
gives a string that, if it is accepted at all, has switched between witness version 0 and a
non-zero version -/
theorem subst_le4_same_class {hrp : List Char} {v : Nat} {prog : Bytes} {s s' : List Char}
    {v' : Nat} {prog' : List Nat}
    (h : encode hrp v prog = some s) (hlen : s'.length = s.length) (h1 : 1 ≤ charDiff s s')
    (h4 : charDiff s s' ≤ 4) (hlow : ∀ c ∈ s', isUpperAscii c = false)
    (hd : decode hrp s' = some (v', prog')) : ¬(v = 0 ↔ v' = 0) := by
  refine subst_le4_switches h hlen h4 (fun he => ?_) hd
  rw [map_toLower_of_no_upper s' hlow] at he
  rw [he, charDiff_self] at h1
  omega

example :
    let s := "bc1qqqqqqqqqqqqqqqqqqqqqqqqqqqqqqqqqqqqqqqqqqqqqqqqqqqqqthqst8".toList
    let s' := "bc1pqqqqqqqqqqqqkqqqqqqqqlqqqqqqqqqqqqqqqqqqqeqqqqqqqqqqthqst8".toList
    encode "bc".toList 0 (List.replicate 32 0) = some s ∧ s'.length = s.length ∧
      1 ≤ charDiff s s' ∧ charDiff s s' ≤ 4 ∧ (∀ c ∈ s', isUpperAscii c = false) ∧
      (decode "bc".toList s').map (·.1) = some 1 := by
  decide +kernel

/-- replacing one to four characters of an address by characters that are not upper-case letters
never gives an accepted address of the same witness version (so: never another version-0 address
from a version-0 one, and never an address of the same Taproot/future version) -/
theorem subst_le4_never_same_version {hrp : List Char} {v : Nat} {prog : Bytes} {s s' : List Char}
    (h : encode hrp v prog = some s) (hlen : s'.length = s.length) (h1 : 1 ≤ charDiff s s')
    (h4 : charDiff s s' ≤ 4) (hlow : ∀ c ∈ s', isUpperAscii c = false) (prog' : List Nat) :
    decode hrp s' ≠ some (v, prog') :=
  fun hd => subst_le4_same_class h hlen h1 h4 hlow hd Iff.rfl

/-- more generally, one to four such substitutions never turn a non-zero-version address into an
accepted address of any non-zero version, nor a version-0 address into another version-0 address -/
theorem subst_le4_never_same_class {hrp : List Char} {v : Nat} {prog : Bytes} {s s' : List Char}
    (h : encode hrp v prog = some s) (hlen : s'.length = s.length) (h1 : 1 ≤ charDiff s s')
    (h4 : charDiff s s' ≤ 4) (hlow : ∀ c ∈ s', isUpperAscii c = false) (v' : Nat) (prog' : List Nat)
    (hclass : v = 0 ↔ v' = 0) : decode hrp s' ≠ some (v', prog') :=
  fun hd => subst_le4_same_class h hlen h1 h4 hlow hd hclass

example :
    let s := "bc1qw508d6qejxtdg4y5r3zarvary0c5xw7kv8f3t4".toList
    let s' := "bc1qw508d6qejxtdg4y5r3zarvary0c5xw7kv0f2s5".toList
    encode "bc".toList 0 progEx = some s ∧ s'.length = s.length ∧ 1 ≤ charDiff s s' ∧
      charDiff s s' ≤ 4 ∧ ∀ c ∈ s', isUpperAscii c = false := by
  decide +kernel

/-- a string accepted under prefix `hrp` starts, after lower-casing, with `hrp` and the separator;
so a same-length string whose first `hrp.length + 1` characters differ from those of an address
(after lower-casing) is rejected whatever the rest looks like -/
theorem subst_prefix_rejected {hrp : List Char} {v : Nat} {prog : Bytes} {s s' : List Char}
    (h : encode hrp v prog = some s)
    (hp : (s'.map toLowerAscii).take (hrp.length + 1) ≠ s.take (hrp.length + 1)) :
    decode hrp s' = none := by
  cases hd : decode hrp s' with
  | none => rfl
  | some r =>
    exfalso
    obtain ⟨data, spec, hb, _⟩ := decode_sound (show decode hrp s' = some (r.1, r.2) from hd)
    obtain ⟨_, _, _, dp, ht, _⟩ := bech32Decode_sound hb
    obtain ⟨syms, hs, _⟩ := encode_constant_polymod h
    have e : ∀ l : List Char, (hrp ++ '1' :: l).take (hrp.length + 1) = hrp ++ ['1'] := by
      intro l
      rw [List.append_cons]
      exact List.take_left' (by simp)
    apply hp
    rw [ht, hs, e, e]

example :
    let s := "bc1qw508d6qejxtdg4y5r3zarvary0c5xw7kv8f3t4".toList
    let s' := "tb1qw508d6qejxtdg4y5r3zarvary0c5xw7kxpjzsx".toList
    encode "bc".toList 0 progEx = some s ∧
      (s'.map toLowerAscii).take ("bc".toList.length + 1) ≠ s.take ("bc".toList.length + 1) := by
  decide +kernel

end BtcHd.C11
