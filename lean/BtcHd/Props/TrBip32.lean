/-
Translated Python (`BtcHd.CodeObj`, generated from /repo's `bip32.py` by harness/translate_obj.py) = hand-written model
(`Model/Bip32.lean`), for every node, index, path and EVERY bundle of primitives: the object layer of C01, C02, C07,
C18 (and of everything built on derivation).  What the translator maps by table — the `parent` reference as the stored
parent fingerprint, `PrivateKey` / `PublicKey` objects as scalar / point, the `except NameError` branches — is stated in
the header of harness/translate_obj.py and is its trusted base.
-/
import BtcHd.Generated.CodeObj
import BtcHd.Props.TrBase58
import BtcHd.Lemmas.Bytes

namespace BtcHd.TrBip32
open BtcHd.Translated
open BtcHd Bip32 Keys

variable {Pt : Type}

private theorem i2be (n len : Nat) : Code.int_to_big_endian n len = toBytesBE len n := (int_helpers_eq [] n len).2.2
private theorem be2i (b : Bytes) : Code.big_endian_to_int b = beToNat b := rfl

/-- `PrvKeyNode.private_key` -/
theorem private_key_eq (P : Prims Pt) (nd : Node) : CodeObj.prv_private_key P nd = prvKey P nd := by
  unfold CodeObj.prv_private_key prvKey
  by_cases h : nd.key.length = 33 ∧ nd.key.head? = some 0
  · have h' : nd.key.length = 33 ∧ (nd.key[0]!).toNat = 0 := by
      obtain ⟨h1, h2⟩ := h
      refine ⟨h1, ?_⟩
      cases hk : nd.key with
      | nil => simp [hk] at h1
      | cons a t => simp [hk] at h2; subst h2; rfl
    simp only [h, h', and_self, ↓reduceIte]
  · have h' : ¬ (nd.key.length = 33 ∧ (nd.key[0]!).toNat = 0) := by
      intro ⟨h1, h2⟩
      apply h
      refine ⟨h1, ?_⟩
      cases hk : nd.key with
      | nil => simp [hk] at h1
      | cons a t =>
        simp only [hk, List.getElem!_cons_zero] at h2
        simp only [List.head?_cons, Option.some.injEq]
        exact UInt8.toNat_inj.mp (by simpa using h2)
    simp only [h, h', ↓reduceIte]

/-- `public_key` of either class (dynamic dispatch on the class) -/
theorem public_key_eq (P : Prims Pt) (nd : Node) : CodeObj.node_public_key P nd = pubKey P nd := by
  unfold CodeObj.node_public_key pubKey CodeObj.prv_public_key CodeObj.pub_public_key
  rw [private_key_eq]
  cases nd.isPrv
  · simp only [Bool.false_eq_true, ↓reduceIte]
  · simp only [↓reduceIte]
    cases prvKey P nd <;> rfl

/-- `fingerprint()` -/
theorem fingerprint_eq (P : Prims Pt) (nd : Node) : CodeObj.pub_fingerprint P nd = fingerprint P nd := by
  unfold CodeObj.pub_fingerprint fingerprint
  rw [public_key_eq]
  cases pubKey P nd <;> rfl

/-- the `parent_fingerprint` property -/
theorem parent_fingerprint_eq (nd : Node) : CodeObj.pub_parent_fingerprint nd = parentFingerprint nd := by
  unfold CodeObj.pub_parent_fingerprint parentFingerprint
  cases nd.hasParent <;> rfl

/-- `is_master()`, `is_root()`, `is_hardened()` -/
theorem predicates_eq (nd : Node) :
    CodeObj.pub_is_master nd = isMaster nd ∧ CodeObj.pub_is_root nd = !nd.hasParent ∧
      CodeObj.pub_is_hardened nd = decide (nd.index ≥ 2 ^ 31) := by
  refine ⟨?_, ?_, rfl⟩
  · unfold CodeObj.pub_is_master isMaster
    cases nd.hasParent <;> simp
  · unfold CodeObj.pub_is_root
    cases nd.hasParent <;> rfl

/-- `pub_version` / `prv_version`: the literals of the class bodies are the extracted constants of the model -/
theorem versions_eq (nd : Node) :
    CodeObj.pub_pub_version nd = pubVersion nd ∧ CodeObj.prv_prv_version nd = prvVersion nd := by
  unfold CodeObj.pub_pub_version CodeObj.prv_prv_version pubVersion prvVersion
  cases nd.testnet <;> exact ⟨rfl, rfl⟩

/-- `_serialize(key, version)`: the 78-byte layout -/
theorem serialize_eq (nd : Node) (key : Bytes) (v : Nat) :
    CodeObj.pub__serialize nd key v = serializeWith nd key v := by
  unfold CodeObj.pub__serialize serializeWith
  simp only [i2be, (predicates_eq nd).1, parent_fingerprint_eq]
  cases toBytesBE 4 v with
  | none => rfl
  | some v4 =>
    cases toBytesBE 1 nd.depth with
    | none => rfl
    | some d1 =>
      have hz : beFixed 4 0 = [0, 0, 0, 0] := by decide
      cases isMaster nd <;> cases toBytesBE 4 nd.index <;> simp [toBytesBE, hz]


/-- `serialize_public(version)` -/
theorem serialize_public_eq (P : Prims Pt) (nd : Node) (v : Option Nat) :
    CodeObj.pub_serialize_public P nd v = serializePublic P nd v := by
  unfold CodeObj.pub_serialize_public serializePublic
  rw [public_key_eq, (versions_eq nd).1]
  cases pubKey P nd with
  | none => rfl
  | some K => simp only [serialize_eq]; cases serializeWith nd (P.curve.sec true K) (v.getD (pubVersion nd)) <;> rfl

/-- `serialize_private(version)` (a method of `PrvKeyNode` only) -/
theorem serialize_private_eq (P : Prims Pt) (nd : Node) (v : Option Nat) (h : nd.isPrv = true) :
    CodeObj.prv_serialize_private P nd v = serializePrivate P nd v := by
  unfold CodeObj.prv_serialize_private serializePrivate
  rw [private_key_eq, (versions_eq nd).2]
  simp only [h, ↓reduceIte]
  cases prvKey P nd with
  | none => rfl
  | some k => simp only [serialize_eq]; cases serializeWith nd ([0] ++ privBytes k) (v.getD (prvVersion nd)) <;> rfl

/-- `extended_public_key(version)` / `extended_private_key(version)`: Base58Check of the serialisation (the translated
`encode_base58_checksum`, already proved equal to the model's encoder) -/
theorem extended_keys_eq (P : Prims Pt) (nd : Node) (v : Option Nat) :
    CodeObj.pub_extended_public_key P nd v = extendedPublicKey P nd v ∧
      (nd.isPrv = true → CodeObj.prv_extended_private_key P nd v = extendedPrivateKey P nd v) := by
  refine ⟨?_, fun h => ?_⟩
  · unfold CodeObj.pub_extended_public_key extendedPublicKey
    rw [serialize_public_eq]
    cases serializePublic P nd v <;> simp [encode_base58_checksum_eq]
  · unfold CodeObj.prv_extended_private_key extendedPrivateKey
    rw [serialize_private_eq P nd v h]
    cases serializePrivate P nd v <;> simp [encode_base58_checksum_eq]

/-- `PrvKeyNode.master_key` -/
theorem master_key_eq (P : Prims Pt) (seed : Bytes) (t : Bool) :
    CodeObj.prv_master_key P true seed t = masterKey P seed t := by
  unfold CodeObj.prv_master_key masterKey
  simp only [be2i]
  have hk : ([66, 105, 116, 99, 111, 105, 110, 32, 115, 101, 101, 100] : Bytes) = Generated.masterKeyHmacKey := by
    decide
  rw [hk]
  by_cases h0 : beToNat ((P.hmac512 Generated.masterKeyHmacKey seed).take 32) = 0
  · simp [h0]
  · by_cases hn : beToNat ((P.hmac512 Generated.masterKeyHmacKey seed).take 32) ≥ P.curve.n
    · simp [h0, hn]
    · simp [h0, hn]


private theorem hardened_eq : hardened = 2 ^ 31 := by decide

private theorem prvKey_lt {P : Prims Pt} {nd : Node} {k : Nat} (h : prvKey P nd = some k) : k < 256 ^ 32 := by
  have aux : ∀ bs : Bytes, mkPriv P.curve bs = some k → k < 256 ^ 32 := by
    intro bs hb
    unfold mkPriv at hb
    dsimp only at hb
    split at hb
    · rename_i hc
      have := BytesL.beToNat_lt bs
      rw [hc.1] at this
      injection hb with hb
      omega
    · cases hb
  unfold prvKey at h
  split at h <;> exact aux _ h

/-- `PrvKeyNode.ckd`: the translated method is the model's CKDpriv, for every node of that class, every index and
every bundle of primitives (hence every PRF output) -/
theorem prv_ckd_eq (P : Prims Pt) (nd : Node) (i : Nat) (h : nd.isPrv = true) :
    CodeObj.prv_ckd P nd i = ckdPrv P nd i := by
  unfold CodeObj.prv_ckd ckdPrv
  simp only [private_key_eq, public_key_eq, fingerprint_eq, i2be, be2i, fingerprint, pubKey, h, ↓reduceIte, hardened_eq]
  cases hk : prvKey P nd with
  | none => by_cases hi : i ≥ 2 ^ 31 <;> simp
  | some k =>
    have hkb : beToNat (privBytes k) = k := BytesL.beToNat_beFixed (prvKey_lt hk)
    cases h4 : toBytesBE 4 i with
    | none => by_cases hi : i ≥ 2 ^ 31 <;> simp
    | some idx4 =>
      by_cases hi : i ≥ 2 ^ 31
      · simp only [hi, ↓reduceIte, Option.bind_some, Option.map_some, hkb, Option.pure_def, Option.bind_eq_bind]
        split
        · rfl
        · split
          · rfl
          · cases toBytesBE 32 ((beToNat ((P.hmac512 nd.chainCode ([0] ++ privBytes k ++ idx4)).take 32) + k) % P.curve.n) <;>
              simp [mkChild, h]
      · simp only [hi, ↓reduceIte, Option.bind_some, Option.map_some, hkb, Option.pure_def, Option.bind_eq_bind]
        split
        · rfl
        · split
          · rfl
          · cases toBytesBE 32 ((beToNat ((P.hmac512 nd.chainCode (P.curve.sec true (P.curve.mulGen k) ++ idx4)).take 32) + k) % P.curve.n) <;>
              simp [mkChild, h]


/-- `PubKeyNode.ckd`: the translated method is the model's CKDpub (hardened index refused, IL ≥ n refused, the point
at infinity refused), for every node of that class -/
theorem pub_ckd_eq (P : Prims Pt) (nd : Node) (i : Nat) (h : nd.isPrv = false) :
    CodeObj.pub_ckd P nd i = ckdPub P nd i := by
  unfold CodeObj.pub_ckd ckdPub
  simp only [public_key_eq, fingerprint_eq, i2be, be2i, fingerprint, pubKey, h, hardened_eq]
  by_cases hi : i ≥ 2 ^ 31
  · have hi' : 2147483648 ≤ i := hi
    simp [hi']
  · simp only [hi, ↓reduceIte, Bool.false_eq_true]
    cases h4 : toBytesBE 4 i with
    | none => simp
    | some idx4 =>
      simp only [Option.pure_def, Option.bind_eq_bind, Option.bind_some]
      split
      · simp
      · cases mkPriv P.curve ((P.hmac512 nd.chainCode (nd.key ++ idx4)).take 32) with
        | none => simp
        | some il =>
          cases P.curve.parse nd.key with
          | none => simp
          | some K =>
            simp only [Option.bind_some]
            split <;> simp [mkChild, *]

/-- `node.ckd(index)` with the class deciding which method runs -/
theorem node_ckd_eq (P : Prims Pt) (nd : Node) (i : Nat) : CodeObj.node_ckd P nd i = ckd P nd i := by
  unfold CodeObj.node_ckd ckd
  cases h : nd.isPrv
  · simp [pub_ckd_eq P nd i h]
  · simp [prv_ckd_eq P nd i h]

/-- `derive_path(index_list)`: the `for` loop over the index list is the model's recursion -/
theorem derive_path_eq (P : Prims Pt) (nd : Node) (is : List Nat) :
    CodeObj.pub_derive_path P nd is = derivePath P nd is := by
  unfold CodeObj.pub_derive_path
  simp only [node_ckd_eq]
  induction is generalizing nd with
  | nil => rfl
  | cons i is ih =>
    simp only [List.forIn_cons, derivePath]
    cases ckd P nd i with
    | none => rfl
    | some c => simpa using ih c

/-- `generate_children(interval)`: `[self.ckd(i) for i in range(*interval)]` -/
theorem generate_children_eq (P : Prims Pt) (nd : Node) (a b : Nat) :
    CodeObj.pub_generate_children P nd (a, b) = generateChildren P nd a b := by
  unfold CodeObj.pub_generate_children generateChildren
  simp only [node_ckd_eq]

/-- `_parse(stream)`: field by field with `BytesIO.read` short-read semantics; `parse(str)` / `parse(bytes)` -/
theorem parse_eq (P : Prims Pt) (isPrv t : Bool) (bs : Bytes) (s : List Char) :
    (CodeObj.pub__parse isPrv bs t).1 = parseBytes isPrv t bs ∧
      CodeObj.pub_parse_bytes P isPrv bs t = some (parseBytes isPrv t bs) ∧
      CodeObj.pub_parse_str P isPrv s t = parseStr P isPrv t s := by
  refine ⟨rfl, rfl, ?_⟩
  unfold CodeObj.pub_parse_str parseStr
  simp only [decode_base58_checksum_eq]
  cases Base58.decodeCheck P.hash256 s <;> rfl

end BtcHd.TrBip32
