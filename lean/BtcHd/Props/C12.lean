/-
C12 — BIP85 deterministic entropy.

"For every master extended private key, every index in [0, 2^31) and every allowed
application parameter, the derived mnemonic (12/15/18/21/24 words), WIF, extended private
key, hex string (16-64 bytes) and Base64 password (20-86 characters) are what BIP85 defines:
HMAC-SHA512 keyed "bip-entropy-from-k" over the private key at the application's fully
hardened path, truncated or split as that application prescribes.  Parameters or indexes
outside the allowed sets are rejected rather than mapped onto some other path, and distinct
(application, parameter, index) triples use distinct paths."

Property theorems only; helper lemmas and the definitions `entropyAt`, `levelsMnemonic`,
`levelsWif`, `levelsXprv`, `levelsHex`, `levelsPwd` are in `Lemmas/Bip85.lean`.  The model is
`Model/Bip85.lean` (mirror of `bip85.py`); HMAC-SHA512, SHA-256 and the curve are parameters
(`P : Prims Pt`), so every statement holds for every primitive instance.  Python `int`
arguments are `Int`; `none` = "raised".
-/
import BtcHd.Lemmas.Bip85
import BtcHd.Lemmas.ToyBip85
import BtcHd.Props.C04

namespace BtcHd.C12
open BtcHd Bip85 Bip32 Keys Path Text

variable {Pt : Type}

/-! ### 1. constants -/

/-- the HMAC key is the ASCII text `bip-entropy-from-k` -/
theorem hmac_key : Generated.bip85Key = Text.utf8 "bip-entropy-from-k".toList := by decide +kernel

/-- the five path templates of the source are the BIP85 ones: root 83696968', applications
39' (BIP39, language 0'), 2' (WIF), 32' (XPRV), 128169' (HEX), 707764' (PWD BASE64) -/
theorem templates :
    Generated.bip85TplMnemonic = "m/83696968'/39'/0'/{}'/{}'".toList ∧
    Generated.bip85TplWif = "m/83696968'/2'/{}'".toList ∧
    Generated.bip85TplXprv = "m/83696968'/32'/{}'".toList ∧
    Generated.bip85TplHex = "m/83696968'/128169'/{}'/{}'".toList ∧
    Generated.bip85TplPwd = "m/83696968'/707764'/{}'/{}'".toList :=
  ⟨tplMnemonic_eq, tplWif_eq, tplXprv_eq, tplHex_eq, tplPwd_eq⟩

/-- the parameter bounds of the source: 16..64 bytes of hex, 20..86 password characters,
word counts 12/15/18/21/24 -/
theorem bounds : Generated.bip85HexBounds = (16, 64) ∧ Generated.bip85PwdBounds = (20, 86) ∧
    Generated.correctMnemonicLength = [12, 15, 18, 21, 24] := by decide

/-! ### 2. rendering the templates -/

/-- `str(i)`: decimal digits for `i ≥ 0`, a minus sign followed by the digits of `-i` otherwise -/
theorem intToDec_spec (a : Int) :
    (0 ≤ a → intToDec a = natToDec a.toNat) ∧
    (a < 0 → intToDec a = '-' :: natToDec (-a).toNat) := by
  cases a with
  | ofNat n => exact ⟨fun _ => rfl, fun h => by rw [Int.ofNat_eq_natCast] at h; omega⟩
  | negSucc n =>
    refine ⟨fun h => absurd h (by have := Int.negSucc_lt_zero n; omega), fun _ => ?_⟩
    rw [intToDec_negSucc]
    congr 2

/-- the BIP39 template rendered with `str.format` -/
theorem fmt_mnemonic (a b : Int) : fmt Generated.bip85TplMnemonic [a, b] =
    "m/83696968'/39'/0'/".toList ++ intToDec a ++ "'/".toList ++ intToDec b ++ "'".toList := by
  simp [fmt, Generated.bip85TplMnemonic]

/-- the WIF template rendered -/
theorem fmt_wif (a : Int) : fmt Generated.bip85TplWif [a] =
    "m/83696968'/2'/".toList ++ intToDec a ++ "'".toList := by
  simp [fmt, Generated.bip85TplWif]

/-- the XPRV template rendered -/
theorem fmt_xprv (a : Int) : fmt Generated.bip85TplXprv [a] =
    "m/83696968'/32'/".toList ++ intToDec a ++ "'".toList := by
  simp [fmt, Generated.bip85TplXprv]

/-- the HEX template rendered -/
theorem fmt_hex (a b : Int) : fmt Generated.bip85TplHex [a, b] =
    "m/83696968'/128169'/".toList ++ intToDec a ++ "'/".toList ++ intToDec b ++ "'".toList := by
  simp [fmt, Generated.bip85TplHex]

/-- the PWD template rendered -/
theorem fmt_pwd (a b : Int) : fmt Generated.bip85TplPwd [a, b] =
    "m/83696968'/707764'/".toList ++ intToDec a ++ "'/".toList ++ intToDec b ++ "'".toList := by
  simp [fmt, Generated.bip85TplPwd]

example : fmt Generated.bip85TplMnemonic [24, 0] = "m/83696968'/39'/0'/24'/0'".toList := by
  decide +kernel
example : fmt Generated.bip85TplWif [-1] = "m/83696968'/2'/-1'".toList := by decide +kernel

/-! ### 3. how the rendered paths parse -/

/-- the rendered BIP39 path parses iff both numbers are in `[0, 2^31)`, and then to the five
hardened levels 83696968', 39', 0', wc', i' -/
theorem parse_mnemonic (a b : Int) :
    Path.parse (fmt Generated.bip85TplMnemonic [a, b]) =
      if (0 ≤ a ∧ a < 2 ^ 31) ∧ (0 ≤ b ∧ b < 2 ^ 31) then
        some ⟨[83696968 + 2 ^ 31, 39 + 2 ^ 31, 0 + 2 ^ 31, a.toNat + 2 ^ 31, b.toNat + 2 ^ 31], true⟩
      else none :=
  parse_fmt_mnemonic a b

/-- the rendered WIF path parses iff the index is in `[0, 2^31)`, to 83696968', 2', i' -/
theorem parse_wif (a : Int) :
    Path.parse (fmt Generated.bip85TplWif [a]) =
      if 0 ≤ a ∧ a < 2 ^ 31 then some ⟨[83696968 + 2 ^ 31, 2 + 2 ^ 31, a.toNat + 2 ^ 31], true⟩
      else none :=
  parse_fmt_wif a

/-- the rendered XPRV path parses iff the index is in `[0, 2^31)`, to 83696968', 32', i' -/
theorem parse_xprv (a : Int) :
    Path.parse (fmt Generated.bip85TplXprv [a]) =
      if 0 ≤ a ∧ a < 2 ^ 31 then some ⟨[83696968 + 2 ^ 31, 32 + 2 ^ 31, a.toNat + 2 ^ 31], true⟩
      else none :=
  parse_fmt_xprv a

/-- the rendered HEX path parses iff both numbers are in `[0, 2^31)`, to 83696968', 128169',
nb', i' -/
theorem parse_hex (a b : Int) :
    Path.parse (fmt Generated.bip85TplHex [a, b]) =
      if (0 ≤ a ∧ a < 2 ^ 31) ∧ (0 ≤ b ∧ b < 2 ^ 31) then
        some ⟨[83696968 + 2 ^ 31, 128169 + 2 ^ 31, a.toNat + 2 ^ 31, b.toNat + 2 ^ 31], true⟩
      else none :=
  parse_fmt_hex a b

/-- the rendered PWD path parses iff both numbers are in `[0, 2^31)`, to 83696968', 707764',
len', i' -/
theorem parse_pwd (a b : Int) :
    Path.parse (fmt Generated.bip85TplPwd [a, b]) =
      if (0 ≤ a ∧ a < 2 ^ 31) ∧ (0 ≤ b ∧ b < 2 ^ 31) then
        some ⟨[83696968 + 2 ^ 31, 707764 + 2 ^ 31, a.toNat + 2 ^ 31, b.toNat + 2 ^ 31], true⟩
      else none :=
  parse_fmt_pwd a b

/-- every level of every application path is hardened (≥ 2^31) and fits in 32 bits when the
parameters are below 2^31 -/
theorem bip85_path_hardened (p i : Nat) (hp : p < 2 ^ 31) (hi : i < 2 ^ 31) :
    ∀ lv ∈ [levelsMnemonic p i, levelsWif i, levelsXprv i, levelsHex p i, levelsPwd p i],
      ∀ l ∈ lv, 2 ^ 31 ≤ l ∧ l < 2 ^ 32 := by
  intro lv hlv l hl
  simp only [List.mem_cons, List.not_mem_nil, or_false] at hlv
  rcases hlv with rfl | rfl | rfl | rfl | rfl <;>
    simp only [levelsMnemonic, levelsWif, levelsXprv, levelsHex, levelsPwd, List.mem_cons,
      List.not_mem_nil, or_false] at hl <;>
    omega

/-! ### 4. rejection -/

/-- an index that is negative or ≥ 2^31 makes each of the five applications raise, whatever
the other argument: the path string does not parse, no key is derived -/
theorem bip85_rejects_index (P : Prims Pt) (m : Node) (i : Int) (hbad : i < 0 ∨ 2 ^ 31 ≤ i) :
    (∀ wc, bip39Mnemonic P m wc i = none) ∧ Bip85.wif P m i = none ∧ xprv P m i = none ∧
      (∀ nb, hex P m nb i = none) ∧ (∀ len, pwd P m len i = none) := by
  have hi : ¬ InRange i := by unfold InRange; omega
  refine ⟨fun wc => ?_, ?_, ?_, fun nb => ?_, fun len => ?_⟩
  · unfold bip39Mnemonic
    rw [entropy_mnemonic, if_neg (fun h => hi h.2)]; rfl
  · rw [wif_eq, entropy_wif, if_neg hi]; rfl
  · rw [xprv_eq, entropy_xprv, if_neg hi]; rfl
  · unfold hex
    split
    · rw [entropy_hex, if_neg (fun h => hi h.2)]; rfl
    · rfl
  · unfold pwd
    split
    · rw [entropy_pwd, if_neg (fun h => hi h.2)]; rfl
    · rfl

example : ((-1 : Int) < 0 ∨ (2 : Int) ^ 31 ≤ -1) ∧ ((2147483648 : Int) < 0 ∨ (2 : Int) ^ 31 ≤ 2147483648) := by
  decide

/-- a rejected index never reaches the derivation: the rendered path itself is refused by
`Bip32Path.parse` (for a negative index the component is `-k'`, not a decimal number) -/
theorem bip85_bad_index_path (i : Int) (hbad : i < 0 ∨ 2 ^ 31 ≤ i) (a : Int) :
    Path.parse (fmt Generated.bip85TplMnemonic [a, i]) = none ∧
    Path.parse (fmt Generated.bip85TplWif [i]) = none ∧
    Path.parse (fmt Generated.bip85TplXprv [i]) = none ∧
    Path.parse (fmt Generated.bip85TplHex [a, i]) = none ∧
    Path.parse (fmt Generated.bip85TplPwd [a, i]) = none := by
  have hi : ¬ InRange i := by unfold InRange; omega
  refine ⟨?_, ?_, ?_, ?_, ?_⟩
  · rw [parse_fmt_mnemonic, if_neg (fun h => hi h.2)]
  · rw [parse_fmt_wif, if_neg hi]
  · rw [parse_fmt_xprv, if_neg hi]
  · rw [parse_fmt_hex, if_neg (fun h => hi h.2)]
  · rw [parse_fmt_pwd, if_neg (fun h => hi h.2)]

/-- a word count other than 12, 15, 18, 21, 24 (negative ones included) is rejected -/
theorem mnemonic_rejects_word_count (P : Prims Pt) (m : Node) (wc i : Int)
    (hbad : ¬ (0 ≤ wc ∧ wc.toNat ∈ [12, 15, 18, 21, 24])) : bip39Mnemonic P m wc i = none := by
  unfold bip39Mnemonic
  rw [byteCount_none hbad]
  cases entropy P m (fmt Generated.bip85TplMnemonic [wc, i]) <;> rfl

/-- a byte count outside 16..64 is rejected -/
theorem hex_rejects_num_bytes (P : Prims Pt) (m : Node) (nb i : Int) (hbad : nb < 16 ∨ 64 < nb) :
    hex P m nb i = none := by
  unfold hex
  rw [if_neg]
  simp only [Generated.bip85HexBounds]
  omega

/-- a password length outside 20..86 is rejected -/
theorem pwd_rejects_length (P : Prims Pt) (m : Node) (len i : Int) (hbad : len < 20 ∨ 86 < len) :
    pwd P m len i = none := by
  unfold pwd
  rw [if_neg]
  simp only [Generated.bip85PwdBounds]
  omega

example : ¬ (0 ≤ (13 : Int) ∧ (13 : Int).toNat ∈ [12, 15, 18, 21, 24]) ∧
    ¬ (0 ≤ (-12 : Int) ∧ (-12 : Int).toNat ∈ [12, 15, 18, 21, 24]) ∧
    ((15 : Int) < 16 ∨ 64 < (15 : Int)) ∧ ((87 : Int) < 20 ∨ 86 < (87 : Int)) := by decide

/-- a result is produced only for arguments in the allowed sets -/
theorem bip85_some_only_if_allowed (P : Prims Pt) (m : Node) (a i : Int) :
    ((bip39Mnemonic P m a i).isSome → (0 ≤ a ∧ a.toNat ∈ [12, 15, 18, 21, 24]) ∧ 0 ≤ i ∧ i < 2 ^ 31) ∧
    ((Bip85.wif P m i).isSome → 0 ≤ i ∧ i < 2 ^ 31) ∧
    ((xprv P m i).isSome → 0 ≤ i ∧ i < 2 ^ 31) ∧
    ((hex P m a i).isSome → (16 ≤ a ∧ a ≤ 64) ∧ 0 ≤ i ∧ i < 2 ^ 31) ∧
    ((pwd P m a i).isSome → (20 ≤ a ∧ a ≤ 86) ∧ 0 ≤ i ∧ i < 2 ^ 31) := by
  have key : ¬ (0 ≤ i ∧ i < 2 ^ 31) → i < 0 ∨ 2 ^ 31 ≤ i := by omega
  refine ⟨fun h => ⟨?_, ?_⟩, fun h => ?_, fun h => ?_, fun h => ⟨?_, ?_⟩, fun h => ⟨?_, ?_⟩⟩
  · apply Classical.byContradiction; intro hb
    rw [mnemonic_rejects_word_count P m a i hb] at h; cases h
  · apply Classical.byContradiction; intro hb
    rw [(bip85_rejects_index P m i (key hb)).1 a] at h; cases h
  · apply Classical.byContradiction; intro hb
    rw [(bip85_rejects_index P m i (key hb)).2.1] at h; cases h
  · apply Classical.byContradiction; intro hb
    rw [(bip85_rejects_index P m i (key hb)).2.2.1] at h; cases h
  · apply Classical.byContradiction; intro hb
    rw [hex_rejects_num_bytes P m a i (by omega)] at h; cases h
  · apply Classical.byContradiction; intro hb
    rw [(bip85_rejects_index P m i (key hb)).2.2.2.1 a] at h; cases h
  · apply Classical.byContradiction; intro hb
    rw [pwd_rejects_length P m a i (by omega)] at h; cases h
  · apply Classical.byContradiction; intro hb
    rw [(bip85_rejects_index P m i (key hb)).2.2.2.2 a] at h; cases h

/-! ### 5. what is computed for allowed arguments -/

/-- the entropy of a level list: derive the node from the master by the levels, take its
private scalar `k`, and compute HMAC-SHA512 keyed `bip-entropy-from-k` over `ser256(k)` -/
theorem entropyAt_eq_some_iff (P : Prims Pt) (m : Node) (lv : List Nat) (e : Bytes) :
    entropyAt P m lv = some e ↔
      ∃ node k, derivePath P m lv = some node ∧ prvKey P node = some k ∧
        e = P.hmac512 Generated.bip85Key (beFixed 32 k) := by
  unfold entropyAt privBytes
  constructor
  · intro h
    obtain ⟨node, h1, h2⟩ := Option.bind_eq_some_iff.mp h
    obtain ⟨k, h3, h4⟩ := Option.map_eq_some_iff.mp h2
    exact ⟨node, k, h1, h3, h4.symm⟩
  · rintro ⟨node, k, h1, h2, rfl⟩
    rw [h1, Option.bind_some, h2, Option.map_some]

/-- the HMAC message is the 32-byte `key` field of the derived node: a node derived from a
private master by at least one step stores a valid scalar in exactly 32 bytes -/
theorem entropy_message_is_node_key (P : Prims Pt) (hn : P.curve.n ≤ 2 ^ 256) {m node : Node}
    (hm : m.isPrv = true) (is : List Nat) (i : Nat) (hi : i < 2 ^ 32)
    (h : derivePath P m (is ++ [i]) = some node) :
    entropyAt P m (is ++ [i]) = some (P.hmac512 Generated.bip85Key node.key) ∧
      node.key.length = 32 ∧ 1 ≤ beToNat node.key ∧ beToNat node.key < P.curve.n := by
  obtain ⟨k, h1, h2, h3, h4, h5⟩ := derived_key P hn hm is i hi h
  have hk : beToNat node.key = k := by
    rw [h4, BytesL.beToNat_beFixed (by rw [BytesL.pow_256_32]; omega)]
  refine ⟨?_, by rw [h4, BytesL.beFixed_length], by omega, by omega⟩
  unfold entropyAt
  rw [h, Option.bind_some, h1, Option.map_some, h5]

/-- **BIP39 application**: for a word count in {12,15,18,21,24} and an index below 2^31 the
result is `mnemonic_from_entropy` of the first 16/20/24/28/32 (`= wc·4/3`) bytes of the
entropy at `m/83696968'/39'/0'/wc'/i'` -/
theorem bip85_mnemonic_spec (P : Prims Pt) (m : Node) (wc i : Nat)
    (hwc : wc ∈ [12, 15, 18, 21, 24]) (hi : i < 2 ^ 31) :
    bip39Mnemonic P m wc i =
      (entropyAt P m [83696968 + 2 ^ 31, 39 + 2 ^ 31, 0 + 2 ^ 31, wc + 2 ^ 31, i + 2 ^ 31]).bind
        fun e => Bip39.mnemonicFromEntropy P.sha256 (toHex (e.take (wc * 4 / 3))) := by
  have hw : InRange (wc : Int) := by
    refine inRange_natCast.mpr ?_
    simp only [List.mem_cons, List.not_mem_nil, or_false] at hwc
    omega
  unfold bip39Mnemonic
  rw [entropy_mnemonic, if_pos ⟨hw, inRange_natCast.mpr hi⟩, byteCount_natCast hwc,
    Int.toNat_natCast, Int.toNat_natCast]
  rfl

example : (24 : Nat) ∈ [12, 15, 18, 21, 24] ∧ (7 : Nat) < 2 ^ 31 ∧ 24 * 4 / 3 = 32 := by decide

/-- the derived mnemonic has exactly the requested number of words (given 64-byte HMAC and
32-byte SHA-256 outputs), each an entry of the official list at the index fixed by the bits of
the truncated entropy and its checksum (`C04.mnemonic_spec`) -/
theorem bip85_mnemonic_words (P : Prims Pt) (hhmac : ∀ k d, (P.hmac512 k d).length = 64)
    (hsha : ∀ x, (P.sha256 x).length = 32) (m : Node) (wc i : Nat)
    (hwc : wc ∈ [12, 15, 18, 21, 24]) (hi : i < 2 ^ 31) (e : Bytes)
    (he : entropyAt P m (levelsMnemonic wc i) = some e) :
    ∃ s, bip39Mnemonic P m wc i = some s ∧ (splitOn ' ' s).length = wc ∧
      ∃ idx, Bip39.indexesFromEntropy P.sha256 (toHex (e.take (wc * 4 / 3))) = some idx ∧
        splitOn ' ' s = idx.map (fun j => (Official.words[j]!).toList) ∧
        idx.flatMap (Bip39.bitsBE 11) = Bip39.bytesBits (e.take (wc * 4 / 3)) ++
          (Bip39.bytesBits (P.sha256 (e.take (wc * 4 / 3)))).take (wc / 3) := by
  have hlen : e.length = 64 := by
    obtain ⟨_, _, _, _, rfl⟩ := (entropyAt_eq_some_iff P m _ e).mp he
    exact hhmac _ _
  have hcases : wc = 12 ∨ wc = 15 ∨ wc = 18 ∨ wc = 21 ∨ wc = 24 := by simpa using hwc
  have htl : (e.take (wc * 4 / 3)).length = wc * 4 / 3 := by
    rw [List.length_take, hlen]; omega
  have hbits : (e.take (wc * 4 / 3)).length * 8 ∈ Generated.correctEntropyBits := by
    rw [htl]; rcases hcases with rfl | rfl | rfl | rfl | rfl <;> decide
  obtain ⟨idx, s, h1, h2, h3, h4⟩ := C04.mnemonic_spec P.sha256 hsha _ _
    (C04.fromHex_toHex (e.take (wc * 4 / 3))) hbits
  obtain ⟨idx', h1', _, _, _, h5⟩ := C04.indexes_spec P.sha256 hsha _ hbits
  rw [h1] at h1'
  obtain rfl : idx = idx' := Option.some.inj h1'
  refine ⟨s, ?_, ?_, idx, h1, h4, ?_⟩
  · have := bip85_mnemonic_spec P m wc i hwc hi
    unfold levelsMnemonic at he
    rw [this, he, Option.bind_some, h2]
  · rw [h3, htl]; omega
  · rw [h5, htl]
    congr 2
    omega

/-- `PrivateKey(b).wif()` for a 32-byte string `b`: Base58Check of `80 ‖ b ‖ 01` -/
theorem wif_bytes (P : Prims Pt) (b : Bytes) (hb : b.length = 32) :
    Keys.wif P (beToNat b) true false = Base58.encodeCheck P.hash256 ([0x80] ++ b ++ [0x01]) := by
  unfold Keys.wif privBytes
  have := BytesL.beFixed_beToNat b
  rw [hb] at this
  rw [this]
  rfl

/-- **WIF application**: for an index below 2^31, with `e` the entropy at `m/83696968'/2'/i'`
and `s` its first 32 bytes as an integer: the compressed mainnet WIF of `s` when `1 ≤ s < n`
(Base58Check of `80 ‖ e[:32] ‖ 01`), an error otherwise -/
theorem bip85_wif_spec (P : Prims Pt) (hhmac : ∀ k d, (P.hmac512 k d).length = 64) (m : Node)
    (i : Nat) (hi : i < 2 ^ 31) :
    Bip85.wif P m i =
      (entropyAt P m [83696968 + 2 ^ 31, 2 + 2 ^ 31, i + 2 ^ 31]).bind fun e =>
        if 1 ≤ beToNat (e.take 32) ∧ beToNat (e.take 32) < P.curve.n then
          some (Keys.wif P (beToNat (e.take 32)) true false)
        else none := by
  rw [wif_eq, entropy_wif, if_pos (inRange_natCast.mpr hi), Int.toNat_natCast]
  unfold levelsWif
  cases he : entropyAt P m [83696968 + 2 ^ 31, 2 + 2 ^ 31, i + 2 ^ 31] with
  | none => rfl
  | some e =>
    have hlen : e.length = 64 := by
      obtain ⟨_, _, _, _, rfl⟩ := (entropyAt_eq_some_iff P m _ e).mp he
      exact hhmac _ _
    rw [Option.bind_some, Option.bind_some, wifBody_eq P e (by omega),
      wif_bytes P (e.take 32) (by rw [List.length_take]; omega)]

/-- **XPRV application**: for an index below 2^31, with `e` the 64-byte entropy at
`m/83696968'/32'/i'`: when its right half is a valid scalar, the Base58Check string of
`0488ADE4 ‖ 00 ‖ 00000000 ‖ 00000000 ‖ e[:32] ‖ 00 ‖ e[32:]` (mainnet xprv version, depth 0, zero
fingerprint and child number, chain code = left half, key = right half); an error otherwise -/
theorem bip85_xprv_spec (P : Prims Pt) (hhmac : ∀ k d, (P.hmac512 k d).length = 64) (m : Node)
    (i : Nat) (hi : i < 2 ^ 31) :
    xprv P m i =
      (entropyAt P m [83696968 + 2 ^ 31, 32 + 2 ^ 31, i + 2 ^ 31]).bind fun e =>
        if 1 ≤ beToNat (e.drop 32) ∧ beToNat (e.drop 32) < P.curve.n then
          some (Base58.encodeCheck P.hash256
            ([0x04, 0x88, 0xAD, 0xE4] ++ [0] ++ [0, 0, 0, 0] ++ [0, 0, 0, 0] ++ e.take 32
              ++ ([0] ++ e.drop 32)))
        else none := by
  rw [xprv_eq, entropy_xprv, if_pos (inRange_natCast.mpr hi), Int.toNat_natCast]
  unfold levelsXprv
  cases he : entropyAt P m [83696968 + 2 ^ 31, 32 + 2 ^ 31, i + 2 ^ 31] with
  | none => rfl
  | some e =>
    have hlen : e.length = 64 := by
      obtain ⟨_, _, _, _, rfl⟩ := (entropyAt_eq_some_iff P m _ e).mp he
      exact hhmac _ _
    rw [Option.bind_some, Option.bind_some, xprvBody_eq P e hlen]

/-- the string of `bip85_xprv_spec` is the extended private key of the master node
`PrvKeyNode(key = e[32:], chain_code = e[:32])` under the default (mainnet) version -/
theorem bip85_xprv_is_extended_key (P : Prims Pt) (e : Bytes) (hlen : e.length = 64)
    (h1 : 1 ≤ beToNat (e.drop 32)) (h2 : beToNat (e.drop 32) < P.curve.n) :
    extendedPrivateKey P (xprvNode (e.take 32) (e.drop 32)) none =
      some (Base58.encodeCheck P.hash256
        ([0x04, 0x88, 0xAD, 0xE4] ++ [0] ++ [0, 0, 0, 0] ++ [0, 0, 0, 0] ++ e.take 32
          ++ ([0] ++ e.drop 32))) ∧
      isMaster (xprvNode (e.take 32) (e.drop 32)) = true ∧
      (xprvNode (e.take 32) (e.drop 32)).testnet = false := by
  refine ⟨?_, rfl, rfl⟩
  unfold extendedPrivateKey
  rw [serializePrivate_xprvNode P _ _ (by rw [List.length_drop]; omega) h1 h2]
  rfl

/-- `bytes.hex()` has two characters per byte -/
private theorem toHex_length (bs : Bytes) : (toHex bs).length = 2 * bs.length := by
  induction bs with
  | nil => rfl
  | cons b bs ih => simp only [toHex, List.length_cons, ih]; omega

/-- **HEX application**: for 16 ≤ nb ≤ 64 and an index below 2^31, the lower-case hex of the
first `nb` bytes of the entropy at `m/83696968'/128169'/nb'/i'` -/
theorem bip85_hex_spec (P : Prims Pt) (m : Node) (nb i : Nat) (hnb : 16 ≤ nb ∧ nb ≤ 64)
    (hi : i < 2 ^ 31) :
    hex P m nb i =
      (entropyAt P m [83696968 + 2 ^ 31, 128169 + 2 ^ 31, nb + 2 ^ 31, i + 2 ^ 31]).map
        fun e => toHex (e.take nb) := by
  unfold hex
  rw [if_pos (by simp only [Generated.bip85HexBounds]; omega), entropy_hex,
    if_pos ⟨inRange_natCast.mpr (by omega), inRange_natCast.mpr hi⟩, Int.toNat_natCast,
    Int.toNat_natCast]
  rfl

/-- the hex string has exactly `2·nb` characters (64-byte HMAC output) -/
theorem bip85_hex_length (P : Prims Pt) (hhmac : ∀ k d, (P.hmac512 k d).length = 64) (m : Node)
    (nb i : Nat) (hnb : 16 ≤ nb ∧ nb ≤ 64) (hi : i < 2 ^ 31) (s : List Char)
    (h : hex P m nb i = some s) : s.length = 2 * nb := by
  rw [bip85_hex_spec P m nb i hnb hi] at h
  obtain ⟨e, he, rfl⟩ := Option.map_eq_some_iff.mp h
  have hlen : e.length = 64 := by
    obtain ⟨_, _, _, _, rfl⟩ := (entropyAt_eq_some_iff P m _ e).mp he
    exact hhmac _ _
  rw [toHex_length, List.length_take, hlen]
  omega

/-- **PWD application**: for 20 ≤ len ≤ 86 and an index below 2^31, the first `len`
characters of the Base64 text of the entropy at `m/83696968'/707764'/len'/i'` -/
theorem bip85_pwd_spec (P : Prims Pt) (m : Node) (len i : Nat) (hlen : 20 ≤ len ∧ len ≤ 86)
    (hi : i < 2 ^ 31) :
    pwd P m len i =
      (entropyAt P m [83696968 + 2 ^ 31, 707764 + 2 ^ 31, len + 2 ^ 31, i + 2 ^ 31]).map
        fun e => (base64 e).take len := by
  unfold pwd
  rw [if_pos (by simp only [Generated.bip85PwdBounds]; omega), entropy_pwd,
    if_pos ⟨inRange_natCast.mpr (by omega), inRange_natCast.mpr hi⟩, Int.toNat_natCast,
    Int.toNat_natCast]
  rfl

/-- the password has exactly `len` characters, all from the Base64 alphabet `A-Za-z0-9+/`
(never the `=` padding, never whitespace — so `.strip()` is the identity): the Base64 text of
64 bytes has 88 characters of which only the last two are padding -/
theorem bip85_pwd_shape (P : Prims Pt) (hhmac : ∀ k d, (P.hmac512 k d).length = 64) (m : Node)
    (len i : Nat) (hlen : 20 ≤ len ∧ len ≤ 86) (hi : i < 2 ^ 31) (s : List Char)
    (h : pwd P m len i = some s) :
    s.length = len ∧ (∀ c ∈ s, c ∈ b64Alphabet) ∧ '=' ∉ s ∧
      ∀ c ∈ s, c.isAlphanum = true ∨ c = '+' ∨ c = '/' := by
  rw [bip85_pwd_spec P m len i hlen hi] at h
  obtain ⟨e, he, rfl⟩ := Option.map_eq_some_iff.mp h
  have hl : e.length = 64 := by
    obtain ⟨_, _, _, _, rfl⟩ := (entropyAt_eq_some_iff P m _ e).mp he
    exact hhmac _ _
  obtain ⟨h1, h2⟩ := base64_take e hl len hlen.2
  exact ⟨h1, h2, fun hm => eq_not_mem_b64Alphabet (h2 _ hm), fun c hc => b64Alphabet_ascii c (h2 c hc)⟩

/-- Base64 of 64 bytes: 88 characters, the last two are `=` -/
theorem base64_64 (e : Bytes) (he : e.length = 64) :
    (base64 e).length = 88 ∧ (base64 e).drop 86 = ['=', '='] := by
  refine ⟨by rw [base64_length, he], ?_⟩
  have := base64_drop e (by rw [he])
  rwa [he] at this

example : (∀ k d, (Toy.prims.hmac512 k d).length = 64) ∧ (∀ x, (Toy.prims.sha256 x).length = 32) :=
  ⟨fun _ _ => by simp [Toy.prims], fun _ => by simp [Toy.prims]⟩

/-- non-vacuity: an instance (toy curve of order 7, constant 64-byte HMAC) on which the master
key exists, all five level derivations succeed and all five applications return a value -/
example : ∃ m, masterKey Toy.prims7 [] false = some m ∧
    (∀ k d, (Toy.prims7.hmac512 k d).length = 64) ∧
    entropyAt Toy.prims7 m (levelsMnemonic 24 0) = some Toy.hm7 ∧
    (bip39Mnemonic Toy.prims7 m 24 0).isSome ∧ (Bip85.wif Toy.prims7 m 0).isSome ∧
    (xprv Toy.prims7 m 0).isSome ∧ (hex Toy.prims7 m 32 0).isSome ∧
    (pwd Toy.prims7 m 21 0).isSome := by
  refine ⟨_, rfl, fun _ _ => rfl, ?_, ?_, ?_, ?_, ?_, ?_⟩ <;> decide +kernel

/-! ### 6. distinct requests use distinct paths -/

/-- the five applications -/
inductive App
  | mnemonic | wif | xprv | hex | pwd
deriving DecidableEq, Repr

/-- the level list used for an (application, parameter, index) request; WIF and XPRV have
no parameter -/
def levels : App → Nat → Nat → List Nat
  | .mnemonic, p, i => levelsMnemonic p i
  | .wif, _, i => levelsWif i
  | .xprv, _, i => levelsXprv i
  | .hex, p, i => levelsHex p i
  | .pwd, p, i => levelsPwd p i

/-- the allowed requests (parameter of the parameterless applications fixed to 0) -/
def Allowed : App → Nat → Nat → Prop
  | .mnemonic, p, i => p ∈ [12, 15, 18, 21, 24] ∧ i < 2 ^ 31
  | .wif, p, i => p = 0 ∧ i < 2 ^ 31
  | .xprv, p, i => p = 0 ∧ i < 2 ^ 31
  | .hex, p, i => (16 ≤ p ∧ p ≤ 64) ∧ i < 2 ^ 31
  | .pwd, p, i => (20 ≤ p ∧ p ≤ 86) ∧ i < 2 ^ 31

/-- distinct allowed (application, parameter, index) triples use distinct derivation paths -/
theorem bip85_paths_injective (a a' : App) (p p' i i' : Nat) (h : Allowed a p i)
    (h' : Allowed a' p' i') (heq : levels a p i = levels a' p' i') : a = a' ∧ p = p' ∧ i = i' := by
  cases a <;> cases a' <;>
    simp only [levels, levelsMnemonic, levelsWif, levelsXprv, levelsHex, levelsPwd, List.cons.injEq,
      and_true, true_and] at heq <;>
    simp only [Allowed] at h h' <;>
    first
    | (refine ⟨rfl, ?_, ?_⟩ <;> omega)
    | (exfalso; omega)

example : Allowed .mnemonic 24 0 ∧ Allowed .hex 32 5 ∧ Allowed .wif 0 1 := by
  simp [Allowed]

/-- the same on the rendered path strings: two allowed requests with the same rendered path
are the same request -/
theorem bip85_path_strings_injective (a a' : App) (p p' i i' : Nat) (h : Allowed a p i)
    (h' : Allowed a' p' i') :
    let tpl : App → Nat → Nat → List Char := fun a p i =>
      match a with
      | .mnemonic => fmt Generated.bip85TplMnemonic [p, i]
      | .wif => fmt Generated.bip85TplWif [i]
      | .xprv => fmt Generated.bip85TplXprv [i]
      | .hex => fmt Generated.bip85TplHex [p, i]
      | .pwd => fmt Generated.bip85TplPwd [p, i]
    tpl a p i = tpl a' p' i' → a = a' ∧ p = p' ∧ i = i' := by
  intro tpl heq
  have hparse : ∀ a p i, Allowed a p i → Path.parse (tpl a p i) = some ⟨levels a p i, true⟩ := by
    intro a p i h
    cases a <;> simp only [Allowed] at h <;> simp only [tpl, levels]
    · rw [parse_fmt_mnemonic, if_pos ⟨inRange_natCast.mpr (by
        have := h.1; simp only [List.mem_cons, List.not_mem_nil, or_false] at this; omega),
        inRange_natCast.mpr h.2⟩, Int.toNat_natCast, Int.toNat_natCast]
    · rw [parse_fmt_wif, if_pos (inRange_natCast.mpr h.2), Int.toNat_natCast]
    · rw [parse_fmt_xprv, if_pos (inRange_natCast.mpr h.2), Int.toNat_natCast]
    · rw [parse_fmt_hex, if_pos ⟨inRange_natCast.mpr (by omega), inRange_natCast.mpr h.2⟩,
        Int.toNat_natCast, Int.toNat_natCast]
    · rw [parse_fmt_pwd, if_pos ⟨inRange_natCast.mpr (by omega), inRange_natCast.mpr h.2⟩,
        Int.toNat_natCast, Int.toNat_natCast]
  have h1 := hparse a p i h
  have h2 := hparse a' p' i' h'
  rw [heq, h2] at h1
  simp only [Option.some.injEq, Path.Path.mk.injEq, and_true] at h1
  exact bip85_paths_injective a a' p p' i i' h h' h1.symm

end BtcHd.C12
