/-
Translated Python (`BtcHd.CodeObj2`, generated from /repo by harness/translate_obj2.py) = hand-written model:
the hash helpers of `helper.py`, `bip39_seed_from_mnemonic`, `keys.py` (`PublicKey.sec / parse / h160 / address`,
`PrivateKey.__bytes__ / parse / from_int / from_wif`) and `base_wallet.py` (`watch_only`, the five address kinds,
`by_path`, the constructors incl. `from_extended_key`, `determine_node_version_int`, `node_extended_*`).
The tables the translator uses are stated in the header of harness/translate_obj2.py.
-/
import BtcHd.Generated.CodeObj2
import BtcHd.Props.TrBip32
import BtcHd.Props.TrAddr
import BtcHd.Props.TrVarint
import BtcHd.Props.TrBip39

namespace BtcHd.TrWallet
open BtcHd BtcHd.Translated Bip32 Keys Wallet

variable {Pt : Type}

/-- `sha256`, `hash256`, `hash160`, `hmac_sha512` of `helper.py` are the model's hash functions over the bundle -/
theorem hashes_eq (P : Prims Pt) (s k : Bytes) :
    CodeObj2.h_sha256 P s = P.sha256 s ∧ CodeObj2.h_hash256 P s = P.hash256 s ∧
      CodeObj2.h_hash160 P s = hash160 P s ∧ CodeObj2.h_hmac_sha512 P k s = P.hmac512 k s :=
  ⟨rfl, rfl, rfl, rfl⟩

/-- `bip39_seed_from_mnemonic`: PBKDF2 over the NFKD forms, salt `"mnemonic" ‖ passphrase`, the round count of the source -/
theorem seed_eq (P : Prims Pt) (m p : List Char) :
    CodeObj2.seed_from_mnemonic P m p = Bip39.seedFromMnemonic P m p := by
  unfold CodeObj2.seed_from_mnemonic Bip39.seedFromMnemonic
  have h1 : ([Char.ofNat 109, Char.ofNat 110, Char.ofNat 101, Char.ofNat 109, Char.ofNat 111, Char.ofNat 110,
      Char.ofNat 105, Char.ofNat 99] : List Char) = Generated.saltPrefix := by decide
  have h2 : (2048 : Nat) = Generated.pbkdf2Rounds := by decide
  simp only [h1, h2]
  rfl

/-- `PublicKey.sec / parse / h160` -/
theorem pk_basic_eq (P : Prims Pt) (K : Pt) (c : Bool) (b : Bytes) :
    CodeObj2.pk_sec P K c = P.curve.sec c K ∧ CodeObj2.pk_parse P b = P.curve.parse b ∧
      CodeObj2.pk_h160 P K c = h160 P K c := by
  refine ⟨?_, ?_, ?_⟩
  · unfold CodeObj2.pk_sec; cases c <;> rfl
  · unfold CodeObj2.pk_parse; cases P.curve.parse b <;> rfl
  · unfold CodeObj2.pk_h160 CodeObj2.pk_sec CodeObj2.h_hash160 h160 hash160; cases c <;> rfl

/-- `PublicKey.address`: the two supported kinds, anything else is refused -/
theorem pk_address_eq (P : Prims Pt) (K : Pt) (c t : Bool) (kind : List Char) :
    CodeObj2.pk_address P K c t kind =
      if kind = ['p', '2', 'p', 'k', 'h'] then some (pubP2pkh P K c t)
      else if kind = ['p', '2', 'w', 'p', 'k', 'h'] then segwitOf (h160 P K c) t else none := by
  unfold CodeObj2.pk_address
  have e1 : ([Char.ofNat 112, Char.ofNat 50, Char.ofNat 112, Char.ofNat 107, Char.ofNat 104] : List Char) = ['p', '2', 'p', 'k', 'h'] := by decide
  have e2 : ([Char.ofNat 112, Char.ofNat 50, Char.ofNat 119, Char.ofNat 112, Char.ofNat 107, Char.ofNat 104] : List Char) = ['p', '2', 'w', 'p', 'k', 'h'] := by decide
  simp only [e1, e2, (pk_basic_eq P K c []).2.2, p2pkh_eq, p2wpkh_eq]
  by_cases h1 : kind = ['p', '2', 'p', 'k', 'h']
  · simp [h1, pubP2pkh]
  · by_cases h2 : kind = ['p', '2', 'w', 'p', 'k', 'h']
    · simp only [h2, ↓reduceIte, segwitOf]
      cases Bech32.encode (if t = true then Generated.hrpTest else Generated.hrpMain) 0 (h160 P K c) <;> simp
    · simp [h1, h2]

private theorem decodeCheck_nil (h : Bytes → Bytes) (hlen : (h []).length = 32) : Base58.decodeCheck h [] = none := by
  have hd : Base58.decode [] = some [0] := by decide
  unfold Base58.decodeCheck
  rw [hd]
  simp only [Option.bind_some]
  have h1 : lastN 4 ([0] : Bytes) = [0] := by decide
  have h2 : dropLastN 4 ([0] : Bytes) = [] := by decide
  rw [h1, h2]
  have : ((h []).take 4).length = 4 := by simp [hlen]
  split
  · rename_i hc; rw [hc] at this; simp at this
  · rfl

/-- `PrivateKey.__bytes__ / parse / from_int / from_wif` on the scalar representation.  (`wif_str[0]` of the empty text
is an IndexError in Python; the checksummed decoder refuses the empty text before that whenever the hash function
returns 32 bytes — the hypothesis `hlen`, proved for the driver's SHA-256.) -/
theorem sk_eq (P : Prims Pt) (k n : Nat) (b : Bytes) (s : List Char) (hlen : (P.hash256 []).length = 32) :
    CodeObj2.sk_bytes k = privBytes k ∧ CodeObj2.sk_parse P b = mkPriv P.curve b ∧
      CodeObj2.sk_from_int P n = privFromInt P.curve n ∧ CodeObj2.sk_from_wif P s = fromWif P s := by
  refine ⟨rfl, ?_, ?_, ?_⟩
  · unfold CodeObj2.sk_parse; cases mkPriv P.curve b <;> rfl
  · unfold CodeObj2.sk_from_int privFromInt
    rw [(int_helpers_eq [] n 32).2.2]
    cases toBytesBE 32 n with
    | none => rfl
    | some bs => simp
  · unfold CodeObj2.sk_from_wif fromWif
    simp only [decode_base58_checksum_eq]
    cases s with
    | nil => rw [decodeCheck_nil _ hlen]; rfl
    | cons c rest =>
      cases Base58.decodeCheck P.hash256 (c :: rest) with
      | none => rfl
      | some d =>
        have hK : (Char.ofNat 75) = 'K' := by decide
        have hL : (Char.ofNat 76) = 'L' := by decide
        have hc : (Char.ofNat 99) = 'c' := by decide
        simp only [Option.bind_some, List.getElem!_cons_zero, hK, hL, hc, List.mem_cons, List.not_mem_nil, or_false,
          Option.pure_def, Option.bind_eq_bind]
        by_cases hm : c = 'K' ∨ c = 'L' ∨ c = 'c'
        · simp only [hm, ↓reduceIte]
          by_cases hl : d.getLast? = some 1
          · have : dropLastN 1 d = d.dropLast := by simp [dropLastN, List.dropLast_eq_take]
            simp [hl, this]
          · simp [hl]
        · simp [hm]


open BtcHd.TrBip32 in
/-- `watch_only` and the five address kinds of `BaseWallet` (every kind follows the WALLET's network flag) -/
theorem addresses_eq (P : Prims Pt) (w : Wallet) (nd : Node) :
    CodeObj2.w_watch_only w = w.watchOnly ∧
    CodeObj2.w_p2pkh_address P w nd = p2pkhAddress P w.testnet nd ∧
    CodeObj2.w_p2wpkh_address P w nd = p2wpkhAddress P w.testnet nd ∧
    CodeObj2.w_p2sh_p2wpkh_address P w nd = p2shP2wpkhAddress P w.testnet nd ∧
    CodeObj2.w_p2wsh_address P w nd = p2wshAddress P w.testnet nd ∧
    CodeObj2.w_p2sh_p2wsh_address P w nd = p2shP2wshAddress P w.testnet nd := by
  refine ⟨?_, ?_, ?_, ?_, ?_, ?_⟩
  · unfold CodeObj2.w_watch_only Wallet.watchOnly; cases w.master.isPrv <;> rfl
  · unfold CodeObj2.w_p2pkh_address p2pkhAddress
    simp only [public_key_eq, pk_address_eq]
    cases pubKey P nd <;> simp
  · unfold CodeObj2.w_p2wpkh_address p2wpkhAddress
    simp only [public_key_eq, pk_address_eq]
    cases pubKey P nd with
    | none => rfl
    | some K => simp
  · unfold CodeObj2.w_p2sh_p2wpkh_address p2shP2wpkhAddress
    simp only [public_key_eq, (pk_basic_eq P _ true []).2.2, raw_serialize_eq, (scripts_eq _).2.2.1, p2sh_eq,
      (hashes_eq P _ []).2.2.1]
    cases pubKey P nd with
    | none => rfl
    | some K => simp; cases Script.rawSerialize (Script.p2wpkhScript (h160 P K true)) <;> rfl
  · unfold CodeObj2.w_p2wsh_address p2wshAddress witnessScript
    simp only [public_key_eq, (pk_basic_eq P _ true []).1, raw_serialize_eq, p2wsh_eq, (hashes_eq P _ []).1]
    cases pubKey P nd with
    | none => rfl
    | some K =>
      simp only [Option.pure_def, Option.bind_eq_bind, Option.bind_some]
      cases Script.rawSerialize [.op 0x51, .data (P.curve.sec true K), .op 0x51, .op 0xae] with
      | none => rfl
      | some ws => simp [segwitOf]
  · unfold CodeObj2.w_p2sh_p2wsh_address p2shP2wshAddress witnessScript
    simp only [public_key_eq, (pk_basic_eq P _ true []).1, raw_serialize_eq, p2sh_eq, (hashes_eq P _ []).1,
      (hashes_eq P _ []).2.2.1, (scripts_eq _).2.2.2]
    cases pubKey P nd with
    | none => rfl
    | some K =>
      simp only [Option.pure_def, Option.bind_eq_bind, Option.bind_some]
      cases Script.rawSerialize [.op 0x51, .data (P.curve.sec true K), .op 0x51, .op 0xae] with
      | none => rfl
      | some ws => simp; cases Script.rawSerialize (Script.p2wshScript (P.sha256 ws)) <;> rfl


open BtcHd.TrBip32 in
/-- `by_path` and the constructors `from_bip39_seed_bytes / _hex`, `from_mnemonic`, `from_entropy_hex`,
`from_extended_key` -/
theorem constructors_eq (P : Prims Pt) (w : Wallet) (path seedHex m p e xk : List Char) (seed : Bytes) (t : Bool) :
    CodeObj2.w_by_path P w path = byPath P w path ∧
    CodeObj2.w_from_bip39_seed_bytes P seed t = fromSeedBytes P seed t ∧
    CodeObj2.w_from_bip39_seed_hex P seedHex t = fromSeedHex P seedHex t ∧
    CodeObj2.w_from_mnemonic P m p t = fromMnemonic P m p t ∧
    CodeObj2.w_from_entropy_hex P e p t = fromEntropyHex P e p t ∧
    CodeObj2.w_from_extended_key P xk = fromExtendedKey P xk := by
  have hsb : ∀ sd, CodeObj2.w_from_bip39_seed_bytes P sd t = fromSeedBytes P sd t := by
    intro sd
    unfold CodeObj2.w_from_bip39_seed_bytes fromSeedBytes
    rw [master_key_eq]
    cases masterKey P sd t <;> rfl
  have hmn : ∀ mm, CodeObj2.w_from_mnemonic P mm p t = fromMnemonic P mm p t := by
    intro mm
    unfold CodeObj2.w_from_mnemonic fromMnemonic
    simp only [hsb, seed_eq]
    cases fromSeedBytes P (Bip39.seedFromMnemonic P mm p) t <;> rfl
  refine ⟨?_, hsb seed, ?_, hmn m, ?_, ?_⟩
  · unfold CodeObj2.w_by_path byPath
    cases Path.parse path with
    | none => rfl
    | some pp => simp [derive_path_eq]
  · unfold CodeObj2.w_from_bip39_seed_hex fromSeedHex
    cases fromHex seedHex with
    | none => rfl
    | some sd => simp [hsb]
  · unfold CodeObj2.w_from_entropy_hex fromEntropyHex
    rw [mnemonic_from_entropy_eq]
    cases Bip39.mnemonicFromEntropy P.sha256 e with
    | none => rfl
    | some mm => simp [hmn]
  · unfold CodeObj2.w_from_extended_key fromExtendedKey
    simp only [(parse_eq P _ _ [] xk).2.2]
    cases parseStr P true false xk with
    | none => rfl
    | some probe =>
      simp only [Option.pure_def, Option.bind_eq_bind, Option.bind_some]
      cases probe.parsedVersion with
      | none => rfl
      | some v =>
        simp only [Option.bind_some]
        cases Path.Version.parse v with
        | none => rfl
        | some ver =>
          simp only [Option.bind_some]
          by_cases hk : ver.keyType = 0
          · simp only [hk, ↓reduceIte, decide_true]
            cases parseStr P true ver.testnet xk <;> rfl
          · simp only [hk, ↓reduceIte, decide_false]
            cases parseStr P false ver.testnet xk <;> rfl

open BtcHd.TrBip32 in
/-- `determine_node_version_int` + `int(version)`, `node_extended_public_key`, `node_extended_private_key`,
`node_extended_keys` -/
theorem node_keys_eq (P : Prims Pt) (w : Wallet) (nd : Node) (kt : Nat) :
    (CodeObj2.w_determine_node_version_int w nd kt).bind Path.Version.toInt = nodeVersionInt w nd kt ∧
    CodeObj2.w_node_extended_public_key P w nd = nodeExtendedPublicKey P w nd ∧
    CodeObj2.w_node_extended_private_key P w nd = nodeExtendedPrivateKey P w nd ∧
    CodeObj2.w_node_extended_keys P w nd = nodeExtendedKeys P w nd := by
  have hv : ∀ k, (CodeObj2.w_determine_node_version_int w nd k).bind Path.Version.toInt = nodeVersionInt w nd k := by
    intro k
    unfold CodeObj2.w_determine_node_version_int nodeVersionInt
    cases Path.parse (nodeRepr nd) <;> rfl
  have hpub : CodeObj2.w_node_extended_public_key P w nd = nodeExtendedPublicKey P w nd := by
    unfold CodeObj2.w_node_extended_public_key nodeExtendedPublicKey
    rw [← hv 1]
    cases CodeObj2.w_determine_node_version_int w nd 1 with
    | none => rfl
    | some ver =>
      simp only [Option.pure_def, Option.bind_eq_bind, Option.bind_some]
      cases Path.Version.toInt ver with
      | none => rfl
      | some vi => simp [(extended_keys_eq P nd (some vi)).1]
  have hprv : CodeObj2.w_node_extended_private_key P w nd = nodeExtendedPrivateKey P w nd := by
    unfold CodeObj2.w_node_extended_private_key nodeExtendedPrivateKey
    cases hp : nd.isPrv
    · simp
    · simp only [Bool.true_eq_false, ↓reduceIte, not_false_eq_true, Bool.not_eq_true]
      rw [← hv 0]
      cases CodeObj2.w_determine_node_version_int w nd 0 with
      | none => rfl
      | some ver =>
        simp only [Option.pure_def, Option.bind_eq_bind, Option.bind_some]
        cases Path.Version.toInt ver with
        | none => rfl
        | some vi => simp [(extended_keys_eq P nd (some vi)).2 hp]
  refine ⟨hv kt, hpub, hprv, ?_⟩
  unfold CodeObj2.w_node_extended_keys nodeExtendedKeys
  rw [hpub, hprv, (addresses_eq P w nd).1]
  cases w.watchOnly
  · simp only [Bool.false_eq_true, ↓reduceIte]
    cases nodeExtendedPrivateKey P w nd with
    | none => rfl
    | some prv => simp; cases nodeExtendedPublicKey P w nd <;> rfl
  · simp only [↓reduceIte]
    cases nodeExtendedPublicKey P w nd <;> rfl

end BtcHd.TrWallet
