/-
C03 — Seed and master key derivation.

"For every mnemonic string and passphrase, including arbitrary Unicode, the seed is
PBKDF2-HMAC-SHA512 (2048 rounds, 64 bytes) over the NFKD-normalised mnemonic with salt
"mnemonic" + NFKD(passphrase), and the master private key and chain code are the two halves
of HMAC-SHA512 keyed "Bitcoin seed" over that seed.  A wallet built from the mnemonic, from
the entropy that encodes it, from the seed as bytes or hex, or from the resulting master
extended private key holds the same master key material, and the network flag never changes
key material."

Property theorems only (helpers: `Lemmas/Seed.lean`).  `P.nfkd`, `P.pbkdf2`, `P.hmac512` are
parameters of the model (`unicodedata.normalize`, `hashlib.pbkdf2_hmac`, `hmac`), so every
statement holds for every instance of them; the output length of PBKDF2 (64 bytes) is a
property of that primitive and is not needed by any statement below.
-/
import BtcHd.Lemmas.Seed
import BtcHd.Lemmas.ToyBip85
import BtcHd.Props.C04
import BtcHd.Props.C07
import BtcHd.Props.C18

namespace BtcHd.C03
open BtcHd Bip32 Bip39 Wallet Text Keys

variable {Pt : Type}

/-! ### 1. the seed -/

/-- the constants of the source: 2048 rounds, salt prefix `mnemonic`, HMAC key `Bitcoin seed` -/
theorem constants : Generated.pbkdf2Rounds = 2048 ∧ Generated.saltPrefix = "mnemonic".toList ∧
    Generated.masterKeyHmacKey = utf8 "Bitcoin seed".toList := by
  refine ⟨by decide, by decide +kernel, by decide +kernel⟩

/-- the seed exactly as the code computes it: PBKDF2 (2048 rounds) with password
`UTF-8(NFKD(mnemonic))` and salt `UTF-8(NFKD("mnemonic") + NFKD(passphrase))`, for arbitrary
(Unicode) strings -/
theorem seed_spec_raw (P : Prims Pt) (m p : List Char) :
    seedFromMnemonic P m p =
      P.pbkdf2 (utf8 (P.nfkd m)) (utf8 (P.nfkd "mnemonic".toList ++ P.nfkd p)) 2048 := by
  unfold seedFromMnemonic
  rw [constants.1, constants.2.1]

/-- the seed, given that NFKD leaves the ASCII word `mnemonic` unchanged: PBKDF2 (2048 rounds)
over `UTF-8(NFKD(mnemonic))` with salt `"mnemonic" ‖ UTF-8(NFKD(passphrase))` -/
theorem seed_spec (P : Prims Pt) (hnf : P.nfkd "mnemonic".toList = "mnemonic".toList)
    (m p : List Char) :
    seedFromMnemonic P m p =
      P.pbkdf2 (utf8 (P.nfkd m)) (utf8 ("mnemonic".toList ++ P.nfkd p)) 2048 ∧
    utf8 ("mnemonic".toList ++ P.nfkd p) =
      [0x6d, 0x6e, 0x65, 0x6d, 0x6f, 0x6e, 0x69, 0x63] ++ utf8 (P.nfkd p) := by
  refine ⟨by rw [seed_spec_raw, hnf], ?_⟩
  rw [utf8_append]
  congr 1

example : Toy.prims.nfkd "mnemonic".toList = "mnemonic".toList := rfl

/-- with an empty passphrase the salt is the eight bytes of `mnemonic` (NFKD of the empty
string being empty) -/
theorem seed_no_passphrase (P : Prims Pt) (hnf : P.nfkd "mnemonic".toList = "mnemonic".toList)
    (hnil : P.nfkd [] = []) (m : List Char) :
    seedFromMnemonic P m [] =
      P.pbkdf2 (utf8 (P.nfkd m)) [0x6d, 0x6e, 0x65, 0x6d, 0x6f, 0x6e, 0x69, 0x63] 2048 := by
  rw [(seed_spec P hnf m []).1, (seed_spec P hnf m []).2, hnil]
  rfl

/-- UTF-8 sanity: ASCII text is encoded one byte per character (its code point); in general a
code point takes 1, 2, 3 or 4 bytes by range, and encoding distributes over concatenation -/
theorem utf8_sanity :
    (∀ s : List Char, (∀ c ∈ s, c.toNat < 128) → utf8 s = s.map fun c => UInt8.ofNat c.toNat) ∧
    (∀ c : Char, (utf8Char c).length =
      if c.toNat < 0x80 then 1 else if c.toNat < 0x800 then 2 else if c.toNat < 0x10000 then 3
      else 4) ∧
    (∀ a b : List Char, utf8 (a ++ b) = utf8 a ++ utf8 b) :=
  ⟨utf8_ascii, utf8Char_length, utf8_append⟩

/-- the encoder of the model is UTF-8 as defined by Lean's core library
(`String.utf8EncodeChar`), for every Unicode scalar value -/
theorem utf8_is_core_utf8 (s : List Char) : utf8 s = s.flatMap String.utf8EncodeChar := by
  unfold utf8
  congr 1
  funext c
  exact utf8Char_eq_core c

/-- UTF-8 on samples from each length class: `é` (U+00E9), `あ` (U+3042), `😀` (U+1F600) -/
example : utf8 [Char.ofNat 0xE9] = [0xC3, 0xA9] ∧ utf8 [Char.ofNat 0x3042] = [0xE3, 0x81, 0x82] ∧
    utf8 [Char.ofNat 0x1F600] = [0xF0, 0x9F, 0x98, 0x80] := by decide +kernel

/-! ### 2. the master key -/

/-- **master key**: with `I = HMAC-SHA512("Bitcoin seed", seed)` and `IL` its first 32 bytes as
an integer, `master_key` fails iff `IL = 0` or `IL ≥ n`, and otherwise returns the depth-0
private node with key `I[:32]` and chain code `I[32:]` -/
theorem master_spec (P : Prims Pt) (seed : Bytes) (t : Bool) :
    masterKey P seed t =
      if 1 ≤ beToNat ((P.hmac512 (utf8 "Bitcoin seed".toList) seed).take 32) ∧
          beToNat ((P.hmac512 (utf8 "Bitcoin seed".toList) seed).take 32) < P.curve.n then
        some { isPrv := true, key := (P.hmac512 (utf8 "Bitcoin seed".toList) seed).take 32,
               chainCode := (P.hmac512 (utf8 "Bitcoin seed".toList) seed).drop 32, depth := 0,
               index := 0, testnet := t, hasParent := false, parentFp := none, path := [],
               parsedVersion := none }
      else none := by
  rw [← constants.2.2, masterKey_def]
  split
  · next h0 => rw [if_neg (by omega)]
  · split
    · next h1 => rw [if_neg (by omega)]
    · next h0 h1 => rw [if_pos ⟨by omega, by omega⟩]

/-- the fields of a returned master node (restating `C18.master_valid` for the seed of a
mnemonic): key and chain code are the two halves of the HMAC output, the key is a valid scalar -/
theorem master_of_mnemonic (P : Prims Pt) (mn pw : List Char) (t : Bool) (m : Node)
    (h : masterKey P (seedFromMnemonic P mn pw) t = some m) :
    m.key = (P.hmac512 Generated.masterKeyHmacKey (seedFromMnemonic P mn pw)).take 32 ∧
    m.chainCode = (P.hmac512 Generated.masterKeyHmacKey (seedFromMnemonic P mn pw)).drop 32 ∧
    1 ≤ beToNat m.key ∧ beToNat m.key < P.curve.n ∧ m.depth = 0 ∧ m.index = 0 ∧
    m.isPrv = true ∧ m.testnet = t := by
  obtain ⟨h1, h2, h3, h4, h5, h6, h7, h8⟩ := C18.master_valid P _ t m h
  exact ⟨h3, h4, h1, h2, h5, h6, h8, h7⟩

/-! ### 3. the constructors agree -/

/-- `from_mnemonic` is `from_seed_bytes` on the seed, remembering mnemonic and passphrase -/
theorem fromMnemonic_eq (P : Prims Pt) (mn pw : List Char) (t : Bool) :
    fromMnemonic P mn pw t =
      (fromSeedBytes P (seedFromMnemonic P mn pw) t).map fun w =>
        { w with mnemonic := some mn, password := some pw } := rfl

/-- `from_seed_hex` on hex text decoding to `s` is `from_seed_bytes` on `s`; in particular on
`s.hex()` -/
theorem fromSeedHex_eq (P : Prims Pt) (s : Bytes) (t : Bool) :
    (∀ h, fromHex h = some s → fromSeedHex P h t = fromSeedBytes P s t) ∧
    fromSeedHex P (toHex s) t = fromSeedBytes P s t := by
  have key : ∀ h, fromHex h = some s → fromSeedHex P h t = fromSeedBytes P s t := by
    intro h hh
    unfold fromSeedHex
    rw [hh]; rfl
  exact ⟨key, key _ (C04.fromHex_toHex s)⟩

/-- `from_entropy_hex` is `mnemonic_from_entropy` followed by `from_mnemonic` -/
theorem fromEntropyHex_eq (P : Prims Pt) (e pw : List Char) (t : Bool) :
    fromEntropyHex P e pw t =
      (mnemonicFromEntropy P.sha256 e).bind fun mn => fromMnemonic P mn pw t := rfl

/-- **constructors agree**: for any mnemonic, passphrase and network, the wallets built from
the mnemonic, from its seed as bytes and from its seed as hex hold the identical master node
and network flag (all three fail together); the first differs from the others only in
remembering mnemonic and passphrase -/
theorem constructors_agree (P : Prims Pt) (mn pw : List Char) (t : Bool) :
    let seed := seedFromMnemonic P mn pw
    fromSeedHex P (toHex seed) t = fromSeedBytes P seed t ∧
    (fromMnemonic P mn pw t).map (·.master) = (fromSeedBytes P seed t).map (·.master) ∧
    (fromMnemonic P mn pw t).map (·.testnet) = (fromSeedBytes P seed t).map (·.testnet) ∧
    (fromSeedBytes P seed t).map (·.master) = masterKey P seed t ∧
    (∀ w, fromMnemonic P mn pw t = some w → w.mnemonic = some mn ∧ w.password = some pw) ∧
    (∀ w, fromSeedBytes P seed t = some w →
      w.mnemonic = none ∧ w.password = none ∧ w.testnet = t) := by
  intro seed
  refine ⟨(fromSeedHex_eq P seed t).2, ?_, ?_, ?_, ?_, ?_⟩
  · rw [fromMnemonic_eq]; cases fromSeedBytes P (seedFromMnemonic P mn pw) t <;> rfl
  · rw [fromMnemonic_eq]; cases fromSeedBytes P (seedFromMnemonic P mn pw) t <;> rfl
  · unfold fromSeedBytes; cases masterKey P seed t <;> rfl
  · intro w hw
    rw [fromMnemonic_eq] at hw
    obtain ⟨w', _, rfl⟩ := Option.map_eq_some_iff.mp hw
    exact ⟨rfl, rfl⟩
  · intro w hw
    unfold fromSeedBytes at hw
    obtain ⟨m, _, rfl⟩ := Option.map_eq_some_iff.mp hw
    exact ⟨rfl, rfl, rfl⟩

/-- **from the entropy that encodes the mnemonic**: if `mnemonic_from_entropy(e) = mn` then the
wallet built from the entropy hex `e` is the wallet built from `mn` -/
theorem fromEntropy_agrees (P : Prims Pt) (e mn pw : List Char) (t : Bool)
    (h : mnemonicFromEntropy P.sha256 e = some mn) :
    fromEntropyHex P e pw t = fromMnemonic P mn pw t := by
  rw [fromEntropyHex_eq, h]; rfl

/-- hex text that is not valid entropy builds no wallet -/
theorem fromEntropy_rejects (P : Prims Pt) (e pw : List Char) (t : Bool)
    (h : mnemonicFromEntropy P.sha256 e = none) : fromEntropyHex P e pw t = none := by
  rw [fromEntropyHex_eq, h]; rfl

example : ∃ e mn, mnemonicFromEntropy Toy.prims.sha256 e = some mn :=
  ⟨List.replicate 32 '0', _, (C04.mnemonic_spec Toy.prims.sha256 (fun _ => by simp [Toy.prims])
    (List.replicate 32 '0') (List.replicate 16 0) (by decide +kernel) (by decide)).choose_spec.choose_spec.2.1⟩

/-- **re-import of the master extended private key**: if `from_seed_bytes` built `w` and `x` is
the extended private key of its master node (default version for the wallet's network), then
`from_extended_key(x)` builds a private wallet on the same network whose master node equals
(`__eq__`) that of `w`: same scalar, chain code, depth, index, network and fingerprint -/
theorem xprv_reimport (P : Prims Pt) (hC : CurveLaws P.curve)
    (hlen : ∀ x, 4 ≤ (P.hash256 x).length) (hhmac : ∀ k d, (P.hmac512 k d).length = 64)
    (s : Bytes) (t : Bool) (w : Wallet) (x : List Char) (hw : fromSeedBytes P s t = some w)
    (hx : extendedPrivateKey P w.master none = some x) :
    ∃ w', fromExtendedKey P x = some w' ∧ nodeEq w'.master w.master = true ∧ w'.testnet = t ∧
      w'.master.isPrv = true ∧ w'.master.chainCode = w.master.chainCode ∧
      beToNat w'.master.key = beToNat w.master.key ∧ w'.mnemonic = none ∧ w'.password = none := by
  unfold fromSeedBytes at hw
  obtain ⟨m, hm, rfl⟩ := Option.map_eq_some_iff.mp hw
  simp only at hx ⊢
  have hwf : m.WF P := masterKey_WF hhmac hm
  obtain ⟨_, hvalid, hprv, htest⟩ := XKey.masterKey_shape hm
  unfold extendedPrivateKey at hx
  obtain ⟨ser, hser, rfl⟩ := Option.map_eq_some_iff.mp hx
  obtain ⟨k, _, _, _, _, he⟩ := XKey.serializePrivate_eq hC hwf hprv none (XKey.prvVersion_lt m)
  have hpre : ser.take 4 = beFixed 4 (prvVersion m) := by
    rw [he] at hser
    injection hser with hser
    rw [← hser]
    exact XKey.layout_take4 _ _ _
  have hver : Path.Version.parse (prvVersion m) = some ⟨0, 0, t⟩ := by
    unfold prvVersion
    rw [htest]
    cases t <;> decide
  have himp := C07.fromExtendedKey_encodeCheck P hlen ser (prvVersion m) (XKey.prvVersion_lt m)
    hpre ⟨0, 0, t⟩ hver
  obtain ⟨heq, _⟩ := C07.parse_serialize_prv hC hwf hvalid none ser hser
  rw [htest] at heq
  refine ⟨_, himp, heq, rfl, rfl, ?_, ?_, rfl, rfl⟩
  · simp only [nodeEq, decide_eq_true_eq, Bool.decide_and, Bool.and_eq_true] at heq
    exact heq.2.2.1
  · simp only [nodeEq, decide_eq_true_eq, Bool.decide_and, Bool.and_eq_true] at heq
    exact heq.2.1

/-- the hypotheses of `xprv_reimport` on the primitives are satisfiable -/
example : CurveLaws Toy.prims.curve ∧ (∀ x, 4 ≤ (Toy.prims.hash256 x).length) ∧
    (∀ k d, (Toy.prims.hmac512 k d).length = 64) :=
  ⟨Toy.laws, fun x => by rw [Toy.hash256_length]; decide, fun _ _ => by simp [Toy.prims]⟩

/-- … including the existence of a wallet and of its master xprv (toy curve of order 7 with a
constant HMAC whose halves are both 1) -/
example : CurveLaws Toy.prims7.curve ∧ (∀ x, 4 ≤ (Toy.prims7.hash256 x).length) ∧
    (∀ k d, (Toy.prims7.hmac512 k d).length = 64) ∧
    ∃ w x, fromSeedBytes Toy.prims7 [] true = some w ∧
      extendedPrivateKey Toy.prims7 w.master none = some x := by
  refine ⟨Toy.laws7, fun x => by rw [Toy.hash256_length7]; decide, fun _ _ => rfl, ?_⟩
  let m : Node :=
    { isPrv := true, key := Toy.hm7.take 32, chainCode := Toy.hm7.drop 32, depth := 0, index := 0,
      testnet := true, hasParent := false, parentFp := none, path := [], parsedVersion := none }
  have hm : masterKey Toy.prims7 [] true = some m := by decide +kernel
  have hx : (extendedPrivateKey Toy.prims7 m none).isSome = true := by decide +kernel
  obtain ⟨x, hx⟩ := Option.isSome_iff_exists.mp hx
  exact ⟨⟨m, true, none, none⟩, x, by unfold fromSeedBytes; rw [hm]; rfl, hx⟩

/-- the same for a wallet built from a mnemonic: exporting the master xprv and importing it
gives back a wallet with an equal master node on the same network -/
theorem xprv_reimport_mnemonic (P : Prims Pt) (hC : CurveLaws P.curve)
    (hlen : ∀ x, 4 ≤ (P.hash256 x).length) (hhmac : ∀ k d, (P.hmac512 k d).length = 64)
    (mn pw : List Char) (t : Bool) (w : Wallet) (x : List Char)
    (hw : fromMnemonic P mn pw t = some w)
    (hx : extendedPrivateKey P w.master none = some x) :
    ∃ w', fromExtendedKey P x = some w' ∧ nodeEq w'.master w.master = true ∧ w'.testnet = t ∧
      w'.master.isPrv = true := by
  rw [fromMnemonic_eq] at hw
  obtain ⟨w0, hw0, rfl⟩ := Option.map_eq_some_iff.mp hw
  obtain ⟨w', h1, h2, h3, h4, _⟩ := xprv_reimport P hC hlen hhmac _ t w0 x hw0 hx
  exact ⟨w', h1, h2, h3, h4⟩

/-! ### 4. the network flag never changes key material -/

/-- two nodes that differ at most in the network flag -/
def sameMaterial (a b : Node) : Prop :=
  a.key = b.key ∧ a.chainCode = b.chainCode ∧ a.depth = b.depth ∧ a.index = b.index ∧
  a.parentFp = b.parentFp ∧ a.isPrv = b.isPrv ∧ a.path = b.path ∧ a.hasParent = b.hasParent ∧
  a.parsedVersion = b.parsedVersion

/-- `sameMaterial a b` says exactly that `a` is `b` with the network flag replaced -/
theorem sameMaterial_iff (a b : Node) : sameMaterial a b ↔ a = setNet a.testnet b := by
  unfold sameMaterial setNet
  constructor
  · rintro ⟨h1, h2, h3, h4, h5, h6, h7, h8, h9⟩
    cases a; cases b
    simp only at h1 h2 h3 h4 h5 h6 h7 h8 h9
    subst h1 h2 h3 h4 h5 h6 h7 h8 h9
    rfl
  · intro h
    rw [h]
    exact ⟨rfl, rfl, rfl, rfl, rfl, rfl, rfl, rfl, rfl⟩

/-- **master**: the master nodes for the two networks are both errors or differ only in the
network flag — same key, same chain code -/
theorem network_irrelevant_master (P : Prims Pt) (s : Bytes) :
    masterKey P s true = (masterKey P s false).map (setNet true) ∧
    ((masterKey P s true).isSome = (masterKey P s false).isSome) ∧
    ∀ a b, masterKey P s true = some a → masterKey P s false = some b →
      sameMaterial a b ∧ a.key = b.key ∧ a.chainCode = b.chainCode := by
  have h := masterKey_setNet P s true false
  refine ⟨h, by rw [h]; cases masterKey P s false <;> rfl, fun a b ha hb => ?_⟩
  rw [hb] at h
  rw [h] at ha
  injection ha with ha
  subst ha
  exact ⟨⟨rfl, rfl, rfl, rfl, rfl, rfl, rfl, rfl, rfl⟩, rfl, rfl⟩

/-- **child derivation**: if two nodes differ only in the network flag, then `ckd` fails on
both or gives children that differ only in the network flag -/
theorem network_irrelevant_ckd (P : Prims Pt) (a b : Node) (i : Nat) (h : sameMaterial a b) :
    (ckd P a i = none ∧ ckd P b i = none) ∨
    ∃ ca cb, ckd P a i = some ca ∧ ckd P b i = some cb ∧ sameMaterial ca cb ∧
      ca.testnet = a.testnet ∧ cb.testnet = b.testnet := by
  rw [(sameMaterial_iff a b).mp h, ckd_setNet]
  cases hb : ckd P b i with
  | none => exact Or.inl ⟨rfl, rfl⟩
  | some cb =>
    exact Or.inr ⟨_, cb, rfl, rfl, ⟨rfl, rfl, rfl, rfl, rfl, rfl, rfl, rfl, rfl⟩, rfl,
      ckd_testnet hb⟩

/-- **whole paths**: deriving any list of indexes from two nodes that differ only in the
network flag fails on both or gives nodes that differ only in the network flag -/
theorem network_irrelevant_derivePath (P : Prims Pt) (a b : Node) (is : List Nat)
    (h : sameMaterial a b) :
    derivePath P a is = (derivePath P b is).map (setNet a.testnet) ∧
    ((derivePath P a is = none ∧ derivePath P b is = none) ∨
      ∃ ca cb, derivePath P a is = some ca ∧ derivePath P b is = some cb ∧ sameMaterial ca cb) := by
  have e : derivePath P a is = (derivePath P b is).map (setNet a.testnet) := by
    conv_lhs => rw [(sameMaterial_iff a b).mp h]
    exact derivePath_setNet P a.testnet b is
  refine ⟨e, ?_⟩
  rw [e]
  cases derivePath P b is with
  | none => exact Or.inl ⟨rfl, rfl⟩
  | some cb => exact Or.inr ⟨_, cb, rfl, rfl, ⟨rfl, rfl, rfl, rfl, rfl, rfl, rfl, rfl, rfl⟩⟩

/-- **wallets**: the mainnet and testnet wallets of one mnemonic and passphrase hold master
nodes with the same key and chain code, and so do all nodes derived from them by any path -/
theorem network_irrelevant_wallet (P : Prims Pt) (mn pw : List Char) (wt wf : Wallet)
    (ht : fromMnemonic P mn pw true = some wt) (hf : fromMnemonic P mn pw false = some wf) :
    sameMaterial wt.master wf.master ∧ wt.master.key = wf.master.key ∧
      wt.master.chainCode = wf.master.chainCode ∧
      ∀ is, derivePath P wt.master is = (derivePath P wf.master is).map (setNet true) := by
  have h1 := (constructors_agree P mn pw true).2
  have h2 := (constructors_agree P mn pw false).2
  simp only at h1 h2
  have ha : masterKey P (seedFromMnemonic P mn pw) true = some wt.master := by
    rw [← h1.2.2.1, ← h1.1, ht]; rfl
  have hb : masterKey P (seedFromMnemonic P mn pw) false = some wf.master := by
    rw [← h2.2.2.1, ← h2.1, hf]; rfl
  obtain ⟨hs, hk, hc⟩ := (network_irrelevant_master P _).2.2 _ _ ha hb
  refine ⟨hs, hk, hc, fun is => ?_⟩
  have := (network_irrelevant_derivePath P _ _ is hs).1
  have htn : wt.master.testnet = true := (C18.master_valid P _ _ _ ha).2.2.2.2.2.2.1
  rw [htn] at this
  exact this

example : sameMaterial (setNet true Toy.prvNode) Toy.prvNode :=
  ⟨rfl, rfl, rfl, rfl, rfl, rfl, rfl, rfl, rfl⟩

end BtcHd.C03
