/-
C17 — Path strings: format/parse round trip, marker equivalence, lookup by path is
iterated child derivation, malformed paths are rejected, and the depth clause
(known finding K1: components after the fifth are silently ignored).

Property theorems only (helper lemmas are in `Lemmas/Path.lean`).  The model
(`Model/Path.lean`, `Model/Text.lean`) mirrors `Bip32Path` in `wallet_utils.py`;
strings are `List Char`, a raised exception is `none`.
-/
import BtcHd.Lemmas.Path

namespace BtcHd.C17
open BtcHd Text Path Bip32

variable {Pt : Type}

/-! ### 1. decimal strings, `split` and `join` -/

/-- `int(str(n)) == n`, and `str(n)` passes the strict ASCII-digit check -/
theorem parseDec_natToDec (n : Nat) : Text.parseDec (natToDec n) = some n :=
  Text.parseDec_natToDec n

/-- `"/".join(parts).split("/") == parts` when no part contains a `/` -/
theorem splitOn_join {parts : List (List Char)} (hno : ∀ p ∈ parts, '/' ∉ p) (hne : parts ≠ []) :
    splitOn '/' (join ['/'] parts) = parts :=
  splitOn_join_sep hno hne

example : splitOn '/' (join ['/'] [['m'], ['4', '4', '\''], [], ['0']]) =
    [['m'], ['4', '4', '\''], [], ['0']] := by decide

/-- `"/".join(s.split("/")) == s` for every string, and no piece contains a `/` -/
theorem join_splitOn (s : List Char) :
    join ['/'] (splitOn '/' s) = s ∧ ∀ p ∈ splitOn '/' s, '/' ∉ p :=
  ⟨Text.join_splitOn '/' s, fun _ h => sep_not_mem_of_mem_splitOn h⟩

/-! ### 2. one component -/

/-- `convert_hardened(repr_hardened(i)) == i` for every index below 2^32 -/
theorem convertHardened_reprHardened {i : Nat} (hi : i < 2 ^ 32) :
    convertHardened (reprHardened i) = some i :=
  Path.convertHardened_reprHardened hi

example : convertHardened (reprHardened (2 ^ 31 + 44)) = some (2 ^ 31 + 44) :=
  convertHardened_reprHardened (by decide)

/-- exactly which components `convert_hardened` accepts, and with which value: a
non-empty ASCII-digit string below 2^31 followed by `'` or `h` (value + 2^31), or a
non-empty ASCII-digit string below 2^32 (its value) -/
theorem convertHardened_spec {c : List Char} {v : Nat} :
    convertHardened c = some v ↔
      (∃ d, (c = d ++ ['\''] ∨ c = d ++ ['h']) ∧ (d ≠ [] ∧ ∀ ch ∈ d, ch.isDigit = true)
          ∧ decVal d < 2 ^ 31 ∧ v = decVal d + 2 ^ 31)
      ∨ ((c ≠ [] ∧ ∀ ch ∈ c, ch.isDigit = true) ∧ decVal c < 2 ^ 32 ∧ v = decVal c) :=
  convertHardened_eq_some_iff

/-! ### 3./4. format and parse -/

/-- parsing the printed form of a path of at most five 32-bit levels gives the path back -/
theorem parse_format {p : Path.Path} (hlen : p.levels.length ≤ 5)
    (hr : ∀ i ∈ p.levels, i < 2 ^ 32) : Path.parse (Path.format p) = some p := by
  have hs : splitOn '/' (format p) =
      (if p.priv then ['m'] else ['M']) :: p.levels.map reprHardened := by
    unfold format
    refine splitOn_join_sep ?_ (by simp)
    intro x hx
    rcases List.mem_cons.mp hx with rfl | hx
    · cases p.priv <;> decide
    · obtain ⟨i, _, rfl⟩ := List.mem_map.mp hx
      exact slash_not_mem_reprHardened i
  rw [parse_of_splitOn hs, parseParts_eq_some_iff]
  refine ⟨?_, ?_, hlen, ?_, ?_⟩
  · cases p.priv <;> simp
  · cases p.priv <;> decide
  · rw [List.take_of_length_le (by simp), List.map_map]
    apply List.map_congr_left
    intro i hi
    exact Path.convertHardened_reprHardened (hr i hi)
  · intro c hc
    rw [List.drop_of_length_le (by simp; omega)] at hc
    cases hc

example : Path.parse (Path.format ⟨[2 ^ 31 + 84, 2 ^ 31, 2 ^ 31, 0, 7], true⟩) =
    some ⟨[2 ^ 31 + 84, 2 ^ 31, 2 ^ 31, 0, 7], true⟩ :=
  parse_format (by decide) (by decide)

-- both hypotheses of `parse_format` are needed: a level 2^32 prints as `2147483648'`,
-- which is out of range; a sixth level is printed but dropped when reading back (K1)
example : Path.parse (Path.format ⟨[2 ^ 32], true⟩) = none := by decide
example : Path.parse (Path.format ⟨[0, 0, 0, 0, 0, 7], true⟩) = some ⟨[0, 0, 0, 0, 0], true⟩ := by
  decide

/-- exact description of the strings `parse` accepts and of its result: the first
piece is `m` or `M` (which fixes `priv`), the levels are at most five, they are the
conversions of the first components in order, and every further component among the
first five is empty -/
theorem parse_iff {s : List Char} {p : Path.Path} :
    Path.parse s = some p ↔
      ∃ root comps, splitOn '/' s = root :: comps ∧ (root = ['m'] ∨ root = ['M']) ∧
        p.priv = decide (root = ['m']) ∧ p.levels.length ≤ 5 ∧
        (comps.take p.levels.length).map convertHardened = p.levels.map some ∧
        ∀ c ∈ (comps.take 5).drop p.levels.length, c = [] := by
  constructor
  · intro h
    cases hs : splitOn '/' s with
    | nil => exact absurd hs (splitOn_ne_nil _ _)
    | cons root comps =>
      rw [parse_of_splitOn hs] at h
      exact ⟨root, comps, rfl, parseParts_eq_some_iff.mp h⟩
  · rintro ⟨root, comps, hs, h⟩
    rw [parse_of_splitOn hs]
    exact parseParts_eq_some_iff.mpr h

/-- a parsed path has at most five levels, each below 2^32 -/
theorem parse_levels_bound {s : List Char} {p : Path.Path} (h : Path.parse s = some p) :
    p.levels.length ≤ 5 ∧ ∀ i ∈ p.levels, i < 2 ^ 32 := by
  obtain ⟨root, comps, hs, hp⟩ := parse_iff.mp h
  refine ⟨hp.2.2.1, fun i hi => ?_⟩
  rw [parse_of_splitOn hs] at h
  obtain ⟨c, _, hc⟩ := parseParts_some_level h hi
  exact convertHardened_lt hc

/-- whatever `parse` returns prints to a string that parses to the same path -/
theorem format_parse {s : List Char} {p : Path.Path} (h : Path.parse s = some p) :
    Path.parse (Path.format p) = some p :=
  parse_format (parse_levels_bound h).1 (parse_levels_bound h).2

example : Path.parse ['M', '/', '4', '9', 'h', '/', '1', '\'', '/'] =
    some ⟨[2 ^ 31 + 49, 2 ^ 31 + 1], false⟩ := by decide

/-! ### 5. the two hardened markers -/

/-- on one component a final `h` and a final `'` mean the same -/
theorem marker_equiv_component (d : List Char) :
    convertHardened (d ++ ['h']) = convertHardened (d ++ ['\'']) :=
  convertHardened_h_eq_tick d

/-- on whole path strings: respelling the final hardened marker (`h` or `'`) of any of
the components does not change the result of `parse` (be it a path or an error) -/
theorem marker_equiv (root : List Char) {comps comps' : List (List Char)}
    (hrel : List.Forall₂ (fun c c' => c = c' ∨ ∃ d, (c = d ++ ['h'] ∨ c = d ++ ['\''])
      ∧ (c' = d ++ ['h'] ∨ c' = d ++ ['\''])) comps comps')
    (hroot : '/' ∉ root) (hno : ∀ c ∈ comps, '/' ∉ c) :
    Path.parse (join ['/'] (root :: comps)) = Path.parse (join ['/'] (root :: comps')) := by
  have hrel' : List.Forall₂ SameUpToMarker comps comps' := hrel
  have hno' := forall₂_slash hrel' hno
  have h1 : splitOn '/' (join ['/'] (root :: comps)) = root :: comps :=
    splitOn_join_sep (by intro x hx; rcases List.mem_cons.mp hx with rfl | hx
                         exacts [hroot, hno x hx]) (by simp)
  have h2 : splitOn '/' (join ['/'] (root :: comps')) = root :: comps' :=
    splitOn_join_sep (by intro x hx; rcases List.mem_cons.mp hx with rfl | hx
                         exacts [hroot, hno' x hx]) (by simp)
  rw [parse_of_splitOn h1, parse_of_splitOn h2]
  exact parseParts_congr hrel' root

/-- all components spelled with `h` against all spelled with `'` -/
theorem marker_equiv_all (root : List Char) (ds : List (List Char))
    (hroot : '/' ∉ root) (hno : ∀ d ∈ ds, '/' ∉ d) :
    Path.parse (join ['/'] (root :: ds.map (· ++ ['h']))) =
      Path.parse (join ['/'] (root :: ds.map (· ++ ['\'']))) := by
  refine marker_equiv root ?_ hroot ?_
  · induction ds with
    | nil => exact .nil
    | cons d ds ih =>
      exact .cons (Or.inr ⟨d, Or.inl rfl, Or.inr rfl⟩)
        (ih fun x hx => hno x (List.mem_cons_of_mem _ hx))
  · intro c hc
    obtain ⟨d, hd, rfl⟩ := List.mem_map.mp hc
    simpa using hno d hd

example : Path.parse ['m', '/', '4', '4', 'h', '/', '0', 'h', '/', '5'] =
    Path.parse ['m', '/', '4', '4', '\'', '/', '0', 'h', '/', '5'] :=
  marker_equiv ['m'] (comps := [['4', '4', 'h'], ['0', 'h'], ['5']])
    (comps' := [['4', '4', '\''], ['0', 'h'], ['5']])
    (.cons (Or.inr ⟨['4', '4'], Or.inl rfl, Or.inr rfl⟩)
      (.cons (Or.inl rfl) (.cons (Or.inl rfl) .nil)))
    (by decide) (by decide)

/-! ### 6. soundness of `parse` and the rejection clauses -/

/-- what a successful parse means: the root piece is `m`/`M` and fixes `priv`; the
first `p.levels.length` components convert, in order, to the levels; every remaining
component among the first five is empty -/
theorem parse_sound {s : List Char} {p : Path.Path} (h : Path.parse s = some p) :
    ∃ root comps, splitOn '/' s = root :: comps ∧ (root = ['m'] ∨ root = ['M']) ∧
      p.priv = decide (root = ['m']) ∧
      (comps.take p.levels.length).map convertHardened = p.levels.map some ∧
      ∀ c ∈ (comps.take 5).drop p.levels.length, c = [] := by
  obtain ⟨root, comps, hs, hr, hp, _, h1, h2⟩ := parse_iff.mp h
  exact ⟨root, comps, hs, hr, hp, h1, h2⟩

/-- wrong root marker: if the first piece is neither `m` nor `M`, `parse` raises -/
theorem parse_rejects_wrong_root {s : List Char}
    (h1 : (splitOn '/' s).head? ≠ some ['m']) (h2 : (splitOn '/' s).head? ≠ some ['M']) :
    Path.parse s = none := by
  cases hp : Path.parse s with
  | none => rfl
  | some p =>
    obtain ⟨root, comps, hs, hr, _⟩ := parse_iff.mp hp
    rw [hs] at h1 h2
    rcases hr with rfl | rfl
    · exact absurd rfl h1
    · exact absurd rfl h2

example : Path.parse ['x', '/', '0'] = none := parse_rejects_wrong_root (by decide) (by decide)
example : Path.parse [] = none := parse_rejects_wrong_root (by decide) (by decide)
example : Path.parse ['/', 'm', '/', '0'] = none :=
  parse_rejects_wrong_root (by decide) (by decide)

/-- non-decimal component: if some non-empty component `c` among the first five is not
a non-empty string of ASCII digits, neither as it stands nor after dropping one final
`'` or `h`, then `parse` raises -/
theorem parse_rejects_nondecimal {s root c : List Char} {comps : List (List Char)}
    (hs : splitOn '/' s = root :: comps) (hc : c ∈ comps.take 5) (hne : c ≠ [])
    (hbad : ∀ d, (c = d ∨ c = d ++ ['\''] ∨ c = d ++ ['h']) →
      ¬ (d ≠ [] ∧ ∀ ch ∈ d, ch.isDigit = true)) :
    Path.parse s = none := by
  cases hp : Path.parse s with
  | none => rfl
  | some p =>
    exfalso
    rw [parse_of_splitOn hs] at hp
    rcases parseParts_some_mem hp hc with rfl | ⟨v, _, hv⟩
    · exact hne rfl
    · rcases convertHardened_eq_some_iff.mp hv with ⟨d, hd, hdec, _⟩ | ⟨hdec, _⟩
      · exact hbad d (Or.inr hd) hdec
      · exact hbad c (Or.inl rfl) hdec

example : Path.parse ['m', '/', '4', '4', '\'', '/', '0', 'x', '0'] = none :=
  parse_rejects_nondecimal (root := ['m']) (comps := [['4', '4', '\''], ['0', 'x', '0']])
    (c := ['0', 'x', '0']) (by decide) (by decide) (by decide) (by
    intro d hd
    rcases hd with rfl | hd | hd
    · exact fun h => absurd (h.2 'x' (by decide)) (by decide)
    · exact absurd (congrArg List.getLast? hd) (by simp)
    · exact absurd (congrArg List.getLast? hd) (by simp))

/-- empty inner component: an empty component followed (within the first five) by a
non-empty one makes `parse` raise -/
theorem parse_rejects_empty_inner {s root c : List Char} {comps : List (List Char)} {i j : Nat}
    (hs : splitOn '/' s = root :: comps) (hij : i < j) (hj : j < 5)
    (hi : comps[i]? = some []) (hc : comps[j]? = some c) (hne : c ≠ []) :
    Path.parse s = none := by
  cases hp : Path.parse s with
  | none => rfl
  | some p =>
    exfalso
    rw [parse_of_splitOn hs] at hp
    obtain ⟨_, _, hlen, h1, h2⟩ := parseParts_eq_some_iff.mp hp
    by_cases hin : i < p.levels.length
    · have := congrArg (·[i]?) h1
      simp only [List.getElem?_map, List.getElem?_take, hin, if_true, hi, Option.map_some,
        convertHardened_nil] at this
      cases hl : p.levels[i]? with
      | none => rw [hl] at this; cases this
      | some v => rw [hl] at this; cases this
    · apply hne
      apply h2
      rw [List.mem_iff_getElem?]
      refine ⟨j - p.levels.length, ?_⟩
      rw [List.getElem?_drop, List.getElem?_take,
        show p.levels.length + (j - p.levels.length) = j by omega, if_pos hj, hc]

example : Path.parse ['m', '/', '4', '4', '\'', '/', '/', '0'] = none :=
  parse_rejects_empty_inner (root := ['m']) (comps := [['4', '4', '\''], [], ['0']])
    (i := 1) (j := 2) (c := ['0']) (by decide) (by decide) (by decide)
    (by decide) (by decide) (by decide)

/-- out of range: a component among the first five that is unmarked with decimal value
≥ 2^32, or marked (`'`/`h`) with decimal value ≥ 2^31, makes `parse` raise -/
theorem parse_rejects_out_of_range {s root c : List Char} {comps : List (List Char)}
    (hs : splitOn '/' s = root :: comps) (hc : c ∈ comps.take 5)
    (hbig : (c.getLast? ≠ some '\'' ∧ c.getLast? ≠ some 'h' ∧ 2 ^ 32 ≤ decVal c) ∨
      ∃ d, (c = d ++ ['\''] ∨ c = d ++ ['h']) ∧ 2 ^ 31 ≤ decVal d) :
    Path.parse s = none := by
  cases hp : Path.parse s with
  | none => rfl
  | some p =>
    exfalso
    rw [parse_of_splitOn hs] at hp
    rcases parseParts_some_mem hp hc with rfl | ⟨v, _, hv⟩
    · rcases hbig with ⟨_, _, h⟩ | ⟨d, hd, _⟩
      · exact absurd h (by decide)
      · rcases hd with hd | hd <;> simp at hd
    · rcases convertHardened_eq_some_iff.mp hv with ⟨d, hd, _, hlt, _⟩ | ⟨hdec, hlt, _⟩
      · rcases hbig with ⟨h1, h2, _⟩ | ⟨d', hd', hge⟩
        · rcases hd with rfl | rfl
          · exact h1 (by simp)
          · exact h2 (by simp)
        · have : d = d' := by
            rcases hd with rfl | rfl <;> rcases hd' with e | e <;>
              exact (List.append_inj' e rfl).1
          subst this; omega
      · rcases hbig with ⟨_, _, hge⟩ | ⟨d', hd', _⟩
        · omega
        · rcases hd' with rfl | rfl
          · exact hdec.not_mem (c := '\'') (by decide) (by simp)
          · exact hdec.not_mem (c := 'h') (by decide) (by simp)

example : Path.parse ['m', '/', '4', '2', '9', '4', '9', '6', '7', '2', '9', '6'] = none :=
  parse_rejects_out_of_range (root := ['m'])
    (comps := [['4', '2', '9', '4', '9', '6', '7', '2', '9', '6']])
    (c := ['4', '2', '9', '4', '9', '6', '7', '2', '9', '6'])
    (by decide) (by decide) (Or.inl (by decide))

example : Path.parse ['m', '/', '2', '1', '4', '7', '4', '8', '3', '6', '4', '8', 'h'] = none :=
  parse_rejects_out_of_range (root := ['m'])
    (comps := [['2', '1', '4', '7', '4', '8', '3', '6', '4', '8', 'h']])
    (c := ['2', '1', '4', '7', '4', '8', '3', '6', '4', '8', 'h'])
    (by decide) (by decide)
    (Or.inr ⟨['2', '1', '4', '7', '4', '8', '3', '6', '4', '8'], Or.inr rfl, by decide⟩)

/-! ### 7. lookup by path string is iterated child derivation -/

/-- `by_path(s)` parses `s` and derives the parsed levels from the master node -/
theorem byPath_fold (P : Prims Pt) (w : Wallet.Wallet) (s : List Char) :
    Wallet.byPath P w s = (Path.parse s).bind fun p => Bip32.derivePath P w.master p.levels :=
  rfl

/-- `derive_path` of a non-empty list: one `ckd`, then the rest from the child -/
theorem derivePath_cons (P : Prims Pt) (nd : Node) (i : Nat) (is : List Nat) :
    derivePath P nd (i :: is) = (ckd P nd i).bind (derivePath P · is) :=
  rfl

/-- `derive_path` of a concatenation is `derive_path` twice -/
theorem derivePath_append (P : Prims Pt) (nd : Node) (a b : List Nat) :
    derivePath P nd (a ++ b) = (derivePath P nd a).bind (derivePath P · b) :=
  Bip32.derivePath_append P nd a b

/-- `derive_path` applies `ckd` to each index in order (a monadic left fold) -/
theorem derivePath_eq_foldlM (P : Prims Pt) (nd : Node) (is : List Nat) :
    derivePath P nd is = is.foldlM (ckd P) nd :=
  Bip32.derivePath_eq_foldlM P nd is

/-- `by_path(s)` is `ckd` applied to each parsed level in order from the master node, and
it raises whenever `parse` raises (no key is derived from a rejected string) -/
theorem byPath_eq_foldlM (P : Prims Pt) (w : Wallet.Wallet) (s : List Char) :
    (∀ p, Path.parse s = some p → Wallet.byPath P w s = p.levels.foldlM (ckd P) w.master) ∧
    (Path.parse s = none → Wallet.byPath P w s = none) := by
  refine ⟨fun p hp => ?_, fun hn => ?_⟩
  · rw [byPath_fold, hp, Option.bind_some, derivePath_eq_foldlM]
  · rw [byPath_fold, hn, Option.bind_none]

/-- lookup by a well-formed path string: if the root is `m`/`M` and the (at most five)
components convert to the indexes `is`, then `by_path` is `ckd` applied to each of the
`is` in order, starting from the master node -/
theorem byPath_join (P : Prims Pt) (w : Wallet.Wallet) {root : List Char}
    {comps : List (List Char)} {is : List Nat} (hroot : root = ['m'] ∨ root = ['M'])
    (hlen : comps.length ≤ 5) (hconv : comps.map convertHardened = is.map some) :
    Wallet.byPath P w (join ['/'] (root :: comps)) = is.foldlM (ckd P) w.master := by
  have hl : is.length = comps.length := by
    have := congrArg List.length hconv; simpa using this.symm
  have hs : splitOn '/' (join ['/'] (root :: comps)) = root :: comps := by
    refine splitOn_join_sep ?_ (by simp)
    intro x hx
    rcases List.mem_cons.mp hx with rfl | hx
    · rcases hroot with rfl | rfl <;> decide
    · have : convertHardened x ∈ is.map some := by
        rw [← hconv]; exact List.mem_map_of_mem hx
      obtain ⟨v, _, e⟩ := List.mem_map.mp this
      exact slash_not_mem_of_convertHardened e.symm
  have hp : Path.parse (join ['/'] (root :: comps)) = some ⟨is, decide (root = ['m'])⟩ := by
    refine parse_iff.mpr ⟨root, comps, hs, hroot, rfl, by simp only; omega, ?_, ?_⟩
    · simp only [hl, List.take_length]; exact hconv
    · intro c hc
      rw [List.drop_of_length_le (by simp only [List.length_take]; omega)] at hc
      cases hc
  rw [byPath_fold, hp, Option.bind_some, derivePath_eq_foldlM]

example (P : Prims Pt) (w : Wallet.Wallet) :
    Wallet.byPath P w ['m', '/', '8', '4', '\'', '/', '0', 'h', '/', '7'] =
      [2 ^ 31 + 84, 2 ^ 31, 7].foldlM (ckd P) w.master :=
  byPath_join P w (root := ['m']) (comps := [['8', '4', '\''], ['0', 'h'], ['7']])
    (Or.inl rfl) (by decide) (by decide)

/-- the derived node keeps the class of the start node and its path is extended by the
indexes, so it prints as the start mark followed by the printed indexes -/
theorem nodeRepr_derive_general {P : Prims Pt} {nd c : Node} {is : List Nat}
    (h : derivePath P nd is = some c) :
    nodeRepr c = Text.join ['/']
      ((if nd.isPrv then ['m'] else ['M']) :: (nd.path ++ is).map reprHardened) := by
  obtain ⟨h1, h2⟩ := derivePath_fields h
  unfold nodeRepr
  rw [h1, h2, prvMark_eq, pubMark_eq]

/-- a node derived from a root object prints as its mark and the printed indexes -/
theorem nodeRepr_derive {P : Prims Pt} {nd c : Node} {is : List Nat}
    (h : derivePath P nd is = some c) (hroot : nd.path = []) :
    nodeRepr c = Text.join ['/'] ((if nd.isPrv then ['m'] else ['M']) :: is.map reprHardened) := by
  rw [nodeRepr_derive_general h, hroot, List.nil_append]

example (P : Prims Pt) (nd : Node) (hroot : nd.path = []) (hprv : nd.isPrv = true) :
    nodeRepr nd = ['m'] := by
  have := nodeRepr_derive (P := P) (nd := nd) (c := nd) (is := []) rfl hroot
  rw [hprv] at this; exact this

/-- the node found by `by_path(s)` prints as the canonical form of the parsed path
(with the mark of the wallet's master node) -/
theorem nodeRepr_byPath {P : Prims Pt} {w : Wallet.Wallet} {s : List Char} {p : Path.Path}
    {c : Node} (hp : Path.parse s = some p) (h : Wallet.byPath P w s = some c)
    (hroot : w.master.path = []) :
    nodeRepr c = Path.format ⟨p.levels, w.master.isPrv⟩ := by
  rw [byPath_fold, hp, Option.bind_some] at h
  rw [nodeRepr_derive h hroot]
  rfl

/-! ### 8. the depth clause (known finding K1) -/

/-- K1: the depth clause is false for the code as it is.  `"m/0/0/0/0/0/7"` has six
components but parses to the five-level path `m/0/0/0/0/0`: the sixth component is
silently dropped. -/
theorem parse_deep_fails :
    ∃ s p, Path.parse s = some p ∧
      ((splitOn '/' s).tail.filter (fun c => c ≠ [])).length > p.levels.length :=
  ⟨['m', '/', '0', '/', '0', '/', '0', '/', '0', '/', '0', '/', '7'], ⟨[0, 0, 0, 0, 0], true⟩,
    by decide, by decide⟩

/-- K1 in general: `parse` never looks past the fifth component; two strings with the
same root and the same first five components get the same result -/
theorem parse_depends_on_first_five {s s' root : List Char} {comps comps' : List (List Char)}
    (hs : splitOn '/' s = root :: comps) (hs' : splitOn '/' s' = root :: comps')
    (h5 : comps.take 5 = comps'.take 5) : Path.parse s = Path.parse s' := by
  rw [parse_of_splitOn hs, parse_of_splitOn hs', ← parseParts_take root comps,
    ← parseParts_take root comps', h5]

example : Path.parse ['m', '/', '0', '/', '0', '/', '0', '/', '0', '/', '0', '/', '7'] =
    Path.parse ['m', '/', '0', '/', '0', '/', '0', '/', '0', '/', '0', '/', '9', '/', 'x'] :=
  parse_depends_on_first_five (root := ['m'])
    (comps := [['0'], ['0'], ['0'], ['0'], ['0'], ['7']])
    (comps' := [['0'], ['0'], ['0'], ['0'], ['0'], ['9'], ['x']]) (by decide) (by decide) (by decide)

/-- Full statement (false, see `parse_deep_fails`): "if `parse s = some p` then
`p.levels.length` is the number of non-empty components of `s`", i.e. paths deeper than
five levels are honoured in full or rejected.  Proved here under the extra hypothesis
that `s` has at most five components (at most six pieces). -/
theorem parse_honours_all_partial {s : List Char} {p : Path.Path}
    (hlen : (splitOn '/' s).length ≤ 6) (h : Path.parse s = some p) :
    p.levels.length = ((splitOn '/' s).tail.filter (fun c => c ≠ [])).length := by
  obtain ⟨root, comps, hs, _, _, _, h1, h2⟩ := parse_iff.mp h
  rw [hs] at hlen ⊢
  simp only [List.length_cons] at hlen
  rw [List.tail_cons]
  rw [List.take_of_length_le (by omega : comps.length ≤ 5)] at h2
  have hn : p.levels.length ≤ comps.length := by
    have := congrArg List.length h1
    simp only [List.length_map, List.length_take] at this
    omega
  conv_rhs => rw [← List.take_append_drop p.levels.length comps]
  rw [List.filter_append, List.length_append]
  have hA : (comps.take p.levels.length).filter (fun c => c ≠ []) = comps.take p.levels.length := by
    rw [List.filter_eq_self]
    intro c hc
    have : convertHardened c ∈ p.levels.map some := by
      rw [← h1]; exact List.mem_map_of_mem hc
    obtain ⟨v, _, e⟩ := List.mem_map.mp this
    simpa using convertHardened_ne_nil e.symm
  have hB : (comps.drop p.levels.length).filter (fun c => c ≠ []) = [] := by
    rw [List.filter_eq_nil_iff]
    intro c hc
    simpa using h2 c hc
  rw [hA, hB, List.length_take, List.length_nil, Nat.add_zero, Nat.min_eq_left hn]

example : (splitOn '/' ['m', '/', '0', '/', '1', 'h', '/']).length ≤ 6 ∧
    Path.parse ['m', '/', '0', '/', '1', 'h', '/'] = some ⟨[0, 2 ^ 31 + 1], true⟩ := by decide

end BtcHd.C17
