/-
RealInst.C07 — the theorems of C07 that carry curve hypotheses (`CurveLaws`, `C02.GroupLaws`) or hash-length
hypotheses, INSTANTIATED at the concrete primitives the driver runs (`vPrims nfkd`: the Lean SHA-256 /
HMAC-SHA512 / PBKDF2 and the secp256k1 of `Prims/Secp256k1.lean` on its valid points).  Every hypothesis about
the primitives is discharged by a theorem (`RealCurve.real_curveLaws`, `RealCurve.real_groupLaws`,
`Real.sha256_length`, `Real.hmacSha512_length`); what remains is the well-formedness of the node and the
property's own premises.  These are statements about the very functions whose outputs the correspondence run
compares with CPython / OpenSSL / python-ecdsa on every case (`RealCurve.vCurve_agrees`, `RealCurve.raw_agrees`).
-/
import BtcHd.Props.RealInst.Common
import BtcHd.Props.C07

namespace BtcHd.RealInst
open BtcHd BtcHd.Real.Secp Bip32 XKey Keys Wallet Path

variable (nfkd : List Char → List Char)

/-! ### C07 — extended keys round-trip (no curve hypothesis left) -/

theorem real_serialize_length_private {nd : Node} (hwf : nd.WF (RP nfkd)) (hprv : nd.isPrv = true)
    (version : Option Nat) (hv : version.getD (prvVersion nd) < 2 ^ 32) :
    ∃ ser, serializePrivate (RP nfkd) nd version = some ser ∧ ser.length = 78 :=
  C07.serialize_length_private RealCurve.real_curveLaws hwf hprv version hv

theorem real_serialize_length_public {nd : Node} (hwf : nd.WF (RP nfkd))
    (version : Option Nat) (hv : version.getD (pubVersion nd) < 2 ^ 32) :
    ∃ ser, serializePublic (RP nfkd) nd version = some ser ∧ ser.length = 78 :=
  C07.serialize_length_public RealCurve.real_curveLaws hwf version hv

theorem real_xprv_roundtrip {nd : Node} (hwf : nd.WF (RP nfkd)) (hvalid : BIP32valid nd)
    (version : Option Nat) (s : List Char)
    (hs : extendedPrivateKey (RP nfkd) nd version = some s) :
    ∃ nd', parseStr (RP nfkd) true nd.testnet s = some nd' ∧ nodeEq nd' nd = true ∧
      nd'.parsedVersion = some (version.getD (prvVersion nd)) ∧
      extendedPrivateKey (RP nfkd) nd' version = some s ∧
      (version.getD (prvVersion nd) ∈ allVersions → s.length = 111) :=
  C07.xprv_roundtrip RealCurve.real_curveLaws (hash256_len nfkd) hwf hvalid version s hs

theorem real_xpub_roundtrip {nd : Node} (hwf : nd.WF (RP nfkd)) (hvalid : BIP32valid nd)
    (version : Option Nat) (s : List Char)
    (hs : extendedPublicKey (RP nfkd) nd version = some s) :
    ∃ nd', parseStr (RP nfkd) false nd.testnet s = some nd' ∧
      (∃ nn, neuter (RP nfkd) nd = some nn ∧ nodeEq nd' nn = true) ∧
      (nd.isPrv = false → nodeEq nd' nd = true) ∧
      nd'.parsedVersion = some (version.getD (pubVersion nd)) ∧
      extendedPublicKey (RP nfkd) nd' version = some s ∧
      (version.getD (pubVersion nd) ∈ allVersions → s.length = 111) :=
  C07.xpub_roundtrip RealCurve.real_curveLaws (hash256_len nfkd) hwf hvalid version s hs

theorem real_parse_serialize_prv_iff {nd : Node} (hwf : nd.WF (RP nfkd)) (version : Option Nat)
    (ser : Bytes) (hs : serializePrivate (RP nfkd) nd version = some ser) :
    nodeEq (parseBytes true nd.testnet ser) nd = true ↔
      (isMaster nd = true → parentFingerprint nd = [0, 0, 0, 0]) :=
  C07.parse_serialize_prv_iff RealCurve.real_curveLaws hwf version ser hs

theorem real_reserialize_prv {nd : Node} (hwf : nd.WF (RP nfkd)) (hvalid : BIP32valid nd)
    (version : Option Nat) (ser : Bytes) (hs : serializePrivate (RP nfkd) nd version = some ser) :
    serializePrivate (RP nfkd) (parseBytes true nd.testnet ser) version = some ser ∧
      (parseBytes true nd.testnet ser).WF (RP nfkd) ∧ BIP32valid (parseBytes true nd.testnet ser) :=
  C07.reserialize_prv RealCurve.real_curveLaws hwf hvalid version ser hs

theorem real_reserialize_pub {nd : Node} (hwf : nd.WF (RP nfkd)) (hvalid : BIP32valid nd)
    (version : Option Nat) (ser : Bytes) (hs : serializePublic (RP nfkd) nd version = some ser) :
    serializePublic (RP nfkd) (parseBytes false nd.testnet ser) version = some ser ∧
      (parseBytes false nd.testnet ser).WF (RP nfkd) ∧ BIP32valid (parseBytes false nd.testnet ser) :=
  C07.reserialize_pub RealCurve.real_curveLaws hwf hvalid version ser hs

theorem real_public_factors {nd : Node} {k : Nat} (hprv : nd.isPrv = true)
    (hk : prvKey (RP nfkd) nd = some k) (version : Option Nat) :
    serializePublic (RP nfkd) nd version
        = serializeWith nd (vCurve.sec true (vCurve.mulGen k)) (version.getD (pubVersion nd)) ∧
      ∃ nn, neuter (RP nfkd) nd = some nn ∧ nn.isPrv = false ∧
        nn.key = vCurve.sec true (vCurve.mulGen k) ∧
        serializePublic (RP nfkd) nn version = serializePublic (RP nfkd) nd version :=
  C07.public_factors RealCurve.real_curveLaws hprv hk version

end BtcHd.RealInst
