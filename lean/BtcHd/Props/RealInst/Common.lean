/-
RealInst.Common — the hash-length facts of the concrete primitives (`vPrims nfkd`), shared by the
per-property instantiation files `Props/RealInst/Cxx.lean`.
-/
import BtcHd.Props.RealCurve

namespace BtcHd.RealInst
open BtcHd BtcHd.Real.Secp

variable (nfkd : List Char → List Char)

/-- the driver's primitives, on valid points -/
abbrev RP : Prims VPt := vPrims nfkd

theorem sha_len (x : Bytes) : ((RP nfkd).sha256 x).length = 32 := Real.sha256_length x

theorem hash256_len (x : Bytes) : 4 ≤ ((RP nfkd).hash256 x).length := by
  show 4 ≤ (Real.sha256 (Real.sha256 x)).length
  rw [Real.sha256_length]; decide

theorem hmac_len (k d : Bytes) : ((RP nfkd).hmac512 k d).length = 64 := Real.hmacSha512_length k d

end BtcHd.RealInst
