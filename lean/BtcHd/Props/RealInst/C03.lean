/-
RealInst.C03 — the theorems of C03 that carry curve hypotheses (`CurveLaws`, `C02.GroupLaws`) or hash-length
hypotheses, INSTANTIATED at the concrete primitives the driver runs (`vPrims nfkd`: the Lean SHA-256 /
HMAC-SHA512 / PBKDF2 and the secp256k1 of `Prims/Secp256k1.lean` on its valid points).  Every hypothesis about
the primitives is discharged by a theorem (`RealCurve.real_curveLaws`, `RealCurve.real_groupLaws`,
`Real.sha256_length`, `Real.hmacSha512_length`); what remains is the well-formedness of the node and the
property's own premises.  These are statements about the very functions whose outputs the correspondence run
compares with CPython / OpenSSL / python-ecdsa on every case (`RealCurve.vCurve_agrees`, `RealCurve.raw_agrees`).
-/
import BtcHd.Props.RealInst.Common
import BtcHd.Props.C03

namespace BtcHd.RealInst
open BtcHd BtcHd.Real.Secp Bip32 XKey Keys Wallet Path

variable (nfkd : List Char → List Char)

/-! ### C03 — re-import of the exported master key -/

theorem real_xprv_reimport (s : Bytes) (t : Bool) (w : Wallet) (x : List Char)
    (hw : fromSeedBytes (RP nfkd) s t = some w)
    (hx : extendedPrivateKey (RP nfkd) w.master none = some x) :
    ∃ w', fromExtendedKey (RP nfkd) x = some w' ∧ nodeEq w'.master w.master = true ∧
      w'.testnet = t ∧ w'.master.isPrv = true ∧ w'.master.chainCode = w.master.chainCode ∧
      beToNat w'.master.key = beToNat w.master.key ∧ w'.mnemonic = none ∧ w'.password = none :=
  C03.xprv_reimport (RP nfkd) RealCurve.real_curveLaws (hash256_len nfkd) (hmac_len nfkd) s t w x hw hx

theorem real_xprv_reimport_mnemonic (mn pw : List Char) (t : Bool) (w : Wallet) (x : List Char)
    (hw : fromMnemonic (RP nfkd) mn pw t = some w)
    (hx : extendedPrivateKey (RP nfkd) w.master none = some x) :
    ∃ w', fromExtendedKey (RP nfkd) x = some w' ∧ nodeEq w'.master w.master = true ∧
      w'.testnet = t ∧ w'.master.isPrv = true :=
  C03.xprv_reimport_mnemonic (RP nfkd) RealCurve.real_curveLaws (hash256_len nfkd) (hmac_len nfkd)
    mn pw t w x hw hx

end BtcHd.RealInst
