/-
RealInst.C14 — the theorems of C14 that carry curve hypotheses (`CurveLaws`, `C02.GroupLaws`) or hash-length
hypotheses, INSTANTIATED at the concrete primitives the driver runs (`vPrims nfkd`: the Lean SHA-256 /
HMAC-SHA512 / PBKDF2 and the secp256k1 of `Prims/Secp256k1.lean` on its valid points).  Every hypothesis about
the primitives is discharged by a theorem (`RealCurve.real_curveLaws`, `RealCurve.real_groupLaws`,
`Real.sha256_length`, `Real.hmacSha512_length`); what remains is the well-formedness of the node and the
property's own premises.  These are statements about the very functions whose outputs the correspondence run
compares with CPython / OpenSSL / python-ecdsa on every case (`RealCurve.vCurve_agrees`, `RealCurve.raw_agrees`).
-/
import BtcHd.Props.RealInst.Common
import BtcHd.Props.C14

namespace BtcHd.RealInst
open BtcHd BtcHd.Real.Secp Bip32 XKey Keys Wallet WatchOnly Path Script

variable (nfkd : List Char → List Char)

/-! ### C14 — watch-only wallets over the concrete primitives -/

theorem real_wo_no_scalar (c : Node) (hwf : c.WF (RP nfkd)) (hc : c.isPrv = false) :
    prvKey (RP nfkd) c = none :=
  C14.wo_no_scalar (RP nfkd) RealCurve.real_curveLaws c hwf hc

theorem real_wo_no_bip85_entropy (w : Wallet) (hw : w.watchOnly = true)
    (hwf : w.master.WF (RP nfkd)) :
    (∀ path, Bip85.entropy (RP nfkd) w.master path = none) ∧
      (∀ wc i, Bip85.bip39Mnemonic (RP nfkd) w.master wc i = none) ∧
      (∀ i, Bip85.wif (RP nfkd) w.master i = none) ∧ (∀ i, Bip85.xprv (RP nfkd) w.master i = none) ∧
      (∀ n i, Bip85.hex (RP nfkd) w.master n i = none) ∧
      (∀ n i, Bip85.pwd (RP nfkd) w.master n i = none) :=
  C14.wo_no_bip85_entropy (RP nfkd) RealCurve.real_curveLaws w hw hwf

theorem real_wo_public (N : Node) (k : Nat) (hp : N.isPrv = true)
    (hk : prvKey (RP nfkd) N = some k) (is : List Nat) (his : ∀ i ∈ is, i < 2 ^ 31)
    (hIL : NoZeroIL (RP nfkd) N is) :
    (derivePath (RP nfkd) N is).bind (C02.neuter (RP nfkd)) =
      (C02.neuter (RP nfkd) N).bind (derivePath (RP nfkd) · is) :=
  C14.wo_public (RP nfkd) (RealCurve.real_groupLaws nfkd) N k hp hk is his hIL

theorem real_wo_import_roundtrip (N : Node) (hwf : N.WF (RP nfkd)) (hvalid : BIP32valid N)
    (v : Nat) (hv : v ∈ publicVersions) (s : List Char)
    (hs : extendedPublicKey (RP nfkd) N (some v) = some s) :
    ∃ w nn, fromExtendedKey (RP nfkd) s = some w ∧ Bip32.neuter (RP nfkd) N = some nn ∧
      w.watchOnly = true ∧ w.testnet = decide (v ∈ testnetPublicVersions) ∧
      w.master.testnet = w.testnet ∧ w.mnemonic = none ∧ w.password = none ∧
      w.master.isPrv = false ∧ w.master.key = nn.key ∧ w.master.chainCode = nn.chainCode ∧
      w.master.depth = nn.depth ∧ w.master.index = nn.index ∧
      parentFingerprint w.master = parentFingerprint nn ∧
      nodeEq w.master { nn with testnet := w.testnet } = true ∧
      w.master.hasParent = false ∧ w.master.path = [] ∧ w.master.parsedVersion = some v ∧
      w.master.WF (RP nfkd) ∧ BIP32valid w.master :=
  C14.wo_import_roundtrip (RP nfkd) RealCurve.real_curveLaws (hash256_len nfkd) N hwf hvalid v hv s hs

theorem real_wo_wallet_agrees (N : Node) (hwf : N.WF (RP nfkd)) (hvalid : BIP32valid N)
    (hp : N.isPrv = true) (v : Nat) (hv : v ∈ publicVersions) (s : List Char)
    (hs : extendedPublicKey (RP nfkd) N (some v) = some s) :
    ∃ w, fromExtendedKey (RP nfkd) s = some w ∧ w.watchOnly = true ∧
      w.testnet = decide (v ∈ testnetPublicVersions) ∧
      ∀ is, (∀ i ∈ is, i < 2 ^ 31) → NoZeroIL (RP nfkd) N is →
        (∀ c, derivePath (RP nfkd) N is = some c →
          ∃ c', derivePath (RP nfkd) w.master is = some c' ∧ c'.isPrv = false ∧
            SamePublic (RP nfkd) c' c) ∧
        (∀ c', derivePath (RP nfkd) w.master is = some c' →
          ∃ c, derivePath (RP nfkd) N is = some c ∧ c'.isPrv = false ∧
            SamePublic (RP nfkd) c' c) :=
  C14.wo_wallet_agrees (RP nfkd) RealCurve.real_curveLaws (RealCurve.real_groupLaws nfkd)
    (hash256_len nfkd) N hwf hvalid hp v hv s hs

theorem real_wo_wallet_agrees_public (N : Node) (hwf : N.WF (RP nfkd)) (hvalid : BIP32valid N)
    (hp : N.isPrv = false) (v : Nat) (hv : v ∈ publicVersions) (s : List Char)
    (hs : extendedPublicKey (RP nfkd) N (some v) = some s) :
    ∃ w, fromExtendedKey (RP nfkd) s = some w ∧ w.watchOnly = true ∧
      ∀ is, (derivePath (RP nfkd) w.master is).map view = (derivePath (RP nfkd) N is).map view :=
  C14.wo_wallet_agrees_public (RP nfkd) RealCurve.real_curveLaws (hash256_len nfkd) N hwf hvalid hp v hv
    s hs

theorem real_wo_wallet_agrees_addresses (W : Wallet) (N : Node) (hwf : N.WF (RP nfkd))
    (hvalid : BIP32valid N) (hp : N.isPrv = true) (s : List Char)
    (hs : nodeExtendedPublicKey (RP nfkd) W N = some s) :
    ∃ w, fromExtendedKey (RP nfkd) s = some w ∧ w.watchOnly = true ∧ w.testnet = W.testnet ∧
      ∀ is, (∀ i ∈ is, i < 2 ^ 31) → NoZeroIL (RP nfkd) N is → ∀ c c',
        derivePath (RP nfkd) N is = some c → derivePath (RP nfkd) w.master is = some c' →
          p2pkhAddress (RP nfkd) w.testnet c' = p2pkhAddress (RP nfkd) W.testnet c ∧
          p2wpkhAddress (RP nfkd) w.testnet c' = p2wpkhAddress (RP nfkd) W.testnet c ∧
          p2shP2wpkhAddress (RP nfkd) w.testnet c' = p2shP2wpkhAddress (RP nfkd) W.testnet c ∧
          p2wshAddress (RP nfkd) w.testnet c' = p2wshAddress (RP nfkd) W.testnet c ∧
          p2shP2wshAddress (RP nfkd) w.testnet c' = p2shP2wshAddress (RP nfkd) W.testnet c :=
  C14.wo_wallet_agrees_addresses (RP nfkd) RealCurve.real_curveLaws (RealCurve.real_groupLaws nfkd)
    (hash256_len nfkd) W N hwf hvalid hp s hs

end BtcHd.RealInst
