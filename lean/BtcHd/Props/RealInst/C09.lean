/-
RealInst.C09 — the theorems of C09 that carry curve hypotheses (`CurveLaws`, `C02.GroupLaws`) or hash-length
hypotheses, INSTANTIATED at the concrete primitives the driver runs (`vPrims nfkd`: the Lean SHA-256 /
HMAC-SHA512 / PBKDF2 and the secp256k1 of `Prims/Secp256k1.lean` on its valid points).  Every hypothesis about
the primitives is discharged by a theorem (`RealCurve.real_curveLaws`, `RealCurve.real_groupLaws`,
`Real.sha256_length`, `Real.hmacSha512_length`); what remains is the well-formedness of the node and the
property's own premises.  These are statements about the very functions whose outputs the correspondence run
compares with CPython / OpenSSL / python-ecdsa on every case (`RealCurve.vCurve_agrees`, `RealCurve.raw_agrees`).
-/
import BtcHd.Props.RealInst.Common
import BtcHd.Props.C09

namespace BtcHd.RealInst
open BtcHd BtcHd.Real.Secp Bip32 XKey Keys

variable (nfkd : List Char → List Char)

/-! ### C09 — SEC encodings of the concrete curve -/

theorem real_sec_roundtrip (k : Nat) (h1 : 1 ≤ k) (h2 : k < Real.Secp.n) :
    (∀ c, vCurve.parse (vCurve.sec c (vCurve.mulGen k)) = some (vCurve.mulGen k)) ∧
      (vCurve.sec true (vCurve.mulGen k)).length = 33 ∧
      ((vCurve.sec true (vCurve.mulGen k)).head? = some 2 ∨
        (vCurve.sec true (vCurve.mulGen k)).head? = some 3) :=
  C09.sec_roundtrip RealCurve.real_curveLaws k h1 h2

theorem real_sec_roundtrip_point :
    (∀ c pt, ¬ vCurve.isInf pt → vCurve.parse (vCurve.sec c pt) = some pt) ∧
      (∀ bs pt, bs.length = 33 → vCurve.parse bs = some pt →
        vCurve.sec true pt = bs ∧ ¬ vCurve.isInf pt) :=
  C09.sec_roundtrip_point RealCurve.real_curveLaws

theorem real_pub_is_kG_wf {nd : Node} (hwf : nd.WF (RP nfkd)) (hprv : nd.isPrv = true) :
    1 ≤ beToNat nd.key ∧ beToNat nd.key < Real.Secp.n ∧
      prvKey (RP nfkd) nd = some (beToNat nd.key) ∧
      pubKey (RP nfkd) nd = some (vCurve.mulGen (beToNat nd.key)) ∧
      ¬ vCurve.isInf (vCurve.mulGen (beToNat nd.key)) :=
  C09.pub_is_kG_wf RealCurve.real_curveLaws hwf hprv

end BtcHd.RealInst
