/-
RealInst.C05 — the theorems of C05 that carry curve hypotheses (`CurveLaws`, `C02.GroupLaws`) or hash-length
hypotheses, INSTANTIATED at the concrete primitives the driver runs (`vPrims nfkd`: the Lean SHA-256 /
HMAC-SHA512 / PBKDF2 and the secp256k1 of `Prims/Secp256k1.lean` on its valid points).  Every hypothesis about
the primitives is discharged by a theorem (`RealCurve.real_curveLaws`, `RealCurve.real_groupLaws`,
`Real.sha256_length`, `Real.hmacSha512_length`); what remains is the well-formedness of the node and the
property's own premises.  These are statements about the very functions whose outputs the correspondence run
compares with CPython / OpenSSL / python-ecdsa on every case (`RealCurve.vCurve_agrees`, `RealCurve.raw_agrees`).
-/
import BtcHd.Props.RealInst.Common
import BtcHd.Props.C05

namespace BtcHd.RealInst
open BtcHd BtcHd.Real.Secp Bip32 Keys Wallet Script

variable (nfkd : List Char → List Char)

/-! ### C05 — addresses of every well-formed node, with the concrete SHA-256 / RIPEMD-160 / curve -/

theorem real_addresses_of_wf (t : Bool) (nd : Node) (hwf : nd.WF (RP nfkd)) :
    ∃ K, pubKey (RP nfkd) nd = some K ∧
      (∃ a, p2pkhAddress (RP nfkd) t nd = some a ∧ Base58.decodeCheck (RP nfkd).hash256 a =
        some ([if t then 0x6f else 0x00] ++ hash160 (RP nfkd) (vCurve.sec true K))) ∧
      (∃ a, p2wpkhAddress (RP nfkd) t nd = some a ∧
        Bech32.decode (if t then "tb" else "bc").toList a =
          some (0, (hash160 (RP nfkd) (vCurve.sec true K)).map (·.toNat))) :=
  have h := C05.addresses_of_wf (RP nfkd) (sha_len nfkd) RealCurve.real_curveLaws t nd hwf
  let ⟨K, hK, h1, h2, _⟩ := h
  ⟨K, hK, h1, h2⟩

end BtcHd.RealInst
