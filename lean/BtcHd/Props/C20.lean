/-
C20 — the command line (`__main__.py`): every argument vector is rejected, answered with the
usage text, or answered with exactly what the library API returns (filtered in paranoia
mode); an existing file is never the target; accepted account / interval values and the
shape of the derived rows (known finding K2: the interval clause fails above 2^31).

Property theorems only; helper lemmas and the vocabulary (`GParse`, `parseCmd`, `CmdValid`,
`IsFileOpt`, `InRange`, `rowLevels`, `coinLevel`, `paranoiaAcct`, `stripRow`) are in
`Lemmas/Cli.lean`; `Lemmas/CliToy.lean` has a toy `Prims` instance used only in the examples
that show the hypotheses are satisfiable.  The model
(`Model/Cli.lean`) mirrors `main()` over a canonical argv grammar; `Outcome.reject` /
`Outcome.help` stand for "non-zero exit status, nothing on stdout, no file created".
-/
import BtcHd.Lemmas.Cli
import BtcHd.Lemmas.CliToy

namespace BtcHd.C20
open BtcHd Text Cli Wallet Bip32

variable {Pt : Type}

/-! ### 1. constants -/

/-- the account bound of `account_index` is `2**31 - 1` -/
theorem cliAccountMax_eq : Generated.cliAccountMax = 2 ^ 31 - 1 := by decide

/-- the address-index bound of `address_index` is `2**32 - 1` -/
theorem cliAddressMax_eq : Generated.cliAddressMax = 2 ^ 32 - 1 := by decide

/-! ### 2. validators -/

/-- `int(str(n)) == n` for the decimal text of a natural number -/
theorem pyInt_decimal (n : Nat) : pyInt (natToDec n) = some (n : Int) := pyInt_natToDec n

/-- `int("-" + str(n+1)) == -(n+1)`: negative numbers are read, not refused, by `int` -/
theorem pyInt_neg (n : Nat) : pyInt ('-' :: natToDec (n + 1)) = some (-((n : Int) + 1)) := by
  rw [pyInt_neg_natToDec]; simp

/-- `value_in_interval` accepts a value exactly when `int(value)` lies in `[0, max)` -/
theorem valueInInterval_spec {v : List Char} {max n : Nat} :
    valueInInterval v max = some n ↔ n < max ∧ pyInt v = some (n : Int) :=
  valueInInterval_eq_some

/-- an accepted account index is `int(value)` and lies below `2**31 - 1` -/
theorem accountIndex_spec {v : List Char} {n : Nat} (h : accountIndex v = some n) :
    n < 2 ^ 31 - 1 ∧ pyInt v = some (n : Int) :=
  accountIndex_eq_some.mp h

/-- an accepted address index is `int(value)` and lies below `2**32 - 1` -/
theorem addressIndex_spec {v : List Char} {n : Nat} (h : addressIndex v = some n) :
    n < 2 ^ 32 - 1 ∧ pyInt v = some (n : Int) :=
  addressIndex_eq_some.mp h

/-- every decimal account index below `2**31 - 1` is accepted with its value -/
theorem accountIndex_decimal {n : Nat} (h : n < 2 ^ 31 - 1) : accountIndex (natToDec n) = some n :=
  valueInInterval_natToDec h

/-- every decimal address index below `2**32 - 1` is accepted with its value -/
theorem addressIndex_decimal {n : Nat} (h : n < 2 ^ 32 - 1) : addressIndex (natToDec n) = some n :=
  valueInInterval_natToDec h

/-- negative account and address indexes are parsed and then refused by the range check -/
theorem negative_index_rejected (n : Nat) :
    accountIndex ('-' :: natToDec (n + 1)) = none ∧ addressIndex ('-' :: natToDec (n + 1)) = none :=
  ⟨valueInInterval_neg _ n, valueInInterval_neg _ n⟩

example : accountIndex "7".toList = some 7 := by decide +kernel
example : accountIndex "-1".toList = none := by decide +kernel
example : accountIndex "2147483646".toList = some 2147483646 := by decide +kernel
example : accountIndex "2147483647".toList = none := by decide +kernel
example : addressIndex "4294967295".toList = none := by decide +kernel

/-- `extended_key` accepts exactly the 111-character strings, unchanged -/
theorem extendedKeyArg_spec {v k : List Char} :
    extendedKeyArg v = some k ↔ v.length = 111 ∧ k = v :=
  extendedKeyArg_eq_some

/-- `bip39_seed` accepts exactly the 128-character strings, unchanged -/
theorem seedArg_spec {v k : List Char} : seedArg v = some k ↔ v.length = 128 ∧ k = v :=
  seedArg_eq_some

/-- `entropy_hex` accepts exactly the strings whose length times four is 128, 160, 192, 224 or
256, unchanged -/
theorem entropyArg_spec {v k : List Char} :
    entropyArg v = some k ↔ v.length * 4 ∈ [128, 160, 192, 224, 256] ∧ k = v :=
  entropyArg_eq_some

/-- `mnemonic` accepts exactly the strings with 12, 15, 18, 21 or 24 pieces between single
spaces, and returns the stripped text -/
theorem mnemonicArg_spec {v m : List Char} :
    mnemonicArg v = some m ↔
      (splitOn ' ' v).length ∈ [12, 15, 18, 21, 24] ∧ m = strip v :=
  mnemonicArg_eq_some

/-- `file_` accepts a path exactly when nothing exists there and the parent is writable -/
theorem fileArg_iff {c : FsClass} : fileArg c = true ↔ c = .absent := fileArg_eq_true

example : fileArg .file = false ∧ fileArg .dir = false ∧ fileArg .noParent = false := by decide

/-! ### 3. the three outcomes -/

/-- every run is a rejection, the usage text, or an emitted report -/
theorem outcome_trichotomy (P : Prims Pt) (os : Nat → Bytes) (fs : FsClass)
    (argv : List (List Char)) :
    run P os fs argv = .reject ∨ run P os fs argv = .help ∨
      ∃ tgt r, run P os fs argv = .emit tgt r := by
  cases h : run P os fs argv with
  | reject => exact .inl rfl
  | help => exact .inr (.inl rfl)
  | emit t r => exact .inr (.inr ⟨t, r, rfl⟩)

/-- whatever is emitted is what `generate` returns for the wallet the chosen constructor builds
from the parsed arguments (account and interval as parsed), passed through `paranoia_mode`
exactly when `--paranoia` was given; the target is the file exactly when a file was requested -/
theorem accept_equals_api {P : Prims Pt} {os : Nat → Bytes} {fs : FsClass}
    {argv : List (List Char)} {tgt : Target} {r : Json} (h : run P os fs argv = .emit tgt r) :
    ∃ g cmd w data, parseArgs fs argv = some (g, some cmd) ∧ construct P os g cmd = some w ∧
      generate P w g.account g.a g.b = some data ∧
      (if g.paranoia then paranoia data = some r else r = data) ∧
      tgt = (if g.file then .file else .stdout) :=
  run_eq_emit_iff.mp h

/-- conversely, when parsing, construction, generation and the filter succeed the report is
emitted -/
theorem api_success_emits {P : Prims Pt} {os : Nat → Bytes} {fs : FsClass}
    {argv : List (List Char)} {g : Globals} {cmd : Cmd} {w : Wallet} {data r : Json}
    (hp : parseArgs fs argv = some (g, some cmd)) (hw : construct P os g cmd = some w)
    (hd : generate P w g.account g.a g.b = some data)
    (hr : if g.paranoia then paranoia data = some r else r = data) :
    run P os fs argv = .emit (if g.file then .file else .stdout) r :=
  run_eq_emit_iff.mpr ⟨g, cmd, w, data, hp, hw, hd, hr, rfl⟩

open CliToy in
/-- the hypothesis of `accept_equals_api` is satisfiable: on the toy primitives this run emits to
standard output -/
example :
    emitsTo (run prims osRandom .absent ["--testnet".toList, "--account".toList, "5".toList,
      "--interval".toList, "0".toList, "1".toList, "from-bip39-seed".toList, seedHex])
    = some .stdout := by decide +kernel

/-- an argument vector argparse refuses is rejected -/
theorem reject_parse {P : Prims Pt} {os : Nat → Bytes} {fs : FsClass} {argv : List (List Char)}
    (h : parseArgs fs argv = none) : run P os fs argv = .reject :=
  run_eq_reject_iff.mpr (.inl h)

/-- a failing wallet constructor leads to rejection -/
theorem reject_construct {P : Prims Pt} {os : Nat → Bytes} {fs : FsClass}
    {argv : List (List Char)} {g : Globals} {cmd : Cmd}
    (hp : parseArgs fs argv = some (g, some cmd)) (hw : construct P os g cmd = none) :
    run P os fs argv = .reject :=
  run_eq_reject_iff.mpr (.inr ⟨g, cmd, hp, .inl hw⟩)

/-- a failing `generate` leads to rejection -/
theorem reject_generate {P : Prims Pt} {os : Nat → Bytes} {fs : FsClass}
    {argv : List (List Char)} {g : Globals} {cmd : Cmd} {w : Wallet}
    (hp : parseArgs fs argv = some (g, some cmd)) (hw : construct P os g cmd = some w)
    (hd : generate P w g.account g.a g.b = none) : run P os fs argv = .reject :=
  run_eq_reject_iff.mpr (.inr ⟨g, cmd, hp, .inr ⟨w, hw, .inl hd⟩⟩)

/-- `paranoia_mode` never fails on a report `generate` produced: the result consists of exactly
the three account groups, each reduced to path, public key and the rows without their last
(WIF) column -/
theorem paranoia_never_fails {P : Prims Pt} {w : Wallet} {account a b : Nat} {data : Json}
    (h : generate P w account a b = some data) :
    ∃ r44 r49 r84,
      bipAccount P w 44 (p2pkhAddress P w.testnet) account a b = some r44 ∧
      bipAccount P w 49 (p2shP2wpkhAddress P w.testnet) account a b = some r49 ∧
      bipAccount P w 84 (p2wpkhAddress P w.testnet) account a b = some r84 ∧
      paranoia data = some (.obj [("BIP44".toList, paranoiaAcct r44),
        ("BIP49".toList, paranoiaAcct r49), ("BIP84".toList, paranoiaAcct r84)]) :=
  paranoia_generate h

/-- the complete list of reasons for rejection: argparse error, constructor error, `generate`
error — nothing else -/
theorem reject_cases {P : Prims Pt} {os : Nat → Bytes} {fs : FsClass} {argv : List (List Char)} :
    run P os fs argv = .reject ↔
      parseArgs fs argv = none ∨
      ∃ g cmd, parseArgs fs argv = some (g, some cmd) ∧
        (construct P os g cmd = none ∨
         ∃ w, construct P os g cmd = some w ∧ generate P w g.account g.a g.b = none) :=
  run_eq_reject_iff'

/-- the usage text (exit status 1) is shown exactly when no sub-command was given -/
theorem help_iff {P : Prims Pt} {os : Nat → Bytes} {fs : FsClass} {argv : List (List Char)} :
    run P os fs argv = .help ↔ ∃ g, parseArgs fs argv = some (g, none) :=
  run_eq_help_iff

example (P : Prims Pt) (os : Nat → Bytes) : run P os .absent ["--testnet".toList] = .help :=
  help_iff.mpr ⟨{ testnet := true }, by decide +kernel⟩

example (P : Prims Pt) (os : Nat → Bytes) :
    run P os .file ["-f".toList, "out.json".toList, "new".toList] = .reject :=
  reject_parse (by decide +kernel)

/-! ### 4. the `--file` option -/

/-- reading the global options switches the `file` flag on only after `file_` accepted the path -/
theorem parseGlobals_file_invariant {fs : FsClass} {fuel : Nat} {g g' : Globals}
    {argv rest : List (List Char)} (h : parseGlobals fs fuel g argv = some (g', rest))
    (hf : g'.file = true) : g.file = true ∨ fs = .absent :=
  (parseGlobals_sound h).file_inv hf

/-- a report goes to the file only if nothing existed at that path (and its parent directory is
writable): an existing file is never overwritten -/
theorem file_never_existing {P : Prims Pt} {os : Nat → Bytes} {fs : FsClass}
    {argv : List (List Char)} {r : Json} (h : run P os fs argv = .emit .file r) : fs = .absent := by
  obtain ⟨g, cmd, w, data, hp, _, _, _, ht⟩ := accept_equals_api h
  refine parseArgs_file_absent hp ?_
  cases hf : g.file with
  | true => rfl
  | false => rw [hf] at ht; cases ht

open CliToy in
/-- the hypothesis of `file_never_existing` is satisfiable: with a fresh path this run (new wallet,
paranoia mode) emits to the file -/
example :
    emitsTo (run prims osRandom .absent ["-f".toList, "out.json".toList, "--paranoia".toList,
      "--interval".toList, "0".toList, "1".toList, "new".toList, "--mnemonic-len".toList,
      "12".toList])
    = some .file := by decide +kernel

/-- with a path that exists, is a directory, or has no writable parent, nothing is ever emitted
to a file -/
theorem existing_file_untouched {P : Prims Pt} {os : Nat → Bytes} {fs : FsClass}
    {argv : List (List Char)} (hfs : fs ≠ .absent) (r : Json) :
    run P os fs argv ≠ .emit .file r :=
  fun h => hfs (file_never_existing h)

/-- whenever `-f` / `--file` occurs in the argument vector and the path exists, is a directory, or
has no writable parent, the run is rejected outright: no wallet is even constructed -/
theorem existing_file_rejected {P : Prims Pt} {os : Nat → Bytes} {fs : FsClass}
    {argv : List (List Char)} (hfs : fs ≠ .absent)
    (hopt : ∃ t ∈ argv, t = "-f".toList ∨ t = "--file".toList) :
    parseArgs fs argv = none ∧ run P os fs argv = .reject := by
  have hnone : parseArgs fs argv = none := by
    cases hp : parseArgs fs argv with
    | none => rfl
    | some gc =>
      obtain ⟨g, c⟩ := gc
      exact absurd (parseArgs_file_absent hp ((parseArgs_file_iff hp).mpr hopt)) hfs
  exact ⟨hnone, reject_parse hnone⟩

example (P : Prims Pt) (os : Nat → Bytes) :
    run P os .dir ["--testnet".toList, "--file".toList, "x".toList, "new".toList] = .reject :=
  (existing_file_rejected (by decide) ⟨_, by simp, .inr rfl⟩).2

/-- the report goes to standard output exactly when the parsed `file` flag is off -/
theorem stdout_when_no_file {P : Prims Pt} {os : Nat → Bytes} {fs : FsClass}
    {argv : List (List Char)} {tgt : Target} {r : Json} (h : run P os fs argv = .emit tgt r) :
    ∃ g cmd, parseArgs fs argv = some (g, some cmd) ∧ (tgt = .stdout ↔ g.file = false) := by
  obtain ⟨g, cmd, w, data, hp, _, _, _, ht⟩ := accept_equals_api h
  refine ⟨g, cmd, hp, ?_⟩
  subst ht
  cases g.file <;> simp

/-- the report goes to the file exactly when `-f` or `--file` occurs in the argument vector, and
to standard output exactly when neither does -/
theorem target_iff_file_option {P : Prims Pt} {os : Nat → Bytes} {fs : FsClass}
    {argv : List (List Char)} {tgt : Target} {r : Json} (h : run P os fs argv = .emit tgt r) :
    (tgt = .file ↔ ∃ t ∈ argv, t = "-f".toList ∨ t = "--file".toList) ∧
    (tgt = .stdout ↔ ∀ t ∈ argv, t ≠ "-f".toList ∧ t ≠ "--file".toList) := by
  obtain ⟨g, cmd, w, data, hp, _, _, _, ht⟩ := accept_equals_api h
  have hiff := parseArgs_file_iff hp
  unfold IsFileOpt at hiff
  subst ht
  cases hf : g.file with
  | true =>
    have := hiff.mp hf
    refine ⟨by simpa using this, ?_⟩
    obtain ⟨t, ht, h⟩ := this
    simp only [if_true, reduceCtorEq, false_iff, not_forall]
    exact ⟨t, ht, by tauto⟩
  | false =>
    have hno : ¬ ∃ t ∈ argv, t = "-f".toList ∨ t = "--file".toList := by
      rw [← hiff, hf]; simp
    refine ⟨by simpa using hno, ?_⟩
    simp only [Bool.false_eq_true, if_false, true_iff]
    intro t ht
    constructor <;> intro h <;> exact hno ⟨t, ht, by simp [h]⟩

/-! ### 5. how `main` calls the constructors -/

/-- `main` passes the `--testnet` flag, the password and the mnemonic length to the
constructors exactly as parsed; `from-master-xprv` takes the network from the key itself -/
theorem construct_wiring (P : Prims Pt) (os : Nat → Bytes) (g : Globals) :
    (∀ pw len, construct P os g (.new pw len) = newWallet P os len pw g.testnet) ∧
    (∀ k, construct P os g (.fromXprv k) = fromExtendedKey P k) ∧
    (∀ m pw, construct P os g (.fromMnemonic m pw) = fromMnemonic P m pw g.testnet) ∧
    (∀ s, construct P os g (.fromSeed s) = fromSeedHex P s g.testnet) ∧
    (∀ e pw, construct P os g (.fromEntropy e pw) = fromEntropyHex P e pw g.testnet) :=
  ⟨fun _ _ => rfl, fun _ => rfl, fun _ _ => rfl, fun _ => rfl, fun _ _ => rfl⟩

/-- every constructed wallet has a root object as master node, and (except for
`from-master-xprv`) lives on the network the `--testnet` flag names -/
theorem construct_root_and_network {P : Prims Pt} {os : Nat → Bytes} {g : Globals} {cmd : Cmd}
    {w : Wallet} (h : construct P os g cmd = some w) :
    w.master.path = [] ∧ ((∀ k, cmd ≠ .fromXprv k) → w.testnet = g.testnet) :=
  ⟨construct_master_path h, construct_testnet h⟩

/-! ### 6. accepted values -/

/-- accepted account and interval values (defaults 0 and 0, 20 included) are within the
validators' ranges -/
theorem accepted_bounds {fs : FsClass} {argv : List (List Char)} {g : Globals} {c : Option Cmd}
    (h : parseArgs fs argv = some (g, c)) :
    g.account < 2 ^ 31 - 1 ∧ g.a < 2 ^ 32 - 1 ∧ g.b < 2 ^ 32 - 1 :=
  parseArgs_inRange h

/-- the arguments of an accepted sub-command passed their validators: mnemonic length in
12/15/18/21/24, key of 111 characters, stripped mnemonic with an allowed word count, seed of 128
characters, entropy of an allowed bit length -/
theorem accepted_command_valid {fs : FsClass} {argv : List (List Char)} {g : Globals} {cmd : Cmd}
    (h : parseArgs fs argv = some (g, some cmd)) :
    match cmd with
    | .new _ len => len ∈ [12, 15, 18, 21, 24]
    | .fromXprv k => k.length = 111
    | .fromMnemonic m _ => ∃ v, (splitOn ' ' v).length ∈ [12, 15, 18, 21, 24] ∧ m = strip v
    | .fromSeed s => s.length = 128
    | .fromEntropy e _ => e.length * 4 ∈ [128, 160, 192, 224, 256] := by
  have := parseArgs_cmdValid h
  cases cmd <;> exact this

/-- `parseArgs` is the global grammar `GParse` followed by one sub-command; the parsed globals
do not depend on the sub-command part, and the fuel `parseArgs` supplies is always enough -/
theorem parseArgs_grammar {fs : FsClass} {argv : List (List Char)} {g : Globals} {c : Option Cmd} :
    parseArgs fs argv = some (g, c) ↔
      ∃ rest, GParse fs {} argv g rest ∧
        ((rest = [] ∧ c = none) ∨
          ∃ t args cmd, rest = t :: args ∧ parseCmd t args = some cmd ∧ c = some cmd) := by
  rw [parseArgs_eq_some_iff]
  constructor
  · rintro ⟨rest, hg, h⟩; exact ⟨rest, parseGlobals_sound hg, h⟩
  · rintro ⟨rest, hg, h⟩; exact ⟨rest, parseGlobals_complete hg (Nat.lt_succ_self _), h⟩

/-! ### 7. BIP44-shaped rows -/

/-- five levels: hardened purpose, coin and account; non-hardened chain and address index
(all within 32 bits) -/
def Bip44Shaped (levels : List Nat) : Prop :=
  ∃ p c n ch i, levels = [p, c, n, ch, i] ∧
    (2 ^ 31 ≤ p ∧ p < 2 ^ 32) ∧ (2 ^ 31 ≤ c ∧ c < 2 ^ 32) ∧ (2 ^ 31 ≤ n ∧ n < 2 ^ 32) ∧
    ch < 2 ^ 31 ∧ i < 2 ^ 31

example : Bip44Shaped [44 + 2 ^ 31, 1 + 2 ^ 31, 5 + 2 ^ 31, 0, 19] :=
  ⟨_, _, _, _, _, rfl, by omega, by omega, by omega, by omega, by omega⟩

/-- an accepted account number always gives a hardened 32-bit account level -/
theorem accepted_account_hardened {fs : FsClass} {argv : List (List Char)} {g : Globals}
    {c : Option Cmd} (h : parseArgs fs argv = some (g, c)) :
    2 ^ 31 ≤ g.account + 2 ^ 31 ∧ g.account + 2 ^ 31 < 2 ^ 32 := by
  have := (accepted_bounds h).1
  omega

/-- PARTIAL (interval end at most 2^31).  Full clause: "accepted account and interval values
always lead to BIP44-shaped rows: hardened purpose, coin and account, non-hardened chain and
address index" — false for interval values above 2^31, see `interval_hardened_fails`.
Proved: the rows of `bip44` / `bip49` / `bip84` are, in order, `groupRow` of the nodes derived
from the master along `[purpose + 2^31, coin + 2^31, account + 2^31, 0, i]` for
`i = a, a+1, …, b-1`; with `account < 2^31` and `b ≤ 2^31` each such level list is BIP44-shaped. -/
theorem rows_bip44_shaped_partial {P : Prims Pt} {w : Wallet} {purpose : Nat}
    {addr : Node → Option (List Char)} {account a b : Nat} {keys : Json} {rows : List Json}
    (h : bipAccount P w purpose addr account a b = some (keys, rows))
    (hroot : w.master.path = []) (hp : purpose ∈ [44, 49, 84]) (hacct : account < 2 ^ 31)
    (hb : b ≤ 2 ^ 31) :
    rows.length = b - a ∧ ∀ j (hj : j < rows.length),
      ∃ nd, derivePath P w.master
              [purpose + 2 ^ 31, (if w.testnet then 1 else 0) + 2 ^ 31, account + 2 ^ 31, 0, a + j]
              = some nd ∧
        nd.path =
          [purpose + 2 ^ 31, (if w.testnet then 1 else 0) + 2 ^ 31, account + 2 ^ 31, 0, a + j] ∧
        groupRow P w addr nd = some rows[j] ∧
        Bip44Shaped nd.path := by
  obtain ⟨hlen, hrows⟩ := bipAccount_rows_index h
  refine ⟨hlen, fun j hj => ?_⟩
  obtain ⟨nd, hd, hpath, hrow⟩ := hrows j hj
  have hl : rowLevels w purpose account (a + j) =
      [purpose + 2 ^ 31, (if w.testnet then 1 else 0) + 2 ^ 31, account + 2 ^ 31, 0, a + j] := by
    unfold rowLevels coinLevel; split <;> simp
  rw [hroot, List.nil_append, hl] at hpath
  rw [hl] at hd
  refine ⟨nd, hd, hpath, hrow, ?_⟩
  rw [hpath]
  refine ⟨_, _, _, _, _, rfl, ?_, ?_, ?_, by omega, by omega⟩
  · simp only [List.mem_cons, List.not_mem_nil, or_false] at hp
    rcases hp with rfl | rfl | rfl <;> omega
  · split <;> omega
  · omega

open CliToy in
/-- the hypotheses of `rows_bip44_shaped_partial` are satisfiable (toy primitives, testnet,
account 5, interval 0..2) -/
example : ((fromSeedHex prims seedHex true).bind fun w =>
    bipAccount prims w 44 (p2pkhAddress prims w.testnet) 5 0 2).isSome = true := by decide +kernel

/-- PARTIAL, end to end (same restriction `b ≤ 2^31`; full clause quoted at
`rows_bip44_shaped_partial`): whenever the CLI emits a report, the three account groups of
that report were generated by `bip44` / `bip49` / `bip84` with the parsed account and interval,
and if the parsed interval end is at most 2^31 every row of every group comes from a node whose
levels from the master are BIP44-shaped -/
theorem emitted_rows_bip44_shaped_partial {P : Prims Pt} {os : Nat → Bytes} {fs : FsClass}
    {argv : List (List Char)} {tgt : Target} {r : Json} (h : run P os fs argv = .emit tgt r) :
    ∃ g cmd w r44 r49 r84, parseArgs fs argv = some (g, some cmd) ∧
      construct P os g cmd = some w ∧
      bipAccount P w 44 (p2pkhAddress P w.testnet) g.account g.a g.b = some r44 ∧
      bipAccount P w 49 (p2shP2wpkhAddress P w.testnet) g.account g.a g.b = some r49 ∧
      bipAccount P w 84 (p2wpkhAddress P w.testnet) g.account g.a g.b = some r84 ∧
      (g.b ≤ 2 ^ 31 →
        ∀ x ∈ [(p2pkhAddress P w.testnet, r44), (p2shP2wpkhAddress P w.testnet, r49),
                (p2wpkhAddress P w.testnet, r84)],
          ∀ j (hj : j < x.2.2.length), ∃ nd, groupRow P w x.1 nd = some x.2.2[j] ∧
            Bip44Shaped nd.path) := by
  obtain ⟨g, cmd, w, data, hp, hw, hd, _, _⟩ := accept_equals_api h
  obtain ⟨r44, r49, r84, b85, h44, h49, h84, _, _⟩ := generate_eq_some hd
  refine ⟨g, cmd, w, r44, r49, r84, hp, hw, h44, h49, h84, fun hb x hx j hj => ?_⟩
  have hroot := construct_master_path hw
  have hacct : g.account < 2 ^ 31 := by have := (accepted_bounds hp).1; omega
  simp only [List.mem_cons, List.not_mem_nil, or_false] at hx
  rcases hx with rfl | rfl | rfl
  · obtain ⟨nd, _, _, hrow, hs⟩ :=
      (rows_bip44_shaped_partial (keys := r44.1) (rows := r44.2) h44 hroot (by simp) hacct hb).2 j hj
    exact ⟨nd, hrow, hs⟩
  · obtain ⟨nd, _, _, hrow, hs⟩ :=
      (rows_bip44_shaped_partial (keys := r49.1) (rows := r49.2) h49 hroot (by simp) hacct hb).2 j hj
    exact ⟨nd, hrow, hs⟩
  · obtain ⟨nd, _, _, hrow, hs⟩ :=
      (rows_bip44_shaped_partial (keys := r84.1) (rows := r84.2) h84 hroot (by simp) hacct hb).2 j hj
    exact ⟨nd, hrow, hs⟩

/-- known finding K2: `address_index` accepts `2147483648` (= 2^31), the argument vector
`--interval 2147483648 2147483649 new` parses with that interval, `range(2147483648, 2147483649)`
is `[2147483648]`, the level list with that address index is not BIP44-shaped, and every report
generated for that interval has exactly one row per group, derived along that level list -/
theorem interval_hardened_fails :
    addressIndex "2147483648".toList = some 2147483648 ∧
    parseArgs .absent ["--interval".toList, "2147483648".toList, "2147483649".toList, "new".toList]
      = some ({ a := 2147483648, b := 2147483649 }, some (.new [] 24)) ∧
    List.range' 2147483648 (2147483649 - 2147483648) = [2147483648] ∧
    (∀ p c n, ¬ Bip44Shaped [p, c, n, 0, 2147483648]) ∧
    (∀ {Pt : Type} (P : Prims Pt) (w : Wallet) (purpose : Nat) (addr : Node → Option (List Char))
        (account : Nat) (keys : Json) (rows : List Json),
      w.master.path = [] →
      bipAccount P w purpose addr account 2147483648 2147483649 = some (keys, rows) →
      ∃ nd row, rows = [row] ∧ groupRow P w addr nd = some row ∧
        nd.path = [purpose + 2 ^ 31, (if w.testnet then 1 else 0) + 2 ^ 31, account + 2 ^ 31, 0,
          2147483648] ∧
        ¬ Bip44Shaped nd.path) := by
  have hns : ∀ p c n, ¬ Bip44Shaped [p, c, n, 0, 2147483648] := by
    rintro p c n ⟨p', c', n', ch, i, heq, _, _, _, _, hi⟩
    simp only [List.cons.injEq, and_true] at heq
    omega
  refine ⟨by decide +kernel, by decide +kernel, by decide +kernel, hns, ?_⟩
  intro Pt P w purpose addr account keys rows hroot h
  obtain ⟨hlen, hrows⟩ := bipAccount_rows_index h
  have hlen1 : rows.length = 1 := hlen
  obtain ⟨nd, _, hpath, hrow⟩ := hrows 0 (by omega)
  have hl : rowLevels w purpose account (2147483648 + 0) =
      [purpose + 2 ^ 31, (if w.testnet then 1 else 0) + 2 ^ 31, account + 2 ^ 31, 0,
        2147483648] := by
    unfold rowLevels coinLevel; split <;> simp
  rw [hroot, List.nil_append, hl] at hpath
  obtain ⟨row, rfl⟩ := List.length_eq_one_iff.mp hlen1
  exact ⟨nd, row, rfl, hrow, hpath, by rw [hpath]; exact hns _ _ _⟩

open CliToy in
/-- the `bipAccount` hypothesis in the last clause of `interval_hardened_fails` is satisfiable -/
example : ((fromSeedHex prims seedHex false).bind fun w =>
    bipAccount prims w 44 (p2pkhAddress prims w.testnet) 0 2147483648 2147483649).isSome = true := by
  decide +kernel

open CliToy in
/-- K2 end to end on the toy primitives: the run with `--interval 2147483648 2147483649` is not
rejected — it emits a report (whose rows are the hardened ones of `interval_hardened_fails`) -/
example :
    emitsTo (run prims osRandom .absent ["--interval".toList, "2147483648".toList,
      "2147483649".toList, "from-bip39-seed".toList, seedHex])
    = some .stdout := by decide +kernel

/-! ### 8. non-vacuity: argument vectors that parse -/

example :
    parseArgs .absent ["--testnet".toList, "--account".toList, "5".toList, "--interval".toList,
      "0".toList, "2".toList, "from-bip39-seed".toList, CliToy.seedHex] =
    some ({ testnet := true, account := 5, a := 0, b := 2 }, some (.fromSeed CliToy.seedHex)) := by
  decide +kernel

example : parseArgs .absent [] = some ({}, none) := by decide +kernel

example :
    parseArgs .absent ["-f".toList, "out.json".toList, "--paranoia".toList, "new".toList,
      "--mnemonic-len".toList, "12".toList, "--password".toList, "x".toList] =
    some ({ file := true, paranoia := true }, some (.new "x".toList 12)) := by decide +kernel

example : parseArgs .file ["-f".toList, "out.json".toList, "new".toList] = none := by
  decide +kernel

example : parseArgs .absent ["--account".toList, "-1".toList, "new".toList] = none := by
  decide +kernel

example : parseArgs .absent ["--account".toList, "2147483647".toList, "new".toList] = none := by
  decide +kernel

example : parseArgs .absent ["new".toList, "--mnemonic-len".toList, "13".toList] = none := by
  decide +kernel

end BtcHd.C20
