/-
CPython built-ins the machine translation (`harness/translate.py` → `Generated/Code.lean`) maps to Lean
directly, in addition to the ones that already live in the model files (`beToNat`/`leToNat` for
`int.from_bytes`, `toBytesBE`/`toBytesLE` for `int.to_bytes`, `fromHex` for `bytes.fromhex`,
`Bip39.binStr` for `bin(n)[2:]`, `Bip39.zfill`, `Bip39.binVal` for `int(s, 2)`, `Bip39.chunksExact` for
`re.findall("." * k, s)`, `lastN`/`dropLastN` for negative slices).  That these definitions are what CPython
computes is part of the translator's trusted base; each is exercised by the correspondence run through the
functions that use it.
-/
import BtcHd.Model.Basic

namespace BtcHd.Py

/-- `hex(n)[2:]` for `n ≥ 0`: lower-case hexadecimal digits, most significant first, `"0"` for 0 -/
def hexStr (n : Nat) : List Char := Nat.toDigits 16 n

/-- `s.rfind(c)` for a one-character `c`: index of the last occurrence, `-1` when absent -/
def rfind (s : List Char) (c : Char) : Int :=
  let r := s.reverse
  if c ∈ r then ((s.length - 1 - r.idxOf c : Nat) : Int) else -1

/-- `str.lower()` / `str.upper()` restricted to ASCII letters (exact on ASCII strings) -/
def lowerAscii (c : Char) : Char := if 'A' ≤ c ∧ c ≤ 'Z' then Char.ofNat (c.toNat + 32) else c
def upperAscii (c : Char) : Char := if 'a' ≤ c ∧ c ≤ 'z' then Char.ofNat (c.toNat - 32) else c

end BtcHd.Py
