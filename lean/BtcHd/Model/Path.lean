/-
Mirror of `wallet_utils.py`: `Bip32Path`, `Version`, `list_get`.
-/
import BtcHd.Model.Text
import BtcHd.Generated.Versions
import BtcHd.Generated.Misc

namespace BtcHd.Path
open BtcHd Text

def hardened : Nat := Generated.hardened

/-- A parsed path: the non-`None` levels (at most five) and the private flag. -/
structure Path where
  levels : List Nat
  priv : Bool
deriving DecidableEq, Repr

/-- `Bip32Path.convert_hardened` (after the strictness repair); the argument is
non-empty at the call sites (`x if x else None`), and the model makes the empty
string an error like Python's `str_int[-1]` IndexError. -/
def convertHardened (s : List Char) : Option Nat :=
  match s.getLast? with
  | none => none
  | some lastc =>
    let isH := lastc = '\'' ∨ lastc = 'h'
    let digits := if isH then s.dropLast else s
    (parseDec digits).bind fun num =>
      if isH then (if num < 2 ^ 31 then some (num + 2 ^ 31) else none)
      else (if num < 2 ^ 32 then some num else none)

/-- `integrity_check` on the five optional slots: no value after a `None` -/
def integrity : List (Option Nat) → Bool
  | [] => true
  | some _ :: rest => integrity rest
  | none :: rest => rest.all Option.isNone

/-- `Bip32Path.parse` -/
def parse (s : List Char) : Option Path :=
  match splitOn '/' s with
  | [] => none
  | root :: comps =>
    if root = ['m'] ∨ root = ['M'] then
      -- `list_get(s_lst, 1..5)`; `convert(x) if x else None`
      let slots := (comps.take 5).mapM fun c =>
        if c = [] then some none else (convertHardened c).map some
      slots.bind fun vals =>
        if integrity vals then some ⟨vals.filterMap id, root = ['m']⟩ else none
    else none

/-- `repr_hardened` -/
def reprHardened (num : Nat) : List Char :=
  if num ≥ 2 ^ 31 then natToDec (num - 2 ^ 31) ++ ['\''] else natToDec num

/-- `Bip32Path.__repr__` -/
def format (p : Path) : List Char :=
  join ['/'] ((if p.priv then ['m'] else ['M']) :: p.levels.map reprHardened)

/-- `Bip32Path.bip()` : BIP44 ↦ 0, BIP49 ↦ 1, BIP84 ↦ 2, anything else ↦ 0 -/
def bipOf (p : Path) : Nat :=
  match p.levels.head? with
  | some purpose =>
    if purpose = 44 + 2 ^ 31 then 0 else if purpose = 49 + 2 ^ 31 then 1
    else if purpose = 84 + 2 ^ 31 then 2 else 0
  | none => 0

/-! ### `Version` -/

/-- key type: PRV = 0, PUB = 1 -/
structure Version where
  keyType : Nat
  bip : Nat
  testnet : Bool
deriving DecidableEq, Repr

def lookup (tbl : List (Nat × Nat × Nat)) (k b : Nat) : Option Nat :=
  (tbl.find? fun e => e.1 = k ∧ e.2.1 = b).map (·.2.2)

/-- `int(version)` (`none` = KeyError / invalid enum value) -/
def Version.toInt (v : Version) : Option Nat :=
  lookup (if v.testnet then Generated.versionsTest else Generated.versionsMain) v.keyType v.bip

def allVersions : List Nat :=
  Generated.versionsTest.map (·.2.2) ++ Generated.versionsMain.map (·.2.2)

/-- `Version.valid_version` -/
def validVersion (v : Nat) : Bool := v ∈ allVersions

/-- `Version.bip(version)` -/
def versionBip (v : Nat) : Nat :=
  let has (b : Nat) := (Generated.versionsMain ++ Generated.versionsTest).any fun e => e.2.1 = b ∧ e.2.2 = v
  if has 0 then 0 else if has 1 then 1 else if has 2 then 2 else 0

/-- `Version.parse` -/
def Version.parse (v : Nat) : Option Version :=
  if validVersion v then
    let testnet := v ∈ Generated.versionsTest.map (·.2.2)
    let priv := (Generated.versionsTest ++ Generated.versionsMain).any fun e => e.1 = 0 ∧ e.2.2 = v
    some ⟨if priv then 0 else 1, versionBip v, testnet⟩
  else none

end BtcHd.Path
