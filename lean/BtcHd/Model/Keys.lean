/-
Mirror of `keys.py` in the ecdsa fall-back configuration.
A private key is its scalar `k` (`bytes(key)` = `beFixed 32 k`); a public key is a
curve point.
-/
import BtcHd.Model.Curve
import BtcHd.Model.Base58
import BtcHd.Model.Ripemd
import BtcHd.Generated.Misc

namespace BtcHd.Keys
open BtcHd

variable {Pt : Type}

/-- `hash160` -/
def hash160 (P : Prims Pt) (bs : Bytes) : Bytes := Ripemd.ripemd160 (P.sha256 bs)

/-- `PrivateKey(sec_exp: bytes)` → `SigningKey.from_string`: exactly 32 bytes, `1 ≤ k < n`. -/
def mkPriv (C : Curve Pt) (bs : Bytes) : Option Nat :=
  let k := beToNat bs
  if bs.length = 32 ∧ 1 ≤ k ∧ k < C.n then some k else none

/-- `PrivateKey(sec_exp: int)` / `PrivateKey.from_int` -/
def privFromInt (C : Curve Pt) (k : Nat) : Option Nat :=
  (toBytesBE 32 k).bind (mkPriv C)

/-- `bytes(private_key)` -/
def privBytes (k : Nat) : Bytes := beFixed 32 k

/-- `PrivateKey.wif` -/
def wif (P : Prims Pt) (k : Nat) (compressed testnet : Bool) : List Char :=
  let prefix_ : UInt8 := if testnet then Generated.wifTest else Generated.wifMain
  Base58.encodeCheck P.hash256 ([prefix_] ++ privBytes k ++ (if compressed then [1] else []))

/-- `PrivateKey.from_wif` -/
def fromWif (P : Prims Pt) (s : List Char) : Option Nat :=
  (Base58.decodeCheck P.hash256 s).bind fun decoded =>
    match s with
    | [] => none
    | c :: _ =>
      if c = 'K' ∨ c = 'L' ∨ c = 'c' then
        -- `assert decoded[-1] == 1`
        if decoded.getLast? = some 1 then mkPriv P.curve (decoded.dropLast.drop 1) else none
      else mkPriv P.curve (decoded.drop 1)

/-- `PublicKey.address` for the two supported kinds is in `Wallet.lean`; here the
SEC helpers. -/
def h160 (P : Prims Pt) (pt : Pt) (compressed : Bool) : Bytes :=
  hash160 P (P.curve.sec compressed pt)

end BtcHd.Keys
