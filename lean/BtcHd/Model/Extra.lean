/-
Mirror of the remaining small pure pieces of the library that the twenty listed
properties do not speak about, so that every module has a model:

* `helper.py`      : `chunks`, `merkle_parent`, `merkle_parent_level`, `merkle_root`,
                     `bech32_decode_address`
* `op.py`          : the `OP_CODE_NAMES` table (data)
* `script.py`      : `Script.__add__`, `Script.__eq__`, `Script.__repr__`
* `wallet_utils.py`: `list_get`, the `Version` list helpers, the `Bip32Path` predicates,
                     `Bip32Path.__eq__`, `is_hardened`, `is_private`
* `bip85.py`       : `BIP85DeterministicEntropy.from_xprv`, `__eq__`
* `base_wallet.py` : `BaseWallet.__eq__`
* `keys.py`        : `PrivateKey.__eq__`, `PublicKey.__eq__`
* `paper_wallet.py`: the texts produced by `json`, `pprint`, `export_wallet`, `wasabi_json`,
                     `export_wasabi`

Core Lean only.  Python exceptions are `none`, as everywhere in the model.  Python `int`
arguments that the library only ever uses as sizes / opcodes / key types are `Nat` here
(negative values are not modelled).
-/
import BtcHd.Model.Wallet
import BtcHd.Model.JsonText

namespace BtcHd.Extra
open BtcHd

/-! ## helper.py -/

/-- `list(chunks(lst, n))`: the slices `lst[i:i+n]` for `i in range(0, len(lst), n)`.
`range` raises `ValueError` for step `0` (when the generator is first advanced) ↦ `none`.
`range(0, len, n)` has `⌈len / n⌉` elements. -/
def chunks {α : Type} (n : Nat) (lst : List α) : Option (List (List α)) :=
  if n = 0 then none
  else some ((List.range' 0 ((lst.length + n - 1) / n) n).map fun i => (lst.drop i).take n)

/-- `merkle_parent(hash1, hash2)`; `h` is the double SHA-256 `hash256` -/
def merkleParent (h : Bytes → Bytes) (hash1 hash2 : Bytes) : Bytes := h (hash1 ++ hash2)

/-- the list object `hashes` as `merkle_parent_level` leaves it: when the length is odd the
last element has been appended once more (`hashes.append(hashes[-1])` mutates the caller's
list).  The `none` arm of the `match` is unreachable (an odd length is not `0`). -/
def padLevel (hashes : List Bytes) : List Bytes :=
  if hashes.length % 2 = 1 then
    match hashes.getLast? with
    | some l => hashes ++ [l]
    | none => hashes
  else hashes

/-- the `for i in range(0, len(hashes), 2)` loop on a list of even length: parents of the
consecutive pairs.  (On an odd length Python would raise `IndexError` at the dangling element;
`merkle_parent_level` only calls the loop on `padLevel`, whose length is even — theorem
`padLevel_even` — so the catch-all arm is only reached with `[]`.) -/
def pairUp (h : Bytes → Bytes) : List Bytes → List Bytes
  | a :: b :: rest => merkleParent h a b :: pairUp h rest
  | _ => []

/-- `merkle_parent_level(hashes)`, the returned list; a one-element list raises `ValueError`.
(The empty list returns `[]`.) -/
def merkleParentLevel (h : Bytes → Bytes) (hashes : List Bytes) : Option (List Bytes) :=
  if hashes.length = 1 then none else some (pairUp h (padLevel hashes))

/-- `merkle_parent_level(hashes)` with its side effect: the returned list and the state of the
argument list after the call -/
def merkleParentLevelMut (h : Bytes → Bytes) (hashes : List Bytes) :
    Option (List Bytes × List Bytes) :=
  (merkleParentLevel h hashes).map fun r => (r, padLevel hashes)

/-- the `while len(current_level) > 1` loop of `merkle_root`; `fuel` bounds the number of times
the loop condition is evaluated (`none` on running out, which `merkle_root_fuel_irrelevant`
shows never happens with the fuel `merkleRoot` gives).  `current_level[0]` on the empty list
is an `IndexError` ↦ `none`. -/
def merkleRootLoop (h : Bytes → Bytes) : Nat → List Bytes → Option Bytes
  | 0, _ => none
  | fuel + 1, cur =>
    if cur.length > 1 then (merkleParentLevel h cur).bind (merkleRootLoop h fuel)
    else cur.head?

/-- `merkle_root(hashes)` -/
def merkleRoot (h : Bytes → Bytes) (hashes : List Bytes) : Option Bytes :=
  merkleRootLoop h hashes.length hashes

/-- the caller's list after `merkle_root(hashes)` returned: the first round of the loop runs
`merkle_parent_level` on the very object that was passed in (`current_level = hashes`) -/
def merkleRootArg (hashes : List Bytes) : List Bytes :=
  if hashes.length > 1 then padLevel hashes else hashes

/-- `bytes(ints)`: `ValueError` unless every element is in `range(256)` -/
def bytesOfInts (xs : List Nat) : Option Bytes :=
  xs.mapM fun v => if v < 256 then some (UInt8.ofNat v) else none

/-- `bech32_decode_address(addr)` = `bytes(bech32.decode(hrp=addr[:2], addr=addr)[1])`;
`decode` returning `(None, None)` makes `bytes(None)` raise `TypeError` ↦ `none` -/
def bech32DecodeAddress (addr : List Char) : Option Bytes :=
  (Bech32.decode (addr.take 2) addr).bind fun r => bytesOfInts r.2

/-! ## op.py / script.py -/

/-- `OP_CODE_NAMES` (copied from `op.py`; it is data) -/
def opCodeNames : List (Nat × String) :=
  [(0, "OP_0"), (76, "OP_PUSHDATA1"), (77, "OP_PUSHDATA2"), (78, "OP_PUSHDATA4"),
   (79, "OP_1NEGATE"), (81, "OP_1"), (82, "OP_2"), (83, "OP_3"), (84, "OP_4"), (85, "OP_5"),
   (86, "OP_6"), (87, "OP_7"), (88, "OP_8"), (89, "OP_9"), (90, "OP_10"), (91, "OP_11"),
   (92, "OP_12"), (93, "OP_13"), (94, "OP_14"), (95, "OP_15"), (96, "OP_16"), (97, "OP_NOP"),
   (99, "OP_IF"), (100, "OP_NOTIF"), (103, "OP_ELSE"), (104, "OP_ENDIF"), (105, "OP_VERIFY"),
   (106, "OP_RETURN"), (107, "OP_TOALTSTACK"), (108, "OP_FROMALTSTACK"), (109, "OP_2DROP"),
   (110, "OP_2DUP"), (111, "OP_3DUP"), (112, "OP_2OVER"), (113, "OP_2ROT"), (114, "OP_2SWAP"),
   (115, "OP_IFDUP"), (116, "OP_DEPTH"), (117, "OP_DROP"), (118, "OP_DUP"), (119, "OP_NIP"),
   (120, "OP_OVER"), (121, "OP_PICK"), (122, "OP_ROLL"), (123, "OP_ROT"), (124, "OP_SWAP"),
   (125, "OP_TUCK"), (130, "OP_SIZE"), (135, "OP_EQUAL"), (136, "OP_EQUALVERIFY"),
   (139, "OP_1ADD"), (140, "OP_1SUB"), (143, "OP_NEGATE"), (144, "OP_ABS"), (145, "OP_NOT"),
   (146, "OP_0NOTEQUAL"), (147, "OP_ADD"), (148, "OP_SUB"), (149, "OP_MUL"), (154, "OP_BOOLAND"),
   (155, "OP_BOOLOR"), (156, "OP_NUMEQUAL"), (157, "OP_NUMEQUALVERIFY"), (158, "OP_NUMNOTEQUAL"),
   (159, "OP_LESSTHAN"), (160, "OP_GREATERTHAN"), (161, "OP_LESSTHANOREQUAL"),
   (162, "OP_GREATERTHANOREQUAL"), (163, "OP_MIN"), (164, "OP_MAX"), (165, "OP_WITHIN"),
   (166, "OP_RIPEMD160"), (167, "OP_SHA1"), (168, "OP_SHA256"), (169, "OP_HASH160"),
   (170, "OP_HASH256"), (171, "OP_CODESEPARATOR"), (172, "OP_CHECKSIG"),
   (173, "OP_CHECKSIGVERIFY"), (174, "OP_CHECKMULTISIG"), (175, "OP_CHECKMULTISIGVERIFY"),
   (176, "OP_NOP1"), (177, "OP_CHECKLOCKTIMEVERIFY"), (178, "OP_CHECKSEQUENCEVERIFY"),
   (179, "OP_NOP4"), (180, "OP_NOP5"), (181, "OP_NOP6"), (182, "OP_NOP7"), (183, "OP_NOP8"),
   (184, "OP_NOP9"), (185, "OP_NOP10"), (186, "OP_CHECKSIGADD")]

/-- `OP_CODE_NAMES.get(cmd)` when it is truthy (present and not the empty string) -/
def opName? (b : Nat) : Option (List Char) :=
  match opCodeNames.lookup b with
  | some name => if name.toList = [] then none else some name.toList
  | none => none

/-- what `__repr__` appends for one command: the opcode's name, `OP_[n]` for an unknown
opcode, the hex of a data element -/
def cmdRepr : Script.Cmd → List Char
  | .op b =>
    match opName? b with
    | some name => name
    | none => "OP_[".toList ++ natToDec b ++ [']']
  | .data d => toHex d

/-- `Script.__repr__` -/
def scriptRepr (cmds : List Script.Cmd) : List Char :=
  Text.join [' '] (cmds.map cmdRepr)

/-- `Script.__add__`: the commands of the sum -/
def scriptAdd (a b : List Script.Cmd) : List Script.Cmd := a ++ b

/-- `Script.__eq__`: `self.cmds == other.cmds` (an `int` never equals a `bytes`) -/
def scriptEq (a b : List Script.Cmd) : Bool := decide (a = b)

/-! ## wallet_utils.py -/

/-- `list_get(lst, i)` for `i ≥ 0` -/
def listGet {α : Type} (lst : List α) (i : Nat) : Option α := lst[i]?

/-- `Version.get_versions(dct)`: the generated tables list a network's versions in the
iteration order of the Python dict (`PUB` block, then `PRV` block) -/
def getVersions (tbl : List (Nat × Nat × Nat)) : List Nat := tbl.map (·.2.2)

/-- `Version.mainnet_versions()` -/
def mainnetVersions : List Nat := getVersions Generated.versionsMain

/-- `Version.testnet_versions()` -/
def testnetVersions : List Nat := getVersions Generated.versionsTest

/-- `list(cls.test[key_type].values()) + list(cls.main[key_type].values())` for the key type
`k` (PRV = 0, PUB = 1) -/
def keyVersionsOf (k : Nat) : List Nat :=
  ((Generated.versionsTest.filter fun e => e.1 = k).map (·.2.2)) ++
    ((Generated.versionsMain.filter fun e => e.1 = k).map (·.2.2))

/-- `Version.key_versions(key_type)`; any name other than `"PRV"` (0) / `"PUB"` (1) is a
`KeyError` -/
def keyVersions (k : Nat) : Option (List Nat) :=
  if k = 0 ∨ k = 1 then some (keyVersionsOf k) else none

/-- `Version.prv_versions()` -/
def prvVersions : List Nat := keyVersionsOf 0

/-- `Version.pub_versions()` -/
def pubVersions : List Nat := keyVersionsOf 1

/-- `cls.main[key][bip]` / `cls.test[key][bip]` (every entry used below is present:
theorem `tables_complete`) -/
def tblGet (tbl : List (Nat × Nat × Nat)) (k b : Nat) : Nat := (Path.lookup tbl k b).getD 0

/-- `Version.bip44_data()` as the list of its items, in dict order -/
def bip44Data : List (List Char × Nat) :=
  [("xprv".toList, tblGet Generated.versionsMain 0 0), ("xpub".toList, tblGet Generated.versionsMain 1 0),
   ("tprv".toList, tblGet Generated.versionsTest 0 0), ("tpub".toList, tblGet Generated.versionsTest 1 0)]

/-- `Version.bip49_data()` -/
def bip49Data : List (List Char × Nat) :=
  [("yprv".toList, tblGet Generated.versionsMain 0 1), ("ypub".toList, tblGet Generated.versionsMain 1 1),
   ("uprv".toList, tblGet Generated.versionsTest 0 1), ("upub".toList, tblGet Generated.versionsTest 1 1)]

/-- `Version.bip84_data()` -/
def bip84Data : List (List Char × Nat) :=
  [("zprv".toList, tblGet Generated.versionsMain 0 2), ("zpub".toList, tblGet Generated.versionsMain 1 2),
   ("vprv".toList, tblGet Generated.versionsTest 0 2), ("vpub".toList, tblGet Generated.versionsTest 1 2)]

/-! ### `Bip32Path` slots and predicates

`Path.levels` holds the non-`None` slots; `integrity_check` guarantees they form a prefix of
`(purpose, coin_type, account, chain, addr_index)`, so slot `i` is `levels[i]?` (`none` = `None`). -/

def purpose (p : Path.Path) : Option Nat := p.levels[0]?
def coinType (p : Path.Path) : Option Nat := p.levels[1]?
def account (p : Path.Path) : Option Nat := p.levels[2]?
def chain (p : Path.Path) : Option Nat := p.levels[3]?
def addrIndex (p : Path.Path) : Option Nat := p.levels[4]?

/-- `Bip32Path.bitcoin_testnet` -/
def bitcoinTestnet (p : Path.Path) : Bool := coinType p == some 0x80000001

/-- `Bip32Path.bitcoin_mainnet` -/
def bitcoinMainnet (p : Path.Path) : Bool := coinType p == some 0x80000000

/-- `Bip32Path.external_chain` -/
def externalChain (p : Path.Path) : Bool := chain p == some 0

/-- `Bip32Path.bip44` -/
def bip44 (p : Path.Path) : Bool := purpose p == some (44 + 2 ^ 31)

/-- `Bip32Path.bip49` -/
def bip49 (p : Path.Path) : Bool := purpose p == some (49 + 2 ^ 31)

/-- `Bip32Path.bip84` -/
def bip84 (p : Path.Path) : Bool := purpose p == some (84 + 2 ^ 31)

/-- `Bip32Path.bip()` written with the predicates, as in the Python -/
def pathBip (p : Path.Path) : Nat :=
  if bip44 p then 0 else if bip49 p then 1 else if bip84 p then 2 else 0

/-- `Bip32Path.m` -/
def pathMark (p : Path.Path) : List Char := if p.priv then ['m'] else ['M']

/-- `Bip32Path.__eq__`: the marks and the five slots agree -/
def pathEq (a b : Path.Path) : Bool :=
  pathMark a == pathMark b && purpose a == purpose b && coinType a == coinType b &&
    account a == account b && chain a == chain b && addrIndex a == addrIndex b

/-- `Bip32Path.is_hardened(num)` -/
def isHardened (num : Nat) : Bool := num ≥ 2 ^ 31

/-- `Bip32Path.is_private(sign)` -/
def isPrivate (sign : List Char) : Bool := sign == ['m']

/-! ## bip85.py / base_wallet.py / keys.py : constructors and `__eq__` -/

variable {Pt : Type}

/-- a `BIP85DeterministicEntropy` object: its two attributes -/
structure Bip85Obj where
  masterNode : Bip32.Node
  testnet : Bool

/-- `BIP85DeterministicEntropy.from_xprv(xprv, testnet)` -/
def bip85FromXprv (P : Prims Pt) (xprv : List Char) (testnet : Bool) : Option Bip85Obj :=
  (Bip32.parseStr P true testnet xprv).map fun nd => ⟨nd, testnet⟩

/-- `BIP85DeterministicEntropy.__eq__` -/
def bip85Eq (a b : Bip85Obj) : Bool :=
  Bip32.nodeEq a.masterNode b.masterNode && a.testnet == b.testnet

/-- `BaseWallet.__eq__` -/
def walletEq (a b : Wallet.Wallet) : Bool :=
  Bip32.nodeEq a.master b.master && a.testnet == b.testnet

/-- `PrivateKey.__eq__`: `self.k == other.k` on the 32-byte strings -/
def privKeyEq (k1 k2 : Nat) : Bool := decide (Keys.privBytes k1 = Keys.privBytes k2)

/-- `PublicKey.__eq__`: `self.sec() == other.sec()` (compressed SEC) -/
def pubKeyEq (C : Curve Pt) (p q : Pt) : Bool := decide (C.sec true p = C.sec true q)

/-! ## paper_wallet.py : the texts -/

/-- Python truthiness of a JSON-shaped value -/
def truthy : Wallet.Json → Bool
  | .null => false
  | .str s => !s.isEmpty
  | .arr xs => !xs.isEmpty
  | .obj kvs => !kvs.isEmpty

/-- `data if data else self.generate()` (defaults `account=0`, `interval=(0, 20)`) -/
def dataOrGenerate (P : Prims Pt) (w : Wallet.Wallet) (data : Option Wallet.Json) : Option Wallet.Json :=
  match data with
  | some j => if truthy j then some j else Wallet.generate P w 0 0 20
  | none => Wallet.generate P w 0 0 20

/-- `PaperWallet.json(data, indent)` -/
def jsonText (P : Prims Pt) (w : Wallet.Wallet) (data : Option Wallet.Json) (indent : Option Nat) :
    Option (List Char) :=
  (dataOrGenerate P w data).map (JsonText.dumps indent)

/-- `os.linesep` on this platform -/
def linesep : List Char := ['\n']

/-- everything `PaperWallet.pprint(data, indent)` writes to standard output -/
def pprintText (P : Prims Pt) (w : Wallet.Wallet) (data : Option Wallet.Json) (indent : Option Nat) :
    Option (List Char) :=
  (dataOrGenerate P w data).bind fun d => (jsonText P w (some d) indent).map (· ++ linesep)

/-- the file contents `PaperWallet.export_wallet(file_path, indent, data)` writes -/
def exportWalletText (P : Prims Pt) (w : Wallet.Wallet) (data : Option Wallet.Json) (indent : Option Nat) :
    Option (List Char) :=
  (dataOrGenerate P w data).bind fun d => jsonText P w (some d) indent

/-- `PaperWallet.wasabi_json(indent)`, also the file contents of `export_wasabi` -/
def wasabiJsonText (P : Prims Pt) (w : Wallet.Wallet) (indent : Option Nat) : Option (List Char) :=
  (Wallet.wasabi P w).bind fun j => jsonText P w (some j) indent

end BtcHd.Extra
