/-
Mirror of `read_exact`, `read_varint`, `encode_varint` (helper.py).  A stream is
the list of bytes not yet consumed; reading returns the rest.
-/
import BtcHd.Model.Basic

namespace BtcHd.Varint
open BtcHd

/-- `read_exact(s, n)`: `none` when fewer than `n` bytes remain -/
def readExact (s : Bytes) (n : Nat) : Option (Bytes × Bytes) :=
  if n ≤ s.length then some (s.take n, s.drop n) else none

/-- `read_varint` -/
def readVarint (s : Bytes) : Option (Nat × Bytes) :=
  match s with
  | [] => none
  | i :: rest =>
    if i = 0xfd then (readExact rest 2).map fun (b, r) => (leToNat b, r)
    else if i = 0xfe then (readExact rest 4).map fun (b, r) => (leToNat b, r)
    else if i = 0xff then (readExact rest 8).map fun (b, r) => (leToNat b, r)
    else some (i.toNat, rest)

/-- `encode_varint` -/
def encodeVarint (i : Nat) : Option Bytes :=
  if i < 0xfd then some (leFixed 1 i)
  else if i < 0x10000 then some (0xfd :: leFixed 2 i)
  else if i < 0x100000000 then some (0xfe :: leFixed 4 i)
  else if i < 0x10000000000000000 then some (0xff :: leFixed 8 i)
  else none

end BtcHd.Varint
