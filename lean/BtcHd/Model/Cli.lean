/-
C20: mirror of `__main__.py` — the eight validators, `paranoia_mode` (in
Wallet.lean) and `main`'s dispatch — over a CANONICAL argv grammar:
global options as separate tokens before exactly one sub-command, followed by
that sub-command's own options / positional.  Abbreviated options,
`--opt=value`, `-fFILE` and `--` are argparse behaviour outside this model.
The file system is abstracted to the class of the `--file` path.
-/
import BtcHd.Model.Wallet

namespace BtcHd.Cli
open BtcHd Wallet

variable {Pt : Type}

/-- what `pathlib`/`os.access` report about the `--file` argument -/
inductive FsClass
  | absent        -- does not exist, parent directory writable
  | file          -- exists (and is not a directory)
  | dir           -- is a directory
  | noParent      -- does not exist and the parent directory is not writable / missing
deriving DecidableEq, Repr

inductive Target | stdout | file
deriving DecidableEq, Repr

inductive Outcome
  | reject                       -- non-zero exit status, nothing on stdout, no file
  | help                         -- usage printed, exit status 1 (no sub-command) — no wallet data
  | emit (t : Target) (report : Json)

/-- `int(value)` on ASCII text: surrounding whitespace, optional sign, digits with
single underscores between digits -/
def pyInt (s : List Char) : Option Int :=
  let s := Text.strip s
  let (neg, body) := match s with
    | '-' :: r => (true, r)
    | '+' :: r => (false, r)
    | r => (false, r)
  -- underscores: only between digits
  let rec ok : List Char → Bool → Bool      -- second argument: previous char was a digit
    | [], prevDigit => prevDigit
    | c :: cs, prevDigit =>
      if c.isDigit then ok cs true
      else if c = '_' then prevDigit && (match cs with | d :: _ => d.isDigit | [] => false) && ok cs false
      else false
  if ok body false then
    let v : Nat := Text.decVal (body.filter (· ≠ '_'))
    some (if neg then - (v : Int) else (v : Int))
  else none

/-- `value_in_interval(value, 0, max_)` -/
def valueInInterval (value : List Char) (max : Nat) : Option Nat :=
  (pyInt value).bind fun v => if 0 ≤ v ∧ v < (max : Int) then some v.toNat else none

def addressIndex (v : List Char) : Option Nat := valueInInterval v Generated.cliAddressMax
def accountIndex (v : List Char) : Option Nat := valueInInterval v Generated.cliAccountMax

/-- `extended_key` -/
def extendedKeyArg (v : List Char) : Option (List Char) := if v.length = 111 then some v else none

/-- `mnemonic`: word count of `split(" ")`, then `strip()` -/
def mnemonicArg (v : List Char) : Option (List Char) :=
  if (Text.splitOn ' ' v).length ∈ Generated.correctMnemonicLength then some (Text.strip v) else none

/-- `bip39_seed` -/
def seedArg (v : List Char) : Option (List Char) := if v.length = 128 then some v else none

/-- `entropy_hex` -/
def entropyArg (v : List Char) : Option (List Char) :=
  if v.length * 4 ∈ Generated.correctEntropyBits then some v else none

/-- `file_` -/
def fileArg (c : FsClass) : Bool := c = .absent

/-- argparse: a token can be an option's value unless it looks like an option
(`-…`), negative numbers excepted (`^-\d+$`; the parser defines no numeric-looking options) -/
def isValueTok (t : List Char) : Bool :=
  match t with
  | '-' :: r => r ≠ [] && r.all Char.isDigit
  | _ => true

structure Globals where
  file : Bool := false
  testnet : Bool := false
  paranoia : Bool := false
  account : Nat := 0
  a : Nat := 0
  b : Nat := 20

inductive Cmd
  | new (password : List Char) (mnemonicLen : Nat)
  | fromXprv (k : List Char)
  | fromMnemonic (m password : List Char)
  | fromSeed (s : List Char)
  | fromEntropy (e password : List Char)

def subcommands : List (List Char) :=
  ["new".toList, "from-master-xprv".toList, "from-mnemonic".toList, "from-bip39-seed".toList,
   "from-entropy-hex".toList]

/-- the global part: returns the globals and the rest starting at the sub-command
(`none` = argparse error, exit status 2) -/
def parseGlobals (fs : FsClass) : Nat → Globals → List (List Char) → Option (Globals × List (List Char))
  | 0, _, _ => none
  | _ + 1, g, [] => some (g, [])
  | fuel + 1, g, t :: rest =>
    if t = "-f".toList ∨ t = "--file".toList then
      match rest with
      | v :: rest' => if isValueTok v ∧ fileArg fs then parseGlobals fs fuel { g with file := true } rest' else none
      | [] => none
    else if t = "--testnet".toList then parseGlobals fs fuel { g with testnet := true } rest
    else if t = "--paranoia".toList then parseGlobals fs fuel { g with paranoia := true } rest
    else if t = "--account".toList then
      match rest with
      | v :: rest' =>
        if isValueTok v then (accountIndex v).bind fun n => parseGlobals fs fuel { g with account := n } rest'
        else none
      | [] => none
    else if t = "--interval".toList then
      match rest with
      | x :: y :: rest' =>
        if isValueTok x ∧ isValueTok y then
          (addressIndex x).bind fun a => (addressIndex y).bind fun b =>
            parseGlobals fs fuel { g with a := a, b := b } rest'
        else none
      | _ => none
    else if t ∈ subcommands then some (g, t :: rest)
    else none

/-- options/positional of one sub-command: `--password X` (where defined),
`--mnemonic-len N` (for `new`), at most one positional -/
structure SubArgs where
  password : List Char := []
  mnemonicLen : Nat := 24
  positional : Option (List Char) := none

def parseSub (allowPassword allowLen allowPositional : Bool) :
    Nat → SubArgs → List (List Char) → Option SubArgs
  | 0, _, _ => none
  | _ + 1, s, [] => some s
  | fuel + 1, s, t :: rest =>
    if t = "--password".toList then
      if allowPassword then
        match rest with
        | v :: rest' => if isValueTok v then parseSub allowPassword allowLen allowPositional fuel { s with password := v } rest' else none
        | [] => none
      else none
    else if t = "--mnemonic-len".toList then
      if allowLen then
        match rest with
        | v :: rest' =>
          if isValueTok v then
            (pyInt v).bind fun n =>
              if 0 ≤ n ∧ n.toNat ∈ Generated.correctMnemonicLength then
                parseSub allowPassword allowLen allowPositional fuel { s with mnemonicLen := n.toNat } rest'
              else none
          else none
        | [] => none
      else none
    else if isValueTok t ∧ allowPositional ∧ s.positional.isNone then
      parseSub allowPassword allowLen allowPositional fuel { s with positional := some t } rest
    else none

/-- `parse_args`: `none` = exit status 2; `some (g, none)` = no sub-command -/
def parseArgs (fs : FsClass) (argv : List (List Char)) : Option (Globals × Option Cmd) :=
  (parseGlobals fs (argv.length + 1) {} argv).bind fun (g, rest) =>
    match rest with
    | [] => some (g, none)
    | c :: args =>
      let fuel := args.length + 1
      if c = "new".toList then
        (parseSub true true false fuel {} args).map fun s => (g, some (.new s.password s.mnemonicLen))
      else if c = "from-master-xprv".toList then
        (parseSub false false true fuel {} args).bind fun s =>
          (s.positional.bind extendedKeyArg).map fun k => (g, some (.fromXprv k))
      else if c = "from-mnemonic".toList then
        (parseSub true false true fuel {} args).bind fun s =>
          (s.positional.bind mnemonicArg).map fun m => (g, some (.fromMnemonic m s.password))
      else if c = "from-bip39-seed".toList then
        (parseSub false false true fuel {} args).bind fun s =>
          (s.positional.bind seedArg).map fun sd => (g, some (.fromSeed sd))
      else if c = "from-entropy-hex".toList then
        (parseSub true false true fuel {} args).bind fun s =>
          (s.positional.bind entropyArg).map fun e => (g, some (.fromEntropy e s.password))
      else none

/-- the wallet constructor `main` dispatches to -/
def construct (P : Prims Pt) (osRandom : Nat → Bytes) (g : Globals) : Cmd → Option Wallet
  | .new pw len => newWallet P osRandom len pw g.testnet
  | .fromXprv k => fromExtendedKey P k
  | .fromMnemonic m pw => fromMnemonic P m pw g.testnet
  | .fromSeed s => fromSeedHex P s g.testnet
  | .fromEntropy e pw => fromEntropyHex P e pw g.testnet

/-- `main()` -/
def run (P : Prims Pt) (osRandom : Nat → Bytes) (fs : FsClass) (argv : List (List Char)) : Outcome :=
  match parseArgs fs argv with
  | none => .reject
  | some (_, none) => .help
  | some (g, some cmd) =>
    match construct P osRandom g cmd with
    | none => .reject
    | some w =>
      match generate P w g.account g.a g.b with
      | none => .reject
      | some data =>
        let data' := if g.paranoia then paranoia data else some data
        match data' with
        | none => .reject
        | some d => .emit (if g.file then .file else .stdout) d

end BtcHd.Cli
