/-
Basic vocabulary of the model: byte strings, big/little-endian integers,
Python slice helpers, hex.  Core Lean only (the driver links against this).

Python exceptions are modelled by `Option`: `none` = "raised".
-/
namespace BtcHd

abbrev Bytes := List UInt8

/-- `int.from_bytes(bs, 'big')` -/
def beToNat (bs : Bytes) : Nat := bs.foldl (fun acc b => acc * 256 + b.toNat) 0

/-- `int.from_bytes(bs, 'little')` -/
def leToNat : Bytes → Nat
  | [] => 0
  | b :: bs => b.toNat + 256 * leToNat bs

/-- the `len` low-order base-256 digits of `n`, most significant first -/
def beFixed : Nat → Nat → Bytes
  | 0, _ => []
  | len + 1, n => beFixed len (n / 256) ++ [UInt8.ofNat (n % 256)]

/-- the `len` low-order base-256 digits of `n`, least significant first -/
def leFixed : Nat → Nat → Bytes
  | 0, _ => []
  | len + 1, n => UInt8.ofNat (n % 256) :: leFixed len (n / 256)

/-- `n.to_bytes(len, 'big')` (OverflowError ↦ `none`) -/
def toBytesBE (len n : Nat) : Option Bytes :=
  if n < 256 ^ len then some (beFixed len n) else none

/-- `n.to_bytes(len, 'little')` (OverflowError ↦ `none`) -/
def toBytesLE (len n : Nat) : Option Bytes :=
  if n < 256 ^ len then some (leFixed len n) else none

/-- Python `xs[-k:]` for `k > 0` -/
def lastN (k : Nat) (xs : List α) : List α := xs.drop (xs.length - k)

/-- Python `xs[:-k]` for `k > 0` -/
def dropLastN (k : Nat) (xs : List α) : List α := xs.take (xs.length - k)

def hexDigit (n : Nat) : Char :=
  if n < 10 then Char.ofNat (48 + n) else Char.ofNat (87 + n)

/-- `bytes.hex()` -/
def toHex : Bytes → List Char
  | [] => []
  | b :: bs => hexDigit (b.toNat / 16) :: hexDigit (b.toNat % 16) :: toHex bs

def hexVal (c : Char) : Option Nat :=
  if '0' ≤ c ∧ c ≤ '9' then some (c.toNat - 48)
  else if 'a' ≤ c ∧ c ≤ 'f' then some (c.toNat - 87)
  else if 'A' ≤ c ∧ c ≤ 'F' then some (c.toNat - 55)
  else none

/-- ASCII whitespace as `bytes.fromhex` skips it (CPython ≥ 3.7: all of
`" \t\n\r\v\f"`, between byte pairs only). -/
def isHexSpace (c : Char) : Bool :=
  c = ' ' || c = '\t' || c = '\n' || c = '\r' || c = Char.ofNat 11 || c = Char.ofNat 12

/-- `bytes.fromhex(s)`: whitespace is skipped between pairs, never inside one. -/
def fromHex : List Char → Option Bytes
  | [] => some []
  | c :: cs =>
    if isHexSpace c then fromHex cs
    else match cs with
      | [] => none
      | d :: ds =>
        match hexVal c, hexVal d with
        | some hi, some lo => (fromHex ds).map (UInt8.ofNat (hi * 16 + lo) :: ·)
        | _, _ => none

/-- decimal `str(n)` -/
def natToDec (n : Nat) : List Char := (Nat.toDigits 10 n)

end BtcHd
