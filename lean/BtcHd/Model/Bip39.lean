/-
Mirror of `bip39.py`.  The bit-string route of `mnemonic_from_entropy`
(`bin()`, `zfill`, 11-character chunks, `int(·, 2)`) is mirrored, not idealised.
-/
import BtcHd.Model.Curve
import BtcHd.Model.Text
import BtcHd.Generated.Wordlist
import BtcHd.Generated.Misc

set_option linter.unusedVariables false

namespace BtcHd.Bip39
open BtcHd

variable {Pt : Type}

/-- `bin(n)[2:]` -/
def binStr (n : Nat) : List Char := Nat.toDigits 2 n

/-- `s.zfill(w)` for strings without a sign -/
def zfill (w : Nat) (s : List Char) : List Char := List.replicate (w - s.length) '0' ++ s

/-- `re.findall("." * k, s)`: consecutive non-overlapping `k`-character chunks, the
remainder dropped.  `fuel` = number of chunks. -/
def chunksExact (k : Nat) : Nat → List Char → List (List Char)
  | 0, _ => []
  | fuel + 1, s => if k ≤ s.length ∧ 0 < k then s.take k :: chunksExact k fuel (s.drop k) else []

/-- `int(s, 2)` for a string of `0`/`1` -/
def binVal (s : List Char) : Nat := Nat.ofDigitChars 2 s 0

/-- the word with list position `i` (`none` = IndexError); words are stored as
base-256 numbers of their ASCII letters in `Generated.wordNums` -/
def wordAt (i : Nat) : Option Nat := Generated.wordNums[i]?

/-- the letters of a word number -/
def wordChars (w : Nat) : List Char :=
  if h : w = 0 then [] else wordChars (w / 256) ++ [Char.ofNat (w % 256)]
termination_by w
decreasing_by omega

/-- `checksum_length` (`int(entropy_bits / 32)`; exact for the bit sizes that pass
the guard, floor otherwise) -/
def checksumLength (entropyBits : Nat) : Nat := entropyBits / 32

/-- `mnemonic_sentence_length` -/
def sentenceLength (entropyBits : Nat) : Nat := (entropyBits + checksumLength entropyBits) / 11

/-- `mnemonic_from_entropy` up to the list of word *indexes* -/
def indexesFromEntropy (sha256 : Bytes → Bytes) (entropyHex : List Char) : Option (List Nat) :=
  (fromHex entropyHex).bind fun eb =>
    let bits := eb.length * 8
    if bits ∈ Generated.correctEntropyBits then
      let cs := checksumLength bits
      let checksum := (zfill 256 (binStr (beToNat (sha256 eb)))).take cs
      let ec := zfill (bits + cs) (binStr (beToNat eb) ++ checksum)
      some ((chunksExact 11 (ec.length / 11) ec).map binVal)
    else none

/-- `mnemonic_from_entropy` as a list of words (word numbers) -/
def wordsFromEntropy (sha256 : Bytes → Bytes) (entropyHex : List Char) : Option (List Nat) :=
  (indexesFromEntropy sha256 entropyHex).bind fun idx => idx.mapM wordAt

/-- the sentence: `" ".join(words)` -/
def sentence (ws : List Nat) : List Char := Text.join [' '] (ws.map wordChars)

def mnemonicFromEntropy (sha256 : Bytes → Bytes) (entropyHex : List Char) : Option (List Char) :=
  (wordsFromEntropy sha256 entropyHex).map sentence

/-- `bip39_seed_from_mnemonic` -/
def seedFromMnemonic (P : Prims Pt) (mnemonic password : List Char) : Bytes :=
  let m := P.nfkd mnemonic
  let pw := P.nfkd password
  let passphrase := P.nfkd Generated.saltPrefix ++ pw
  P.pbkdf2 (Text.utf8 m) (Text.utf8 passphrase) Generated.pbkdf2Rounds

/-! ### New entropy (`random = random.SystemRandom()`) -/

/-- `SystemRandom.getrandbits(k)` for `k > 0` on top of `os.urandom`:
`numbytes = (k + 7) // 8`, `int.from_bytes(urandom(numbytes), 'big') >> (numbytes * 8 - k)`.
(CPython ≥ 3.9 reads the bytes big-endian.) -/
def getrandbits (osRandom : Nat → Bytes) (k : Nat) : Nat :=
  let numbytes := (k + 7) / 8
  beToNat (osRandom numbytes) >>> (numbytes * 8 - k)

/-- `mnemonic_from_entropy_bits` -/
def mnemonicFromEntropyBits (sha256 : Bytes → Bytes) (osRandom : Nat → Bytes) (bits : Nat) :
    Option (List Char) :=
  if bits ∈ Generated.correctEntropyBits then
    (toBytesBE (bits / 8) (getrandbits osRandom bits)).bind fun eb =>
      mnemonicFromEntropy sha256 (toHex eb)
  else none

end BtcHd.Bip39
