/-
Mirror of `bip32.py` (ecdsa fall-back branches): `PubKeyNode`, `PrvKeyNode`.

A node object is modelled by its immutable fields.  The `parent` reference is
replaced by what is ever read through it: the parent's fingerprint (computed
when the child is created — parents are never mutated, see C13) and the list of
indexes from the root object (for `__repr__`).  The mutable `children` list
lives only in `History.lean`.
-/
import BtcHd.Model.Keys
import BtcHd.Model.Path

namespace BtcHd.Bip32
open BtcHd Keys

variable {Pt : Type}

structure Node where
  isPrv : Bool
  /-- the `key` attribute exactly as stored (33 bytes when parsed, 32 for derived
  private nodes and the master) -/
  key : Bytes
  chainCode : Bytes
  depth : Nat
  index : Nat
  testnet : Bool
  hasParent : Bool
  /-- fingerprint of `parent` when there is one, else `parsed_parent_fingerprint` -/
  parentFp : Option Bytes
  /-- indexes from the root object down to this node (for `__repr__`) -/
  path : List Nat
  parsedVersion : Option Nat
deriving DecidableEq, Repr

def hardened : Nat := Generated.hardened

/-- `PrvKeyNode.private_key` -/
def prvKey (P : Prims Pt) (nd : Node) : Option Nat :=
  if nd.key.length = 33 ∧ nd.key.head? = some 0 then mkPriv P.curve (nd.key.drop 1)
  else mkPriv P.curve nd.key

/-- `public_key` of either node class -/
def pubKey (P : Prims Pt) (nd : Node) : Option Pt :=
  if nd.isPrv then (prvKey P nd).map P.curve.mulGen else P.curve.parse nd.key

/-- `fingerprint()` -/
def fingerprint (P : Prims Pt) (nd : Node) : Option Bytes :=
  (pubKey P nd).map fun K => (hash160 P (P.curve.sec true K)).take 4

/-- the `parent_fingerprint` property (`fingerprint or b"\x00\x00\x00\x00"`) -/
def parentFingerprint (nd : Node) : Bytes :=
  match nd.parentFp with
  | none => [0, 0, 0, 0]
  | some [] => [0, 0, 0, 0]
  | some f => f

def isMaster (nd : Node) : Bool := nd.depth = 0 ∧ nd.index = 0 ∧ ¬ nd.hasParent

/-- `PrvKeyNode.master_key` -/
def masterKey (P : Prims Pt) (seed : Bytes) (testnet : Bool) : Option Node :=
  let I := P.hmac512 Generated.masterKeyHmacKey seed
  let IL := I.take 32
  let k := beToNat IL
  if k = 0 then none
  else if k ≥ P.curve.n then none
  else some { isPrv := true, key := IL, chainCode := I.drop 32, depth := 0, index := 0,
              testnet := testnet, hasParent := false, parentFp := none, path := [],
              parsedVersion := none }

def mkChild (nd : Node) (key chain : Bytes) (index : Nat) (fp : Bytes) : Node :=
  { isPrv := nd.isPrv, key := key, chainCode := chain, depth := nd.depth + 1, index := index,
    testnet := nd.testnet, hasParent := true, parentFp := some fp, path := nd.path ++ [index],
    parsedVersion := none }

/-- `PrvKeyNode.ckd` -/
def ckdPrv (P : Prims Pt) (nd : Node) (index : Nat) : Option Node :=
  (prvKey P nd).bind fun k =>
  (toBytesBE 4 index).bind fun idx4 =>
    let K := P.curve.mulGen k
    let data := if index ≥ hardened then [0] ++ privBytes k ++ idx4 else P.curve.sec true K ++ idx4
    let I := P.hmac512 nd.chainCode data
    let IL := beToNat (I.take 32)
    if IL ≥ P.curve.n then none
    else
      let ki := (IL + k) % P.curve.n
      if ki = 0 then none
      else (toBytesBE 32 ki).map fun kb =>
        mkChild nd kb (I.drop 32) index ((hash160 P (P.curve.sec true K)).take 4)

/-- `PubKeyNode.ckd` -/
def ckdPub (P : Prims Pt) (nd : Node) (index : Nat) : Option Node :=
  if index ≥ hardened then none
  else
    (toBytesBE 4 index).bind fun idx4 =>
      let I := P.hmac512 nd.chainCode (nd.key ++ idx4)
      let IL := I.take 32
      if beToNat IL ≥ P.curve.n then none
      else
        (mkPriv P.curve IL).bind fun il =>
        (P.curve.parse nd.key).bind fun K =>
          let point := P.curve.add (P.curve.mulGen il) K
          if P.curve.isInf point then none
          else some (mkChild nd (P.curve.sec true point) (I.drop 32) index
                      ((hash160 P (P.curve.sec true K)).take 4))

/-- `node.ckd(index)` dispatching on the node's class -/
def ckd (P : Prims Pt) (nd : Node) (index : Nat) : Option Node :=
  if nd.isPrv then ckdPrv P nd index else ckdPub P nd index

/-- `derive_path` -/
def derivePath (P : Prims Pt) (nd : Node) : List Nat → Option Node
  | [] => some nd
  | i :: is => (ckd P nd i).bind fun c => derivePath P c is

/-- `generate_children(interval=(a, b))`: `[ckd(i) for i in range(a, b)]` -/
def generateChildren (P : Prims Pt) (nd : Node) (a b : Nat) : Option (List Node) :=
  (List.range' a (b - a)).mapM (ckd P nd)

/-- Python's `range(a, b, step)` for `step ≠ 0` (as a list of integers) -/
def pyRange (a b step : Int) : List Int :=
  let count : Nat :=
    if step > 0 then (if a < b then ((b - a + step - 1) / step).toNat else 0)
    else if step < 0 then (if a > b then ((a - b + (-step) - 1) / (-step)).toNat else 0)
    else 0
  (List.range count).map fun (j : Nat) => a + step * Int.ofNat j

/-- `generate_children(interval)` for every tuple `range(*interval)` accepts: `(b,)`, `(a, b)`, `(a, b, step)`;
`step = 0` is a `ValueError`, a negative index an `OverflowError` of `int_to_big_endian` -/
def generateChildrenStep (P : Prims Pt) (nd : Node) (a b step : Int) : Option (List Node) :=
  if step = 0 then none
  else (pyRange a b step).mapM fun i => if i < 0 then none else ckd P nd i.toNat

/-- `_serialize(key, version)` -/
def serializeWith (nd : Node) (key : Bytes) (version : Nat) : Option Bytes :=
  (toBytesBE 4 version).bind fun v4 =>
  (toBytesBE 1 nd.depth).bind fun d1 =>
  (toBytesBE 4 nd.index).map fun i4 =>
    v4 ++ d1 ++ (if isMaster nd then [0, 0, 0, 0] else parentFingerprint nd) ++ i4
      ++ nd.chainCode ++ key

def pubVersion (nd : Node) : Nat := if nd.testnet then Generated.pubTest else Generated.pubMain
def prvVersion (nd : Node) : Nat := if nd.testnet then Generated.prvTest else Generated.prvMain

/-- `serialize_public(version)` -/
def serializePublic (P : Prims Pt) (nd : Node) (version : Option Nat) : Option Bytes :=
  (pubKey P nd).bind fun K =>
    serializeWith nd (P.curve.sec true K) (version.getD (pubVersion nd))

/-- `serialize_private(version)`; only `PrvKeyNode` has it -/
def serializePrivate (P : Prims Pt) (nd : Node) (version : Option Nat) : Option Bytes :=
  if nd.isPrv then
    (prvKey P nd).bind fun k => serializeWith nd ([0] ++ privBytes k) (version.getD (prvVersion nd))
  else none

def extendedPublicKey (P : Prims Pt) (nd : Node) (version : Option Nat) : Option (List Char) :=
  (serializePublic P nd version).map (Base58.encodeCheck P.hash256)

def extendedPrivateKey (P : Prims Pt) (nd : Node) (version : Option Nat) : Option (List Char) :=
  (serializePrivate P nd version).map (Base58.encodeCheck P.hash256)

/-- `_parse` on a stream with `BytesIO.read` short-read semantics -/
def parseBytes (isPrv testnet : Bool) (s : Bytes) : Node :=
  let version := beToNat (s.take 4)
  let s := s.drop 4
  let depth := beToNat (s.take 1)
  let s := s.drop 1
  let fp := s.take 4
  let s := s.drop 4
  let index := beToNat (s.take 4)
  let s := s.drop 4
  let chain := s.take 32
  let s := s.drop 32
  { isPrv := isPrv, key := s.take 33, chainCode := chain, depth := depth, index := index,
    testnet := testnet, hasParent := false, parentFp := some fp, path := [],
    parsedVersion := some version }

/-- `cls.parse(str)` -/
def parseStr (P : Prims Pt) (isPrv testnet : Bool) (s : List Char) : Option Node :=
  (Base58.decodeCheck P.hash256 s).map (parseBytes isPrv testnet)

/-- `__eq__` -/
def nodeEq (a b : Node) : Bool :=
  a.isPrv = b.isPrv ∧ beToNat a.key = beToNat b.key ∧ a.chainCode = b.chainCode ∧
  a.depth = b.depth ∧ a.index = b.index ∧ a.testnet = b.testnet ∧
  parentFingerprint a = parentFingerprint b

/-- `__repr__` / `str(node)` -/
def nodeRepr (nd : Node) : List Char :=
  let mark := if nd.isPrv then Generated.prvMark else Generated.pubMark
  Text.join ['/'] (mark :: nd.path.map Path.reprHardened)

end BtcHd.Bip32
