/-
Mirror of `script.py`: `Script.parse`, `raw_serialize`, `serialize`, the builders.
-/
import BtcHd.Model.Varint

namespace BtcHd.Script
open BtcHd Varint

inductive Cmd
  | op (b : Nat)        -- an `int` element (any Python int; `to_bytes(1)` fails for > 255)
  | data (d : Bytes)    -- a `bytes` element
deriving DecidableEq, Repr

/-- the per-command part of `raw_serialize` -/
def serCmd : Cmd → Option Bytes
  | .op b => toBytesLE 1 b
  | .data d =>
    let length := d.length
    if length ≤ 75 then some (leFixed 1 length ++ d)
    else if 75 < length ∧ length < 256 then some ([76] ++ leFixed 1 length ++ d)
    else if 256 ≤ length ∧ length ≤ 520 then some ([77] ++ leFixed 2 length ++ d)
    else none

/-- `raw_serialize` -/
def rawSerialize : List Cmd → Option Bytes
  | [] => some []
  | c :: cs => (serCmd c).bind fun a => (rawSerialize cs).map (a ++ ·)

/-- `serialize` -/
def serialize (cs : List Cmd) : Option Bytes :=
  (rawSerialize cs).bind fun raw => (encodeVarint raw.length).map (· ++ raw)

/-- one round of the `while count < length` loop: returns the command, the
number of bytes it accounts for, and the rest of the stream -/
def parseOne (s : Bytes) : Option (Cmd × Nat × Bytes) :=
  match s with
  | [] => none
  | cur :: rest =>
    let b := cur.toNat
    if 1 ≤ b ∧ b ≤ 75 then
      (readExact rest b).map fun (d, r) => (.data d, 1 + b, r)
    else if b = 76 then
      (readExact rest 1).bind fun (l, r1) =>
        let n := leToNat l
        (readExact r1 n).map fun (d, r) => (.data d, 1 + n + 1, r)
    else if b = 77 then
      (readExact rest 2).bind fun (l, r1) =>
        let n := leToNat l
        (readExact r1 n).map fun (d, r) => (.data d, 1 + n + 2, r)
    else some (.op b, 1, rest)

/-- the loop of `Script.parse`; `fuel` bounds the number of rounds (each round
consumes at least one byte, so `s.length + 1` always suffices) -/
def parseLoop : Nat → Nat → Nat → Bytes → Option (List Cmd × Nat × Bytes)
  | 0, _, count, s => some ([], count, s)
  | fuel + 1, length, count, s =>
    if count < length then
      (parseOne s).bind fun (c, k, r) =>
        (parseLoop fuel length (count + k) r).map fun (cs, cnt, r') => (c :: cs, cnt, r')
    else some ([], count, s)

/-- `Script.parse`: returns the commands and the unread rest of the stream -/
def parse (s : Bytes) : Option (List Cmd × Bytes) :=
  (readVarint s).bind fun (length, body) =>
    (parseLoop (body.length + 1) length 0 body).bind fun (cs, count, rest) =>
      if count = length then some (cs, rest) else none

def p2wshScript (h256 : Bytes) : List Cmd := [.op 0, .data h256]
def p2wpkhScript (h160 : Bytes) : List Cmd := [.op 0, .data h160]
def p2shScript (h160 : Bytes) : List Cmd := [.op 0xa9, .data h160, .op 0x87]
def p2pkhScript (h160 : Bytes) : List Cmd := [.op 0x76, .op 0xa9, .data h160, .op 0x88, .op 0xac]

end BtcHd.Script
