/-
The JSON *text* layer used by `PaperWallet.json()`:

    json.dumps(data, indent=indent)          (CPython, all other arguments default)

applied to a value built from `dict` (string keys, insertion order), `list`, `str` and `None`
(type `Wallet.Json`), together with a parser `loads` for the texts `dumps` can produce
(plus arbitrary JSON whitespace between tokens).

`dumps` mirrors `json.encoder`:
* `ensure_ascii=True`: string bodies are produced by `py_encode_basestring_ascii`
  (`ESCAPE_ASCII = ([\\"]|[^\ -~])`): `"`→`\"`, `\`→`\\`, LF→`\n`, CR→`\r`, TAB→`\t`, BS→`\b`,
  FF→`\f`, every other code point outside `' '..'~'` (so also DEL `0x7f`) as `\uXXXX`
  (4 lower-case hex digits), code points `≥ 0x10000` as a UTF-16 surrogate pair of two such escapes;
  `/` is not escaped.
* `indent=None`: separators `", "` and `": "`, no newlines.
* `indent=k` (an `int`; a negative `int` behaves like `0`): item separator `","`, key separator `": "`,
  every item on its own line preceded by `k * level` spaces, the closing bracket on its own line at the
  outer level; an empty list / dict is `[]` / `{}` at any indent.
* `None` ↦ `null`.
-/
import BtcHd.Model.Wallet

namespace BtcHd.JsonText
open BtcHd.Wallet (Json)

/-! ### Encoder -/

/-- lower-case hexadecimal digit of a number `< 16` -/
def hexDigit (n : Nat) : Char :=
  if n < 10 then Char.ofNat (48 + n) else Char.ofNat (87 + n)

/-- `'{0:04x}'.format(n)` for `n < 0x10000` -/
def hex4 (n : Nat) : List Char :=
  [hexDigit (n / 4096 % 16), hexDigit (n / 256 % 16), hexDigit (n / 16 % 16), hexDigit (n % 16)]

/-- `'\\u{0:04x}'.format(n)` -/
def uEscape (n : Nat) : List Char := '\\' :: 'u' :: hex4 n

/-- the replacement of one character by `py_encode_basestring_ascii` -/
def escapeChar (c : Char) : List Char :=
  if c = '"' then ['\\', '"']
  else if c = '\\' then ['\\', '\\']
  else if c = '\n' then ['\\', 'n']
  else if c = '\r' then ['\\', 'r']
  else if c = '\t' then ['\\', 't']
  else if c = Char.ofNat 8 then ['\\', 'b']
  else if c = Char.ofNat 12 then ['\\', 'f']
  else if 0x20 ≤ c.toNat ∧ c.toNat ≤ 0x7e then [c]
  else if c.toNat < 0x10000 then uEscape c.toNat
  else
    uEscape (0xd800 + (c.toNat - 0x10000) / 1024) ++ uEscape (0xdc00 + (c.toNat - 0x10000) % 1024)

/-- the body of a JSON string literal (without the surrounding quotes) -/
def escape (s : List Char) : List Char := s.flatMap escapeChar

/-- a JSON string literal: `py_encode_basestring_ascii(s)` -/
def dumpStr (s : List Char) : List Char := '"' :: (escape s ++ ['"'])

/-- `_item_separator`: `", "` if `indent is None`, else `","` -/
def itemSep : Option Nat → List Char
  | none => [',', ' ']
  | some _ => [',']

/-- `_key_separator`: always `": "` -/
def keySep : List Char := [':', ' ']

/-- `newline_indent` at nesting level `lvl`: nothing if `indent is None`, else a newline and
`indent * lvl` spaces -/
def nlIndent : Option Nat → Nat → List Char
  | none, _ => []
  | some k, lvl => '\n' :: List.replicate (k * lvl) ' '

mutual
/-- `_iterencode(o, lvl)` -/
def dump (ind : Option Nat) (lvl : Nat) : Json → List Char
  | .null => ['n', 'u', 'l', 'l']
  | .str s => dumpStr s
  | .arr [] => ['[', ']']
  | .arr (x :: xs) =>
    '[' :: (nlIndent ind (lvl + 1) ++ (dump ind (lvl + 1) x ++ dumpArrRest ind lvl xs))
  | .obj [] => ['{', '}']
  | .obj (kv :: kvs) =>
    '{' :: (nlIndent ind (lvl + 1) ++ (dumpStr kv.1 ++ (keySep ++
      (dump ind (lvl + 1) kv.2 ++ dumpObjRest ind lvl kvs))))
/-- the remaining items of a list whose first item has been written, and the closing bracket
(`lvl` is the level of the list itself) -/
def dumpArrRest (ind : Option Nat) (lvl : Nat) : List Json → List Char
  | [] => nlIndent ind lvl ++ [']']
  | x :: xs =>
    itemSep ind ++ (nlIndent ind (lvl + 1) ++ (dump ind (lvl + 1) x ++ dumpArrRest ind lvl xs))
/-- the remaining items of a dict whose first item has been written, and the closing brace -/
def dumpObjRest (ind : Option Nat) (lvl : Nat) : List (List Char × Json) → List Char
  | [] => nlIndent ind lvl ++ ['}']
  | kv :: kvs =>
    itemSep ind ++ (nlIndent ind (lvl + 1) ++ (dumpStr kv.1 ++ (keySep ++
      (dump ind (lvl + 1) kv.2 ++ dumpObjRest ind lvl kvs))))
end

/-- `json.dumps(j, indent=indent)` -/
def dumps (indent : Option Nat) (j : Json) : List Char := dump indent 0 j

/-! ### Decoder -/

/-- JSON whitespace -/
def isWs (c : Char) : Bool := c = ' ' || c = '\n' || c = '\r' || c = '\t'

/-- drop leading whitespace -/
def skipWs : List Char → List Char
  | [] => []
  | c :: cs => if isWs c then skipWs cs else c :: cs

/-- value of a hexadecimal digit (either case) -/
def hexVal? (c : Char) : Option Nat :=
  let n := c.toNat
  if 48 ≤ n ∧ n ≤ 57 then some (n - 48)
  else if 97 ≤ n ∧ n ≤ 102 then some (n - 87)
  else if 65 ≤ n ∧ n ≤ 70 then some (n - 55)
  else none

/-- read exactly four hexadecimal digits -/
def hex4? : List Char → Option (Nat × List Char)
  | a :: b :: c :: d :: rest =>
    (hexVal? a).bind fun x => (hexVal? b).bind fun y => (hexVal? c).bind fun z =>
      (hexVal? d).map fun w => (x * 4096 + y * 256 + z * 16 + w, rest)
  | _ => none

/-- the character denoted by the one-letter escape `\e` -/
def shortEscape? (e : Char) : Option Char :=
  if e = '"' then some '"'
  else if e = '\\' then some '\\'
  else if e = '/' then some '/'
  else if e = 'n' then some '\n'
  else if e = 'r' then some '\r'
  else if e = 't' then some '\t'
  else if e = 'b' then some (Char.ofNat 8)
  else if e = 'f' then some (Char.ofNat 12)
  else none

/-- read what follows `\u`: four hex digits, and for a high surrogate a second `\uXXXX` that must be a
low surrogate (the pair is one code point). Lone surrogates are rejected (`Char` cannot hold them). -/
def unicodeEscape? (cs : List Char) : Option (Char × List Char) :=
  (hex4? cs).bind fun (n, r) =>
    if 0xd800 ≤ n ∧ n < 0xdc00 then
      match r with
      | b :: u :: r' =>
        if b = '\\' ∧ u = 'u' then
          (hex4? r').bind fun (lo, r'') =>
            if 0xdc00 ≤ lo ∧ lo < 0xe000 then
              some (Char.ofNat (0x10000 + (n - 0xd800) * 1024 + (lo - 0xdc00)), r'')
            else none
        else none
      | _ => none
    else if 0xdc00 ≤ n ∧ n < 0xe000 then none
    else some (Char.ofNat n, r)

/-- read one (possibly escaped) character of a string body; the closing quote, a raw control
character and a malformed escape are errors -/
def unescapeStep : List Char → Option (Char × List Char)
  | [] => none
  | c :: cs =>
    if c = '\\' then
      match cs with
      | [] => none
      | e :: r =>
        if e = 'u' then unicodeEscape? r
        else (shortEscape? e).map fun x => (x, r)
    else if c = '"' then none
    else if c.toNat < 0x20 then none
    else some (c, cs)

/-- read a string body up to and including the closing quote -/
def parseStrBody : Nat → List Char → Option (List Char × List Char)
  | 0, _ => none
  | fuel + 1, cs =>
    match cs with
    | [] => none
    | c :: r =>
      if c = '"' then some ([], r)
      else
        (unescapeStep (c :: r)).bind fun (x, r') =>
          (parseStrBody fuel r').map fun (s, r'') => (x :: s, r'')

/-- read a string literal (no leading whitespace): the decoded string and the rest of the input -/
def parseString : List Char → Option (List Char × List Char)
  | [] => none
  | c :: r => if c = '"' then parseStrBody (r.length + 1) r else none

/-- read `"key" : value` (leading whitespace allowed) with the given value parser -/
def parseMember (pv : List Char → Option (Json × List Char)) (cs : List Char) :
    Option ((List Char × Json) × List Char) :=
  (parseString (skipWs cs)).bind fun (k, r) =>
    match skipWs r with
    | c :: r' =>
      if c = ':' then (pv r').map fun (v, r'') => ((k, v), r'') else none
    | [] => none

mutual
/-- read one value (leading whitespace allowed); `null`, strings, arrays and objects only -/
def parseValue : Nat → List Char → Option (Json × List Char)
  | 0, _ => none
  | fuel + 1, cs =>
    match skipWs cs with
    | [] => none
    | c :: r =>
      if c = '"' then (parseString (c :: r)).map fun (s, r') => (Json.str s, r')
      else if c = 'n' then
        if r.take 3 = ['u', 'l', 'l'] then some (Json.null, r.drop 3) else none
      else if c = '[' then
        if (skipWs r).head? = some ']' then some (Json.arr [], (skipWs r).tail)
        else
          (parseValue fuel r).bind fun (x, r') =>
            (parseArrRest fuel r').map fun (xs, r'') => (Json.arr (x :: xs), r'')
      else if c = '{' then
        if (skipWs r).head? = some '}' then some (Json.obj [], (skipWs r).tail)
        else
          (parseMember (parseValue fuel) r).bind fun (kv, r') =>
            (parseObjRest fuel r').map fun (kvs, r'') => (Json.obj (kv :: kvs), r'')
      else none
/-- after an array element: `]`, or `,` and the remaining elements -/
def parseArrRest : Nat → List Char → Option (List Json × List Char)
  | 0, _ => none
  | fuel + 1, cs =>
    match skipWs cs with
    | [] => none
    | c :: r =>
      if c = ']' then some ([], r)
      else if c = ',' then
        (parseValue fuel r).bind fun (x, r') =>
          (parseArrRest fuel r').map fun (xs, r'') => (x :: xs, r'')
      else none
/-- after an object member: `}`, or `,` and the remaining members -/
def parseObjRest : Nat → List Char → Option (List (List Char × Json) × List Char)
  | 0, _ => none
  | fuel + 1, cs =>
    match skipWs cs with
    | [] => none
    | c :: r =>
      if c = '}' then some ([], r)
      else if c = ',' then
        (parseMember (parseValue fuel) r).bind fun (kv, r') =>
          (parseObjRest fuel r').map fun (kvs, r'') => (kv :: kvs, r'')
      else none
end

/-- `json.loads` restricted to `null` / strings / arrays / objects: the whole input must be one value
surrounded by optional whitespace -/
def loads (cs : List Char) : Option Json :=
  match parseValue (cs.length + 1) cs with
  | some (j, rest) => if skipWs rest = [] then some j else none
  | none => none

end BtcHd.JsonText
