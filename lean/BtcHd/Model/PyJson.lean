/-
Python operations on JSON-shaped values (`dict` / `list` / `str` / `None`) that the machine translation of
`paranoia_mode` (`harness/translate_obj3.py`) maps to directly.  `none` = the operation raises.
-/
import BtcHd.Model.Wallet

namespace BtcHd.Py
open BtcHd.Wallet

/-- `d.items()` of a `dict` (AttributeError for anything else) -/
def jsonItems : Json → Option (List (List Char × Json))
  | .obj kvs => some kvs
  | _ => none

/-- `d[key]` of a `dict` with a text key (KeyError when absent; TypeError for `None`; indexing a list or a text with a
text key is a TypeError as well) -/
def jsonGet : Json → List Char → Option Json
  | .obj kvs, k => kvs.lookup k
  | _, _ => none

/-- iteration `for x in xs` over a `list` value (a `dict` or text would iterate too — over keys / characters —: the
translated function only iterates the `groups` value, a list in every report; anything else is treated as an error) -/
def jsonElems : Json → Option (List Json)
  | .arr xs => some xs
  | _ => none

/-- `row[:-1]` of a `list` value (texts are outside the typed domain, see `jsonElems`) -/
def jsonDropLast : Json → Option Json
  | .arr cols => some (.arr cols.dropLast)
  | _ => none

end BtcHd.Py
