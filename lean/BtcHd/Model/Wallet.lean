/-
Mirror of `base_wallet.py` and `paper_wallet.py` (and the address helpers of
`helper.py` / `keys.py` they call).
-/
import BtcHd.Model.Bip85
import BtcHd.Model.Bech32
import BtcHd.Model.Script

namespace BtcHd.Wallet
open BtcHd Keys Bip32

variable {Pt : Type}

/-- a JSON-shaped value (`dict` / `list` / `str` / `None`) -/
inductive Json
  | null
  | str (s : List Char)
  | arr (xs : List Json)
  | obj (kvs : List (List Char × Json))

structure Wallet where
  master : Node
  testnet : Bool
  mnemonic : Option (List Char)
  password : Option (List Char)

def Wallet.watchOnly (w : Wallet) : Bool := ¬ w.master.isPrv

/-! ### Constructors -/

def fromSeedBytes (P : Prims Pt) (seed : Bytes) (testnet : Bool) : Option Wallet :=
  (masterKey P seed testnet).map fun m => ⟨m, testnet, none, none⟩

def fromSeedHex (P : Prims Pt) (seedHex : List Char) (testnet : Bool) : Option Wallet :=
  (fromHex seedHex).bind fun s => fromSeedBytes P s testnet

def fromMnemonic (P : Prims Pt) (mnemonic password : List Char) (testnet : Bool) : Option Wallet :=
  (fromSeedBytes P (Bip39.seedFromMnemonic P mnemonic password) testnet).map fun w =>
    { w with mnemonic := some mnemonic, password := some password }

def fromEntropyHex (P : Prims Pt) (entropyHex password : List Char) (testnet : Bool) : Option Wallet :=
  (Bip39.mnemonicFromEntropy P.sha256 entropyHex).bind fun m => fromMnemonic P m password testnet

def fromExtendedKey (P : Prims Pt) (xkey : List Char) : Option Wallet :=
  (parseStr P true false xkey).bind fun probe =>
  (probe.parsedVersion.bind Path.Version.parse).bind fun v =>
  (parseStr P (v.keyType = 0) v.testnet xkey).map fun node => ⟨node, v.testnet, none, none⟩

/-- `new_wallet` on top of an `os.urandom` function -/
def newWallet (P : Prims Pt) (osRandom : Nat → Bytes) (mnemonicLen : Nat) (password : List Char)
    (testnet : Bool) : Option Wallet :=
  ((Generated.lenToBits.find? (·.1 = mnemonicLen)).map (·.2)).bind fun bits =>
  (Bip39.mnemonicFromEntropyBits P.sha256 osRandom bits).bind fun m =>
    fromMnemonic P m password testnet

/-! ### Addresses -/

def p2pkhOfH160 (P : Prims Pt) (h160 : Bytes) (testnet : Bool) : List Char :=
  Base58.encodeCheck P.hash256 ((if testnet then Generated.p2pkhTest else Generated.p2pkhMain) :: h160)

def p2shOfH160 (P : Prims Pt) (h160 : Bytes) (testnet : Bool) : List Char :=
  Base58.encodeCheck P.hash256 ((if testnet then Generated.p2shTest else Generated.p2shMain) :: h160)

def segwitOf (prog : Bytes) (testnet : Bool) : Option (List Char) :=
  Bech32.encode (if testnet then Generated.hrpTest else Generated.hrpMain) 0 prog

/-- `PublicKey.address(compressed, testnet, "p2pkh")` -/
def pubP2pkh (P : Prims Pt) (K : Pt) (compressed testnet : Bool) : List Char :=
  p2pkhOfH160 P (h160 P K compressed) testnet

def p2pkhAddress (P : Prims Pt) (testnet : Bool) (nd : Node) : Option (List Char) :=
  (pubKey P nd).map fun K => pubP2pkh P K true testnet

def p2wpkhAddress (P : Prims Pt) (testnet : Bool) (nd : Node) : Option (List Char) :=
  (pubKey P nd).bind fun K => segwitOf (h160 P K true) testnet

def p2shP2wpkhAddress (P : Prims Pt) (testnet : Bool) (nd : Node) : Option (List Char) :=
  (pubKey P nd).bind fun K =>
    (Script.rawSerialize (Script.p2wpkhScript (h160 P K true))).map fun redeem =>
      p2shOfH160 P (hash160 P redeem) testnet

def witnessScript (P : Prims Pt) (K : Pt) : List Script.Cmd :=
  [.op 0x51, .data (P.curve.sec true K), .op 0x51, .op 0xae]

def p2wshAddress (P : Prims Pt) (testnet : Bool) (nd : Node) : Option (List Char) :=
  (pubKey P nd).bind fun K =>
    (Script.rawSerialize (witnessScript P K)).bind fun ws => segwitOf (P.sha256 ws) testnet

def p2shP2wshAddress (P : Prims Pt) (testnet : Bool) (nd : Node) : Option (List Char) :=
  (pubKey P nd).bind fun K =>
    (Script.rawSerialize (witnessScript P K)).bind fun ws =>
      (Script.rawSerialize (Script.p2wshScript (P.sha256 ws))).map fun redeem =>
        p2shOfH160 P (hash160 P redeem) testnet

/-! ### Extended keys of a node as the wallet prints them -/

/-- `determine_node_version_int` followed by `int(version)` -/
def nodeVersionInt (w : Wallet) (nd : Node) (keyType : Nat) : Option Nat :=
  (Path.parse (nodeRepr nd)).bind fun p =>
    (Path.Version.mk keyType (Path.bipOf p) w.testnet).toInt

def nodeExtendedPublicKey (P : Prims Pt) (w : Wallet) (nd : Node) : Option (List Char) :=
  (nodeVersionInt w nd 1).bind fun v => extendedPublicKey P nd (some v)

def nodeExtendedPrivateKey (P : Prims Pt) (w : Wallet) (nd : Node) : Option (List Char) :=
  if ¬ nd.isPrv then none
  else (nodeVersionInt w nd 0).bind fun v => extendedPrivateKey P nd (some v)

def optStr : Option (List Char) → Json
  | none => .null
  | some s => .str s

/-- `node_extended_keys` -/
def nodeExtendedKeys (P : Prims Pt) (w : Wallet) (nd : Node) : Option Json :=
  let prv : Option (Option (List Char)) :=
    if w.watchOnly then some none else (nodeExtendedPrivateKey P w nd).map some
  prv.bind fun prv =>
  (nodeExtendedPublicKey P w nd).map fun pub =>
    .obj [("path".toList, .str (nodeRepr nd)), ("pub".toList, .str pub), ("prv".toList, optStr prv)]

/-- `by_path` -/
def byPath (P : Prims Pt) (w : Wallet) (path : List Char) : Option Node :=
  (Path.parse path).bind fun p => derivePath P w.master p.levels

/-! ### Paper wallet -/

/-- one row of `group` -/
def groupRow (P : Prims Pt) (w : Wallet) (addr : Node → Option (List Char)) (nd : Node) : Option Json :=
  (addr nd).bind fun a =>
  (pubKey P nd).bind fun K =>
    let wifv : Option (Option (List Char)) :=
      if w.watchOnly then some none
      else (prvKey P nd).map fun k => some (Keys.wif P k true w.testnet)
    wifv.map fun wv =>
      .arr [.str (nodeRepr nd), .str a, .str (toHex (P.curve.sec true K)), optStr wv]

def group (P : Prims Pt) (w : Wallet) (addr : Node → Option (List Char)) (nodes : List Node) :
    Option (List Json) :=
  nodes.mapM (groupRow P w addr)

/-- `bip44` / `bip49` / `bip84` (purpose 44 / 49 / 84) -/
def bipAccount (P : Prims Pt) (w : Wallet) (purpose : Nat) (addr : Node → Option (List Char))
    (account a b : Nat) : Option (Json × List Json) :=
  let path := [purpose + hardened, (if w.testnet then 1 + hardened else hardened), account + hardened]
  (derivePath P w.master path).bind fun acct =>
  (nodeExtendedKeys P w acct).bind fun keys =>
  (derivePath P acct [0]).bind fun ext =>
  (generateChildren P ext a b).bind fun children =>
  (group P w addr children).map fun rows => (keys, rows)

/-- `bip85_data` -/
def bip85Data (P : Prims Pt) (w : Wallet) : Option Json :=
  if w.watchOnly then none    -- `self.bip85` is None: AttributeError
  else
    let m := w.master
    (Bip85.bip39Mnemonic P m 24 0).bind fun m24 =>
    (Bip85.bip39Mnemonic P m 18 0).bind fun m18 =>
    (Bip85.bip39Mnemonic P m 12 0).bind fun m12 =>
    (Bip85.wif P m 0).bind fun w0 =>
    (Bip85.wif P m 1).bind fun w1 =>
    (Bip85.wif P m 2).bind fun w2 =>
    (Bip85.xprv P m 0).bind fun x0 =>
    (Bip85.xprv P m 1).bind fun x1 =>
    (Bip85.xprv P m 2).map fun x2 =>
      .obj [("m/83696968'/39'/0'/24'/0'".toList, .str m24),
            ("m/83696968'/39'/0'/18'/0'".toList, .str m18),
            ("m/83696968'/39'/0'/12'/0'".toList, .str m12),
            ("m/83696968'/2'/0'".toList, .str w0),
            ("m/83696968'/2'/1'".toList, .str w1),
            ("m/83696968'/2'/2'".toList, .str w2),
            ("m/83696968'/32'/0'".toList, .str x0),
            ("m/83696968'/32'/1'".toList, .str x1),
            ("m/83696968'/32'/2'".toList, .str x2)]

def masterData (w : Wallet) : Json :=
  .obj [("mnemonic".toList, optStr w.mnemonic), ("password".toList, optStr w.password)]

def acctJson (x : Json × List Json) : Json :=
  .obj [("account_extended_keys".toList, x.1), ("groups".toList, .arr x.2)]

/-- `generate(account, interval=(a, b))` -/
def generate (P : Prims Pt) (w : Wallet) (account a b : Nat) : Option Json :=
  (bipAccount P w 44 (p2pkhAddress P w.testnet) account a b).bind fun r44 =>
  (bipAccount P w 49 (p2shP2wpkhAddress P w.testnet) account a b).bind fun r49 =>
  (bipAccount P w 84 (p2wpkhAddress P w.testnet) account a b).bind fun r84 =>
  (bip85Data P w).map fun b85 =>
    .obj [("MASTER".toList, masterData w), ("BIP85".toList, b85),
          ("BIP44".toList, acctJson r44), ("BIP49".toList, acctJson r49),
          ("BIP84".toList, acctJson r84)]

def upperHex (cs : List Char) : List Char :=
  cs.map fun c => if 'a' ≤ c ∧ c ≤ 'f' then Char.ofNat (c.toNat - 32) else c

/-- the data of `wasabi_json` -/
def wasabi (P : Prims Pt) (w : Wallet) : Option Json :=
  (byPath P w "m/84'/0'/0'".toList).bind fun nd =>
  (extendedPublicKey P nd none).bind fun xpub =>
  (fingerprint P w.master).map fun fp =>
    .obj [("ExtPubKey".toList, .str xpub), ("MasterFingerprint".toList, .str (upperHex (toHex fp))),
          ("ColdCardFirmwareVersion".toList, .str "3.1.3".toList)]

/-- the value built for one whitelisted key of `paranoia_mode` -/
def paranoiaEntry (v : Json) : Option Json :=
  match v with
  | .obj inner =>
    match inner.lookup "account_extended_keys".toList, inner.lookup "groups".toList with
    | some (.obj keys), some (.arr rows) =>
      match keys.lookup "path".toList, keys.lookup "pub".toList with
      | some pth, some pub =>
        (rows.mapM fun (r : Json) => match r with
          | Json.arr cols => some (Json.arr cols.dropLast)
          | _ => none).map fun rows' =>
          Json.obj [("account_extended_keys".toList,
                      Json.obj [("path".toList, pth), ("pub".toList, pub)]),
                    ("groups".toList, Json.arr rows')]
      | _, _ => none
    | _, _ => none
  | _ => none

/-- `paranoia_mode` (`__main__.py`) on a generated report -/
def paranoia (data : Json) : Option Json :=
  match data with
  | .obj kvs =>
    ((kvs.filter fun (kv : List Char × Json) => kv.1 ∈ Generated.paranoiaKeys).mapM
      fun (kv : List Char × Json) => (paranoiaEntry kv.2).map fun e => (kv.1, e)).map Json.obj
  | _ => none

end BtcHd.Wallet
