/-
Mirror of `bip85.py`.
-/
import BtcHd.Model.Bip32
import BtcHd.Model.Bip39

namespace BtcHd.Bip85
open BtcHd Keys Bip32

variable {Pt : Type}

/-- `str(i)` for a Python int -/
def intToDec (i : Int) : List Char :=
  match i with
  | .ofNat n => natToDec n
  | .negSucc n => '-' :: natToDec (n + 1)

/-- `tpl.format(*args)` for templates whose only fields are `{}` -/
def fmt : List Char → List Int → List Char
  | '{' :: '}' :: rest, a :: as => intToDec a ++ fmt rest as
  | c :: rest, as => c :: fmt rest as
  | [], _ => []

/-- `entropy(path)` -/
def entropy (P : Prims Pt) (master : Node) (path : List Char) : Option Bytes :=
  (Path.parse path).bind fun p =>
  (derivePath P master p.levels).bind fun node =>
  (prvKey P node).map fun k => P.hmac512 Generated.bip85Key (privBytes k)

/-- `byte_count_from_word_count` -/
def byteCountFromWordCount (wc : Int) : Option Nat :=
  if wc.toNat ∈ Generated.correctMnemonicLength ∧ 0 ≤ wc then some ((wc.toNat - 1) * 11 / 8 + 1) else none

/-- `correct_key` -/
def correctKey (P : Prims Pt) (kb : Bytes) : Bool :=
  let k := beToNat kb
  k ≠ 0 ∧ k < P.curve.n

/-- `bip39_mnemonic(word_count, index)` -/
def bip39Mnemonic (P : Prims Pt) (master : Node) (wc index : Int) : Option (List Char) :=
  (entropy P master (fmt Generated.bip85TplMnemonic [wc, index])).bind fun e =>
  (byteCountFromWordCount wc).bind fun width =>
    Bip39.mnemonicFromEntropy P.sha256 (toHex (e.take width))

/-- `wif(index)` -/
def wif (P : Prims Pt) (master : Node) (index : Int) : Option (List Char) :=
  (entropy P master (fmt Generated.bip85TplWif [index])).bind fun e =>
    if correctKey P (e.take 32) then
      (mkPriv P.curve (e.take 32)).map fun k => Keys.wif P k true false
    else none

/-- `xprv(index)` -/
def xprv (P : Prims Pt) (master : Node) (index : Int) : Option (List Char) :=
  (entropy P master (fmt Generated.bip85TplXprv [index])).bind fun e =>
    let left := e.take 32
    let right := e.drop 32
    if correctKey P right then
      extendedPrivateKey P
        { isPrv := true, key := right, chainCode := left, depth := 0, index := 0, testnet := false,
          hasParent := false, parentFp := none, path := [], parsedVersion := none } none
    else none

/-- `hex(num_bytes, index)` -/
def hex (P : Prims Pt) (master : Node) (numBytes index : Int) : Option (List Char) :=
  if Generated.bip85HexBounds.1 ≤ numBytes ∧ numBytes ≤ Generated.bip85HexBounds.2 then
    (entropy P master (fmt Generated.bip85TplHex [numBytes, index])).map fun e =>
      toHex (e.take numBytes.toNat)
  else none

def b64Alphabet : List Char :=
  "ABCDEFGHIJKLMNOPQRSTUVWXYZabcdefghijklmnopqrstuvwxyz0123456789+/".toList

def b64Char (n : Nat) : Char := b64Alphabet.getD n '?'

/-- `base64.b64encode(bs).decode()` -/
def base64 : Bytes → List Char
  | a :: b :: c :: rest =>
    let n := a.toNat * 65536 + b.toNat * 256 + c.toNat
    b64Char (n / 262144) :: b64Char (n / 4096 % 64) :: b64Char (n / 64 % 64) :: b64Char (n % 64)
      :: base64 rest
  | [a, b] =>
    let n := a.toNat * 65536 + b.toNat * 256
    [b64Char (n / 262144), b64Char (n / 4096 % 64), b64Char (n / 64 % 64), '=']
  | [a] =>
    let n := a.toNat * 65536
    [b64Char (n / 262144), b64Char (n / 4096 % 64), '=', '=']
  | [] => []

/-- `pwd(pwd_len, index)` (`.strip()` is the identity on Base64 text) -/
def pwd (P : Prims Pt) (master : Node) (pwdLen index : Int) : Option (List Char) :=
  if Generated.bip85PwdBounds.1 ≤ pwdLen ∧ pwdLen ≤ Generated.bip85PwdBounds.2 then
    (entropy P master (fmt Generated.bip85TplPwd [pwdLen, index])).map fun e =>
      (base64 e).take pwdLen.toNat
  else none

end BtcHd.Bip85
