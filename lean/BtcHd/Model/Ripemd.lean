/-
Mirror of `ripemd.py` (repository code, so it is modelled rather than assumed).
Arithmetic is on `UInt32`: every Python operation used (`+ ^ & | ~ <<` and the
final `& 0xffffffff`) is compatible with reduction mod 2^32, and `rol` masks its
argument before the right shift.
-/
import BtcHd.Model.Basic
import BtcHd.Generated.Ripemd

namespace BtcHd.Ripemd
open BtcHd

def tbl (t : List Nat) (j : Nat) : Nat := t.getD j 0

/-- `fi(x, y, z, i)` -/
def fi (x y z : UInt32) (i : Nat) : UInt32 :=
  match i with
  | 0 => x ^^^ y ^^^ z
  | 1 => (x &&& y) ||| (~~~ x &&& z)
  | 2 => (x ||| ~~~ y) ^^^ z
  | 3 => (x &&& z) ||| (y &&& ~~~ z)
  | _ => x ^^^ (y ||| ~~~ z)

/-- `rol(x, i)` for `0 < i < 32` -/
def rol (x : UInt32) (i : Nat) : UInt32 :=
  (x <<< (UInt32.ofNat i)) ||| (x >>> (UInt32.ofNat (32 - i)))

def le32 (a b c d : UInt8) : UInt32 :=
  a.toUInt32 ||| (b.toUInt32 <<< 8) ||| (c.toUInt32 <<< 16) ||| (d.toUInt32 <<< 24)

def wordsLE : Bytes → List UInt32
  | a :: b :: c :: d :: rest => le32 a b c d :: wordsLE rest
  | _ => []

structure Lane where
  a : UInt32
  b : UInt32
  c : UInt32
  d : UInt32
  e : UInt32

structure State where
  h0 : UInt32
  h1 : UInt32
  h2 : UInt32
  h3 : UInt32
  h4 : UInt32
deriving DecidableEq

/-- one of the 80 steps on one lane -/
def laneStep (l : Lane) (f : Nat) (xw k : UInt32) (r : Nat) : Lane :=
  let a' := rol (l.a + fi l.b l.c l.d f + xw + k) r + l.e
  { a := l.e, b := a', c := l.b, d := rol l.c 10, e := l.d }

def stepBoth (x : Array UInt32) (lr : Lane × Lane) (j : Nat) : Lane × Lane :=
  let rnd := j / 16
  let l := laneStep lr.1 rnd (x.getD (tbl Generated.rmdML j) 0)
    (UInt32.ofNat (tbl Generated.rmdKL rnd)) (tbl Generated.rmdRL j)
  let r := laneStep lr.2 (4 - rnd) (x.getD (tbl Generated.rmdMR j) 0)
    (UInt32.ofNat (tbl Generated.rmdKR rnd)) (tbl Generated.rmdRR j)
  (l, r)

/-- `compress(h0, h1, h2, h3, h4, block)` -/
def compress (s : State) (block : Bytes) : State :=
  let x := (wordsLE block).toArray
  let init : Lane := ⟨s.h0, s.h1, s.h2, s.h3, s.h4⟩
  let (l, r) := (List.range 80).foldl (stepBoth x) (init, init)
  { h0 := s.h1 + l.c + r.d, h1 := s.h2 + l.d + r.e, h2 := s.h3 + l.e + r.a,
    h3 := s.h4 + l.a + r.b, h4 := s.h0 + l.b + r.c }

def initState : State :=
  ⟨UInt32.ofNat (tbl Generated.rmdInit 0), UInt32.ofNat (tbl Generated.rmdInit 1),
   UInt32.ofNat (tbl Generated.rmdInit 2), UInt32.ofNat (tbl Generated.rmdInit 3),
   UInt32.ofNat (tbl Generated.rmdInit 4)⟩

/-- `(119 - len) & 63` on Python integers -/
def padLen (len : Nat) : Nat := (119 + 64 * len - len) % 64

/-- `for b in range(len(d) >> 6): state = compress(*state, d[64*b:64*(b+1)])` -/
def absorb : Nat → State → Bytes → State
  | 0, s, _ => s
  | n + 1, s, d => absorb n (compress s (d.take 64)) (d.drop 64)

def u32LE (w : UInt32) : Bytes :=
  [w.toUInt8, (w >>> 8).toUInt8, (w >>> 16).toUInt8, (w >>> 24).toUInt8]

def finBlock (data : Bytes) : Bytes :=
  data.drop (64 * (data.length / 64)) ++ ([0x80] ++ List.replicate (padLen data.length) 0)
    ++ leFixed 8 (8 * data.length)

/-- `ripemd160(data)` (for `len(data) < 2^61`, beyond which `to_bytes(8)` overflows) -/
def ripemd160 (data : Bytes) : Bytes :=
  let s1 := absorb (data.length / 64) initState data
  let fin := finBlock data
  let s2 := absorb (fin.length / 64) s1 fin
  u32LE s2.h0 ++ u32LE s2.h1 ++ u32LE s2.h2 ++ u32LE s2.h3 ++ u32LE s2.h4

end BtcHd.Ripemd
