/-
Python string helpers used by the repository, on `List Char`.
-/
import BtcHd.Model.Basic

namespace BtcHd.Text

/-- `s.split(sep)` for a one-character separator: always at least one piece. -/
def splitOn (sep : Char) : List Char → List (List Char)
  | [] => [[]]
  | c :: cs =>
    match splitOn sep cs with
    | [] => [[c]]          -- unreachable: the result is never empty
    | p :: ps => if c = sep then [] :: p :: ps else (c :: p) :: ps

/-- `sep.join(parts)` -/
def join (sep : List Char) : List (List Char) → List Char
  | [] => []
  | [p] => p
  | p :: ps => p ++ sep ++ join sep ps

/-- value of a string of ASCII digits (Horner), as `int()` reads it -/
def decVal (s : List Char) : Nat := Nat.ofDigitChars 10 s 0

/-- `digits.isascii() and digits.isdigit()` then `int(digits)`; `none` otherwise
(the empty string is not a number). -/
def parseDec (s : List Char) : Option Nat :=
  if s ≠ [] ∧ s.all Char.isDigit then some (decVal s) else none

/-- `str.strip()` for spaces only is not enough: Python strips all whitespace.  The
CLI validator only ever sees argv strings; we model ASCII whitespace. -/
def isSpace (c : Char) : Bool := isHexSpace c

def lstrip : List Char → List Char
  | [] => []
  | c :: cs => if isSpace c then lstrip cs else c :: cs

def strip (s : List Char) : List Char := (lstrip (lstrip s).reverse).reverse

/-- UTF-8 encoding of one code point -/
def utf8Char (c : Char) : Bytes :=
  let n := c.toNat
  if n < 0x80 then [UInt8.ofNat n]
  else if n < 0x800 then [UInt8.ofNat (0xC0 + n / 64), UInt8.ofNat (0x80 + n % 64)]
  else if n < 0x10000 then
    [UInt8.ofNat (0xE0 + n / 4096), UInt8.ofNat (0x80 + n / 64 % 64), UInt8.ofNat (0x80 + n % 64)]
  else
    [UInt8.ofNat (0xF0 + n / 262144), UInt8.ofNat (0x80 + n / 4096 % 64),
     UInt8.ofNat (0x80 + n / 64 % 64), UInt8.ofNat (0x80 + n % 64)]

/-- `s.encode("utf-8")` -/
def utf8 (s : List Char) : Bytes := s.flatMap utf8Char

end BtcHd.Text
