/-
C13: the state machine of API calls on SHARED wallet / node / generator objects.

`State` holds what the Python objects hold: a table of node objects (handle ↦
immutable fields + the length of the mutable `children` list), and the live
address generators.  `step` executes one API call exactly as the code does
(every `ckd` appends to the parent's `children`).  `pureOut` is the stateless
specification: the same request answered from the ROOT key and the PATH of the
node alone.
-/
import BtcHd.Model.Wallet

namespace BtcHd.History
open BtcHd Bip32 Wallet

variable {Pt : Type}

inductive AddrKind | p2pkh | p2wpkh | p2shP2wpkh | p2wsh | p2shP2wsh
deriving DecidableEq, Repr

def addrOf (P : Prims Pt) (t : Bool) : AddrKind → Node → Option (List Char)
  | .p2pkh => p2pkhAddress P t
  | .p2wpkh => p2wpkhAddress P t
  | .p2shP2wpkh => p2shP2wpkhAddress P t
  | .p2wsh => p2wshAddress P t
  | .p2shP2wsh => p2shP2wshAddress P t

/-- API calls.  Node arguments are handles (0 = the wallet's master node). -/
inductive Op
  | byPath (path : List Char)                 -- wallet.by_path(path)            → new handle
  | ckd (h : Nat) (index : Nat)               -- node.ckd(index)                 → new handle
  | genChildren (h : Nat) (a b : Nat)         -- node.generate_children((a, b))  → new handles
  | derivePath (h : Nat) (is : List Nat)      -- node.derive_path(is)            → new handle
  | addr (h : Nat) (k : AddrKind)             -- wallet.<kind>_address(node)
  | extKeys (h : Nat)                         -- wallet.node_extended_keys(node)
  | newGen (h : Nat) (k : AddrKind)           -- wallet.address_generator(node, fn) → generator handle
  | next (g : Nat)                            -- next(gen)
  | send (g : Nat) (k : Nat)                  -- gen.send(k)
  | bip85 (app : Nat) (param index : Int)     -- wallet.bip85.<app>(...)  (0 mnemonic,1 wif,2 xprv,3 hex,4 pwd)
  | report (acct a b : Nat)                   -- wallet.generate(acct, (a, b))
  | wasabi                                    -- wallet.wasabi_json()
  | rootKey                                   -- master extended private (or public) key string
deriving Repr

inductive Out
  | err
  | node (n : Node)
  | nodes (ns : List Node)
  | text (s : List Char)
  | pair (a b : List Char)
  | json (j : Json)
  | handle (g : Nat)

/-- one generator object: the node it walks, the address function, whether it
has been started, its current `index`, and whether an exception killed it -/
structure Gen where
  node : Nat
  kind : AddrKind
  started : Bool
  index : Nat
  dead : Bool

structure State where
  wallet : Wallet
  /-- node objects by handle, with the length of their `children` list -/
  nodes : List (Node × Nat)
  /-- ghost: the index path from the root by which each handle was reached -/
  paths : List (List Nat)
  gens : List Gen

def init (w : Wallet) : State := ⟨w, [(w.master, 0)], [[]], []⟩

def bumpChildren (nodes : List (Node × Nat)) (h : Nat) (k : Nat) : List (Node × Nat) :=
  nodes.modify h (fun e => (e.1, e.2 + k))

def alloc (s : State) (n : Node) (path : List Nat) : State :=
  { s with nodes := s.nodes ++ [(n, 0)], paths := s.paths ++ [path] }

def bip85Call (P : Prims Pt) (m : Node) (app : Nat) (param index : Int) : Option (List Char) :=
  match app with
  | 0 => Bip85.bip39Mnemonic P m param index
  | 1 => Bip85.wif P m index
  | 2 => Bip85.xprv P m index
  | 3 => Bip85.hex P m param index
  | 4 => Bip85.pwd P m param index
  | _ => none

def rootKeyOut (P : Prims Pt) (w : Wallet) : Option (List Char) :=
  if w.master.isPrv then extendedPrivateKey P w.master none else extendedPublicKey P w.master none

def outOpt (f : α → Out) : Option α → Out
  | none => .err
  | some a => f a

/-- one API call on the shared objects -/
def step (P : Prims Pt) (s : State) (op : Op) : State × Out :=
  let w := s.wallet
  match op with
  | .byPath path =>
    match Path.parse path with
    | none => (s, .err)
    | some p =>
      match derivePath P w.master p.levels with
      | none => (s, .err)      -- (children appended before the failing step are not observable)
      | some n =>
        let s' := alloc { s with nodes := bumpChildren s.nodes 0 (if p.levels = [] then 0 else 1) } n p.levels
        (if p.levels = [] then s else s', .node n)
  | .ckd h index =>
    match s.nodes[h]?, s.paths[h]? with
    | some (nd, _), some path =>
      match Bip32.ckd P nd index with
      | none => (s, .err)
      | some c => (alloc { s with nodes := bumpChildren s.nodes h 1 } c (path ++ [index]), .node c)
    | _, _ => (s, .err)
  | .genChildren h a b =>
    match s.nodes[h]?, s.paths[h]? with
    | some (nd, _), some path =>
      match generateChildren P nd a b with
      | none => (s, .err)
      | some cs =>
        let s1 := { s with nodes := bumpChildren s.nodes h cs.length }
        let s2 := (List.zip cs (List.range' a (b - a))).foldl (fun st ci => alloc st ci.1 (path ++ [ci.2])) s1
        (s2, .nodes cs)
    | _, _ => (s, .err)
  | .derivePath h is =>
    match s.nodes[h]?, s.paths[h]? with
    | some (nd, _), some path =>
      match Bip32.derivePath P nd is with
      | none => (s, .err)
      | some c =>
        if is = [] then (s, .node c)
        else (alloc { s with nodes := bumpChildren s.nodes h 1 } c (path ++ is), .node c)
    | _, _ => (s, .err)
  | .addr h k =>
    match s.nodes[h]? with
    | some (nd, _) => (s, outOpt .text (addrOf P w.testnet k nd))
    | none => (s, .err)
  | .extKeys h =>
    match s.nodes[h]? with
    | some (nd, _) => (s, outOpt .json (nodeExtendedKeys P w nd))
    | none => (s, .err)
  | .newGen h k =>
    if h < s.nodes.length then
      ({ s with gens := s.gens ++ [⟨h, k, false, 0, false⟩] }, .handle s.gens.length)
    else (s, .err)
  | .next g => advance s g none
  | .send g k => advance s g (some k)
  | .bip85 app param index =>
    (s, if w.watchOnly then .err else outOpt .text (bip85Call P w.master app param index))
  | .report acct a b => (s, outOpt .json (generate P w acct a b))
  | .wasabi => (s, outOpt .json (Wallet.wasabi P w))
  | .rootKey => (s, outOpt .text (rootKeyOut P w))
where
  /-- `next(gen)` (`sent = none`) / `gen.send(k)` -/
  advance (s : State) (g : Nat) (sent : Option Nat) : State × Out :=
    match s.gens[g]? with
    | none => (s, .err)
    | some gen =>
      if gen.dead then (s, .err)
      else if ¬ gen.started ∧ sent.isSome then (s, .err)    -- TypeError, generator untouched
      else
        let index := if gen.started then gen.index + (match sent with | some k => if k = 0 then 1 else k | none => 1)
                     else 0
        match s.nodes[gen.node]? with
        | none => (s, .err)
        | some (nd, _) =>
          match Bip32.ckd P nd index with
          | none => ({ s with gens := s.gens.set g { gen with dead := true } }, .err)
          | some c =>
            let s1 := { s with nodes := bumpChildren s.nodes gen.node 1 }
            match addrOf P s.wallet.testnet gen.kind c with
            | none => ({ s1 with gens := s1.gens.set g { gen with dead := true } }, .err)
            | some a =>
              ({ s1 with gens := s1.gens.set g { gen with started := true, index := index } },
               .pair (nodeRepr c) a)

/-- run a history, collecting the outputs -/
def run (P : Prims Pt) : State → List Op → State × List Out
  | s, [] => (s, [])
  | s, op :: ops =>
    let (s1, o) := step P s op
    let (s2, os) := run P s1 ops
    (s2, o :: os)

end BtcHd.History
