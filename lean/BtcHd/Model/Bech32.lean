/-
Mirror of `bech32.py` (all of it).  `none` models both a `None` result and an
exception: either way no address / no decoding is produced.
-/
import BtcHd.Model.Basic
import BtcHd.Generated.Bech32

namespace BtcHd.Bech32
open BtcHd

def charset : List Char := Generated.charset
def bech32mConst : Nat := Generated.bech32mConst
def gen (i : Nat) : Nat := Generated.polymodGen.getD i 0

inductive Encoding | bech32 | bech32m
deriving DecidableEq, Repr

/-- one iteration of the loop body of `bech32_polymod` -/
def polymodStep (chk value : Nat) : Nat :=
  let top := chk >>> 25
  let chk1 := ((chk &&& 0x1ffffff) <<< 5) ^^^ value
  let f (c i : Nat) : Nat := c ^^^ (if (top >>> i) &&& 1 = 1 then gen i else 0)
  f (f (f (f (f chk1 0) 1) 2) 3) 4

/-- `bech32_polymod` -/
def polymod (values : List Nat) : Nat := values.foldl polymodStep 1

/-- `bech32_hrp_expand` -/
def hrpExpand (hrp : List Char) : List Nat :=
  hrp.map (fun c => c.toNat >>> 5) ++ [0] ++ hrp.map (fun c => c.toNat &&& 31)

def constOf : Encoding → Nat
  | .bech32 => 1
  | .bech32m => bech32mConst

/-- `bech32_verify_checksum` -/
def verifyChecksum (hrp : List Char) (data : List Nat) : Option Encoding :=
  let c := polymod (hrpExpand hrp ++ data)
  if c = 1 then some .bech32
  else if c = bech32mConst then some .bech32m
  else none

/-- `bech32_create_checksum` -/
def createChecksum (hrp : List Char) (data : List Nat) (spec : Encoding) : List Nat :=
  let pm := polymod (hrpExpand hrp ++ data ++ [0, 0, 0, 0, 0, 0]) ^^^ constOf spec
  (List.range 6).map fun i => (pm >>> (5 * (5 - i))) &&& 31

/-- `CHARSET[d]` (`none` = IndexError) -/
def charAt (d : Nat) : Option Char := charset[d]?

/-- `bech32_encode` -/
def bech32Encode (hrp : List Char) (data : List Nat) (spec : Encoding) : Option (List Char) :=
  ((data ++ createChecksum hrp data spec).mapM charAt).map fun cs => hrp ++ ['1'] ++ cs

def isUpperAscii (c : Char) : Bool := 'A' ≤ c && c ≤ 'Z'
def isLowerAscii (c : Char) : Bool := 'a' ≤ c && c ≤ 'z'
def toLowerAscii (c : Char) : Char := if isUpperAscii c then Char.ofNat (c.toNat + 32) else c

/-- index of the last `'1'` (`str.rfind`), `none` if absent -/
def rfindOne (s : List Char) : Option Nat :=
  let r := s.reverse
  if '1' ∈ r then some (s.length - 1 - r.idxOf '1') else none

/-- `bech32_decode` -/
def bech32Decode (bech : List Char) : Option (List Char × List Nat × Encoding) :=
  if bech.any (fun x => x.toNat < 33 || x.toNat > 126) then none
  else if bech.any isUpperAscii && bech.any isLowerAscii then none
  else
    let bech := bech.map toLowerAscii
    match rfindOne bech with
    | none => none
    | some pos =>
      if pos < 1 ∨ pos + 7 > bech.length ∨ bech.length > 90 then none
      else
        let dp := bech.drop (pos + 1)
        if ¬ dp.all (· ∈ charset) then none
        else
          let hrp := bech.take pos
          let data := dp.map (charset.idxOf ·)
          match verifyChecksum hrp data with
          | none => none
          | some spec => some (hrp, dropLastN 6 data, spec)

/-- the `for value in data` loop of `convertbits`; state `(acc, bits, ret)` -/
def convStep (frombits tobits : Nat) (st : Nat × Nat × List Nat) (value : Nat) : Nat × Nat × List Nat :=
  let maxv := (1 <<< tobits) - 1
  let maxAcc := (1 <<< (frombits + tobits - 1)) - 1
  let acc := ((st.1 <<< frombits) ||| value) &&& maxAcc
  let bits := st.2.1 + frombits
  -- `while bits >= tobits`: at most `bits / tobits` rounds
  let rec emit : Nat → Nat → List Nat → Nat × List Nat
    | 0, b, r => (b, r)
    | fuel + 1, b, r =>
      if b ≥ tobits then emit fuel (b - tobits) (r ++ [(acc >>> (b - tobits)) &&& maxv])
      else (b, r)
  let (b', r') := emit (bits / tobits + 1) bits st.2.2
  (acc, b', r')

/-- `convertbits(data, frombits, tobits, pad)` -/
def convertbits (data : List Nat) (frombits tobits : Nat) (pad : Bool) : Option (List Nat) :=
  if data.any (fun v => (v >>> frombits) ≠ 0) then none
  else
    let maxv := (1 <<< tobits) - 1
    let (acc, bits, ret) := data.foldl (convStep frombits tobits) (0, 0, [])
    if pad then
      some (if bits ≠ 0 then ret ++ [(acc <<< (tobits - bits)) &&& maxv] else ret)
    else if bits ≥ frombits ∨ ((acc <<< (tobits - bits)) &&& maxv) ≠ 0 then none
    else some ret

/-- `decode(hrp, addr)`; `(None, None)` ↦ `none` -/
def decode (hrp addr : List Char) : Option (Nat × List Nat) :=
  match bech32Decode addr with
  | none => none
  | some (hrpgot, data, spec) =>
    if hrpgot ≠ hrp then none
    else match convertbits (data.drop 1) 5 8 false with
      | none => none
      | some decoded =>
        if decoded.length < 2 ∨ decoded.length > 40 then none
        else match data with
          | [] => none
          | v :: _ =>
            if v > 16 then none
            else if v = 0 ∧ decoded.length ≠ 20 ∧ decoded.length ≠ 32 then none
            else if (v = 0 ∧ spec ≠ .bech32) ∨ (v ≠ 0 ∧ spec ≠ .bech32m) then none
            else some (v, decoded)

/-- `encode(hrp, witver, witprog)`; `None` and exceptions ↦ `none` -/
def encode (hrp : List Char) (witver : Nat) (witprog : Bytes) : Option (List Char) :=
  let spec := if witver = 0 then Encoding.bech32 else Encoding.bech32m
  match convertbits (witprog.map (·.toNat)) 8 5 true with
  | none => none
  | some conv =>
    match bech32Encode hrp (witver :: conv) spec with
    | none => none
    | some ret => if (decode hrp ret).isNone then none else some ret

end BtcHd.Bech32
