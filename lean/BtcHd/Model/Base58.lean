/-
Mirror of `helper.py`: encode_base58, decode_base58, *_checksum, b58decode_addr.
The double-SHA-256 is a parameter `h`.
-/
import BtcHd.Model.Basic
import BtcHd.Generated.Base58

set_option linter.unusedVariables false

namespace BtcHd.Base58
open BtcHd

def alphabet : List Char := Generated.base58Alphabet

/-- `BASE58_ALPHABET[i]`; the default is never used for `i < 58`
(`alphabet_length`, proved in `Lemmas/Base58`). -/
def alphaAt (i : Nat) : Char := alphabet.getD i '?'

/-- the `while num > 0: num, mod = divmod(num, 58); result = A[mod] + result` loop -/
def encBody (num : Nat) (acc : List Char) : List Char :=
  if h : num = 0 then acc
  else encBody (num / 58) (alphaAt (num % 58) :: acc)
termination_by num
decreasing_by omega

/-- number of leading zero bytes (the `for c in data: if c == 0 … else break` loop) -/
def leadingZeros : Bytes → Nat
  | [] => 0
  | b :: bs => if b = 0 then leadingZeros bs + 1 else 0

/-- `encode_base58` -/
def encode (data : Bytes) : List Char :=
  List.replicate (leadingZeros data) (alphaAt 0) ++ encBody (beToNat data) []

/-- the accumulation loop of `decode_base58` (`none` = ValueError on a foreign character) -/
def decNum : List Char → Nat → Option Nat
  | [], acc => some acc
  | c :: cs, acc =>
    if c ∈ alphabet then decNum cs (acc * 58 + alphabet.idxOf c) else none

/-- base-256 digits of `n`, most significant first, no leading zero (`[]` for 0) -/
def beMinimal (n : Nat) : Bytes :=
  if h : n = 0 then [] else beMinimal (n / 256) ++ [UInt8.ofNat (n % 256)]
termination_by n
decreasing_by omega

/-- `bytes.fromhex(h)` with `h = hex(num)[2:]` left-padded to even length:
minimal big-endian bytes, and one zero byte for 0 -/
def numBytes (n : Nat) : Bytes := if n = 0 then [0] else beMinimal n

/-- number of leading `'1'` characters -/
def leadingOnes : List Char → Nat
  | [] => 0
  | c :: cs => if c = alphaAt 0 then leadingOnes cs + 1 else 0

/-- `decode_base58`: note the pad count runs over `s[:-1]` -/
def decode (s : List Char) : Option Bytes :=
  (decNum s 0).map fun num =>
    List.replicate (leadingOnes s.dropLast) 0 ++ numBytes num

/-- `encode_base58_checksum` -/
def encodeCheck (h : Bytes → Bytes) (data : Bytes) : List Char :=
  encode (data ++ (h data).take 4)

/-- `decode_base58_checksum` (slices `[-4:]`, `[:-4]` with Python semantics) -/
def decodeCheck (h : Bytes → Bytes) (s : List Char) : Option Bytes :=
  (decode s).bind fun raw =>
    let checksum := lastN 4 raw
    let payload := dropLastN 4 raw
    if (h payload).take 4 = checksum then some payload else none

/-- `b58decode_addr` -/
def decodeAddr (h : Bytes → Bytes) (s : List Char) : Option Bytes :=
  (decodeCheck h s).map (·.drop 1)

end BtcHd.Base58
