/-
The interface the repository uses from python-ecdsa, as an abstract structure,
plus the bundle of primitives every model function is parameterised over.
-/
import BtcHd.Model.Basic

namespace BtcHd

/-- What the repository needs from a curve library. -/
structure Curve (Pt : Type) where
  /-- group order -/
  n : Nat
  /-- `k ↦ k·G` -/
  mulGen : Nat → Pt
  add : Pt → Pt → Pt
  /-- `point == INFINITY` -/
  isInf : Pt → Bool
  /-- `VerifyingKey.to_string("compressed" | "uncompressed")` -/
  sec : Bool → Pt → Bytes
  /-- `VerifyingKey.from_string` (`none` = MalformedPointError) -/
  parse : Bytes → Option Pt

/-- Primitives the repository takes from CPython / OpenSSL / python-ecdsa.
All model functions take a `Prims`; the theorems hold for every instance
(satisfying the hypotheses they state). -/
structure Prims (Pt : Type) where
  sha256 : Bytes → Bytes
  hmac512 : Bytes → Bytes → Bytes
  /-- `hashlib.pbkdf2_hmac("sha512", password, salt, rounds)` -/
  pbkdf2 : Bytes → Bytes → Nat → Bytes
  /-- `unicodedata.normalize("NFKD", ·)` -/
  nfkd : List Char → List Char
  curve : Curve Pt

namespace Prims
variable {Pt : Type} (P : Prims Pt)

/-- `hash256` -/
def hash256 (bs : Bytes) : Bytes := P.sha256 (P.sha256 bs)

end Prims

end BtcHd
