/-
Line-protocol driver: one operation per input line, one result line per
operation (`ok <canonical value>` / `err` / `bad-op`).  Imports only the model
and the concrete primitives (no Mathlib), so it links as a `lean_exe`.

Encodings: byte strings and text travel as hex (text = hex of UTF-8), the empty
string as `-`; naturals in decimal; lists comma separated (`-` = empty).
-/
import BtcHd.Model.Wallet
import BtcHd.Model.History
import BtcHd.Model.Cli
import BtcHd.Model.JsonText
import BtcHd.Model.Extra
import BtcHd.Prims.Sha
import BtcHd.Prims.Secp256k1
import BtcHd.Prims.Bundle

open BtcHd

namespace Driver

/-! ### concrete primitives -/

/-- the bundle for which `Props/RealCurve.lean` proves the curve laws (`Prims/Bundle.lean`) -/
abbrev realCurve : Curve Real.Secp.Pt := Real.Secp.rawCurve

abbrev realPrims (nfkd : List Char → List Char) : Prims Real.Secp.Pt := Real.Secp.rawPrims nfkd

abbrev RP := Prims Real.Secp.Pt

/-! ### decoding arguments -/

def hexNib (c : Char) : Option Nat := hexVal c

def unhex (s : String) : Option Bytes :=
  if s = "-" then some [] else
  let rec go : List Char → Option Bytes
    | [] => some []
    | [_] => none
    | a :: b :: rest => do
      let hi ← hexNib a
      let lo ← hexNib b
      let r ← go rest
      pure (UInt8.ofNat (hi * 16 + lo) :: r)
  go s.toList

/-- UTF-8 decoding of well-formed input (the harness only sends valid UTF-8) -/
partial def utf8Decode : Bytes → List Char
  | [] => []
  | a :: rest =>
    let n := a.toNat
    if n < 0x80 then Char.ofNat n :: utf8Decode rest
    else if n < 0xE0 then
      match rest with
      | b :: r => Char.ofNat ((n - 0xC0) * 64 + (b.toNat - 0x80)) :: utf8Decode r
      | _ => []
    else if n < 0xF0 then
      match rest with
      | b :: c :: r =>
        Char.ofNat ((n - 0xE0) * 4096 + (b.toNat - 0x80) * 64 + (c.toNat - 0x80)) :: utf8Decode r
      | _ => []
    else
      match rest with
      | b :: c :: d :: r =>
        Char.ofNat ((n - 0xF0) * 262144 + (b.toNat - 0x80) * 4096 + (c.toNat - 0x80) * 64
          + (d.toNat - 0x80)) :: utf8Decode r
      | _ => []

def unstr (s : String) : Option (List Char) := (unhex s).map utf8Decode

def unnat (s : String) : Option Nat := s.toNat?

def unint (s : String) : Option Int := s.toInt?

def unbool (s : String) : Option Bool :=
  if s = "1" then some true else if s = "0" then some false else none

def unlist (f : String → Option α) (s : String) : Option (List α) :=
  if s = "-" then some [] else (s.splitOn ",").mapM f

/-! ### encoding results -/

def hexS (bs : Bytes) : String := if bs.isEmpty then "-" else String.ofList (toHex bs)

def strS (cs : List Char) : String := hexS (Text.utf8 cs)

def listS (f : α → String) (xs : List α) : String :=
  if xs.isEmpty then "-" else ",".intercalate (xs.map f)

def boolS (b : Bool) : String := if b then "1" else "0"

def okS (s : String) : String := "ok " ++ s

def optS (f : α → String) : Option α → String
  | none => "err"
  | some a => okS (f a)

def nodeS (nd : Bip32.Node) : String :=
  " ".intercalate
    ["N", (if nd.isPrv then "P" else "p"), hexS nd.key, hexS nd.chainCode, toString nd.depth,
     toString nd.index, boolS nd.testnet, hexS (Bip32.parentFingerprint nd),
     strS (Bip32.nodeRepr nd),
     match nd.parsedVersion with | none => "-" | some v => toString v]

partial def jsonS : Wallet.Json → String
  | .null => "n"
  | .str s => "s" ++ strS s
  | .arr xs => "[" ++ ",".intercalate (xs.map jsonS) ++ "]"
  | .obj kvs =>
    let items := kvs.map fun kv => (strS kv.1, jsonS kv.2)
    let sorted := items.toArray.qsort (fun a b => a.1 < b.1)
    "{" ++ ",".intercalate (sorted.toList.map fun kv => kv.1 ++ ":" ++ kv.2) ++ "}"

def cmdS : Script.Cmd → String
  | .op b => "o" ++ toString b
  | .data d => "d" ++ hexS d

def uncmd (s : String) : Option Script.Cmd :=
  match s.toList with
  | 'o' :: r => (String.ofList r).toNat?.map Script.Cmd.op
  | 'd' :: r => (unhex (String.ofList r)).map Script.Cmd.data
  | _ => none

/-! ### node and wallet specifications -/

/-- `<P|p>:<key>:<chain>:<depth>:<index>:<t>:<fp|none>` — a parentless node as the
class constructor builds it -/
def unnode (s : String) : Option Bip32.Node :=
  match s.splitOn ":" with
  | [cls, key, chain, depth, index, t, fp] => do
    let isPrv ← if cls = "P" then some true else if cls = "p" then some false else none
    let key ← unhex key
    let chain ← unhex chain
    let depth ← unnat depth
    let index ← unnat index
    let t ← unbool t
    let fp ← if fp = "none" then some none else (unhex fp).map some
    pure { isPrv := isPrv, key := key, chainCode := chain, depth := depth, index := index,
           testnet := t, hasParent := false, parentFp := fp, path := [], parsedVersion := none }
  | _ => none

/-- primitives with an optional constant PRF (`prf=<hex of 64 bytes>`) and an
NFKD table supplied by the harness -/
def primsWith (prf : Option Bytes) (nf : List (List Char × List Char)) : RP :=
  let base := realPrims fun s => (nf.lookup s).getD s
  match prf with
  | none => base
  | some out => { base with hmac512 := fun _ _ => out }

def unprf (s : String) : Option (Option Bytes) :=
  if s = "-" then some none
  else if s.startsWith "prf=" then (unhex (s.drop 4).toString).map some
  else none

/-- wallet specification, see `harness/protocol.py` -/
def unwallet (s : String) : Option (RP × Option Wallet.Wallet) :=
  match s.splitOn ":" with
  | ["mn", mr, mn, pr, pn, t] => do
    let mr ← unstr mr; let mn ← unstr mn; let pr ← unstr pr; let pn ← unstr pn; let t ← unbool t
    let P := primsWith none [(mr, mn), (pr, pn)]
    pure (P, Wallet.fromMnemonic P mr pr t)
  | ["ent", e, pr, pn, t] => do
    let e ← unstr e; let pr ← unstr pr; let pn ← unstr pn; let t ← unbool t
    let P := primsWith none [(pr, pn)]
    pure (P, Wallet.fromEntropyHex P e pr t)
  | ["seedb", sd, t] => do
    let sd ← unhex sd; let t ← unbool t
    let P := primsWith none []
    pure (P, Wallet.fromSeedBytes P sd t)
  | ["seedh", sd, t] => do
    let sd ← unstr sd; let t ← unbool t
    let P := primsWith none []
    pure (P, Wallet.fromSeedHex P sd t)
  | ["raw", sd, nt, wt] => do
    -- the class constructor called directly: node flag and wallet flag given separately
    let sd ← unhex sd; let nt ← unbool nt; let wt ← unbool wt
    let P := primsWith none []
    pure (P, (Bip32.masterKey P sd nt).map fun m => ⟨m, wt, none, none⟩)
  | ["xkey", k] => do
    let k ← unstr k
    let P := primsWith none []
    pure (P, Wallet.fromExtendedKey P k)
  | ["new", osbytes, len, pr, pn, t] => do
    let ob ← unhex osbytes; let len ← unnat len; let pr ← unstr pr; let pn ← unstr pn
    let t ← unbool t
    let P := primsWith none [(pr, pn)]
    pure (P, Wallet.newWallet P (fun k => ob.take k) len pr t)
  | _ => none

def walletS (w : Wallet.Wallet) : String :=
  " ".intercalate ["W", boolS w.testnet, boolS w.watchOnly, nodeS w.master,
    jsonS (Wallet.optStr w.mnemonic), jsonS (Wallet.optStr w.password)]

def addrFn (P : RP) (kind : String) (t : Bool) : Option (Bip32.Node → Option (List Char)) :=
  match kind with
  | "p2pkh" => some (Wallet.p2pkhAddress P t)
  | "p2wpkh" => some (Wallet.p2wpkhAddress P t)
  | "p2sh_p2wpkh" => some (Wallet.p2shP2wpkhAddress P t)
  | "p2wsh" => some (Wallet.p2wshAddress P t)
  | "p2sh_p2wsh" => some (Wallet.p2shP2wshAddress P t)
  | _ => none

def pubNodeOf (key : Bytes) (t : Bool) : Bip32.Node :=
  { isPrv := false, key := key, chainCode := List.replicate 32 0, depth := 0,
    index := 0, testnet := t, hasParent := false, parentFp := none, path := [],
    parsedVersion := none }

/-! ### histories (C13) -/

def unkind (s : String) : Option History.AddrKind :=
  match s with
  | "p2pkh" => some .p2pkh
  | "p2wpkh" => some .p2wpkh
  | "p2sh_p2wpkh" => some .p2shP2wpkh
  | "p2wsh" => some .p2wsh
  | "p2sh_p2wsh" => some .p2shP2wsh
  | _ => none

def unop (s : String) : Option History.Op :=
  match s.splitOn ":" with
  | ["bp", p] => (unstr p).map .byPath
  | ["ckd", h, i] => do pure (.ckd (← unnat h) (← unnat i))
  | ["gc", h, a, b] => do pure (.genChildren (← unnat h) (← unnat a) (← unnat b))
  | ["dp", h, is] => do pure (.derivePath (← unnat h) (← unlist unnat is))
  | ["ad", h, k] => do pure (.addr (← unnat h) (← unkind k))
  | ["xk", h] => do pure (.extKeys (← unnat h))
  | ["ng", h, k] => do pure (.newGen (← unnat h) (← unkind k))
  | ["nx", g] => do pure (.next (← unnat g))
  | ["sd", g, k] => do pure (.send (← unnat g) (← unnat k))
  | ["b85", app, param, index] => do pure (.bip85 (← unnat app) (← unint param) (← unint index))
  | ["rep", acct, a, b] => do pure (.report (← unnat acct) (← unnat a) (← unnat b))
  -- `exp:<acct>:<a>:<b>`: the report exported to the client's output file, read back and parsed.  In the model the
  -- file holds exactly the rendered text (Props/TrText.texts_eq, export_to_file is shape-checked) and parsing it
  -- gives the report back (C06), so the answer is the report
  | ["exp", acct, a, b] => do pure (.report (← unnat acct) (← unnat a) (← unnat b))
  | ["was"] => some .wasabi
  | ["root"] => some .rootKey
  -- `nw:<t>`: the client builds ANOTHER wallet object over the same root node (network flag t) and then asks the
  -- first wallet for its root key: in the model constructing an object is not a request, so this is `rootKey`
  | ["nw", _] => some .rootKey
  -- `cl:<g>`: the client closes an address generator it no longer uses (the histories never touch it again) and then
  -- asks for the root key: closing a generator is not a request to the wallet
  | ["cl", _] => some .rootKey
  | _ => none

def outS : History.Out → String
  | .err => "err"
  | .node n => nodeS n
  | .nodes ns => "L " ++ " / ".intercalate (ns.map nodeS)
  | .text s => "t" ++ strS s
  | .pair a b => "p" ++ strS a ++ " " ++ strS b
  | .json j => jsonS j
  | .handle g => "g" ++ toString g

/-! ### EXTRA: helpers -/

/-- a hash inside a comma list: `h` followed by its hex (so that the empty byte string is `h`) -/
def hashS (b : Bytes) : String := "h" ++ String.ofList (toHex b)

def unhash (s : String) : Option Bytes :=
  match s.toList with
  | 'h' :: r => if r.isEmpty then some [] else unhex (String.ofList r)
  | _ => none

def unindent (s : String) : Option (Option Nat) :=
  if s = "-" then some none else (unnat s).map some

/-- the `data` argument of `json` / `pprint` / `export_wallet`: `-` = `None`, `empty` = `{}`,
`acct:a:b` = `self.generate(account=acct, interval=(a, b))` (outer `none` = bad-op, middle
`none` = `generate` raised) -/
def paperData (P : RP) (w : Wallet.Wallet) (s : String) : Option (Option (Option Wallet.Json)) :=
  if s = "-" then some (some none)
  else if s = "empty" then some (some (some (.obj [])))
  else match s.splitOn ":" with
    | [acct, a, b] => do
      let acct ← unnat acct; let a ← unnat a; let b ← unnat b
      pure ((Wallet.generate P w acct a b).map some)
    | ["p", acct, a, b] => do      -- the paranoia-filtered report, as `main` hands it to pprint / export_wallet
      let acct ← unnat acct; let a ← unnat a; let b ← unnat b
      pure (((Wallet.generate P w acct a b).bind Wallet.paranoia).map some)
    | _ => none

/-! ### the operations -/

def bad : String := "bad-op"

def orBad (o : Option String) : String := o.getD bad

def step (line : String) : String :=
  let P0 := primsWith none []
  match (line.trimAscii.toString.splitOn " ").filter (· ≠ "") with
  -- primitives (conformance stage)
  | ["sha256", m] => orBad do let m ← unhex m; pure (okS (hexS (Real.sha256 m)))
  | ["sha512", m] => orBad do let m ← unhex m; pure (okS (hexS (Real.sha512 m)))
  | ["hmac512", k, m] => orBad do
      let k ← unhex k; let m ← unhex m; pure (okS (hexS (Real.hmacSha512 k m)))
  | ["pbkdf2", pw, salt, r] => orBad do
      let pw ← unhex pw; let salt ← unhex salt; let r ← unnat r
      pure (okS (hexS (Real.pbkdf2Sha512 pw salt r)))
  | ["rmd160", m] => orBad do let m ← unhex m; pure (okS (hexS (Ripemd.ripemd160 m)))
  | ["h160", m] => orBad do let m ← unhex m; pure (okS (hexS (Keys.hash160 P0 m)))
  | ["mulgen", k] => orBad do
      let k ← unnat k
      pure (okS (hexS (Real.Secp.sec true (Real.Secp.mulGen k))))
  -- C10
  | ["b58e", b] => orBad do let b ← unhex b; pure (okS (strS (Base58.encode b)))
  | ["b58d", s] => orBad do let s ← unstr s; pure (optS hexS (Base58.decode s))
  | ["b58ce", b] => orBad do let b ← unhex b; pure (okS (strS (Base58.encodeCheck P0.hash256 b)))
  | ["b58cd", s] => orBad do let s ← unstr s; pure (optS hexS (Base58.decodeCheck P0.hash256 s))
  | ["b58addr", s] => orBad do let s ← unstr s; pure (optS hexS (Base58.decodeAddr P0.hash256 s))
  -- C19
  | ["scr_ser", cs] => orBad do let cs ← unlist uncmd cs; pure (optS hexS (Script.serialize cs))
  | ["scr_raw", cs] => orBad do let cs ← unlist uncmd cs; pure (optS hexS (Script.rawSerialize cs))
  | ["scr_parse", b] => orBad do
      let b ← unhex b
      pure (optS (fun (r : List Script.Cmd × Bytes) => listS cmdS r.1 ++ " " ++ hexS r.2) (Script.parse b))
  | ["scr_parse", b, k] => orBad do    -- stream already positioned after `k` bytes
      let b ← unhex b; let k ← unnat k
      pure (optS (fun (r : List Script.Cmd × Bytes) => listS cmdS r.1 ++ " " ++ hexS r.2) (Script.parse (b.drop k)))
  | ["vi_read", b, k] => orBad do
      let b ← unhex b; let k ← unnat k
      pure (optS (fun (r : Nat × Bytes) => toString r.1 ++ " " ++ hexS r.2) (Varint.readVarint (b.drop k)))
  | ["vi_enc", n] => orBad do let n ← unnat n; pure (optS hexS (Varint.encodeVarint n))
  | ["vi_read", b] => orBad do
      let b ← unhex b
      pure (optS (fun (r : Nat × Bytes) => toString r.1 ++ " " ++ hexS r.2) (Varint.readVarint b))
  | ["scr_build", kind, h] => orBad do
      let h ← unhex h
      let cs ← match kind with
        | "p2pkh" => some (Script.p2pkhScript h)
        | "p2sh" => some (Script.p2shScript h)
        | "p2wpkh" => some (Script.p2wpkhScript h)
        | "p2wsh" => some (Script.p2wshScript h)
        | _ => none
      pure (okS (listS cmdS cs ++ " " ++ (match Script.rawSerialize cs with | some r => hexS r | none => "err")))
  -- C17
  | ["path_parse", s] => orBad do
      let s ← unstr s
      pure (optS (fun (p : Path.Path) => (if p.priv then "m" else "M") ++ " " ++ listS toString p.levels)
        (Path.parse s))
  | ["path_fmt", pv, ls] => orBad do
      let pv ← unbool pv; let ls ← unlist unnat ls
      pure (okS (strS (Path.format ⟨ls, pv⟩)))
  -- C01 / C02 / C18: derivation from a parentless node, optional constant PRF
  | ["ckd", nd, ls, prf] => orBad do
      let nd ← unnode nd; let ls ← unlist unnat ls; let prf ← unprf prf
      pure (optS nodeS (Bip32.derivePath (primsWith prf []) nd ls))
  -- public byte/integer and address helpers of helper.py, called directly
  | ["i2be", n, len] => orBad do let n ← unnat n; let len ← unnat len; pure (optS hexS (toBytesBE len n))
  | ["i2le", n, len] => orBad do let n ← unnat n; let len ← unnat len; pure (optS hexS (toBytesLE len n))
  | ["be2i", b] => orBad do let b ← unhex b; pure (okS (toString (beToNat b)))
  | ["le2i", b] => orBad do let b ← unhex b; pure (okS (toString (leToNat b)))
  | ["h_addr", kind, h, t, wv] => orBad do
      let h ← unhex h; let t ← unbool t; let wv ← unnat wv
      match kind with
      | "p2pkh" => pure (okS (strS (Wallet.p2pkhOfH160 P0 h t)))
      | "p2sh" => pure (okS (strS (Wallet.p2shOfH160 P0 h t)))
      | "p2wpkh" | "p2wsh" =>
        pure (optS strS (Bech32.encode (if t then Generated.hrpTest else Generated.hrpMain) wv h))
      | _ => none
  -- C18: the SAME node object is asked again and again (`c` = ckd, `d` = derive_path of the one-element list);
  -- in the model a node is a value, so every request gives the answer of the first
  | ["ckd_retry", nd, i, prf, pat] => orBad do
      let nd ← unnode nd; let i ← unnat i; let prf ← unprf prf
      let one := match Bip32.derivePath (primsWith prf []) nd [i] with
        | none => "err"
        | some c => nodeS c
      pure (okS (" ; ".intercalate (pat.toList.map fun _ => one)))
  -- bulk derivation with every interval shape `range(*interval)` accepts: arity 1 `(b,)`, 2 `(a, b)`, 3 `(a, b, step)`
  | ["gen_step", nd, ar, a, b, st, prf] => orBad do
      let nd ← unnode nd; let ar ← unnat ar; let a ← unint a; let b ← unint b; let st ← unint st; let prf ← unprf prf
      let (a', st') := if ar = 1 then ((0 : Int), (1 : Int)) else if ar = 2 then (a, (1 : Int)) else (a, st)
      pure (match Bip32.generateChildrenStep (primsWith prf []) nd a' b st' with
        | none => "err"
        | some cs => okS (if cs.isEmpty then "L" else "L " ++ " / ".intercalate (cs.map nodeS)))
  | ["master", seed, t, prf] => orBad do
      let seed ← unhex seed; let t ← unbool t; let prf ← unprf prf
      pure (optS nodeS (Bip32.masterKey (primsWith prf []) seed t))
  -- C07
  | ["xk_ser", nd, ls, which, ver] => orBad do
      let nd ← unnode nd; let ls ← unlist unnat ls
      let ver ← if ver = "-" then some none else (unnat ver).map some
      let r := (Bip32.derivePath P0 nd ls).bind fun n =>
        if which = "pub" then Bip32.extendedPublicKey P0 n ver
        else Bip32.extendedPrivateKey P0 n ver
      pure (optS strS r)
  | ["xk_parse", cls, t, form, payload] => orBad do
      let isPrv ← if cls = "P" then some true else if cls = "p" then some false else none
      let t ← unbool t
      if form = "s" then do
        let s ← unstr payload
        pure (optS nodeS (Bip32.parseStr P0 isPrv t s))
      else if form.startsWith "io@" then do   -- stream already positioned after `k` bytes
        let k ← unnat (form.drop 3).toString
        let b ← unhex payload
        pure (okS (nodeS (Bip32.parseBytes isPrv t (b.drop k))))
      else do
        let b ← unhex payload
        pure (okS (nodeS (Bip32.parseBytes isPrv t b)))
  -- parse with the class asked for (also the other class than the key's own kind), then derive along a path
  | ["xk_parse", cls, t, form, payload, path] => orBad do
      let isPrv ← if cls = "P" then some true else if cls = "p" then some false else none
      let t ← unbool t
      let ls ← unlist unnat path
      if form = "s" then do
        let s ← unstr payload
        pure (optS nodeS ((Bip32.parseStr P0 isPrv t s).bind fun nd => Bip32.derivePath P0 nd ls))
      else do
        let b ← unhex payload
        pure (optS nodeS (Bip32.derivePath P0 (Bip32.parseBytes isPrv t b) ls))
  | ["node_eq", a, b] => orBad do
      let a ← unnode a; let b ← unnode b
      pure (okS (boolS (Bip32.nodeEq a b)))
  -- C09
  | ["priv_new", b] => orBad do
      let b ← unhex b
      pure (optS (fun k => hexS (Keys.privBytes k) ++ " " ++ hexS (Real.Secp.sec true (Real.Secp.mulGen k))
          ++ " " ++ hexS (Real.Secp.sec false (Real.Secp.mulGen k)))
        (Keys.mkPriv realCurve b))
  | ["priv_int", n] => orBad do
      let n ← unnat n
      pure (optS (fun k => hexS (Keys.privBytes k)) (Keys.privFromInt realCurve n))
  | ["wif", b, c, t] => orBad do
      let b ← unhex b; let c ← unbool c; let t ← unbool t
      pure (optS (fun k => strS (Keys.wif P0 k c t)) (Keys.mkPriv realCurve b))
  | ["from_wif", s] => orBad do
      let s ← unstr s
      pure (optS (fun k => hexS (Keys.privBytes k)) (Keys.fromWif P0 s))
  | ["wif_cycle", s] => orBad do
      let s ← unstr s
      pure (optS (fun k => hexS (Keys.privBytes k) ++ " " ++ " ".intercalate
          ([(true, true), (false, false), (true, false), (false, true), (false, false), (true, true), (true, false),
            (false, true)].map fun (c, t) => strS (Keys.wif P0 k c t))) (Keys.fromWif P0 s))
  | ["sec_parse", b] => orBad do
      let b ← unhex b
      pure (optS (fun pt => hexS (Real.Secp.sec true pt) ++ " " ++ hexS (Real.Secp.sec false pt))
        (Real.Secp.parse b))
  -- C11
  | ["b32_enc", hrp, v, prog] => orBad do
      let hrp ← unstr hrp; let v ← unnat v; let prog ← unhex prog
      pure (optS strS (Bech32.encode hrp v prog))
  | ["b32_dec", hrp, addr] => orBad do
      let hrp ← unstr hrp; let addr ← unstr addr
      pure (optS (fun (r : Nat × List Nat) => toString r.1 ++ " " ++ listS toString r.2)
        (Bech32.decode hrp addr))
  | ["b32_raw", s] => orBad do
      let s ← unstr s
      pure (optS (fun (r : List Char × List Nat × Bech32.Encoding) =>
          strS r.1 ++ " " ++ listS toString r.2.1 ++ " " ++
          (match r.2.2 with | .bech32 => "1" | .bech32m => "2"))
        (Bech32.bech32Decode s))
  | ["polymod", vs] => orBad do
      let vs ← unlist unnat vs; pure (okS (toString (Bech32.polymod vs)))
  | ["convertbits", vs, f, t, pad] => orBad do
      let vs ← unlist unnat vs; let f ← unnat f; let t ← unnat t; let pad ← unbool pad
      pure (optS (listS toString) (Bech32.convertbits vs f t pad))
  -- C04
  | ["mn_from_ent", e] => orBad do
      let e ← unstr e
      pure (optS strS (Bip39.mnemonicFromEntropy Real.sha256 e))
  | ["mn_slen", n] => orBad do
      let n ← unnat n
      pure (okS (toString (Bip39.sentenceLength n)))
  | ["mn_cslen", n] => orBad do
      let n ← unnat n
      pure (okS (toString (Bip39.checksumLength n)))
  | ["mn_bits_ok", n] => orBad do
      let n ← unnat n
      pure (if n ∈ Generated.correctEntropyBits then okS "1" else "err")
  | ["mn_new", osbytes, bits] => orBad do
      let ob ← unhex osbytes; let bits ← unnat bits
      pure (optS strS (Bip39.mnemonicFromEntropyBits Real.sha256 (fun k => ob.take k) bits))
  -- C03
  | ["seed", mr, mn, pr, pn] => orBad do
      let mr ← unstr mr; let mn ← unstr mn; let pr ← unstr pr; let pn ← unstr pn
      pure (okS (hexS (Bip39.seedFromMnemonic (primsWith none [(mr, mn), (pr, pn)]) mr pr)))
  | ["wallet", w] => orBad do
      let (_, w) ← unwallet w
      pure (optS walletS w)
  -- the FIRST wallet, looked at after a second one has been created (a wallet is a value in the model)
  | ["wallet_held", w, w2] => orBad do
      let (_, w) ← unwallet w
      let _ ← unwallet w2
      pure (optS walletS w)
  -- C05
  | ["addr", kind, key, t] => orBad do
      let key ← unhex key; let t ← unbool t
      let f ← addrFn P0 kind t
      let nd := pubNodeOf key t
      pure (optS strS (f nd))
  | ["pk_addr", key, c, t, kind] => orBad do
      let key ← unhex key; let c ← unbool c; let t ← unbool t
      let r := (Real.Secp.parse key).bind fun K =>
        if kind = "p2pkh" then some (Wallet.pubP2pkh P0 K c t)
        else if kind = "p2wpkh" then Wallet.segwitOf (Keys.h160 P0 K c) t
        else none
      pure (optS strS r)
  | ["pk_seq", key, reqs] => orBad do
      let key ← unhex key
      let rs ← (reqs.splitOn ",").mapM fun r => match r.splitOn ":" with
        | [c, t, kind] => do pure ((← unbool c), (← unbool t), kind)
        | _ => none
      let outs := rs.map fun (c, t, kind) =>
        let r := (Real.Secp.parse key).bind fun K =>
          if kind = "p2pkh" then some (Wallet.pubP2pkh P0 K c t)
          else if kind = "p2wpkh" then Wallet.segwitOf (Keys.h160 P0 K c) t
          else if kind = "h160" then some (toHex (Keys.h160 P0 K c))
          else none
        match r with | some a => strS a | none => "err"
      pure (okS (" ; ".intercalate outs))
  -- C12
  | ["bip85", nd, app, param, index, prf] => orBad do
      let nd ← unnode nd; let param ← unint param; let index ← unint index; let prf ← unprf prf
      let P := primsWith prf []
      let r ← match app with
        | "mnemonic" => some (Bip85.bip39Mnemonic P nd param index)
        | "wif" => some (Bip85.wif P nd index)
        | "xprv" => some (Bip85.xprv P nd index)
        | "hex" => some (Bip85.hex P nd param index)
        | "pwd" => some (Bip85.pwd P nd param index)
        | _ => none
      pure (optS strS r)
  -- C06 / C14 / C15 / C16: wallet level
  | ["generate", w, acct, a, b] => orBad do
      let (P, w) ← unwallet w; let acct ← unnat acct; let a ← unnat a; let b ← unnat b
      pure (optS jsonS (w.bind fun w => Wallet.generate P w acct a b))
  | ["paranoia", w, acct, a, b] => orBad do
      let (P, w) ← unwallet w; let acct ← unnat acct; let a ← unnat a; let b ← unnat b
      pure (optS jsonS (w.bind fun w => (Wallet.generate P w acct a b).bind Wallet.paranoia))
  -- results HELD by the caller while a later request is served: values never change after they are returned
  | ["paranoia_seq", w1, acct1, a1, b1, w2, acct2, a2, b2] => orBad do
      let (P1, w1) ← unwallet w1; let acct1 ← unnat acct1; let a1 ← unnat a1; let b1 ← unnat b1
      let (P2, w2) ← unwallet w2; let acct2 ← unnat acct2; let a2 ← unnat a2; let b2 ← unnat b2
      let r1 := w1.bind fun w => (Wallet.generate P1 w acct1 a1 b1).bind Wallet.paranoia
      let r2 := w2.bind fun w => (Wallet.generate P2 w acct2 a2 b2).bind Wallet.paranoia
      match r1, r2 with
      | some r1, some r2 => pure (okS (jsonS r1 ++ " " ++ jsonS r2 ++ " 1"))
      | _, _ => pure "err"
  | ["generate_seq", w1, acct1, a1, b1, w2, acct2, a2, b2] => orBad do
      let (P1, w1) ← unwallet w1; let acct1 ← unnat acct1; let a1 ← unnat a1; let b1 ← unnat b1
      let (P2, w2) ← if w2 = "same" then some (P1, w1) else unwallet w2
      let acct2 ← unnat acct2; let a2 ← unnat a2; let b2 ← unnat b2
      let r1 := w1.bind fun w => Wallet.generate P1 w acct1 a1 b1
      let r2 := w2.bind fun w => Wallet.generate P2 w acct2 a2 b2
      match r1, r2 with
      | some r1, some r2 => pure (okS (jsonS r1 ++ " " ++ jsonS r2))
      | _, _ => pure "err"
  | ["json_text", w, acct, a, b, ind] => orBad do
      let (P, w) ← unwallet w; let acct ← unnat acct; let a ← unnat a; let b ← unnat b
      let ind ← if ind = "-" then some none else (unnat ind).map some
      pure (optS (fun j => strS (JsonText.dumps ind j)) (w.bind fun w => Wallet.generate P w acct a b))
  | ["json_loads", t] => orBad do
      let t ← unstr t
      pure (optS jsonS (JsonText.loads t))
  | ["wasabi", w] => orBad do
      let (P, w) ← unwallet w
      pure (optS jsonS (w.bind fun w => Wallet.wasabi P w))
  | ["w_bypath", w, path] => orBad do
      let (P, w) ← unwallet w; let path ← unstr path
      pure (optS nodeS (w.bind fun w => Wallet.byPath P w path))
  | ["w_addr", w, path, kind] => orBad do
      let (P, w) ← unwallet w; let path ← unstr path
      pure (optS strS (w.bind fun w => do
        let f ← addrFn P kind w.testnet
        let nd ← Wallet.byPath P w path
        f nd))
  | ["w_extkeys", w, path] => orBad do
      let (P, w) ← unwallet w; let path ← unstr path
      pure (optS jsonS (w.bind fun w => (Wallet.byPath P w path).bind (Wallet.nodeExtendedKeys P w)))
  | ["w_extprv", w, path] => orBad do
      let (P, w) ← unwallet w; let path ← unstr path
      pure (optS strS (w.bind fun w => (Wallet.byPath P w path).bind (Wallet.nodeExtendedPrivateKey P w)))
  | ["w_group", w, path, kind] => orBad do
      let (P, w) ← unwallet w; let path ← unstr path
      pure (optS jsonS (w.bind fun w => do
        let f ← addrFn P kind w.testnet
        let nd ← Wallet.byPath P w path
        Wallet.groupRow P w f nd))
  | ["w_bip85", w, app, param, index] => orBad do
      let (P, w) ← unwallet w; let param ← unint param; let index ← unint index
      pure (optS strS (w.bind fun w =>
        if w.watchOnly then none else
        match app with
        | "mnemonic" => Bip85.bip39Mnemonic P w.master param index
        | "wif" => Bip85.wif P w.master index
        | "xprv" => Bip85.xprv P w.master index
        | "hex" => Bip85.hex P w.master param index
        | "pwd" => Bip85.pwd P w.master param index
        | _ => none))
  -- EXTRA: helper.py
  | ["chunks", n, xs] => orBad do
      let n ← unnat n; let xs ← unlist unnat xs
      pure (optS (fun (cs : List (List Nat)) =>
        if cs.isEmpty then "-" else "/".intercalate (cs.map (listS toString))) (Extra.chunks n xs))
  | ["merkle_parent", a, b] => orBad do
      let a ← unhex a; let b ← unhex b
      pure (okS (hexS (Extra.merkleParent P0.hash256 a b)))
  | ["merkle_level", hs] => orBad do
      let hs ← unlist unhash hs
      pure (optS (fun (r : List Bytes × List Bytes) => listS hashS r.1 ++ " " ++ listS hashS r.2)
        (Extra.merkleParentLevelMut P0.hash256 hs))
  | ["merkle_root", hs] => orBad do
      let hs ← unlist unhash hs
      pure (optS (fun r => hashS r ++ " " ++ listS hashS (Extra.merkleRootArg hs))
        (Extra.merkleRoot P0.hash256 hs))
  | ["b32_addr", s] => orBad do
      let s ← unstr s; pure (optS hexS (Extra.bech32DecodeAddress s))
  -- EXTRA: script.py
  | ["scr_add", a, b] => orBad do
      let a ← unlist uncmd a; let b ← unlist uncmd b
      let cs := Extra.scriptAdd a b
      pure (okS (listS cmdS cs ++ " " ++
        (match Script.rawSerialize cs with | some r => hexS r | none => "err")))
  | ["scr_eq", a, b] => orBad do
      let a ← unlist uncmd a; let b ← unlist uncmd b
      pure (okS (boolS (Extra.scriptEq a b)))
  | ["scr_repr", a] => orBad do
      let a ← unlist uncmd a; pure (okS (strS (Extra.scriptRepr a)))
  -- EXTRA: wallet_utils.py
  | ["ver_bip", v] => orBad do let v ← unnat v; pure (okS (toString (Path.versionBip v)))
  | ["ver_valid", v] => orBad do let v ← unnat v; pure (okS (boolS (Path.validVersion v)))
  | ["ver_parse", v] => orBad do
      let v ← unnat v
      pure (optS (fun (x : Path.Version) => s!"{x.keyType} {x.bip} {boolS x.testnet}") (Path.Version.parse v))
  | ["ver_list", which] => orBad do
      let l ← match which with
        | "main" => some Extra.mainnetVersions
        | "test" => some Extra.testnetVersions
        | "prv" => some Extra.prvVersions
        | "pub" => some Extra.pubVersions
        | _ => none
      pure (okS (listS toString l))
  | ["ver_keys", name] => orBad do
      let name ← unstr name
      let k := if name = "PRV".toList then 0 else if name = "PUB".toList then 1 else 2
      pure (optS (listS toString) (Extra.keyVersions k))
  | ["ver_data", bip] => orBad do
      let d ← match bip with
        | "44" => some Extra.bip44Data
        | "49" => some Extra.bip49Data
        | "84" => some Extra.bip84Data
        | _ => none
      pure (okS (listS (fun (e : List Char × Nat) => strS e.1 ++ ":" ++ toString e.2) d))
  | ["path_pred", s] => orBad do
      let s ← unstr s
      pure (optS (fun (p : Path.Path) => " ".intercalate
          ([Extra.bip44 p, Extra.bip49 p, Extra.bip84 p, Extra.bitcoinTestnet p,
            Extra.bitcoinMainnet p, Extra.externalChain p].map boolS ++ [toString (Extra.pathBip p)]))
        (Path.parse s))
  | ["path_eq", a, b] => orBad do
      let a ← unstr a; let b ← unstr b
      pure (optS boolS (do
        let pa ← Path.parse a; let pb ← Path.parse b; pure (Extra.pathEq pa pb)))
  | ["list_get", xs, i] => orBad do
      let xs ← unlist unnat xs; let i ← unnat i
      pure (okS (match Extra.listGet xs i with | none => "none" | some v => toString v))
  -- EXTRA: bip85.py / base_wallet.py / keys.py
  | ["b85_from_xprv", s, t] => orBad do
      let s ← unstr s; let t ← unbool t
      pure (optS (fun (o : Extra.Bip85Obj) => nodeS o.masterNode ++ " " ++ boolS o.testnet)
        (Extra.bip85FromXprv P0 s t))
  | ["b85_eq", n1, t1, n2, t2] => orBad do
      let n1 ← unnode n1; let t1 ← unbool t1; let n2 ← unnode n2; let t2 ← unbool t2
      pure (okS (boolS (Extra.bip85Eq ⟨n1, t1⟩ ⟨n2, t2⟩)))
  | ["wallet_eq", w1, w2] => orBad do
      let (_, w1) ← unwallet w1; let (_, w2) ← unwallet w2
      pure (optS boolS (do let a ← w1; let b ← w2; pure (Extra.walletEq a b)))
  | ["priv_eq", a, b] => orBad do
      let a ← unhex a; let b ← unhex b
      pure (optS boolS (do
        let k1 ← Keys.mkPriv realCurve a; let k2 ← Keys.mkPriv realCurve b
        pure (Extra.privKeyEq k1 k2)))
  | ["pub_eq", a, b] => orBad do
      let a ← unhex a; let b ← unhex b
      pure (optS boolS (do
        let p ← Real.Secp.parse a; let q ← Real.Secp.parse b
        pure (Extra.pubKeyEq realCurve p q)))
  -- EXTRA: paper_wallet.py texts
  | ["paper_text", kind, w, data, ind] => orBad do
      let (P, w) ← unwallet w
      let ind ← unindent ind
      let f ← match kind with
        | "json" => some Extra.jsonText
        | "pprint" => some Extra.pprintText
        | "export" => some Extra.exportWalletText
        | _ => none
      match w with
      | none => pure "err"
      | some w =>
        let d ← paperData P w data
        pure (optS strS (d.bind fun d => f P w d ind))
  | ["wasabi_text", w, ind] => orBad do
      let (P, w) ← unwallet w
      let ind ← unindent ind
      pure (optS strS (w.bind fun w => Extra.wasabiJsonText P w ind))
  | ["hist", w, ops] => orBad do
      let (P, w) ← unwallet w
      let ops ← (ops.splitOn ";").mapM unop
      match w with
      | none => pure "err"
      | some w => pure (okS (" ; ".intercalate ((History.run P (History.init w) ops).2.map outS)))
  | ["cli", fs, osb, argv] => orBad do
      let fs ← match fs with
        | "absent" => some Cli.FsClass.absent
        | "file" => some Cli.FsClass.file
        | "dir" => some Cli.FsClass.dir
        | "noparent" => some Cli.FsClass.noParent
        | _ => none
      let ob ← unhex osb
      let argv ← if argv = "=" then some [] else (argv.splitOn ",").mapM unstr
      pure (match Cli.run P0 (fun k => ob.take k) fs argv with
        | .reject => "ok reject"
        | .help => "ok help"
        | .emit .stdout j => "ok emit stdout " ++ jsonS j
        | .emit .file j => "ok emit file " ++ jsonS j)
  | _ => bad

partial def loop (h : IO.FS.Stream) (out : IO.FS.Stream) : IO Unit := do
  let line ← h.getLine
  if line.isEmpty then return ()
  out.putStrLn (step line)
  loop h out

end Driver

def main : IO Unit := do
  let stdin ← IO.getStdin
  let stdout ← IO.getStdout
  Driver.loop stdin stdout
