import BtcHd.Scratch.Code2
import BtcHd.Props.TrBech32
open BtcHd BtcHd.Translated

theorem polymod2 (v : List Nat) : Code2.bech32_polymod v = Code.bech32_polymod v := rfl
theorem cc2 (h : List Char) (d : List Nat) (s) : Code2.bech32_create_checksum h d s = Code.bech32_create_checksum h d s := rfl
theorem vc2 (h : List Char) (d : List Nat) : Code2.bech32_verify_checksum h d = Code.bech32_verify_checksum h d := rfl
theorem cb2 (d : List Nat) (a b : Nat) (p : Bool) : Code2.convertbits d a b p = Code.convertbits d a b p := rfl

theorem bech32_encode_eq (hrp : List Char) (data : List Nat) (spec : Bech32.Encoding) :
    Code2.bech32_encode hrp data spec = Bech32.bech32Encode hrp data spec := by
  unfold Code2.bech32_encode Bech32.bech32Encode
  simp only [cc2, createChecksum_eq]
  have : (fun d => Generated.charset[d]?) = Bech32.charAt := rfl
  rw [this]
  cases List.mapM Bech32.charAt (data ++ Bech32.createChecksum hrp data spec) <;> rfl

example (bech : List Char) : Code2.bech32_decode bech = Bech32.bech32Decode bech := by
  unfold Code2.bech32_decode Bech32.bech32Decode
  simp only [vc2, verifyChecksum_eq]
  trace_state
  sorry
