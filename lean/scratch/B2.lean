import BtcHd.Scratch.Code2
import BtcHd.Props.TrBech32
import BtcHd.Lemmas.Bech32
open BtcHd BtcHd.Translated BtcHd.Bech32

theorem vc2 (h : List Char) (d : List Nat) : Code2.bech32_verify_checksum h d = Code.bech32_verify_checksum h d := rfl

theorem map_eq_self_iff {α : Type} (f : α → α) (s : List α) : s.map f = s ↔ ∀ c ∈ s, f c = c := by
  induction s with
  | nil => simp
  | cons a l ih => simp [ih]

theorem lowerAscii_eq (c : Char) : Py.lowerAscii c = toLowerAscii c := by
  unfold Py.lowerAscii toLowerAscii isUpperAscii
  simp only [Bool.and_eq_true, decide_eq_true_eq]

theorem lowerAscii_ne_iff (c : Char) : Py.lowerAscii c ≠ c ↔ isUpperAscii c = true := by
  rw [lowerAscii_eq]
  constructor
  · intro h
    by_contra hn
    exact h (toLowerAscii_of_not_upper (by simpa using hn))
  · intro h he
    have := toLowerAscii_toNat_of_upper h
    rw [he] at this; omega

theorem upperAscii_ne_iff (c : Char) : Py.upperAscii c ≠ c ↔ isLowerAscii c = true := by
  have key : ('a' ≤ c ∧ c ≤ 'z') ↔ isLowerAscii c = true := by
    simp [isLowerAscii]
  unfold Py.upperAscii
  constructor
  · intro h
    by_contra hn
    rw [if_neg (by rwa [key])] at h
    exact h rfl
  · intro h he
    rw [if_pos (key.mpr h)] at he
    have h2 := (Bech32.isLowerAscii_iff c).mp h
    have hv : (c.toNat - 32).isValidChar := by left; omega
    have : (Char.ofNat (c.toNat - 32)).toNat = c.toNat - 32 := by
      rw [Char.ofNat, dif_pos hv]; rfl
    rw [he] at this; omega

theorem mixed_case_iff (s : List Char) :
    (s.map Py.lowerAscii ≠ s ∧ s.map Py.upperAscii ≠ s) ↔
      (s.any isUpperAscii && s.any isLowerAscii) = true := by
  rw [Ne, Ne, map_eq_self_iff, map_eq_self_iff]
  simp only [not_forall, Bool.and_eq_true, List.any_eq_true]
  constructor
  · rintro ⟨⟨c, hc, h1⟩, ⟨d, hd, h2⟩⟩
    exact ⟨⟨c, hc, (lowerAscii_ne_iff c).mp h1⟩, ⟨d, hd, (upperAscii_ne_iff d).mp h2⟩⟩
  · rintro ⟨⟨c, hc, h1⟩, ⟨d, hd, h2⟩⟩
    exact ⟨⟨c, hc, (lowerAscii_ne_iff c).mpr h1⟩, ⟨d, hd, (upperAscii_ne_iff d).mpr h2⟩⟩

theorem rfind_eq (s : List Char) :
    Py.rfind s (Char.ofNat 49) = match rfindOne s with | some p => (p : Int) | none => -1 := by
  unfold Py.rfind rfindOne
  have : Char.ofNat 49 = '1' := rfl
  rw [this]
  by_cases h : '1' ∈ s.reverse <;> simp [h]

theorem bech32_decode_eq (bech : List Char) : Code2.bech32_decode bech = Bech32.bech32Decode bech := by
  unfold Code2.bech32_decode Bech32.bech32Decode
  simp only [vc2, verifyChecksum_eq, Option.bind_eq_bind, Option.bind_none, if_false, rfind_eq,
    mixed_case_iff]
  have hl : List.map Py.lowerAscii bech = List.map toLowerAscii bech := by
    congr 1; funext c; exact lowerAscii_eq c
  rw [hl]
  have hany : (bech.any fun x => decide (x.toNat < 33 ∨ x.toNat > 126)) =
      (bech.any fun x => decide (x.toNat < 33) || decide (x.toNat > 126)) := by
    congr 1; funext x; simp
  rw [hany]
  by_cases h1 : (bech.any fun x => decide (x.toNat < 33) || decide (x.toNat > 126)) = true
  · simp [h1]
  · by_cases h2 : (bech.any isUpperAscii && bech.any isLowerAscii) = true
    · simp [h1, h2]
    · simp only [h1, h2, or_self, if_false]
      cases hr : rfindOne (List.map toLowerAscii bech) with
      | none => simp
      | some pos =>
        simp only []
        have e1 : ((pos : Int) < 1) ↔ pos < 1 := by omega
        have e2 : ((pos : Int) + 7 > ((List.map toLowerAscii bech).length : Int)) ↔
            pos + 7 > (List.map toLowerAscii bech).length := by omega
        have e3 : ((pos : Int) + 1).toNat = pos + 1 := by omega
        have e4 : (pos : Int).toNat = pos := by omega
        simp only [e1, e2, e3, e4]
        have hc : Generated.charset = charset := rfl
        rw [hc]
        split
        · rfl
        · split
          · rfl
          · cases verifyChecksum _ _ <;> rfl

theorem cb2 (d : List Nat) (a b : Nat) (p : Bool) : Code2.convertbits d a b p = Code.convertbits d a b p := rfl

theorem decode_eq (hrp addr : List Char) : Code2.decode hrp addr = Bech32.decode hrp addr := by
  unfold Code2.decode Bech32.decode
  simp only [bech32_decode_eq, cb2, convertbits_eq _ _ _ _ (by decide : 0 < 8)]
  cases Bech32.bech32Decode addr with
  | none => rfl
  | some r =>
    obtain ⟨hrpgot, data, spec⟩ := r
    simp only [Option.bind_eq_bind, Option.bind_some, Option.bind_none, false_or]
    by_cases hh : hrpgot ≠ hrp
    · simp [hh]
    · simp only [hh, if_false]
      cases data with
      | nil =>
        have : convertbits (List.drop 1 ([] : List Nat)) 5 8 false = some [] := by decide
        rw [this]; simp
      | cons v tail =>
        cases convertbits (List.drop 1 (v :: tail)) 5 8 false with
        | none => rfl
        | some decoded =>
          simp only [Option.bind_some, List.getElem!_cons_zero]
          rfl

theorem be2 (h : List Char) (d : List Nat) (s : Bech32.Encoding) : Code2.bech32_encode h d s = Bech32.bech32Encode h d s := by
  unfold Code2.bech32_encode Bech32.bech32Encode
  have e : ∀ h d s, Code2.bech32_create_checksum h d s = Code.bech32_create_checksum h d s := fun _ _ _ => rfl
  simp only [e, Translated.createChecksum_eq]
  have : (fun d => Generated.charset[d]?) = Bech32.charAt := rfl
  rw [this]
  cases List.mapM Bech32.charAt (d ++ Bech32.createChecksum h d s) <;> rfl

theorem encode_eq (hrp : List Char) (witver : Nat) (witprog : Bytes) :
    Code2.encode hrp witver witprog = Bech32.encode hrp witver witprog := by
  unfold Code2.encode Bech32.encode
  simp only [be2, decode_eq, cb2, convertbits_eq _ _ _ _ (by decide : 0 < 5)]
  have hm : List.map UInt8.toNat witprog = List.map (fun x => x.toNat) witprog := rfl
  rw [hm]
  cases convertbits (List.map (fun x => x.toNat) witprog) 8 5 true with
  | none => rfl
  | some conv =>
    simp only [Option.bind_eq_bind, Option.bind_some, List.singleton_append]
    cases bech32Encode hrp (witver :: conv) (if witver = 0 then Encoding.bech32 else Encoding.bech32m) with
    | none => rfl
    | some ret =>
      simp only [Option.bind_some]
      cases hd : Bech32.decode hrp ret <;> simp [hd]
