#!/venv/bin/python
"""Translator, object layer III: `bip85.py` (`BIP85DeterministicEntropy`) and `paper_wallet.py` (`PaperWallet`)
->  Lean 4 (lean/BtcHd/Generated/CodeObj3.lean); lean/BtcHd/Props/TrPaper.lean proves each emitted function equal to
the model function (`Model/Bip85.lean`, `Model/Wallet.lean`).  Same contract as the other translate*.py files.

Mapped BY TABLE here (in addition to the tables of translate_obj.py / translate_obj2.py):

* a `BIP85DeterministicEntropy` object is its `master_node` (its `testnet` attribute is read by `__eq__` only); the
  wallet attribute `self.bip85` is `None` exactly for watch-only wallets (BaseWallet.__init__, shape-checked in
  translate_obj2.py), so `self.bip85.app(...)` is "refused when watch-only, else `app` on `self.master`".
* integer parameters of the applications are `Int`; `isinstance(index, int)` is therefore true (non-integer arguments
  are outside the typed domain: they are tied by the `bip85x` operations of the correspondence run and by fixed finding
  F6); `"…{}…".format(a, b)` with `{}` fields only is `Bip85.fmt`; `bytes.hex()` is `toHex`;
  `base64.b64encode(b).decode()` is `Bip85.base64`, `.strip()` is `Text.strip`.
* `byte_count_from_word_count` is the TRANSLATED function of `BtcHd.Code` (on naturals); a negative word count is
  refused before the call (the callee's first statement is a membership test in a list of non-negative literals).
* `PrvKeyNode(key=, chain_code=)` is the node record with the defaults of `__init__`; `PrivateKey(sec_exp=bytes).wif()` is
  the translated `Code.private_key_wif` on `Keys.privBytes` of the validated scalar.
* `Bip32Path(purpose=a, coin_type=b, account=c)` is the path with levels `[a, b, c]` (three leading slots: the integrity
  check passes); a `dict` / `list` literal of texts is the corresponding `Wallet.Json` value; an `addr_fnc` argument is a
  function from nodes to optional texts; tuples `(keys, rows)` are pairs.
"""
import ast
import os
import sys

HERE = os.path.dirname(os.path.abspath(__file__))
sys.path.insert(0, HERE)
import translate as T          # noqa: E402
import translate_obj as TO     # noqa: E402
import translate_obj2 as T2    # noqa: E402
from translate import Unsupported, Fn          # noqa: E402
from translate_obj import NODE                 # noqa: E402
from translate_obj2 import WalletFn, WAL       # noqa: E402

REPO = os.environ.get("VERIF_REPO", "/repo")
OUT = os.path.join(os.environ.get("VERIF_LEAN_DIR") or os.path.join(os.path.dirname(HERE), "lean"),
                   "BtcHd", "Generated", "CodeObj3.lean")
ADDRFN = "(%s → Option (List Char))" % NODE
ACCT = "Option (Wallet.Json × List Wallet.Json)"

TARGETS = [
    ("b85_hmac", "bip85.py", "BIP85DeterministicEntropy", "_hmac_sha512", "b85", [("msg", "Bytes")], "Bytes", {"takesP": True}),
    ("b85_entropy", "bip85.py", "BIP85DeterministicEntropy", "entropy", "b85", [("path", "List Char")], "Option Bytes",
     {"takesP": True, "option": True, "retype_at": {"path": (1, "path_obj")}, "paths": ["path_obj"], "nodes": ["node"]}),
    ("b85_correct_key", "bip85.py", "BIP85DeterministicEntropy", "correct_key", "static", [("key_bytes", "Bytes")],
     "Option Unit", {"takesP": True, "option": True}),
    ("b85_correct_index", "bip85.py", "BIP85DeterministicEntropy", "correct_index", "static", [("index", "Int")],
     "Option Unit", {"option": True, "ints": ["index"]}),
    ("b85_bip39_mnemonic", "bip85.py", "BIP85DeterministicEntropy", "bip39_mnemonic", "b85",
     [("word_count", "Int"), ("index", "Int")], "Option (List Char)",
     {"takesP": True, "option": True, "ints": ["word_count", "index"], "strings": ["path"], "lists": ["entropy"]}),
    ("b85_wif", "bip85.py", "BIP85DeterministicEntropy", "wif", "b85", [("index", "Int")], "Option (List Char)",
     {"takesP": True, "option": True, "ints": ["index"], "strings": ["path"], "lists": ["entropy"], "sks": ["prv_key"]}),
    ("b85_xprv", "bip85.py", "BIP85DeterministicEntropy", "xprv", "b85", [("index", "Int")], "Option (List Char)",
     {"takesP": True, "option": True, "ints": ["index"], "strings": ["path"], "lists": ["entropy", "left", "right"],
      "nodes": ["prv_node"]}),
    ("b85_hex", "bip85.py", "BIP85DeterministicEntropy", "hex", "b85", [("num_bytes", "Int"), ("index", "Int")],
     "Option (List Char)", {"takesP": True, "option": True, "ints": ["num_bytes", "index"], "strings": ["path"],
                            "lists": ["entropy"]}),
    ("b85_pwd", "bip85.py", "BIP85DeterministicEntropy", "pwd", "b85", [("pwd_len", "Int"), ("index", "Int")],
     "Option (List Char)", {"takesP": True, "option": True, "ints": ["pwd_len", "index"],
                            "strings": ["path", "entropy_b64", "pwd"], "lists": ["entropy"]}),
    # ---- paper_wallet.py
    ("pw_group", "paper_wallet.py", "PaperWallet", "group", "wallet", [("nodes", "List " + NODE), ("addr_fnc", ADDRFN)],
     "Option (List Wallet.Json)", {"takesP": True, "option": True}),
    ("pw_bip44_group", "paper_wallet.py", "PaperWallet", "bip44_group", "wallet", [("nodes", "List " + NODE)],
     "Option (List Wallet.Json)", {"takesP": True, "option": True}),
    ("pw_bip49_group", "paper_wallet.py", "PaperWallet", "bip49_group", "wallet", [("nodes", "List " + NODE)],
     "Option (List Wallet.Json)", {"takesP": True, "option": True}),
    ("pw_bip84_group", "paper_wallet.py", "PaperWallet", "bip84_group", "wallet", [("nodes", "List " + NODE)],
     "Option (List Wallet.Json)", {"takesP": True, "option": True}),
    ("pw_bip44", "paper_wallet.py", "PaperWallet", "bip44", "wallet", [("account", "Nat"), ("interval", "Nat × Nat")], ACCT,
     {"takesP": True, "option": True, "paths": ["path"], "nodes": ["acct_node", "external_chain_node"]}),
    ("pw_bip49", "paper_wallet.py", "PaperWallet", "bip49", "wallet", [("account", "Nat"), ("interval", "Nat × Nat")], ACCT,
     {"takesP": True, "option": True, "paths": ["path"], "nodes": ["acct_node", "external_chain_node"]}),
    ("pw_bip84", "paper_wallet.py", "PaperWallet", "bip84", "wallet", [("account", "Nat"), ("interval", "Nat × Nat")], ACCT,
     {"takesP": True, "option": True, "paths": ["path"], "nodes": ["acct_node", "external_chain_node"]}),
    ("pw_bip85_data", "paper_wallet.py", "PaperWallet", "bip85_data", "wallet", [], "Option Wallet.Json",
     {"takesP": True, "option": True}),
    ("pw_master_data", "paper_wallet.py", "PaperWallet", "master_data", "wallet", [], "Wallet.Json", {}),
    ("pw_generate", "paper_wallet.py", "PaperWallet", "generate", "wallet", [("account", "Nat"), ("interval", "Nat × Nat")],
     "Option Wallet.Json", {"takesP": True, "option": True,
                            "jsons": ["acct_ext44", "acct_ext49", "acct_ext84"],
                            "jsonlists": ["groups44", "groups49", "groups84"]}),
]
INFO = {t[0]: t for t in TARGETS}
BY_NAME = {(t[2], t[3]): t[0] for t in TARGETS}


def emit_paranoia(tree):
    """`paranoia_mode(data)`: a dict comprehension over `data.items()` with a membership filter on the key and a value
    built from nested dict literals, subscript chains `v["a"]["b"]` and one list comprehension `[g[:-1] for g in v["k"]]`"""
    fn = next((n for n in tree.body if isinstance(n, ast.FunctionDef) and n.name == "paranoia_mode"), None)
    if fn is None:
        raise Unsupported("paranoia_mode not found")
    if [a.arg for a in fn.args.args] != ["data"]:
        raise Unsupported("parameters of paranoia_mode changed")
    body = [b for b in fn.body if not (isinstance(b, ast.Expr) and isinstance(b.value, ast.Constant))]
    if len(body) != 1 or not isinstance(body[0], ast.Return) or not isinstance(body[0].value, ast.DictComp):
        raise Unsupported("paranoia_mode is not a single dict comprehension")
    dc = body[0].value
    g = dc.generators[0]
    if len(dc.generators) != 1 or ast.unparse(g.iter) != "data.items()" or not isinstance(g.target, ast.Tuple) or \
            [ast.unparse(x) for x in g.target.elts] != ["k", "v"] or ast.unparse(dc.key) != "k" or len(g.ifs) != 1:
        raise Unsupported("comprehension header of paranoia_mode")
    cond = g.ifs[0]
    if not (isinstance(cond, ast.Compare) and ast.unparse(cond.left) == "k" and len(cond.ops) == 1 and
            isinstance(cond.ops[0], ast.In) and isinstance(cond.comparators[0], (ast.List, ast.Tuple)) and
            all(isinstance(x, ast.Constant) and isinstance(x.value, str) for x in cond.comparators[0].elts)):
        raise Unsupported("filter of paranoia_mode")

    def lit(sv):
        return "([" + ", ".join("Char.ofNat %d" % ord(c) for c in sv) + "] : List Char)"
    keys = "[" + ", ".join(lit(x.value) for x in cond.comparators[0].elts) + "]"

    def val(e, names):
        if isinstance(e, ast.Dict):
            items = []
            for k_, v_ in zip(e.keys, e.values):
                if not (isinstance(k_, ast.Constant) and isinstance(k_.value, str)):
                    raise Unsupported("dict key in paranoia_mode")
                items.append("(%s, %s)" % (lit(k_.value), val(v_, names)))
            return "(Wallet.Json.obj [%s])" % ", ".join(items)
        if isinstance(e, ast.Subscript) and isinstance(e.slice, ast.Constant) and isinstance(e.slice.value, str):
            return "(← Py.jsonGet %s %s)" % (val(e.value, names), lit(e.slice.value))
        if isinstance(e, ast.Name) and e.id in names:
            return e.id
        if isinstance(e, ast.ListComp) and len(e.generators) == 1 and not e.generators[0].ifs and \
                isinstance(e.generators[0].target, ast.Name):
            x = e.generators[0].target.id
            el = e.elt
            if not (isinstance(el, ast.Subscript) and isinstance(el.value, ast.Name) and el.value.id == x and
                    isinstance(el.slice, ast.Slice) and el.slice.lower is None and el.slice.step is None and
                    ast.unparse(el.slice.upper) == "-1"):
                raise Unsupported("list comprehension element in paranoia_mode")
            return "(Wallet.Json.arr (← (← Py.jsonElems %s).mapM (fun %s => Py.jsonDropLast %s)))" % (
                val(e.generators[0].iter, names), x, x)
        raise Unsupported("value expression in paranoia_mode: " + ast.unparse(e)[:50])
    body_v = val(dc.value, {"k", "v"})
    return ("def paranoia_mode (data : Wallet.Json) : Option Wallet.Json := do\n"
            "  let items ← Py.jsonItems data\n"
            "  let kept := items.filter (fun (kv : List Char × Wallet.Json) => decide (kv.1 ∈ %s))\n"
            "  let out ← kept.mapM (fun (kv : List Char × Wallet.Json) => (do\n"
            "    let k := kv.1\n    let v := kv.2\n    pure (k, %s) : Option (List Char × Wallet.Json)))\n"
            "  return (Wallet.Json.obj out)\n" % (keys, body_v))


class PaperFn(WalletFn):
    def __init__(self, node, lean_name, cls_name, ctx, args, ret, opts, sigs):
        WalletFn.__init__(self, node, lean_name, cls_name, "wallet" if ctx == "wallet" else ctx, args, ret, opts, sigs)
        self.ctx3 = ctx
        self.jsons = set(opts.get("jsons", []))
        self.jsonlists = set(opts.get("jsonlists", []))
        if ctx == "b85":
            self.nodes.add("self")

    def is_node(self, e):
        if isinstance(e, ast.Attribute) and e.attr == "master_node" and isinstance(e.value, ast.Name) and e.value.id == "self" \
                and self.ctx3 == "b85":
            return True
        return WalletFn.is_node(self, e)

    def json_of(self, v):
        """a Python value as a `Wallet.Json` term"""
        if isinstance(v, ast.Dict):
            items = []
            for k, x in zip(v.keys, v.values):
                if not self.strlit(k):
                    raise Unsupported("dict key")
                items.append("(%s, %s)" % (Fn.expr(self, k), self.json_of(x)))
            return "(Wallet.Json.obj [%s])" % ", ".join(items)
        if isinstance(v, ast.Name) and v.id in self.jsons:
            return self.ident(v.id)
        if isinstance(v, ast.Name) and v.id in self.jsonlists:
            return "(Wallet.Json.arr %s)" % self.ident(v.id)
        if isinstance(v, ast.Attribute) and isinstance(v.value, ast.Name) and v.value.id in self.wallets and \
                v.attr in ("mnemonic", "password"):
            return "(Wallet.optStr %s.%s)" % (self.ident(v.value.id), v.attr)
        if isinstance(v, ast.Call) and isinstance(v.func, ast.Attribute) and isinstance(v.func.value, ast.Name) and \
                v.func.value.id == "self" and v.func.attr in ("master_data", "bip85_data"):
            return self.expr(v)
        if isinstance(v, ast.IfExp) and isinstance(v.body, ast.Constant) and v.body.value is None:
            return "(Wallet.optStr %s)" % self.expr(v)
        return "(Wallet.Json.str %s)" % self.expr(v)

    def expr(self, e):
        if isinstance(e, ast.Attribute) and e.attr == "master_node" and isinstance(e.value, ast.Name) and e.value.id == "self" \
                and self.ctx3 == "b85":
            return "self"
        if isinstance(e, ast.Attribute) and e.attr == "KEY" and isinstance(e.value, ast.Name) and e.value.id == "self":
            if "KEY" not in CLASS_BYTES:
                raise Unsupported("KEY is not a bytes literal of the class body")
            return "([" + ", ".join(str(b) for b in CLASS_BYTES["KEY"]) + "] : Bytes)"
        if isinstance(e, ast.Name) and e.id == "HARDENED":
            return TO.MODULE_CONSTS.get("HARDENED", "(2 ^ 31)")
        if isinstance(e, ast.Dict):
            return self.json_of(e)
        if isinstance(e, ast.ListComp) and self.ctx3 == "wallet" and len(e.generators) == 1 and \
                isinstance(e.elt, ast.List) and isinstance(e.generators[0].target, ast.Name) and not e.generators[0].ifs:
            g = e.generators[0]
            v = g.target.id
            self.nodes.add(v)
            row = "(Wallet.Json.arr [%s])" % ", ".join(self.json_of(x) for x in e.elt.elts)
            self.nodes.discard(v)
            return "(← (%s).mapM (fun %s => (do pure %s : Option Wallet.Json)))" % (self.expr(g.iter), self.ident(v), row)
        if isinstance(e, ast.List) and all(isinstance(x, ast.Constant) and isinstance(x.value, int) for x in e.elts) and e.elts:
            return "([" + ", ".join(str(x.value) for x in e.elts) + "] : List Nat)"
        if isinstance(e, ast.IfExp) and self.is_intlike(e.body) and self.is_intlike(e.orelse):
            return "(if %s then %s else %s)" % (self.cond(e.test), self.expr(e.body), self.expr(e.orelse))
        if isinstance(e, ast.Tuple) and len(e.elts) == 2 and self.ctx3 == "wallet":
            return "(%s, %s)" % (self.expr(e.elts[0]), self.expr(e.elts[1]))
        return WalletFn.expr(self, e)

    def is_intlike(self, e):
        return isinstance(e, (ast.BinOp, ast.Name, ast.Constant)) and not self.is_listy(e)

    def cond(self, e):
        if isinstance(e, ast.Call) and isinstance(e.func, ast.Name) and e.func.id == "isinstance" and len(e.args) == 2 and \
                isinstance(e.args[0], ast.Name) and e.args[0].id in self.ints and isinstance(e.args[1], ast.Name) and \
                e.args[1].id == "int":
            return "True"           # the variable is an integer by its type (see the header)
        return WalletFn.cond(self, e)

    def call(self, e, bind=True):
        f = e.func
        q = ast.unparse(f)
        if isinstance(f, ast.Attribute) and f.attr == "format" and isinstance(f.value, ast.Constant) and \
                isinstance(f.value.value, str) and not e.keywords:
            tpl = f.value.value
            if tpl.count("{}") != len(e.args) or tpl.replace("{}", "").count("{") or tpl.replace("{}", "").count("}"):
                raise Unsupported("format template " + tpl)
            for a in e.args:
                if not (isinstance(a, ast.Name) and a.id in self.ints):
                    raise Unsupported("format argument " + ast.unparse(a))
            return "(Bip85.fmt %s [%s])" % (Fn.expr(self, f.value), ", ".join(self.ident(a.id) for a in e.args))
        if isinstance(f, ast.Attribute) and f.attr == "hex" and not e.args and self.is_listy(f.value):
            return "(toHex %s)" % self.expr(f.value)
        if isinstance(f, ast.Attribute) and f.attr == "strip" and not e.args and isinstance(f.value, ast.Call) and \
                isinstance(f.value.func, ast.Attribute) and f.value.func.attr == "decode" and not f.value.args and \
                isinstance(f.value.func.value, ast.Call) and ast.unparse(f.value.func.value.func) == "base64.b64encode" and \
                len(f.value.func.value.args) == 1:
            return "(Text.strip (Bip85.base64 %s))" % self.expr(f.value.func.value.args[0])
        if isinstance(f, ast.Attribute) and isinstance(f.value, ast.Name) and f.value.id == "self" and self.ctx3 in ("b85", "wallet"):
            lean = BY_NAME.get((self.cls_name, f.attr))
            if lean:
                t = INFO[lean]
                if f.attr == "byte_count_from_word_count":
                    pass
                recv = "self" if t[4] in ("b85", "wallet") else None
                return self.own_call3(lean, recv, e)
            if f.attr == "byte_count_from_word_count":
                a = self.kwargs_positional(e, ["word_count"])[0]
                if not (isinstance(a, ast.Name) and a.id in self.ints):
                    raise Unsupported("word count argument")
                v = self.ident(a.id)
                return "(← (if %s < 0 then none else Code.byte_count_from_word_count %s.toNat))" % (v, v)
        if isinstance(f, ast.Attribute) and isinstance(f.value, ast.Attribute) and f.value.attr == "bip85" and \
                isinstance(f.value.value, ast.Name) and f.value.value.id == "self" and self.ctx3 == "wallet":
            lean = BY_NAME.get(("BIP85DeterministicEntropy", f.attr))
            if not lean:
                raise Unsupported("bip85 method " + f.attr)
            t = INFO[lean]
            params = [p for p, _ in t[5]]
            vals = self.kwargs_positional(e, params)
            if any(v is None or not (isinstance(v, ast.Constant) and isinstance(v.value, int)) for v in vals):
                raise Unsupported("bip85 call arguments")
            return "(← (if (T2w self) = true then none else %s P self.master %s))" % (
                lean, " ".join("(%d : Int)" % v.value for v in vals))
        if isinstance(f, ast.Name) and f.id == "mnemonic_from_entropy":
            return self.code_call("mnemonic_from_entropy", e)
        if q == "PrvKeyNode" and self.ctx3 == "b85":
            return self.ctor(e, "true")
        if isinstance(f, ast.Attribute) and f.attr == "wif" and isinstance(f.value, ast.Name) and f.value.id in self.sks:
            a = self.kwargs_positional(e, ["compressed", "testnet"])
            return "(Code.private_key_wif P.hash256 (Keys.privBytes %s) %s %s)" % (
                self.ident(f.value.id), "true" if a[0] is None else self.expr(a[0]), "false" if a[1] is None else self.expr(a[1]))
        if isinstance(f, ast.Attribute) and f.attr == "wif" and isinstance(f.value, ast.Attribute) and \
                f.value.attr == "private_key" and self.is_node(f.value.value):
            a = self.kwargs_positional(e, ["compressed", "testnet"])
            return "(Code.private_key_wif P.hash256 (Keys.privBytes %s) %s %s)" % (
                self.expr(f.value), "true" if a[0] is None else self.expr(a[0]), "false" if a[1] is None else self.expr(a[1]))
        if isinstance(f, ast.Name) and f.id == "addr_fnc" and len(e.args) == 1:
            return "(← addr_fnc %s)" % self.expr(e.args[0])
        if q == "Bip32Path" and self.ctx3 == "wallet":
            a = self.kwargs_positional(e, ["purpose", "coin_type", "account", "chain", "addr_index", "private"])
            if any(x is None for x in a[:3]) or any(x is not None for x in a[3:]):
                raise Unsupported("Bip32Path constructor form")
            return "({ levels := [%s, %s, %s], priv := true } : Path.Path)" % tuple(self.expr(x) for x in a[:3])
        if isinstance(f, ast.Attribute) and self.is_node(f.value) and f.attr == "generate_children":
            a = self.kwargs_positional(e, ["interval"])[0]
            return "(← CodeObj.pub_generate_children P %s %s)" % (self.expr(f.value), self.expr(a))
        if isinstance(f, ast.Attribute) and isinstance(f.value, ast.Name) and f.value.id == "self" and self.ctx3 == "wallet":
            lean2 = T2.BY_NAME.get(("BaseWallet", f.attr))
            if lean2:
                t = T2.INFO[lean2]
                params = [p for p, _ in t[5]]
                vals = self.kwargs_positional(e, params)
                txt = "(CodeObj2.%s %sself %s)" % (lean2, "P " if t[7].get("takesP") else "", " ".join(self.expr(v) for v in vals))
                return "(← %s)" % txt if t[7].get("option") else txt
        return WalletFn.call(self, e, bind)

    def own_call3(self, lean, recv, e):
        t = INFO[lean]
        params = [p for p, _ in t[5]]
        vals = self.kwargs_positional(e, params)
        args = []
        for p, v in zip(params, vals):
            if v is None:
                raise Unsupported("missing argument %s of %s" % (p, t[3]))
            if p == "addr_fnc" and isinstance(v, ast.Attribute) and isinstance(v.value, ast.Name) and v.value.id == "self":
                lean2 = T2.BY_NAME.get(("BaseWallet", v.attr))
                if not lean2:
                    raise Unsupported("address function " + v.attr)
                args.append("(CodeObj2.%s P self)" % lean2)
            else:
                args.append(self.expr(v))
        parts = [lean] + (["P"] if t[7].get("takesP") else []) + ([recv] if recv else []) + args
        txt = "(%s)" % " ".join(parts)
        if t[7].get("option"):
            if not self.option:
                raise Unsupported("fallible callee in a total function")
            if t[6] == "Option Unit":
                return "(← %s)" % txt
            return "(← %s)" % txt
        return txt

    def _stmt(self, s, ind):
        if isinstance(s, ast.Expr) and isinstance(s.value, ast.Call) and isinstance(s.value.func, ast.Attribute) and \
                isinstance(s.value.func.value, ast.Name) and s.value.func.value.id == "self" and \
                s.value.func.attr in ("correct_index", "correct_key"):
            lean = BY_NAME[(self.cls_name, s.value.func.attr)]
            t = INFO[lean]
            a = self.kwargs_positional(s.value, [p for p, _ in t[5]])
            return [ind + "let _ ← (%s %s%s)" % (lean, "P " if t[7].get("takesP") else "", " ".join(self.expr(x) for x in a))]
        if isinstance(s, ast.If) and isinstance(s.test, ast.UnaryOp) and isinstance(s.test.op, ast.Not) and \
                isinstance(s.test.operand, ast.Compare) and len(s.test.operand.ops) == 2:
            # `if not a <= x <= b: raise`
            return Fn._stmt(self, s, ind)
        if isinstance(s, ast.Assign) and len(s.targets) == 1 and isinstance(s.targets[0], ast.Name):
            v = s.value
            n = s.targets[0].id
            if isinstance(v, ast.Call) and ast.unparse(v.func) == "PrivateKey":
                self.sks.add(n)
            if isinstance(v, ast.Call) and ast.unparse(v.func) == "Bip32Path":
                self.paths.add(n)
            if isinstance(v, ast.Call) and isinstance(v.func, ast.Attribute) and v.func.attr in ("derive_path",):
                self.nodes.add(n)
            if isinstance(v, ast.Call) and isinstance(v.func, ast.Attribute) and v.func.attr == "node_extended_keys":
                self.jsons.add(n)
        if isinstance(s, ast.Assign) and len(s.targets) == 1 and isinstance(s.targets[0], ast.Tuple) and \
                isinstance(s.value, ast.Call) and isinstance(s.value.func, ast.Attribute) and \
                isinstance(s.value.func.value, ast.Name) and s.value.func.value.id == "self" and \
                s.value.func.attr in ("bip44", "bip49", "bip84"):
            names = [x.id for x in s.targets[0].elts]
            for n in names:
                self.declared[-1].add(n)
            return [ind + "let (%s) := %s" % (", ".join(self.ident(n) for n in names), self.call(s.value))]
        return WalletFn._stmt(self, s, ind)

    def emit(self):
        if self.ctx3 in ("b85",):
            self.ctx = "wallet"         # reuse the header logic below with another receiver type
        head_args = []
        if self.opts.get("takesP"):
            head_args.append("(P : Prims Pt)")
        if self.ctx3 == "b85":
            head_args.append("(self : %s)" % NODE)
        elif self.ctx3 == "wallet":
            head_args.append("(self : %s)" % WAL)
        head_args += ["(%s : %s)" % (self.ident(a), t) for a, t in self.args]
        body = self.block(self.node.body, "  ")
        assigned = {t.id for n in ast.walk(self.node) if isinstance(n, (ast.Assign, ast.AugAssign))
                    for t in (n.targets if isinstance(n, ast.Assign) else [n.target]) if isinstance(t, ast.Name)}
        pre = []
        for a, _ in reversed(self.args):
            if a in assigned and a not in self.opts.get("retype_at", {}):
                pre.insert(0, "  let mut %s := %s" % (self.ident(a), self.ident(a)))
        if self.rettype == "Option Unit":
            body.append("  return ()")
        kind = "do" if self.option else "Id.run do"
        head = "def %s %s%s : %s := %s" % (self.name, "{Pt : Type} " if self.opts.get("takesP") else "",
                                         " ".join(head_args), self.rettype, kind)
        return head + "\n" + "\n".join(pre + body) + "\n"


CLASS_BYTES = {}
SIG_DEFAULTS = {}

NS_FIELDS = {"command": "command", "mnemonic_len": "mnemonic_len", "password": "password", "testnet": "testnet",
             "master_xprv": "master_xprv", "mnemonic": "mnemonic", "seed_hex": "seed_hex", "entropy_hex": "entropy_hex",
             "account": "account", "interval": "interval", "paranoia": "paranoia", "file": "file"}
CTORS = {"PaperWallet.new_wallet": (["mnemonic_length", "password", "testnet"], "Wallet.newWallet P osRandom"),
         "PaperWallet.from_extended_key": (["extended_key"], "CodeObj2.w_from_extended_key P"),
         "PaperWallet.from_mnemonic": (["mnemonic", "password", "testnet"], "CodeObj2.w_from_mnemonic P"),
         "PaperWallet.from_bip39_seed_hex": (["bip39_seed", "testnet"], "CodeObj2.w_from_bip39_seed_hex P"),
         "PaperWallet.from_entropy_hex": (["entropy_hex", "password", "testnet"], "CodeObj2.w_from_entropy_hex P")}


def emit_main(tree):
    """`main()` after `parse_args`: an if / elif chain on `args.command` choosing the constructor, `generate`, the
    optional `paranoia_mode`, and the output route.  The parsed `Namespace` is the record `Namespace` below; uncaught
    exceptions are the outcome `reject`; `parser.print_help(); parser.exit(status=1)` is the outcome `help`;
    `export_wallet(file_path=…, data=…)` / `pprint(data=…)` are `emit file data` / `emit stdout data`."""
    fn = next((n for n in tree.body if isinstance(n, ast.FunctionDef) and n.name == "main"), None)
    if fn is None or fn.args.args:
        raise Unsupported("main not found / has parameters")
    body = [b for b in fn.body if not (isinstance(b, ast.Expr) and isinstance(b.value, ast.Constant))]
    if len(body) != 5 or ast.unparse(body[0]) != "parser, args = parse_args(sys.argv[1:])" or not isinstance(body[1], ast.If):
        raise Unsupported("main has another shape")

    def arg(e):
        if isinstance(e, ast.Attribute) and isinstance(e.value, ast.Name) and e.value.id == "args" and e.attr in NS_FIELDS:
            return "args.%s" % NS_FIELDS[e.attr]
        raise Unsupported("argument expression " + ast.unparse(e))
    branches, node = [], body[1]
    while True:
        t = node.test
        if not (isinstance(t, ast.Compare) and ast.unparse(t.left) == "args.command" and len(t.ops) == 1 and
                isinstance(t.ops[0], ast.Eq) and isinstance(t.comparators[0], ast.Constant) and
                isinstance(t.comparators[0].value, str)):
            raise Unsupported("dispatch test " + ast.unparse(t))
        if len(node.body) != 1 or not isinstance(node.body[0], ast.Assign) or ast.unparse(node.body[0].targets[0]) != "wallet" \
                or not isinstance(node.body[0].value, ast.Call):
            raise Unsupported("dispatch branch")
        call = node.body[0].value
        q = ast.unparse(call.func)
        if q not in CTORS or call.args:
            raise Unsupported("constructor " + q)
        params, lean = CTORS[q]
        kw = {k.arg: k.value for k in call.keywords}
        if set(kw) != set(params):
            raise Unsupported("constructor arguments of " + q)
        lit = "([" + ", ".join("Char.ofNat %d" % ord(c) for c in t.comparators[0].value) + "] : List Char)"
        branches.append((lit, "(%s %s)" % (lean, " ".join(arg(kw[p_]) for p_ in params))))
        if len(node.orelse) == 1 and isinstance(node.orelse[0], ast.If):
            node = node.orelse[0]
            continue
        if [ast.unparse(x) for x in node.orelse] != ["wallet = None", "parser.print_help()", "parser.exit(status=1)"]:
            raise Unsupported("final else of the dispatch")
        break
    if ast.unparse(body[2]) != "data = wallet.generate(account=args.account, interval=args.interval)":
        raise Unsupported("generate call")
    if ast.unparse(body[3]) != "if args.paranoia:\n    data = paranoia_mode(data=data)":
        raise Unsupported("paranoia step")
    if ast.unparse(body[4]) != ("if args.file:\n    wallet.export_wallet(file_path=args.file, data=data)\nelse:\n"
                                "    wallet.pprint(data=data)"):
        raise Unsupported("output step")
    lines = ["structure Namespace where", "  command : List Char", "  mnemonic_len : Nat := 24", "  password : List Char := []",
             "  testnet : Bool := false", "  master_xprv : List Char := []", "  mnemonic : List Char := []",
             "  seed_hex : List Char := []", "  entropy_hex : List Char := []", "  account : Nat := 0",
             "  interval : Nat × Nat := (0, 20)", "  paranoia : Bool := false", "  file : Bool := false", "",
             "/-- translated from `__main__.py` : `main` (after `parse_args`) -/",
             "def main_body {Pt : Type} (P : Prims Pt) (osRandom : Nat → Bytes) (args : Namespace) : Cli.Outcome :=",
             "  let wallet : Option (Option Wallet.Wallet) :="]
    for i, (lit, ctor) in enumerate(branches):
        lines.append("    %sif args.command = %s then some %s" % ("" if i == 0 else "else ", lit, ctor))
    lines.append("    else none")
    lines += ["  match wallet with", "  | none => .help", "  | some none => .reject", "  | some (some wallet) =>",
              "    match pw_generate P wallet args.account args.interval with", "    | none => .reject",
              "    | some data =>", "      match (if args.paranoia = true then paranoia_mode data else some data) with",
              "      | none => .reject",
              "      | some data => .emit (if args.file = true then .file else .stdout) data", ""]
    return "\n".join(lines)


def translate_all():
    chunks, status = [], {}
    trees, fatal, sigs = {}, None, {}
    try:
        T2.translate_all()
        for f in ("bip85.py", "paper_wallet.py"):
            trees[f] = ast.parse(open(os.path.join(REPO, "btc_hd_wallet", f), encoding="utf-8").read())
        b85 = next(n for n in trees["bip85.py"].body if isinstance(n, ast.ClassDef) and n.name == "BIP85DeterministicEntropy")
        CLASS_BYTES.clear()
        for n in b85.body:
            if isinstance(n, ast.Assign) and len(n.targets) == 1 and isinstance(n.targets[0], ast.Name) and \
                    isinstance(n.value, ast.Constant) and isinstance(n.value.value, bytes):
                CLASS_BYTES[n.targets[0].id] = n.value.value
        init = next(n for n in b85.body if isinstance(n, ast.FunctionDef) and n.name == "__init__")
        body = [b for b in init.body if not (isinstance(b, ast.Expr) and isinstance(b.value, ast.Constant))]
        if "\n".join(ast.unparse(b) for b in body) != "self.master_node = master_node\nself.testnet = testnet":
            raise Unsupported("BIP85DeterministicEntropy.__init__ has another shape")
        pwc = next(n for n in trees["paper_wallet.py"].body if isinstance(n, ast.ClassDef) and n.name == "PaperWallet")
        if [ast.unparse(b) for b in pwc.bases] != ["BaseWallet"]:
            raise Unsupported("base class of PaperWallet changed")
        over = {n.name for n in pwc.body if isinstance(n, ast.FunctionDef)} & {t[3] for t in T2.TARGETS if t[2] == "BaseWallet"}
        if over:
            raise Unsupported("PaperWallet overrides BaseWallet methods: %s" % sorted(over))
    except Unsupported as e:
        fatal = str(e)
    except (SyntaxError, StopIteration, OSError) as e:
        fatal = "cannot read sources: %r" % e
    for lean, f, cname, meth, ctx, args, ret, opts in TARGETS:
        try:
            if fatal:
                raise Unsupported(fatal)
            cls = next((n for n in trees[f].body if isinstance(n, ast.ClassDef) and n.name == cname), None)
            node = next((n for n in cls.body if isinstance(n, ast.FunctionDef) and n.name == meth), None) if cls else None
            if node is None:
                raise Unsupported("function not found")
            pyargs = [a.arg for a in node.args.args if a.arg not in ("self", "cls")]
            if pyargs != [a for a, _ in args]:
                raise Unsupported("parameter names changed: %s" % pyargs)
            deco = [ast.unparse(d) for d in node.decorator_list]
            if deco != (["staticmethod"] if ctx == "static" else []):
                raise Unsupported("decorators changed: %s" % deco)
            txt = PaperFn(node, lean, cname, ctx, args, ret, opts, sigs).emit()
            status[lean] = "ok"
        except Unsupported as e:
            head = []
            if opts.get("takesP"):
                head.append("(P : Prims Pt)")
            if ctx == "b85":
                head.append("(self : %s)" % NODE)
            elif ctx == "wallet":
                head.append("(self : %s)" % WAL)
            head += ["(%s : %s)" % a for a in args]
            txt = ("-- TRANSLATION FAILED for %s.%s: %s\ndef %s %s%s : %s := Code.translationFailed _\n"
                   % (cname, meth, e, lean, "{Pt : Type} " if opts.get("takesP") else "", " ".join(head), ret))
            status[lean] = "FAILED: %s" % e
        chunks.append("/-- translated from `%s` : `%s.%s` -/\n%s" % (f, cname, meth, txt))
    try:
        if fatal:
            raise Unsupported(fatal)
        ptxt = emit_paranoia(ast.parse(open(os.path.join(REPO, "btc_hd_wallet", "__main__.py"), encoding="utf-8").read()))
        status["paranoia_mode"] = "ok"
    except (Unsupported, SyntaxError, OSError) as e:
        ptxt = ("-- TRANSLATION FAILED for paranoia_mode: %s\n"
                "def paranoia_mode (data : Wallet.Json) : Option Wallet.Json := Code.translationFailed _\n" % e)
        status["paranoia_mode"] = "FAILED: %s" % e
    chunks.append("/-- translated from `__main__.py` : `paranoia_mode` -/\n" + ptxt)
    try:
        if fatal:
            raise Unsupported(fatal)
        mtxt = emit_main(ast.parse(open(os.path.join(REPO, "btc_hd_wallet", "__main__.py"), encoding="utf-8").read()))
        status["main_body"] = "ok"
    except (Unsupported, SyntaxError, OSError) as e:
        mtxt = ("-- TRANSLATION FAILED for main: %s\nstructure Namespace where\n  command : List Char\n"
                "def main_body {Pt : Type} (P : Prims Pt) (osRandom : Nat → Bytes) (args : Namespace) : Cli.Outcome := "
                "Code.translationFailed _\n" % e)
        status["main_body"] = "FAILED: %s" % e
    chunks.append(mtxt)
    hdr = ("-- GENERATED by harness/translate_obj3.py from /repo's working tree. Do not edit.\n"
           "import BtcHd.Generated.CodeObj2\nimport BtcHd.Model.PyJson\n\n"
           "set_option linter.unusedVariables false\n\n"
           "namespace BtcHd.CodeObj3\nopen BtcHd BtcHd.Code BtcHd.CodeObj BtcHd.CodeObj2\n\n"
           "/-- `self.watch_only` of the wallet (translated in CodeObj2) -/\n"
           "abbrev T2w (w : Wallet.Wallet) : Bool := CodeObj2.w_watch_only w\n\n"
           "instance : Inhabited (Wallet.Json × List Wallet.Json) := ⟨(.null, [])⟩\n"
           "instance : Inhabited Cli.Outcome := ⟨.reject⟩\n\n")
    return hdr + "\n".join(chunks) + "\nend BtcHd.CodeObj3\n", status


def main():
    text, status = translate_all()
    old = open(OUT, encoding="utf-8").read() if os.path.exists(OUT) else None
    if old != text:
        tmp = OUT + ".tmp%d" % os.getpid()
        open(tmp, "w", encoding="utf-8").write(text)
        os.replace(tmp, OUT)
    bad = {k: v for k, v in status.items() if v != "ok"}
    print("translate_obj3: %d functions, %s%s" % (len(status), "changed" if old != text else "unchanged",
                                                 (" ; FAILED: %s" % bad) if bad else ""))
    return status


if __name__ == "__main__":
    main()
