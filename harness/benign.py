#!/venv/bin/python
"""Apply a behaviour-preserving refactoring patch to /repo, run every claimed quick check, undo the patch.
Every check must stay quiet (exit 0).  benign.py <patch.diff> [tier]"""
import json, os, subprocess, sys, time
V = os.path.dirname(os.path.dirname(os.path.abspath(__file__)))
patch = os.path.abspath(sys.argv[1])
tier = sys.argv[2] if len(sys.argv) > 2 else "quick"
st = subprocess.run(["git", "-C", "/repo", "status", "--porcelain"], capture_output=True, text=True).stdout
if st.strip():
    print("refusing: /repo not clean"); sys.exit(2)
subprocess.run(["git", "-C", "/repo", "apply", patch], check=True)
bad = []
try:
    man = json.load(open(os.path.join(V, "MANIFEST.json")))
    for c in man["checks"]:
        pid = c["property_id"]
        t0 = time.time()
        p = subprocess.run([os.path.join(V, "check"), pid, "--tier", tier], cwd=V, capture_output=True, text=True)
        last = [l for l in p.stdout.splitlines() if l.startswith(("VIOLATION", "  proof", "  corr", "  failing"))][:3]
        print(pid, p.returncode, "%.0fs" % (time.time() - t0), last if p.returncode else "", flush=True)
        if p.returncode != 0:
            bad.append(pid)
finally:
    subprocess.run(["git", "-C", "/repo", "checkout", "--", "."], check=True)
print("alarms on a benign change:", bad)
sys.exit(1 if bad else 0)
