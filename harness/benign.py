#!/venv/bin/python
"""Apply a behaviour-preserving refactoring patch to a PRIVATE export of /repo's HEAD, run every claimed quick check
against it (private Lean project copy, private output directory), several checks at a time.
Every check must stay quiet (exit 0).  benign.py <patch.diff> [tier] [-j N]"""
import json, os, shutil, subprocess, sys, tempfile, time
from concurrent.futures import ThreadPoolExecutor
import queue
V = os.path.dirname(os.path.dirname(os.path.abspath(__file__)))
patch = os.path.abspath(sys.argv[1])
tier = sys.argv[2] if len(sys.argv) > 2 and not sys.argv[2].startswith("-") else "quick"
J = int(sys.argv[sys.argv.index("-j") + 1]) if "-j" in sys.argv else 5
base = tempfile.mkdtemp(prefix="verif_benign_")
repo = os.path.join(base, "repo")
os.makedirs(repo)
ar = subprocess.run(["git", "-C", "/repo", "archive", "HEAD"], capture_output=True, check=True)
subprocess.run(["tar", "-x", "-C", repo], input=ar.stdout, check=True)
subprocess.run(["git", "init", "-q"], cwd=repo, check=True)
subprocess.run(["git", "apply", patch], cwd=repo, check=True)
slots = queue.Queue()
for k in range(J):
    lean = os.path.join(base, "lean%d" % k)
    shutil.copytree(os.path.join(V, "lean"), lean, symlinks=True)
    slots.put(lean)


def run(pid):
    lean = slots.get()
    try:
        t0 = time.time()
        env = dict(os.environ, VERIF_REPO=repo, VERIF_LEAN_DIR=lean, PYTHONPATH=repo, VERIF_OUT_DIR=os.path.join(base, "out"))
        p = subprocess.run([os.path.join(V, "check"), pid, "--tier", tier], cwd=V, capture_output=True, text=True, env=env)
        last = [l for l in p.stdout.splitlines() if l.startswith(("VIOLATION", "  proof", "  corr", "  failing"))][:3]
        print(pid, p.returncode, "%.0fs" % (time.time() - t0), last if p.returncode else "", flush=True)
        return pid, p.returncode
    finally:
        slots.put(lean)


man = json.load(open(os.path.join(V, "MANIFEST.json")))
with ThreadPoolExecutor(J) as ex:
    res = list(ex.map(run, [c["property_id"] for c in man["checks"]]))
shutil.rmtree(base, ignore_errors=True)
bad = [p for p, rc in res if rc != 0]
print("alarms on a benign change:", bad)
sys.exit(1 if bad else 0)
