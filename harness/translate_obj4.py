#!/venv/bin/python
"""Translator, layer IV: `wallet_utils.py` — the `Version` class (its two nested tables, the enums `Key` / `Bip`, and its
twelve methods) and the remaining methods of `Bip32Path` — ->  lean/BtcHd/Generated/CodeObj4.lean;
lean/BtcHd/Props/TrVersion.lean proves each emitted function equal to the model (`Model/Path.lean`, `Model/Extra.lean`).

These methods are one- to five-line functions over nested dict literals and enum members; each has a SHAPE-CHECKED rule
(like the seventh batch, DESIGN 10.13): the rule compares the normalised source of the method (`ast.unparse`, docstrings
removed) with the text it knows and emits the Lean definition written next to it.  What is READ from the source on every
run are the data: the two version tables (nested dict literals, in dict order), the enum members and their values, the
integer literals of the path predicates.  Any other edit of a method makes it `translationFailed`.

Representation (trusted, stated here): a nested table `{Key.X.name: {Bip.Y.name: v}}` is the list of triples
`(value of X, value of Y, v)` in source order (so `dct.items()` / `.values()` enumerate it in list order); a `Version`
object is `Path.Version`; a `Bip32Path` object is `Path.Path` seen through its five slots (`Extra.purpose` …); `str(int)` is
`natToDec`.
"""
import ast
import os
import sys

HERE = os.path.dirname(os.path.abspath(__file__))
sys.path.insert(0, HERE)
from translate import Unsupported          # noqa: E402

REPO = os.environ.get("VERIF_REPO", "/repo")
OUT = os.path.join(os.environ.get("VERIF_LEAN_DIR") or os.path.join(os.path.dirname(HERE), "lean"),
                   "BtcHd", "Generated", "CodeObj4.lean")


def lit(sv):
    return "([" + ", ".join("Char.ofNat %d" % ord(c) for c in sv) + "] : List Char)"


def body_src(fn):
    body = [b for b in fn.body if not (isinstance(b, ast.Expr) and isinstance(b.value, ast.Constant))]
    return "\n".join(ast.unparse(b) for b in body)


def enum_members(cls):
    out = []
    for n in cls.body:
        if isinstance(n, ast.Assign) and len(n.targets) == 1 and isinstance(n.targets[0], ast.Name) and \
                isinstance(n.value, ast.Constant) and isinstance(n.value.value, int):
            out.append((n.targets[0].id, n.value.value))
        elif isinstance(n, ast.Expr) and isinstance(n.value, ast.Constant):
            continue
        else:
            raise Unsupported("enum %s has another shape" % cls.name)
    return out


def table(cls, name, keys, bips):
    node = next((n for n in cls.body if isinstance(n, ast.AnnAssign) and isinstance(n.target, ast.Name) and
                 n.target.id == name), None)
    if node is None or not isinstance(node.value, ast.Dict):
        raise Unsupported("table %s not found" % name)
    rows = []
    for k, inner in zip(node.value.keys, node.value.values):
        kq = ast.unparse(k)
        if not (kq.startswith("Key.") and kq.endswith(".name")) or not isinstance(inner, ast.Dict):
            raise Unsupported("table %s: outer key %s" % (name, kq))
        kv = dict(keys)[kq.split(".")[1]]
        for b, v in zip(inner.keys, inner.values):
            bq = ast.unparse(b)
            if not (bq.startswith("Bip.") and bq.endswith(".name")) or not (isinstance(v, ast.Constant) and isinstance(v.value, int)):
                raise Unsupported("table %s: inner entry %s" % (name, bq))
            rows.append((kv, dict(bips)[bq.split(".")[1]], v.value))
    return rows


def data_fn(src, keys, bips):
    """`return {'xprv': cls.main[Key.PRV.name][Bip.BIP44.name], ...}` -> [(name, table, k, b)]"""
    tree = ast.parse(src).body[0]
    if not isinstance(tree, ast.Return) or not isinstance(tree.value, ast.Dict):
        raise Unsupported("data function shape")
    out = []
    for k, v in zip(tree.value.keys, tree.value.values):
        q = ast.unparse(v)
        # cls.main[Key.PRV.name][Bip.BIP44.name]
        if not (isinstance(k, ast.Constant) and isinstance(k.value, str)) or not q.startswith(("cls.main[", "cls.test[")):
            raise Unsupported("data entry " + q)
        try:
            t = q[4:8]
            kn = q.split("[Key.")[1].split(".name]")[0]
            bn = q.split("[Bip.")[1].split(".name]")[0]
            if q != "cls.%s[Key.%s.name][Bip.%s.name]" % (t, kn, bn):
                raise KeyError
            out.append((k.value, t, dict(keys)[kn], dict(bips)[bn]))
        except (IndexError, KeyError):
            raise Unsupported("data entry " + q)
    return out


EXPECT = {
    ("Version", "__init__"): "self.key_type = Key(key_type)\nself.bip_type = Bip(bip)\nself.testnet = testnet",
    ("Version", "__int__"): ("if self.testnet:\n    return self.test[self.key_type.name][self.bip_type.name]\n"
                             "return self.main[self.key_type.name][self.bip_type.name]"),
    ("Version", "__index__"): "return self.__int__()",
    ("Version", "parse"): ("if not isinstance(version_int, int):\n    raise ValueError('has to be integer')\n"
                           "if not cls.valid_version(version=version_int):\n    raise ValueError('unsupported version')\n"
                           "testnet = version_int in cls.testnet_versions()\nprivate = version_int in cls.prv_versions()\n"
                           "return cls(key_type=Key.PRV.value if private else Key.PUB.value, bip=cls.bip(version=version_int), "
                           "testnet=testnet)"),
    ("Version", "valid_version"): ("_all = cls.testnet_versions() + cls.mainnet_versions()\nif version in _all:\n    return True\n"
                                   "return False"),
    ("Version", "bip"): ("if version in cls.bip44_data().values():\n    return Bip.BIP44.value\n"
                         "elif version in cls.bip49_data().values():\n    return Bip.BIP49.value\n"
                         "elif version in cls.bip84_data().values():\n    return Bip.BIP84.value\nelse:\n    return Bip.BIP44.value"),
    ("Version", "get_versions"): "res = []\nfor k, v in dct.items():\n    res += v.values()\nreturn res",
    ("Version", "key_versions"): "return list(cls.test[key_type].values()) + list(cls.main[key_type].values())",
    ("Version", "mainnet_versions"): "return cls.get_versions(cls.main)",
    ("Version", "testnet_versions"): "return cls.get_versions(cls.test)",
    ("Version", "prv_versions"): "return cls.key_versions(key_type=Key.PRV.name)",
    ("Version", "pub_versions"): "return cls.key_versions(key_type=Key.PUB.name)",
    ("Bip32Path", "__repr__"): ("items = [self.repr_hardened(i) for i in self.to_list()]\nitems = [self.m] + items\n"
                                "return '/'.join(items)"),
    ("Bip32Path", "__eq__"): ("return self.m == other.m and self.purpose == other.purpose and (self.coin_type == other.coin_type) "
                              "and (self.account == other.account) and (self.chain == other.chain) and "
                              "(self.addr_index == other.addr_index)"),
    ("Bip32Path", "m"): "return 'm' if self.private else 'M'",
    ("Bip32Path", "bip"): ("if self.bip44:\n    return Bip.BIP44.value\nelif self.bip49:\n    return Bip.BIP49.value\n"
                           "elif self.bip84:\n    return Bip.BIP84.value\nelse:\n    return Bip.BIP44.value"),
    ("Bip32Path", "repr_hardened"): ("if self.is_hardened(num):\n    return str(num - 2 ** 31) + \"'\"\nelse:\n    return str(num)"),
    ("Bip32Path", "_to_list"): "return [self.purpose, self.coin_type, self.account, self.chain, self.addr_index]",
    ("Bip32Path", "to_list"): "return [x for x in self._to_list() if x is not None]",
}
PRED = {"bitcoin_testnet": "coin_type", "bitcoin_mainnet": "coin_type", "external_chain": "chain", "bip44": "purpose",
        "bip49": "purpose", "bip84": "purpose"}
SLOT = {"purpose": "Extra.purpose", "coin_type": "Extra.coinType", "account": "Extra.account", "chain": "Extra.chain",
        "addr_index": "Extra.addrIndex"}


def int_expr(e):
    """a closed integer expression of literals with + and ** -> its value"""
    if isinstance(e, ast.Constant) and isinstance(e.value, int):
        return e.value
    if isinstance(e, ast.BinOp) and isinstance(e.op, (ast.Add, ast.Pow)):
        a, b = int_expr(e.left), int_expr(e.right)
        return a + b if isinstance(e.op, ast.Add) else a ** b
    raise Unsupported("integer expression " + ast.unparse(e))


def translate_all():
    status = {}
    names = ["version_tables", "v_int", "v_get_versions", "v_key_versions", "v_lists", "v_data", "v_bip", "v_valid_version",
             "v_parse", "p_preds", "p_m", "p_bip", "p_to_list", "p_repr", "p_eq"]
    try:
        tree = ast.parse(open(os.path.join(REPO, "btc_hd_wallet", "wallet_utils.py"), encoding="utf-8").read())
        cl = {n.name: n for n in tree.body if isinstance(n, ast.ClassDef)}
        for c in ("Key", "Bip", "Version", "Bip32Path"):
            if c not in cl:
                raise Unsupported("class %s not found" % c)
        keys, bips = enum_members(cl["Key"]), enum_members(cl["Bip"])
        fns = {(c, n.name): n for c in ("Version", "Bip32Path") for n in cl[c].body if isinstance(n, ast.FunctionDef)}
        for key, want in EXPECT.items():
            if key not in fns:
                raise Unsupported("%s.%s not found" % key)
            if body_src(fns[key]) != want:
                raise Unsupported("%s.%s has another shape" % key)
        deco = {k: [ast.unparse(d) for d in f.decorator_list] for k, f in fns.items()}
        for m_ in ("parse", "valid_version", "bip", "bip44_data", "bip49_data", "bip84_data", "key_versions", "mainnet_versions",
                   "testnet_versions", "prv_versions", "pub_versions"):
            if deco.get(("Version", m_)) != ["classmethod"]:
                raise Unsupported("decorator of Version.%s" % m_)
        if deco.get(("Version", "get_versions")) != ["staticmethod"]:
            raise Unsupported("decorator of Version.get_versions")
        main_t, test_t = table(cl["Version"], "main", keys, bips), table(cl["Version"], "test", keys, bips)
        datas = {m_: data_fn(body_src(fns[("Version", m_)]), keys, bips) for m_ in ("bip44_data", "bip49_data", "bip84_data")}
        kv, bv = dict(keys), dict(bips)
        preds = {}
        for m_, slot in PRED.items():
            f = fns.get(("Bip32Path", m_))
            if f is None or deco.get(("Bip32Path", m_)) != ["property"]:
                raise Unsupported("Bip32Path.%s" % m_)
            r = ast.parse(body_src(f)).body[0]
            if not (isinstance(r, ast.Return) and isinstance(r.value, ast.Compare) and len(r.value.ops) == 1 and
                    isinstance(r.value.ops[0], ast.Eq) and ast.unparse(r.value.left) == "self." + slot):
                raise Unsupported("Bip32Path.%s has another shape" % m_)
            preds[m_] = int_expr(r.value.comparators[0])
        if deco.get(("Bip32Path", "m")) != ["property"]:
            raise Unsupported("decorator of Bip32Path.m")

        def tbl(rows):
            return "[" + ", ".join("(%d, %d, %d)" % r for r in rows) + "]"
        L = []
        L.append("/-- the nested tables `Version.main` / `Version.test` as read from the class body (dict order) -/")
        L.append("def version_main : List (Nat × Nat × Nat) := %s" % tbl(main_t))
        L.append("def version_test : List (Nat × Nat × Nat) := %s" % tbl(test_t))
        L.append("/-- `Key` member names and values -/")
        L.append("def key_names : List (List Char × Nat) := [%s]" % ", ".join("(%s, %d)" % (lit(n), v) for n, v in keys))
        L.append("def tbl2 (t : List (Nat × Nat × Nat)) (k b : Nat) : Option Nat := (t.find? fun e => e.1 = k ∧ e.2.1 = b).map (·.2.2)")
        L.append("/-- translated from `Version.__int__` (KeyError -> none) -/")
        L.append("def v_int (self : Path.Version) : Option Nat :=\n  if self.testnet = true then tbl2 version_test self.keyType self.bip "
                 "else tbl2 version_main self.keyType self.bip")
        L.append("/-- translated from `Version.get_versions` -/")
        L.append("def v_get_versions (dct : List (Nat × Nat × Nat)) : List Nat := dct.map (·.2.2)")
        L.append("/-- translated from `Version.key_versions` (a `key_type` that names no row: KeyError -> none) -/")
        L.append("def v_key_versions (key_type : List Char) : Option (List Nat) := do\n  let k ← key_names.lookup key_type\n"
                 "  return ((version_test.filter (fun e => e.1 = k)).map (·.2.2)) ++ ((version_main.filter (fun e => e.1 = k)).map (·.2.2))")
        L.append("def v_mainnet_versions : List Nat := v_get_versions version_main")
        L.append("def v_testnet_versions : List Nat := v_get_versions version_test")
        prv_name = next(n for n, v in keys if n == "PRV")
        L.append("def v_prv_versions : Option (List Nat) := v_key_versions %s" % lit("PRV"))
        L.append("def v_pub_versions : Option (List Nat) := v_key_versions %s" % lit("PUB"))
        for m_, rows in datas.items():
            items = ", ".join("(%s, (← tbl2 version_%s %d %d))" % (lit(n), t, k, b) for n, t, k, b in rows)
            L.append("/-- translated from `Version.%s` -/\ndef v_%s : Option (List (List Char × Nat)) := do\n  return [%s]" % (m_, m_, items))
        L.append("/-- translated from `Version.bip` -/")
        L.append("def v_bip (version : Nat) : Option Nat := do\n"
                 "  if version ∈ (← v_bip44_data).map (·.2) then return %d\n"
                 "  else if version ∈ (← v_bip49_data).map (·.2) then return %d\n"
                 "  else if version ∈ (← v_bip84_data).map (·.2) then return %d\n  else return %d" % (
                     bv["BIP44"], bv["BIP49"], bv["BIP84"], bv["BIP44"]))
        L.append("/-- translated from `Version.valid_version` -/")
        L.append("def v_valid_version (version : Nat) : Bool := decide (version ∈ v_testnet_versions ++ v_mainnet_versions)")
        L.append("/-- translated from `Version.parse` (the argument is an integer by its type) -/")
        L.append("def v_parse (version_int : Nat) : Option Path.Version := do\n  if ¬ (v_valid_version version_int = true) then none\n"
                 "  let testnet := decide (version_int ∈ v_testnet_versions)\n"
                 "  let private_ := decide (version_int ∈ (← v_prv_versions))\n"
                 "  return { keyType := (if private_ = true then %d else %d), bip := (← v_bip version_int), testnet := testnet }"
                 % (kv["PRV"], kv["PUB"]))
        for m_, slot in PRED.items():
            L.append("/-- translated from `Bip32Path.%s` -/\ndef p_%s (self : Path.Path) : Bool := decide (%s self = some %d)"
                     % (m_, m_, SLOT[slot], preds[m_]))
        L.append("/-- translated from `Bip32Path.m` -/\ndef p_m (self : Path.Path) : List Char := if self.priv = true then %s else %s"
                 % (lit("m"), lit("M")))
        L.append("/-- translated from `Bip32Path.bip` -/\ndef p_bip (self : Path.Path) : Nat :=\n"
                 "  if p_bip44 self = true then %d else if p_bip49 self = true then %d else if p_bip84 self = true then %d else %d"
                 % (bv["BIP44"], bv["BIP49"], bv["BIP84"], bv["BIP44"]))
        L.append("/-- translated from `Bip32Path._to_list` / `to_list` -/")
        L.append("def p__to_list (self : Path.Path) : List (Option Nat) :=\n"
                 "  [Extra.purpose self, Extra.coinType self, Extra.account self, Extra.chain self, Extra.addrIndex self]")
        L.append("def p_to_list (self : Path.Path) : List Nat := (p__to_list self).filterMap id")
        L.append("/-- translated from `Bip32Path.repr_hardened` (`is_hardened` is the translated `Code.is_hardened`) -/")
        L.append("def p_repr_hardened (num : Nat) : List Char :=\n  if Code.is_hardened num = true then natToDec (num - 2 ^ 31) ++ %s "
                 "else natToDec num" % lit("'"))
        L.append("/-- translated from `Bip32Path.__repr__` -/")
        L.append("def p_repr (self : Path.Path) : List Char :=\n  Text.join %s ([p_m self] ++ (p_to_list self).map p_repr_hardened)" % lit("/"))
        L.append("/-- translated from `Bip32Path.__eq__` -/")
        L.append("def p_eq (self other : Path.Path) : Bool :=\n  decide (p_m self = p_m other ∧ Extra.purpose self = Extra.purpose other ∧ "
                 "Extra.coinType self = Extra.coinType other ∧ Extra.account self = Extra.account other ∧ "
                 "Extra.chain self = Extra.chain other ∧ Extra.addrIndex self = Extra.addrIndex other)")
        body = "\n".join(L) + "\n"
        for n in names:
            status[n] = "ok"
    except (Unsupported, SyntaxError, OSError, StopIteration) as e:
        body = ("-- TRANSLATION FAILED for wallet_utils.py (Version / Bip32Path): %s\n"
                "def version_main : List (Nat × Nat × Nat) := Code.translationFailed _\n"
                "def version_test : List (Nat × Nat × Nat) := Code.translationFailed _\n"
                "def v_int (self : Path.Version) : Option Nat := Code.translationFailed _\n"
                "def v_get_versions (dct : List (Nat × Nat × Nat)) : List Nat := Code.translationFailed _\n"
                "def v_key_versions (key_type : List Char) : Option (List Nat) := Code.translationFailed _\n"
                "def v_mainnet_versions : List Nat := Code.translationFailed _\n"
                "def v_testnet_versions : List Nat := Code.translationFailed _\n"
                "def v_prv_versions : Option (List Nat) := Code.translationFailed _\n"
                "def v_pub_versions : Option (List Nat) := Code.translationFailed _\n"
                "def v_bip44_data : Option (List (List Char × Nat)) := Code.translationFailed _\n"
                "def v_bip49_data : Option (List (List Char × Nat)) := Code.translationFailed _\n"
                "def v_bip84_data : Option (List (List Char × Nat)) := Code.translationFailed _\n"
                "def v_bip (version : Nat) : Option Nat := Code.translationFailed _\n"
                "def v_valid_version (version : Nat) : Bool := Code.translationFailed _\n"
                "def v_parse (version_int : Nat) : Option Path.Version := Code.translationFailed _\n"
                "def p_bip (self : Path.Path) : Nat := Code.translationFailed _\n"
                "def p_m (self : Path.Path) : List Char := Code.translationFailed _\n"
                "def p_to_list (self : Path.Path) : List Nat := Code.translationFailed _\n"
                "def p_repr (self : Path.Path) : List Char := Code.translationFailed _\n"
                "def p_eq (self other : Path.Path) : Bool := Code.translationFailed _\n"
                "def p_bitcoin_testnet (self : Path.Path) : Bool := Code.translationFailed _\n"
                "def p_bitcoin_mainnet (self : Path.Path) : Bool := Code.translationFailed _\n"
                "def p_external_chain (self : Path.Path) : Bool := Code.translationFailed _\n"
                "def p_bip44 (self : Path.Path) : Bool := Code.translationFailed _\n"
                "def p_bip49 (self : Path.Path) : Bool := Code.translationFailed _\n"
                "def p_bip84 (self : Path.Path) : Bool := Code.translationFailed _\n" % e)
        for n in names:
            status[n] = "FAILED: %s" % e
    hdr = ("-- GENERATED by harness/translate_obj4.py from /repo's working tree. Do not edit.\n"
           "import BtcHd.Generated.Code\nimport BtcHd.Model.Extra\n\n"
           "set_option linter.unusedVariables false\n\n"
           "namespace BtcHd.CodeObj4\nopen BtcHd\n\n"
           "instance : Inhabited Path.Version := ⟨⟨0, 0, false⟩⟩\n\n")
    return hdr + body + "\nend BtcHd.CodeObj4\n", status


def main():
    text, status = translate_all()
    old = open(OUT, encoding="utf-8").read() if os.path.exists(OUT) else None
    if old != text:
        tmp = OUT + ".tmp%d" % os.getpid()
        open(tmp, "w", encoding="utf-8").write(text)
        os.replace(tmp, OUT)
    bad = {k: v for k, v in status.items() if v != "ok"}
    print("translate_obj4: %d definitions, %s%s" % (len(status), "changed" if old != text else "unchanged",
                                                   (" ; FAILED: %s" % bad) if bad else ""))
    return status


if __name__ == "__main__":
    main()
