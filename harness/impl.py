"""Run one line-protocol operation on the REAL code in /repo (in-process) and
return the canonical result line, exactly as Driver/Main.lean prints it for the
model.  Any exception maps to `err`; `None` results of bech32 map to `err` too
(both mean: no value is produced)."""
import io
import os
import sys
import threading

REPO = os.environ.get("VERIF_REPO", "/repo")
HERE_ = os.path.dirname(os.path.abspath(__file__))
if REPO not in sys.path:
    sys.path.insert(0, REPO)

import btc_hd_wallet.bip32 as bip32          # noqa: E402
import btc_hd_wallet.bip85 as bip85          # noqa: E402
import btc_hd_wallet.bip39 as bip39          # noqa: E402
import btc_hd_wallet.helper as helper        # noqa: E402
import btc_hd_wallet.bech32 as bech32        # noqa: E402
import btc_hd_wallet.keys as keys            # noqa: E402
import btc_hd_wallet.script as script        # noqa: E402
import btc_hd_wallet.wallet_utils as wu      # noqa: E402
import btc_hd_wallet.base_wallet as bw       # noqa: E402
import btc_hd_wallet.paper_wallet as pw      # noqa: E402
import btc_hd_wallet.ripemd as ripemd        # noqa: E402
import btc_hd_wallet.__main__ as cli         # noqa: E402

_prf_lock = threading.Lock()


# ---------------------------------------------------------------- encodings
def zlib_crc(text):
    import zlib
    return zlib.crc32(text.encode())


def hx(b):
    b = bytes(b)
    return b.hex() if b else "-"


def sx(s):
    return hx(s.encode("utf-8"))


# "alternative input forms": while ALT[0] is set (only inside run_alt), byte-string arguments are handed to the library
# as bytearray and index paths as one-shot iterators — values the unchanged library accepts and must treat alike
ALT = [False]
ALT_BUFFERS = {}        # protocol token -> the bytearray handed to the library (re-used by the second run of run_alt)


ALT_OBJECTS = {}        # node token -> the node object built from it (the second run of run_alt works on the SAME object)
ALT_WIPED = set()       # tokens whose buffer the harness itself overwrote (see _settle); restored on their next use


def unhex(s):
    b = b"" if s == "-" else bytes.fromhex(s)
    if not ALT[0]:
        return b
    if s not in ALT_BUFFERS:
        ALT_BUFFERS[s] = bytearray(b)
    elif s in ALT_WIPED:
        ALT_BUFFERS[s][:] = b
        ALT_WIPED.discard(s)
    return ALT_BUFFERS[s]


def _settle(obj):
    """alternative forms only: the caller OVERWRITES its byte buffers as soon as the constructor / function it handed
    them to has returned (what careful callers do with secrets).  Used only where the unchanged library copies what it
    is given (keys, master-key generation, seed-based wallets) — node constructors keep a reference and are left alone."""
    if ALT[0]:
        for s_, buf in ALT_BUFFERS.items():
            if s_ not in ALT_WIPED and len(buf):
                if bytes(buf) != (b"" if s_ == "-" else bytes.fromhex(s_)):
                    continue        # the LIBRARY has changed the caller's buffer: left as it is (the second run shows it)
                buf[:] = b"\x5a" * len(buf)
                ALT_WIPED.add(s_)
    return obj


def unstr(s):
    return bytes(unhex(s)).decode("utf-8")


def _seq(xs):
    """an index path as the library receives it: a list, or (alternative form) a single-pass iterator"""
    return iter(list(xs)) if ALT[0] else xs


def unbool(s):
    return {"1": True, "0": False}[s]


# "the caller changes what it received": while MUT[0] is set (only inside run_mut) every mutable container the
# library handed back is EMPTIED by the harness once it has been written down (lists cleared, dicts cleared)
MUT = [False]


def _scribble(v, depth=0):
    if not MUT[0] or depth > 6:
        return
    try:
        if isinstance(v, dict):
            for x in list(v.values()):
                _scribble(x, depth + 1)
            v.clear()
        elif isinstance(v, list):
            for x in list(v):
                _scribble(x, depth + 1)
            v.clear()
        elif isinstance(v, bytearray):
            v[:] = b""
        elif isinstance(v, set):
            v.clear()
    except Exception:
        pass


def lst(f, xs):
    orig = xs
    xs = list(xs)
    out = ",".join(f(x) for x in xs) if xs else "-"
    _scribble(orig)
    return out


def unlist(f, s):
    return [] if s == "-" else [f(x) for x in s.split(",")]


def boolS(b):
    return "1" if b else "0"


COPY = [None]          # "pickle" | "deepcopy" | "copy": objects pass through that copy before they are used / inspected


def cp(obj):
    """the object itself, or (copy exploration) a pickle round trip / deepcopy / shallow copy of it"""
    if COPY[0] is None:
        return obj
    import copy
    import pickle
    if COPY[0] == "pickle":
        return pickle.loads(pickle.dumps(obj))
    return copy.deepcopy(obj) if COPY[0] == "deepcopy" else copy.copy(obj)


def run_copy(line, how):
    COPY[0] = how
    try:
        return run_plain(line)
    finally:
        COPY[0] = None


def nodeS(nd):
    nd = cp(nd)
    return " ".join([
        "N", "P" if isinstance(nd, bip32.PrvKeyNode) else "p", hx(nd.key), hx(nd.chain_code),
        str(nd.depth), str(nd.index), boolS(nd.testnet), hx(nd.parent_fingerprint),
        sx(str(nd)), "-" if nd.parsed_version is None else str(nd.parsed_version)])


def jsonS(v):
    out = _jsonS(v)
    _scribble(v)
    return out


def _jsonS(v):
    if v is None:
        return "n"
    if isinstance(v, str):
        return "s" + sx(v)
    if isinstance(v, (list, tuple)):
        return "[" + ",".join(_jsonS(x) for x in v) + "]"
    if isinstance(v, dict):
        items = sorted((sx(k), _jsonS(x)) for k, x in v.items())
        return "{" + ",".join(k + ":" + x for k, x in items) + "}"
    raise TypeError("not a JSON-shaped value: %r" % (v,))


def cmdS(c):
    return ("o%d" % c) if type(c) is int else "d" + hx(c)


def uncmd(s):
    return int(s[1:]) if s[0] == "o" else unhex(s[1:])


def hashS(b):
    return "h" + bytes(b).hex()


def unhash(s):
    if s[:1] != "h":
        raise BadOp()
    return bytes.fromhex(s[1:])


class _SubPrv(bip32.PrvKeyNode):
    """a trivial user subclass (alternative-form exploration): the library builds children with self.__class__"""
    __slots__ = ()


class _SubPub(bip32.PubKeyNode):
    __slots__ = ()


def unnode(s):
    cls, key, chain, depth, index, t, fp = s.split(":")
    klass = bip32.PrvKeyNode if cls == "P" else bip32.PubKeyNode
    if ALT[0]:
        if s in ALT_OBJECTS:
            return ALT_OBJECTS[s]
        klass = _SubPrv if cls == "P" else _SubPub
    nd = klass(key=unhex(key), chain_code=unhex(chain), index=int(index), depth=int(depth),
               testnet=unbool(t), parent_fingerprint=None if fp == "none" else unhex(fp))
    if ALT[0]:
        ALT_OBJECTS[s] = nd
    return nd


def _alt_master(w):
    """alternative forms only: the wallet's root node rebuilt by its constructor from bytearray copies of its fields"""
    m = w.master
    w.master = type(m)(key=bytearray(m.key), chain_code=bytearray(m.chain_code), index=m.index, depth=m.depth,
                       testnet=m.testnet, parent_fingerprint=m.parsed_parent_fingerprint
                       if m.parsed_parent_fingerprint is None else bytearray(m.parsed_parent_fingerprint))
    w.master.parsed_version = m.parsed_version
    return w


class _Prf:
    """Substitute bip32.hmac_sha512 / bip85.hmac_sha512 by a constant function."""

    def __init__(self, spec):
        self.out = None if spec == "-" else unhex(spec[4:])

    def __enter__(self):
        if self.out is not None:
            _prf_lock.acquire()
            self.saved = (bip32.hmac_sha512, bip85.hmac_sha512)
            out = self.out
            bip32.hmac_sha512 = lambda key, msg: out
            bip85.hmac_sha512 = lambda key, msg: out

    def __exit__(self, *a):
        if self.out is not None:
            bip32.hmac_sha512, bip85.hmac_sha512 = self.saved
            _prf_lock.release()


class _Urandom:
    """Make SystemRandom read chosen bytes: random._urandom / os.urandom stub."""

    def __init__(self, data):
        self.data = data
        self.requests = []

    def __call__(self, n):
        self.requests.append(n)
        return self.data[:n]

    def __enter__(self):
        import random as _r
        self._r = _r
        self.saved = (_r._urandom, os.urandom)
        _r._urandom = self
        os.urandom = self
        return self

    def __exit__(self, *a):
        self._r._urandom, os.urandom = self.saved


_script_route = [0]


def _script_of(cmds):
    """Script(cmds) — or, in the alternative forms, the same script ASSEMBLED IN PLACE: elements appended / inserted /
    assigned on script.cmds, or put into the caller's own list after it was handed to the constructor (the unchanged
    class keeps that list)"""
    if not ALT[0]:
        return script.Script(cmds)
    _script_route[0] += 1
    r = _script_route[0] % 4
    if r == 0:
        sc = script.Script([])
        for c in cmds:
            sc.cmds.append(c)
    elif r == 1:
        sc = script.Script([])
        sc.cmds.extend(cmds)
    elif r == 2:
        sc = script.Script([0] * len(cmds))
        for i, c in enumerate(cmds):
            sc.cmds[i] = c
    else:
        own = []
        sc = script.Script(own)
        own[:] = cmds
    return sc


def make_wallet(spec, cls=None):
    cls = cls or pw.PaperWallet
    parts = spec.split(":")
    kind = parts[0]
    if kind == "mn":
        _, mr, _mn, pr, _pn, t = parts
        if ALT[0]:                          # alternative form: positional arguments
            return cls.from_mnemonic(unstr(mr), unstr(pr), unbool(t))
        return cls.from_mnemonic(mnemonic=unstr(mr), password=unstr(pr), testnet=unbool(t))
    if kind == "ent":
        _, e, pr, _pn, t = parts
        if ALT[0]:
            return cls.from_entropy_hex(unstr(e), unstr(pr), unbool(t))
        return cls.from_entropy_hex(entropy_hex=unstr(e), password=unstr(pr), testnet=unbool(t))
    if kind == "seedb":
        _, sd, t = parts
        return _settle(cls.from_bip39_seed_bytes(bip39_seed=unhex(sd), testnet=unbool(t)))
    if kind == "seedh":
        _, sd, t = parts
        return cls.from_bip39_seed_hex(bip39_seed=unstr(sd), testnet=unbool(t))
    if kind == "raw":
        _, sd, nt, wt = parts
        return cls(master=_settle(bip32.PrvKeyNode.master_key(bip39_seed=unhex(sd), testnet=unbool(nt))),
                   testnet=unbool(wt))
    if kind == "xkey":
        return cls.from_extended_key(extended_key=unstr(parts[1]))
    if kind == "rawx":      # class constructor on a PARSED extended key: node flag and wallet flag chosen separately
        _, xk, nt, wt = parts
        s_ = unstr(xk)
        klass = bip32.PrvKeyNode if s_[1:4] == "prv" else bip32.PubKeyNode
        return cls(master=klass.parse(s_, testnet=unbool(nt)), testnet=unbool(wt))
    if kind == "new":
        _, ob, ln, pr, _pn, t = parts
        with _Urandom(unhex(ob)):
            return cls.new_wallet(mnemonic_length=int(ln), password=unstr(pr), testnet=unbool(t))
    raise KeyError(kind)


def walletS(w):
    w = cp(w)
    return " ".join(["W", boolS(w.testnet), boolS(w.watch_only), nodeS(w.master),
                     jsonS(w.mnemonic), jsonS(w.password)])


def addr_fn(w, kind):
    return {"p2pkh": w.p2pkh_address, "p2wpkh": w.p2wpkh_address,
            "p2sh_p2wpkh": w.p2sh_p2wpkh_address, "p2wsh": w.p2wsh_address,
            "p2sh_p2wsh": w.p2sh_p2wsh_address}[kind]


def _none_err(v):
    if v is None:
        raise ValueError("None result")
    return v


# ---------------------------------------------------------------- operations
def _run(tok):
    op = tok[0]
    a = tok[1:]
    import hashlib
    import hmac as _hmac
    if op == "sha256":
        return hx(hashlib.sha256(unhex(a[0])).digest())
    if op == "sha512":
        return hx(hashlib.sha512(unhex(a[0])).digest())
    if op == "hmac512":
        return hx(_hmac.new(unhex(a[0]), unhex(a[1]), "sha512").digest())
    if op == "pbkdf2":
        return hx(hashlib.pbkdf2_hmac("sha512", unhex(a[0]), unhex(a[1]), int(a[2])))
    if op == "rmd160":
        return hx(ripemd.ripemd160(unhex(a[0])))
    if op == "h160":
        return hx(helper.hash160(unhex(a[0])))
    if op == "mulgen":
        import ecdsa
        k = int(a[0]) % ecdsa.SECP256k1.order
        pt = ecdsa.SECP256k1.generator * k
        return hx(ecdsa.VerifyingKey.from_public_point(pt, curve=ecdsa.SECP256k1).to_string("compressed"))
    # C10
    if op == "b58e":
        return sx(helper.encode_base58(unhex(a[0])))
    if op == "b58d":
        return hx(helper.decode_base58(unstr(a[0])))
    if op == "b58ce":
        return sx(helper.encode_base58_checksum(unhex(a[0])))
    if op == "b58cd":
        return hx(helper.decode_base58_checksum(unstr(a[0])))
    if op == "b58addr":
        return hx(helper.b58decode_addr(unstr(a[0])))
    # C19
    if op == "scr_ser":
        return hx(_script_of(unlist(uncmd, a[0])).serialize())
    if op == "scr_raw":
        return hx(_script_of(unlist(uncmd, a[0])).raw_serialize())
    if op == "scr_parse":
        s = io.BytesIO(unhex(a[0]))
        if len(a) > 1:
            s.read(int(a[1]))           # the caller has already consumed a header
        sc = script.Script.parse(s)
        return lst(cmdS, sc.cmds) + " " + hx(s.read())
    if op == "vi_enc":
        return hx(helper.encode_varint(int(a[0])))
    if op == "vi_read":
        s = io.BytesIO(unhex(a[0]))
        if len(a) > 1:
            s.read(int(a[1]))
        n = helper.read_varint(s)
        return "%d %s" % (n, hx(s.read()))
    if op == "scr_build":
        fn = {"p2pkh": script.p2pkh_script, "p2sh": script.p2sh_script,
              "p2wpkh": script.p2wpkh_script, "p2wsh": script.p2wsh_script}[a[0]]
        sc = fn(unhex(a[1]))
        try:
            raw = hx(sc.raw_serialize())
        except Exception:
            raw = "err"
        return lst(cmdS, sc.cmds) + " " + raw
    # C17
    if op == "path_parse":
        p = wu.Bip32Path.parse(unstr(a[0]))
        return p.m + " " + lst(str, p.to_list())
    if op == "path_fmt":
        ls = unlist(int, a[1]) + [None] * 5
        p = wu.Bip32Path(*ls[:5], private=unbool(a[0]))
        return sx(str(p))
    # C01 / C02 / C18
    if op == "ckd":
        nd = unnode(a[0])
        with _Prf(a[2]):
            return nodeS(nd.derive_path(_seq(unlist(int, a[1]))))
    if op == "i2be":
        return hx(helper.int_to_big_endian(int(a[0]), int(a[1])))
    if op == "i2le":
        return hx(helper.int_to_little_endian(int(a[0]), int(a[1])))
    if op == "be2i":
        return str(helper.big_endian_to_int(unhex(a[0])))
    if op == "le2i":
        return str(helper.little_endian_to_int(unhex(a[0])))
    if op == "h_addr":
        h, t, wv = unhex(a[1]), unbool(a[2]), int(a[3])
        if a[0] == "p2pkh":
            return sx(helper.h160_to_p2pkh_address(h, testnet=t))
        if a[0] == "p2sh":
            return sx(helper.h160_to_p2sh_address(h, testnet=t))
        if a[0] == "p2wpkh":
            return sx(_none_err(helper.h160_to_p2wpkh_address(h, testnet=t, witver=wv)))
        return sx(_none_err(helper.h256_to_p2wsh_address(h, testnet=t, witver=wv)))
    if op == "ckd_retry":
        nd = unnode(a[0])                    # ONE parent object for the whole sequence of requests
        outs = []
        with _Prf(a[2]):
            for ch in a[3]:
                try:
                    i_ = int(a[1])
                    if ch == "c":
                        c = nd.ckd(index=i_)
                    elif ch == "g":         # the bulk entry point: the child inside a one-element interval
                        c = nd.generate_children((i_, i_ + 1))[0]
                    elif ch == "G":         # ... and as the last element of a longer interval
                        c = nd.generate_children((max(0, i_ - 2), i_ + 1))[-1]
                    else:
                        c = nd.derive_path([i_])
                    outs.append(nodeS(c))
                except Exception:
                    outs.append("err")
        return " ; ".join(outs)
    if op == "gen_step":
        # bulk derivation with every interval shape `range(*interval)` accepts: (b,), (a, b), (a, b, step)
        nd = unnode(a[0])
        ar, va, vb, vs = int(a[1]), int(a[2]), int(a[3]), int(a[4])
        iv = (vb,) if ar == 1 else (va, vb) if ar == 2 else (va, vb, vs)
        with _Prf(a[5]):
            cs = nd.generate_children(interval=iv)
        return "L " + " / ".join(nodeS(c) for c in cs) if cs else "L"
    if op == "master":
        with _Prf(a[2]):
            return nodeS(_settle(bip32.PrvKeyNode.master_key(bip39_seed=unhex(a[0]), testnet=unbool(a[1]))))
    # C07
    if op == "xk_ser":
        nd = unnode(a[0]).derive_path(_seq(unlist(int, a[1])))
        ver = None if a[3] == "-" else int(a[3])
        if a[2] == "pub":
            return sx(nd.extended_public_key(version=ver))
        return sx(nd.extended_private_key(version=ver))
    if op == "xk_parse":
        klass = bip32.PrvKeyNode if a[0] == "P" else bip32.PubKeyNode
        t = unbool(a[1])
        if a[2] == "s" and len(a) == 4:
            return nodeS(klass.parse(unstr(a[3]), testnet=t))
        if a[2] == "b" and len(a) == 4:
            return nodeS(klass.parse(bytes(unhex(a[3])), testnet=t))     # parse() dispatches on the exact type bytes
        if len(a) > 4:
            # parse (with the class asked for — also the OTHER class than the key's own kind), then derive along a path
            src = unstr(a[3]) if a[2] == "s" else bytes(unhex(a[3])) if a[2] == "b" else io.BytesIO(unhex(a[3]))
            return nodeS(klass.parse(src, testnet=t).derive_path(_seq(unlist(int, a[4]))))
        st = io.BytesIO(unhex(a[3]))
        if a[2].startswith("io@"):
            st.read(int(a[2][3:]))      # stream positioned after earlier records / a header
        return nodeS(klass.parse(st, testnet=t))
    if op == "node_eq":
        return boolS(unnode(a[0]) == unnode(a[1]))
    # C09
    if op == "priv_new":
        k = _settle(keys.PrivateKey(unhex(a[0])))
        return " ".join([hx(bytes(k)), hx(k.K.sec(True)), hx(k.K.sec(False))])
    if op == "priv_int":
        return hx(bytes(keys.PrivateKey(int(a[0]))))
    if op == "wif":
        return sx(_settle(keys.PrivateKey(unhex(a[0]))).wif(compressed=unbool(a[1]), testnet=unbool(a[2])))
    if op == "from_wif":
        return hx(bytes(keys.PrivateKey.from_wif(unstr(a[0]))))
    if op == "wif_cycle":
        # a key IMPORTED from a WIF text and then exported in every flavour, twice, in mixed order, on the one object
        k = keys.PrivateKey.from_wif(unstr(a[0]))
        outs = []
        for c, t in ((1, 1), (0, 0), (1, 0), (0, 1), (0, 0), (1, 1), (1, 0), (0, 1)):
            outs.append(sx(k.wif(compressed=bool(c), testnet=bool(t))))
        return hx(bytes(k)) + " " + " ".join(outs)
    if op == "sec_parse":
        K = _settle(keys.PublicKey.parse(unhex(a[0])))
        return hx(K.sec(True)) + " " + hx(K.sec(False))
    # C11
    if op == "b32_enc":
        return sx(_none_err(bech32.encode(unstr(a[0]), int(a[1]), unhex(a[2]))))
    if op == "b32_dec":
        v, prog = bech32.decode(unstr(a[0]), unstr(a[1]))
        _none_err(v)
        return "%d %s" % (v, lst(str, prog))
    if op == "b32_raw":
        hrp, data, spec = bech32.bech32_decode(unstr(a[0]))
        _none_err(hrp)
        return "%s %s %d" % (sx(hrp), lst(str, data), spec.value)
    if op == "polymod":
        return str(bech32.bech32_polymod(unlist(int, a[0])))
    if op == "convertbits":
        return lst(str, _none_err(bech32.convertbits(unlist(int, a[0]), int(a[1]), int(a[2]), unbool(a[3]))))
    # C04
    if op == "mn_from_ent":
        return sx(bip39.mnemonic_from_entropy(unstr(a[0])))
    if op == "mn_slen":
        return str(bip39.mnemonic_sentence_length(int(a[0])))
    if op == "mn_cslen":
        return str(bip39.checksum_length(int(a[0])))
    if op == "mn_bits_ok":
        bip39.correct_entropy_bits_value(int(a[0]))
        return "1"
    if op == "mn_new":
        with _Urandom(unhex(a[0])):
            return sx(bip39.mnemonic_from_entropy_bits(int(a[1])))
    # C03
    if op == "seed":
        return hx(bip39.bip39_seed_from_mnemonic(unstr(a[0]), unstr(a[2])))
    if op == "wallet":
        return walletS(make_wallet(a[0]))
    if op == "wallet_held":
        w1 = make_wallet(a[0])          # held while another wallet is created (which may fail), inspected afterwards
        try:
            make_wallet(a[1])
        except Exception:
            pass
        return walletS(w1)
    # C05
    if op == "addr":
        t = unbool(a[2])
        w = bw.BaseWallet(master=bip32.PubKeyNode(key=unhex(a[1]), chain_code=bytes(32), testnet=t), testnet=t)
        return sx(_none_err(addr_fn(w, a[0])(w.master)))
    if op == "pk_addr":
        K = _settle(keys.PublicKey.parse(unhex(a[0])))
        return sx(_none_err(K.address(compressed=unbool(a[1]), testnet=unbool(a[2]), addr_type=a[3])))
    if op == "pk_seq":
        K = keys.PublicKey.parse(unhex(a[0]))          # ONE object for the whole sequence
        outs = []
        for r in a[1].split(","):
            c, t, kind = r.split(":")
            try:
                if kind == "h160":
                    outs.append(sx(K.h160(compressed=unbool(c)).hex()))
                else:
                    outs.append(sx(_none_err(K.address(compressed=unbool(c), testnet=unbool(t), addr_type=kind))))
            except Exception:
                outs.append("err")
        return " ; ".join(outs)
    # C12
    if op == "bip85":
        nd = unnode(a[0])
        b = bip85.BIP85DeterministicEntropy(master_node=nd)
        param, index = int(a[2]), int(a[3])
        with _Prf(a[4]):
            return sx(_bip85_call(b, a[1], param, index))
    if op == "bip85_seq":
        # several requests (any parameter forms, refused ones included) on ONE BIP85 object
        nd = unnode(a[0])
        b = bip85.BIP85DeterministicEntropy(master_node=nd)
        outs = []
        for r in a[1].split(";"):
            app, p_, i_ = r.split(",")
            try:
                outs.append(sx(_bip85_call(b, app, pyvalue(p_), pyvalue(i_))))
            except (KeyboardInterrupt, SystemExit):
                raise
            except BaseException:
                outs.append("err")
        return " ; ".join(outs)
    if op == "bip85x":
        # parameters / indexes that are NOT plain ints: i:<int>  f:<float>  d:<Decimal>  q:<a/b Fraction>  s:<hex of text>  b:<0|1>
        nd = unnode(a[0])
        b = bip85.BIP85DeterministicEntropy(master_node=nd)
        return sx(_bip85_call(b, a[1], pyvalue(a[2]), pyvalue(a[3])))
    # wallet level
    if op == "generate":
        w = make_wallet(a[0])
        if ALT[0]:                          # alternative form: positional arguments, the interval as a list
            return jsonS(w.generate(int(a[1]), [int(a[2]), int(a[3])]))
        return jsonS(w.generate(account=int(a[1]), interval=(int(a[2]), int(a[3]))))
    if op == "paranoia":
        w = make_wallet(a[0])
        return jsonS(cli.paranoia_mode(w.generate(account=int(a[1]), interval=(int(a[2]), int(a[3])))))
    if op == "paranoia_seq":
        import copy
        w1, w2 = make_wallet(a[0]), make_wallet(a[4])
        d1 = w1.generate(account=int(a[1]), interval=(int(a[2]), int(a[3])))
        d1c = copy.deepcopy(d1)
        r1 = cli.paranoia_mode(d1)                    # held by the caller ...
        d2 = w2.generate(account=int(a[5]), interval=(int(a[6]), int(a[7])))
        r2 = cli.paranoia_mode(d2)                    # ... while a later request is served
        return " ".join([jsonS(r1), jsonS(r2), boolS(d1 == d1c)])
    if op == "generate_seq":
        w1 = make_wallet(a[0])
        w2 = w1 if a[4] == "same" else make_wallet(a[4])
        r1 = w1.generate(account=int(a[1]), interval=(int(a[2]), int(a[3])))
        r2 = w2.generate(account=int(a[5]), interval=(int(a[6]), int(a[7])))
        return " ".join([jsonS(r1), jsonS(r2)])
    if op == "json_text":
        w = make_wallet(a[0])
        data = w.generate(account=int(a[1]), interval=(int(a[2]), int(a[3])))
        return sx(w.json(data=data, indent=None if a[4] == "-" else int(a[4])))
    if op == "json_loads":
        import json
        return jsonS(json.loads(unstr(a[0])))
    if op == "wasabi":
        import json
        w = make_wallet(a[0])
        return jsonS(json.loads(w.wasabi_json()))
    if op == "w_bypath":
        return nodeS(make_wallet(a[0]).by_path(unstr(a[1])))
    if op == "w_addr":
        w = make_wallet(a[0])
        return sx(_none_err(addr_fn(w, a[2])(w.by_path(unstr(a[1])))))
    if op == "w_extkeys":
        w = make_wallet(a[0])
        return jsonS(w.node_extended_keys(w.by_path(unstr(a[1]))))
    if op == "w_extprv":
        w = make_wallet(a[0])
        return sx(w.node_extended_private_key(w.by_path(unstr(a[1]))))
    if op == "w_group":
        w = make_wallet(a[0])
        rows = w.group(nodes=[w.by_path(unstr(a[1]))], addr_fnc=addr_fn(w, a[2]))
        return jsonS(rows[0])
    if op == "w_bip85":
        w = make_wallet(a[0])
        return sx(_bip85_call(w.bip85, a[1], int(a[2]), int(a[3])))
    # ---------------------------------------------------------------- EXTRA
    if op == "chunks":
        cs = list(helper.chunks(unlist(int, a[1]), int(a[0])))
        return "/".join(lst(str, c) for c in cs) if cs else "-"
    if op == "merkle_parent":
        return hx(helper.merkle_parent(unhex(a[0]), unhex(a[1])))
    if op == "merkle_level":
        hs = unlist(unhash, a[0])
        r = helper.merkle_parent_level(hs)            # mutates hs
        return lst(hashS, r) + " " + lst(hashS, hs)
    if op == "merkle_root":
        hs = unlist(unhash, a[0])
        r = helper.merkle_root(hs)                    # mutates hs
        return hashS(r) + " " + lst(hashS, hs)
    if op == "b32_addr":
        return hx(helper.bech32_decode_address(unstr(a[0])))
    if op == "scr_add":
        sc = script.Script(unlist(uncmd, a[0])) + script.Script(unlist(uncmd, a[1]))
        try:
            raw = hx(sc.raw_serialize())
        except Exception:
            raw = "err"
        return lst(cmdS, sc.cmds) + " " + raw
    if op == "scr_eq":
        return boolS(script.Script(unlist(uncmd, a[0])) == script.Script(unlist(uncmd, a[1])))
    if op == "scr_repr":
        return sx(repr(script.Script(unlist(uncmd, a[0]))))
    if op == "ver_bip":
        return str(wu.Version.bip(int(a[0])))
    if op == "ver_valid":
        return boolS(wu.Version.valid_version(int(a[0])))
    if op == "ver_parse":
        v_ = wu.Version.parse(int(a[0]))
        return "%d %d %s" % (v_.key_type.value, v_.bip_type.value, boolS(v_.testnet))
    if op == "ver_list":
        V = wu.Version
        fn = {"main": V.mainnet_versions, "test": V.testnet_versions,
              "prv": V.prv_versions, "pub": V.pub_versions}.get(a[0])
        if fn is None:
            raise BadOp()
        return lst(str, fn())
    if op == "ver_keys":
        return lst(str, wu.Version.key_versions(unstr(a[0])))
    if op == "ver_data":
        V = wu.Version
        fn = {"44": V.bip44_data, "49": V.bip49_data, "84": V.bip84_data}.get(a[0])
        if fn is None:
            raise BadOp()
        return lst(lambda kv: sx(kv[0]) + ":" + str(kv[1]), fn().items())
    if op == "path_pred":
        p = wu.Bip32Path.parse(unstr(a[0]))
        return " ".join([boolS(x) for x in (p.bip44, p.bip49, p.bip84, p.bitcoin_testnet,
                                            p.bitcoin_mainnet, p.external_chain)] + [str(p.bip())])
    if op == "path_eq":
        return boolS(wu.Bip32Path.parse(unstr(a[0])) == wu.Bip32Path.parse(unstr(a[1])))
    if op == "list_get":
        r = wu.list_get(unlist(int, a[0]), int(a[1]))
        return "none" if r is None else str(r)
    if op == "b85_from_xprv":
        o = bip85.BIP85DeterministicEntropy.from_xprv(unstr(a[0]), testnet=unbool(a[1]))
        return nodeS(o.master_node) + " " + boolS(o.testnet)
    if op == "b85_eq":
        B = bip85.BIP85DeterministicEntropy
        return boolS(B(master_node=unnode(a[0]), testnet=unbool(a[1])) ==
                     B(master_node=unnode(a[2]), testnet=unbool(a[3])))
    if op == "wallet_eq":
        return boolS(make_wallet(a[0]) == make_wallet(a[1]))
    if op == "priv_eq":
        return boolS(keys.PrivateKey(unhex(a[0])) == keys.PrivateKey(unhex(a[1])))
    if op == "pub_eq":
        return boolS(keys.PublicKey.parse(unhex(a[0])) == keys.PublicKey.parse(unhex(a[1])))
    if op == "paper_text":
        import contextlib
        import shutil
        import tempfile
        if a[0] not in ("json", "pprint", "export"):
            raise BadOp()
        w = make_wallet(a[1])
        if a[2] == "-":
            data = None
        elif a[2] == "empty":
            data = {}
        elif a[2].startswith("p:"):
            _, acct, lo, hi = a[2].split(":")
            data = cli.paranoia_mode(w.generate(account=int(acct), interval=(int(lo), int(hi))))
        else:
            acct, lo, hi = a[2].split(":")
            data = w.generate(account=int(acct), interval=(int(lo), int(hi)))
        ind = None if a[3] == "-" else int(a[3])
        if a[0] == "json":
            return sx(w.json(data=data, indent=ind))
        if a[0] == "pprint":
            out = io.StringIO()
            with contextlib.redirect_stdout(out):
                w.pprint(data=data, indent=ind)
            return sx(out.getvalue())
        tmp = tempfile.mkdtemp(prefix="verif_exp_")
        try:
            path = os.path.join(tmp, "out.json")
            if zlib_crc(a[1] + a[2]) % 2:
                # the API (unlike the CLI) may be pointed at a path that already holds an older, LONGER export: what is
                # read back must be exactly the new report, with nothing of the old content left behind it
                w.export_wallet(file_path=path, indent=4, data=w.generate(account=0, interval=(0, 3)))
                with open(path, "a") as f:
                    f.write(" " * 4096 + "OLD-CONTENT-TAIL")
            w.export_wallet(file_path=path, indent=ind, data=data)
            with open(path, newline="") as f:
                return sx(f.read())
        finally:
            shutil.rmtree(tmp, ignore_errors=True)
    if op == "wasabi_text":
        w = make_wallet(a[0])
        return sx(w.wasabi_json(indent=None if a[1] == "-" else int(a[1])))
    if op == "cli":
        return cli_run(a[0], unhex(a[1]), [] if a[2] == "=" else [unstr(x) for x in a[2].split(",")])[0]
    if op == "hist":
        w = make_wallet(a[0])
        if ALT[0]:
            _alt_master(w)
        return " ; ".join(hist_run(w, a[1].split(";")))
    raise KeyError("unknown op " + op)


def _snapshot(root):
    """every file (content), symlink (target) and directory below root"""
    out = {}
    for dp, dns, fns in os.walk(root):
        for nm in dns + fns:
            p_ = os.path.join(dp, nm)
            rel = os.path.relpath(p_, root)
            if os.path.islink(p_):
                out[rel] = "-> " + os.readlink(p_)
            elif os.path.isdir(p_):
                out[rel] = "<dir>"
            else:
                try:
                    out[rel] = open(p_, errors="replace").read()
                except OSError:
                    out[rel] = "<unreadable>"
    return out


class _InterruptAt:
    """crash point: the k-th HMAC-SHA512 call of the run (every child derivation and BIP85 request makes one) raises
    KeyboardInterrupt — what Ctrl-C / SIGINT does to a run that is in the middle of its derivations"""

    def __init__(self, k):
        self.k = k
        self.calls = 0

    def __enter__(self):
        _prf_lock.acquire()
        self.saved = (bip32.hmac_sha512, bip85.hmac_sha512)
        real = self.saved[0]

        def counting(key, msg):
            self.calls += 1
            if self.calls == self.k:
                raise KeyboardInterrupt()
            return real(key=key, msg=msg)
        bip32.hmac_sha512 = counting
        bip85.hmac_sha512 = counting
        return self

    def __exit__(self, *a):
        bip32.hmac_sha512, bip85.hmac_sha512 = self.saved
        _prf_lock.release()


def cli_run(fs, osbytes, argv, keep=None, interrupt_at=None):
    """Run `main()` in-process on argv (token `@F` = the --file path of class `fs`).
    Returns (canonical outcome, details dict)."""
    import contextlib
    import json
    import shutil
    import tempfile
    tmp = tempfile.mkdtemp(prefix="verif_cli_")
    try:
        path = os.path.join(tmp, "out.json")
        if fs == "file":
            with open(path, "w") as f:
                f.write("EXISTING")
        elif fs == "dir":
            path = os.path.join(tmp, "sub")
            os.mkdir(path)
        elif fs == "noparent":
            path = os.path.join(tmp, "missing", "out.json")
        # odd targets (real program only; outside the model's four classes): they pass or fail the validator in ways
        # of their own, and writing to them fails late
        elif fs == "parentfile":
            with open(os.path.join(tmp, "plain"), "w") as f:
                f.write("EXISTING")
            path = os.path.join(tmp, "plain", "out.json")
        elif fs == "trailslash":
            path = os.path.join(tmp, "out.json") + "/"
        elif fs in ("filetrail", "filetraildot"):          # an EXISTING file, named with a trailing "/" or "/."
            with open(os.path.join(tmp, "out.json"), "w") as f:
                f.write("EXISTING")
            path = os.path.join(tmp, "out.json") + ("/" if fs == "filetrail" else "/.")
        elif fs == "longname":
            path = os.path.join(tmp, "n" * 300 + ".json")
        elif fs == "symloop":
            os.symlink("loop", os.path.join(tmp, "loop"))
            path = os.path.join(tmp, "loop", "out.json")
        elif fs == "dangling":
            os.symlink(os.path.join(tmp, "nowhere", "x.json"), os.path.join(tmp, "out.json"))
            path = os.path.join(tmp, "out.json")
        # an EXISTING file named by another spelling of its path (real program only): `./`, a doubled slash, `sub/..`
        # through a real directory, `link/..` through a symlinked directory (the OS resolves the link BEFORE `..`, a
        # lexical clean-up does not), a symlink to the file, a path relative to the working directory
        elif fs.startswith("alias-"):
            kind_ = fs[6:]
            target = os.path.join(tmp, "out.json")
            if kind_ == "linkdotdot":
                os.makedirs(os.path.join(tmp, "real", "deep"))
                os.symlink(os.path.join("real", "deep"), os.path.join(tmp, "link"))
                target = os.path.join(tmp, "real", "out.json")
                path = os.path.join(tmp, "link", "..", "out.json")
            elif kind_ == "subdotdot":
                os.mkdir(os.path.join(tmp, "sub"))
                path = os.path.join(tmp, "sub", "..", "out.json")
            elif kind_ == "dotslash":
                path = os.path.join(tmp, ".", "out.json")
            elif kind_ == "dblslash":
                path = tmp + "//out.json"
            elif kind_ == "symfile":
                os.symlink("out.json", os.path.join(tmp, "alias.json"))
                path = os.path.join(tmp, "alias.json")
            elif kind_ == "relative":
                path = "out.json"                  # the run's working directory is the scratch directory
            elif kind_ == "reldotdot":
                path = os.path.join("..", os.path.basename(tmp), "out.json")
            else:
                raise BadOp()
            with open(target, "w") as f:
                f.write("EXISTING")
            alias_before = _snapshot(tmp)
        # files that already live next to the target (editor back-ups, temporary and look-alike names): whatever the
        # program does, every one of them must be byte-identical afterwards
        sib_dir = os.path.dirname(path)
        siblings = {}
        if fs in ("absent", "file") and os.path.isdir(sib_dir):
            base = os.path.basename(path)
            for nm in (base + ".tmp", base + "~", base + ".bak", base + ".new", base + ".part", base + ".lock",
                       "." + base + ".swp", "." + base + ".tmp", base[:-5] + ".tmp", base[:-5], "tmp", "wallet.json"):
                sp = os.path.join(sib_dir, nm)
                if not os.path.exists(sp):
                    siblings[nm] = "SIBLING " + nm
                    with open(sp, "w") as f:
                        f.write(siblings[nm])
        real = [path if t == "@F" else t for t in argv]
        out, err = io.StringIO(), io.StringIO()
        saved_argv = sys.argv
        saved_cwd = os.getcwd()
        sys.argv = ["btc_hd_wallet"] + real
        status = 0
        # the program runs with the scratch directory as working directory: anything it writes relative to the current
        # directory (a default file name, a temporary file) lands where it is seen and compared
        os.chdir(tmp if fs.startswith("alias-") else sib_dir if os.path.isdir(sib_dir) else tmp)
        try:
            with contextlib.redirect_stdout(out), contextlib.redirect_stderr(err), _Urandom(osbytes), \
                    _InterruptAt(interrupt_at) as intr:
                try:
                    cli.main()
                except SystemExit as e:
                    status = e.code if isinstance(e.code, int) else (0 if e.code is None else 1)
                except KeyboardInterrupt:
                    status = 130
                except BaseException:
                    status = 1
            hmac_calls = intr.calls
        finally:
            sys.argv = saved_argv
            os.chdir(saved_cwd)
        stdout = out.getvalue()
        for nm, content in siblings.items():
            sp = os.path.join(sib_dir, nm)
            if not os.path.isfile(sp) or open(sp).read() != content:
                return "existing-sibling-file-changed %s" % nm, {"status": status, "stdout": stdout, "created": None,
                                                                  "stderr": "", "sibling": nm}
        listing = sorted(x for x in os.listdir(tmp) if x not in siblings)
        created = None
        if fs.startswith("alias-"):
            after = _snapshot(tmp)
            if after != alias_before:
                changed = sorted(k_ for k_ in set(after) | set(alias_before) if after.get(k_) != alias_before.get(k_))
                if any(alias_before.get(k_) == "EXISTING" for k_ in changed):
                    return "overwrote-existing-file", {"status": status}
                return "unexpected-files %s" % changed, {"status": status}
            extra = []
        elif fs == "file":
            if open(path).read() != "EXISTING":
                return "overwrote-existing-file", {"status": status}
            extra = [x for x in listing if x != "out.json"]
        elif fs == "dir":
            extra = [x for x in listing if x != "sub"] + os.listdir(path)
        elif fs in ("parentfile", "trailslash", "longname", "symloop", "dangling", "filetrail", "filetraildot"):
            if fs == "parentfile" and open(os.path.join(tmp, "plain")).read() != "EXISTING":
                return "overwrote-existing-file", {"status": status}
            if fs in ("filetrail", "filetraildot"):
                if open(os.path.join(tmp, "out.json")).read() != "EXISTING":
                    return "overwrote-existing-file", {"status": status}
                listing = [x for x in listing if x != "out.json"]
            extra = [x for x in listing if x not in ("plain", "loop") and not (fs == "dangling" and x == "out.json"
                                                                              and os.path.islink(os.path.join(tmp, x)))]
        else:
            extra = listing
        if extra:
            if fs == "absent" and extra == ["out.json"]:
                created = open(path).read()
            else:
                return "unexpected-files %s" % extra, {"status": status}
        det = {"status": status, "stdout": stdout, "created": created, "stderr": err.getvalue()[-300:],
               "hmac_calls": hmac_calls}
        if status != 0:
            if created is not None:
                return "nonzero-status-but-file-created", det
            if stdout == "":
                return "reject", det
            if stdout.startswith("usage:") and "{" not in stdout.replace("{new,", "").replace("{new", ""):
                return "help", det
            return "nonzero-status-with-output " + sx(stdout[:200]), det
        try:
            if created is not None:
                if stdout != "":
                    return "file-and-stdout", det
                return "emit file " + jsonS(json.loads(created)), det
            return "emit stdout " + jsonS(json.loads(stdout)), det
        except ValueError:
            return "zero-status-output-not-json " + sx((created if created is not None else stdout)[:120]), det
    finally:
        shutil.rmtree(tmp, ignore_errors=True)


class HistCtx:
    """Handle tables of one client (thread) working on a shared wallet."""

    def __init__(self, w):
        self.w = w
        self.nodes = [w.master]
        self.gens = []
        self.path_buf = []      # ONE caller-owned list handed to derive_path again and again, modified in place
        self.export_dir = None

    def __del__(self):
        if getattr(self, "export_dir", None):
            import shutil
            shutil.rmtree(self.export_dir, ignore_errors=True)

    def do(self, opstr):
        try:
            return self._do(opstr)
        except (KeyboardInterrupt, SystemExit):
            raise
        except BaseException:
            return "err"

    def _new(self, node, parent):
        if node is not parent:
            self.nodes.append(node)
        return nodeS(node)

    def _do(self, opstr):
        t = opstr.split(":")
        w = self.w
        k = t[0]
        if k == "bp":
            n = w.by_path(unstr(t[1]))
            return self._new(n, w.master)
        if k == "ckd":
            par = self.nodes[int(t[1])]
            return self._new(par.ckd(int(t[2])), par)
        if k == "gc":
            par = self.nodes[int(t[1])]
            cs = par.generate_children(interval=(int(t[2]), int(t[3])))
            self.nodes.extend(cs)
            return "L " + " / ".join(nodeS(c) for c in cs)
        if k == "dp":
            par = self.nodes[int(t[1])]
            if ALT[0]:
                seq = _seq(unlist(int, t[2]))
            else:
                # the caller keeps its list and changes it in place between requests (the library must not hold on to it)
                self.path_buf[:] = unlist(int, t[2])
                seq = self.path_buf
            return self._new(par.derive_path(seq), par)
        if k == "ad":
            return "t" + sx(_none_err(addr_fn(w, t[2])(self.nodes[int(t[1])])))
        if k == "xk":
            return jsonS(w.node_extended_keys(self.nodes[int(t[1])]))
        if k == "ng":
            node = self.nodes[int(t[1])]
            self.gens.append(w.address_generator(node, addr_fn(w, t[2])))
            return "g%d" % (len(self.gens) - 1)
        if k == "nx":
            a, b = next(self.gens[int(t[1])])
            return "p%s %s" % (sx(a), sx(b))
        if k == "sd":
            a, b = self.gens[int(t[1])].send(int(t[2]))
            return "p%s %s" % (sx(a), sx(b))
        if k == "b85":
            app = ["mnemonic", "wif", "xprv", "hex", "pwd"][int(t[1])]
            return "t" + sx(_bip85_call(w.bip85, app, int(t[2]), int(t[3])))
        if k == "rep":
            return jsonS(w.generate(account=int(t[1]), interval=(int(t[2]), int(t[3]))))
        if k == "exp":
            # the report is EXPORTED to the client's one output file (the same path for the whole history: a later,
            # shorter export lands on an earlier, longer one) and the file is read back and parsed
            import json
            import tempfile
            if getattr(self, "export_dir", None) is None:
                self.export_dir = tempfile.mkdtemp(prefix="verif_hist_")
            path = os.path.join(self.export_dir, "wallet.json")
            w.export_wallet(file_path=path, indent=4 if int(t[3]) > 1 else None,
                            data=w.generate(account=int(t[1]), interval=(int(t[2]), int(t[3]))))
            with open(path, newline="") as f:
                return jsonS(json.loads(f.read()))
        if k == "was":
            import json
            return jsonS(json.loads(w.wasabi_json()))
        if k == "cl":
            # the client is done with an address generator and closes it; then asks for the root key
            self.gens[int(t[1])].close()
            k = "root"
        if k == "nw":
            # another wallet object over the SAME root node, then the first wallet's root key
            self.others = getattr(self, "others", []) + [type(w)(master=w.master, testnet=unbool(t[1]))]
            k = "root"
        if k == "root":
            m = w.master
            return "t" + sx(m.extended_private_key() if type(m) is bip32.PrvKeyNode else m.extended_public_key())
        raise KeyError(k)


def hist_run(w, ops):
    ctx = HistCtx(w)
    return [ctx.do(o) for o in ops]


def _bip85_call(b, app, param, index):
    if ALT[0]:
        # alternative form: the same request with POSITIONAL arguments
        if app == "mnemonic":
            return b.bip39_mnemonic(param, index)
        if app == "wif":
            return b.wif(index)
        if app == "xprv":
            return b.xprv(index)
        if app == "hex":
            return b.hex(param, index)
        if app == "pwd":
            return b.pwd(param, index)
    if app == "mnemonic":
        return b.bip39_mnemonic(word_count=param, index=index)
    if app == "wif":
        return b.wif(index=index)
    if app == "xprv":
        return b.xprv(index=index)
    if app == "hex":
        return b.hex(num_bytes=param, index=index)
    if app == "pwd":
        return b.pwd(pwd_len=param, index=index)
    raise KeyError(app)


def pyvalue(tok):
    """a Python value of a chosen type from a protocol token (see op bip85x)"""
    from decimal import Decimal
    from fractions import Fraction
    k, v = tok.split(":", 1)
    if k == "i":
        return int(v)
    if k == "f":
        return float(v)
    if k == "d":
        return Decimal(v)
    if k == "q":
        n_, d_ = v.split("/")
        return Fraction(int(n_), int(d_))
    if k == "s":
        return unstr(v)
    if k == "b":
        return v == "1"
    raise BadOp()


class BadOp(Exception):
    pass


def run_alt(line):
    """the same operation with byte strings as bytearray and paths as iterators — run TWICE on the same buffer
    objects, the second answer is returned: a call that modifies the caller's buffers gives itself away"""
    ALT[0] = True
    ALT_BUFFERS.clear()
    ALT_OBJECTS.clear()
    ALT_WIPED.clear()
    try:
        first = run_plain(line)
        second = run_plain(line)
        return second if second != first else first
    finally:
        ALT[0] = False
        ALT_BUFFERS.clear()
        ALT_OBJECTS.clear()
        ALT_WIPED.clear()


def run_mut(line):
    """the same operation twice, the caller EMPTYING every list / dict it was handed back after the first time (see
    _scribble): the second answer is returned — a library that hands out its own tables or cached results by reference
    gives itself away"""
    MUT[0] = True
    try:
        first = run_plain(line)
        second = run_plain(line)
        return second if second != first else first
    finally:
        MUT[0] = False


def run_thread(line):
    """the same operation executed in a fresh worker thread (not the thread that imported the library)"""
    box = []
    th = threading.Thread(target=lambda: box.append(run_plain(line)))
    th.start()
    th.join()
    return box[0] if box else "err"


def run_fork(line):
    """the same operation executed in a child process created by os.fork() AFTER the library was imported (what a
    multiprocessing fork worker or a pre-fork server does)"""
    if not hasattr(os, "fork"):
        return run_plain(line)
    r, w = os.pipe()
    pid = os.fork()
    if pid == 0:
        code = 0
        try:
            os.close(r)
            data = run_plain(line).encode()
            while data:
                data = data[os.write(w, data):]
        except BaseException:
            code = 1
        finally:
            os._exit(code)
    os.close(w)
    chunks = []
    while True:
        c = os.read(r, 1 << 16)
        if not c:
            break
        chunks.append(c)
    os.close(r)
    os.waitpid(pid, 0)
    return b"".join(chunks).decode() or "err"


def run_plain(line):
    tok = [t for t in line.strip().split(" ") if t]
    try:
        return "ok " + _run(tok)
    except BadOp:
        return "bad-op"
    except (KeyboardInterrupt, SystemExit):
        raise
    except BaseException:
        return "err"


# `run` is what the property oracles call for their follow-up operations (round trips, re-imports).  check.py rebinds it
# for the duration of an exploration (python -O child, worker thread, environment variants) so that the follow-ups run
# in the explored context too; everything in this module calls run_plain.
run = run_plain


class redirect:
    """with impl.redirect(fn): the oracles' follow-up operations go through fn"""

    def __init__(self, fn):
        self.fn = fn

    def __enter__(self):
        global run
        self.saved = run
        run = self.fn

    def __exit__(self, *a):
        global run
        run = self.saved


class Child:
    """a child interpreter that executes protocol lines (started with extra interpreter flags / environment)"""

    def __init__(self, flags=(), env=None):
        import subprocess
        code = ("import sys; sys.path.insert(0, %r)\nimport impl\n"
                "for l in sys.stdin:\n"
                "    l = l.rstrip('\\n')\n"
                "    print(impl.run_plain(l) if l else '', flush=True)\n" % HERE_)
        e = dict(os.environ)
        e.update(env or {})
        self.p = subprocess.Popen([sys.executable] + list(flags) + ["-c", code], stdin=subprocess.PIPE,
                                  stdout=subprocess.PIPE, stderr=subprocess.DEVNULL, text=True, cwd=HERE_, env=e)

    def run(self, line):
        try:
            self.p.stdin.write(line + "\n")
            self.p.stdin.flush()
            out = self.p.stdout.readline()
        except (BrokenPipeError, OSError):
            return "child-died"
        return out.rstrip("\n") if out else "child-died"

    def close(self):
        try:
            self.p.stdin.close()
            self.p.wait(timeout=10)
        except Exception:
            self.p.kill()
