#!/venv/bin/python
"""Translator, object layer: `bip32.py` (PubKeyNode / PrvKeyNode)  ->  Lean 4  (lean/BtcHd/Generated/CodeObj.lean).

Same contract as harness/translate.py (whose expression / statement walker it extends): on every run the methods listed
in TARGETS are read from /repo's working tree and re-emitted as Lean definitions (namespace BtcHd.CodeObj);
lean/BtcHd/Props/TrBip32.lean proves each equal to the model function the property theorems are about.  A construct
outside the subset, a changed signature or a changed set of overriding methods makes the function `translationFailed`
(an opaque constant nothing can be proved equal to) — a broken proof obligation, never a silent success.

What this layer maps BY TABLE (the translator's trusted base for the object layer; every entry is exercised by the
correspondence run through the functions that use it):

* a node object is the record `Bip32.Node`; `type(x) == PrvKeyNode` is the field `isPrv`; the attributes `key`,
  `chain_code`, `depth`, `index`, `testnet`, `parsed_version` are its fields.
* the `parent` REFERENCE is replaced by what is read through it: `parent is None` / truthiness of `parent` is the field
  `hasParent`; `self.parent.fingerprint()` is the field `parentFp`, which the constructor call `cls(..., parent=p)`
  fills with `p.fingerprint()` evaluated at construction (parents are never mutated: C13); `parsed_parent_fingerprint`
  is the same field for nodes without parent.  `children.append(child)` is dropped here: the children list is the
  business of the history model (`Model/History.lean`), whose theorems show that no answer depends on it.
* a `PrivateKey` object is its scalar (a `Nat`, validated by `Keys.mkPriv` = `SigningKey.from_string`: 32 bytes,
  1 <= k < n); `bytes(key)` is `Keys.privBytes`; `key.K` is `curve.mulGen`.  A `PublicKey` object is a curve point;
  `PublicKey.parse` is `curve.parse`, `.sec(compressed)` is `curve.sec`, `.point` is the point itself, `+` on points is
  `curve.add`, `== INFINITY` is `curve.isInf`, `PublicKey.from_point` is the identity.  `CURVE_ORDER` is `curve.n`.
* `hmac_sha512`, `hash160` are the primitives of the bundle `P`; the Base58 / integer helpers are the ALREADY
  TRANSLATED functions of `BtcHd.Code` (so the composition is translated end to end).
* `try: <pysecp256k1 call> except NameError: <body>` is `<body>`: in this sandbox (and in the model) the accelerated
  backend is absent, the names are undefined and the first thing the `try` block evaluates raises NameError.  The rule
  checks that the `try` block consists of exactly one statement that calls a pysecp256k1-only name / `tweak_add`.
* method resolution: `self.m` inside `PubKeyNode` resolves dynamically; for the names `PrvKeyNode` overrides a
  dispatcher `node_m` (on `isPrv`) is emitted.  The sets of methods of both classes are checked against the expected
  ones — an added override changes the resolution and fails the translation of everything.
"""
import ast
import os
import sys

HERE = os.path.dirname(os.path.abspath(__file__))
sys.path.insert(0, HERE)
import translate as T          # noqa: E402
from translate import Unsupported, Fn          # noqa: E402

REPO = os.environ.get("VERIF_REPO", "/repo")
OUT = os.path.join(os.environ.get("VERIF_LEAN_DIR") or os.path.join(os.path.dirname(HERE), "lean"),
                   "BtcHd", "Generated", "CodeObj.lean")

NODE = "Bip32.Node"
NODE_FIELDS = {"key": "key", "chain_code": "chainCode", "depth": "depth", "index": "index", "testnet": "testnet"}
BYTES_FIELDS = {"key", "chain_code"}
PYSECP_ONLY = {"ec_seckey_verify", "ec_pubkey_create", "ec_pubkey_serialize", "ec_pubkey_parse", "ec_seckey_tweak_add",
               "ec_pubkey_tweak_add", "tweak_add"}

EXPECT_METHODS = {
    "PubKeyNode": {"__init__", "__eq__", "public_key", "parent_fingerprint", "pub_version", "__repr__", "is_hardened",
                   "is_master", "is_root", "fingerprint", "parse", "_parse", "_serialize", "serialize_public",
                   "extended_public_key", "ckd", "generate_children", "derive_path"},
    "PrvKeyNode": {"private_key", "public_key", "prv_version", "master_key", "serialize_private",
                   "extended_private_key", "ckd"},
}
EXPECT_INIT = ("self.parent = parent\nself.key = key\nself.chain_code = chain_code\nself.depth = depth\n"
               "self.index = index\nself.parsed_parent_fingerprint = parent_fingerprint\nself.parsed_version = None\n"
               "self.testnet = testnet\nself.children = []")
EXPECT_INIT_ARGS = (["self", "key", "chain_code", "index", "depth", "testnet", "parent", "parent_fingerprint"],
                    ["0", "0", "False", "None", "None"])

# lean name -> (class, python name, kind of self, params [(py name, lean type)], return type, opts)
#   kind of self: "self" (instance method), "cls" (classmethod: a Bool `cls_isPrv` stands for the class), None
# opts: takesP (needs the primitive bundle), option, plus the options of translate.Fn
TARGETS = [
    ("pub_is_hardened", "PubKeyNode", "is_hardened", "self", [], "Bool", {}),
    ("pub_is_master", "PubKeyNode", "is_master", "self", [], "Bool", {}),
    ("pub_is_root", "PubKeyNode", "is_root", "self", [], "Bool", {}),
    ("prv_private_key", "PrvKeyNode", "private_key", "self", [], "Option Nat", {"takesP": True, "option": True}),
    ("prv_public_key", "PrvKeyNode", "public_key", "self", [], "Option Pt", {"takesP": True, "option": True}),
    ("pub_public_key", "PubKeyNode", "public_key", "self", [], "Option Pt", {"takesP": True, "option": True}),
    ("DISPATCH", "public_key", None, None, [], "Option Pt", {"takesP": True, "option": True}),
    ("pub_fingerprint", "PubKeyNode", "fingerprint", "self", [], "Option Bytes", {"takesP": True, "option": True}),
    ("pub_parent_fingerprint", "PubKeyNode", "parent_fingerprint", "self", [], "Bytes",
     {"predeclare": {"fingerprint": ("Option Bytes", "none")}, "optbytes": ["fingerprint"]}),
    ("pub_pub_version", "PubKeyNode", "pub_version", "self", [], "Nat", {}),
    ("prv_prv_version", "PrvKeyNode", "prv_version", "self", [], "Nat", {}),
    ("pub__serialize", "PubKeyNode", "_serialize", "self", [("key", "Bytes"), ("version", "Nat")], "Option Bytes",
     {"option": True, "lists": ["result"]}),
    ("pub_serialize_public", "PubKeyNode", "serialize_public", "self", [("version", "Option Nat")], "Option Bytes",
     {"takesP": True, "option": True, "optparams": ["version"]}),
    ("pub_extended_public_key", "PubKeyNode", "extended_public_key", "self", [("version", "Option Nat")],
     "Option (List Char)", {"takesP": True, "option": True, "optparams": ["version"]}),
    ("prv_serialize_private", "PrvKeyNode", "serialize_private", "self", [("version", "Option Nat")], "Option Bytes",
     {"takesP": True, "option": True, "optparams": ["version"]}),
    ("prv_extended_private_key", "PrvKeyNode", "extended_private_key", "self", [("version", "Option Nat")],
     "Option (List Char)", {"takesP": True, "option": True, "optparams": ["version"]}),
    ("prv_master_key", "PrvKeyNode", "master_key", "cls", [("bip39_seed", "Bytes"), ("testnet", "Bool")],
     "Option " + NODE, {"takesP": True, "option": True, "lists": ["I", "IL", "IR"]}),
    ("pub_ckd", "PubKeyNode", "ckd", "self", [("index", "Nat")], "Option " + NODE,
     {"takesP": True, "option": True, "lists": ["I", "IL", "IR"], "pks": ["Ki"], "points": ["point"]}),
    ("prv_ckd", "PrvKeyNode", "ckd", "self", [("index", "Nat")], "Option " + NODE,
     {"takesP": True, "option": True, "lists": ["I", "IL", "IR", "data"],
      "predeclare": {"data": ("Bytes", "[]")}, "retype_at": {"ki": (2, "ki_bytes")}}),
    ("DISPATCH", "ckd", None, None, [("index", "Nat")], "Option " + NODE, {"takesP": True, "option": True}),
    ("pub_generate_children", "PubKeyNode", "generate_children", "self", [("interval", "Nat × Nat")],
     "Option (List %s)" % NODE, {"takesP": True, "option": True}),
    ("pub_derive_path", "PubKeyNode", "derive_path", "self", [("index_list", "List Nat")], "Option " + NODE,
     {"takesP": True, "option": True, "nodes": ["node"]}),
    ("pub__parse", "PubKeyNode", "_parse", "cls", [("s", "Bytes"), ("testnet", "Bool")], NODE + " × Bytes",
     {"stream": "s", "nodes": ["key"], "lists": ["parent_fingerprint", "chain_code", "key_bytes"]}),
    ("pub_parse_str", "PubKeyNode", "parse", "cls", [("s", "List Char"), ("testnet", "Bool")], "Option " + NODE,
     {"takesP": True, "option": True, "isinstance": {"s": "str"}, "retype_at": {"s": (1, "s_io")}}),
    ("pub_parse_bytes", "PubKeyNode", "parse", "cls", [("s", "Bytes"), ("testnet", "Bool")], "Option " + NODE,
     {"takesP": True, "option": True, "isinstance": {"s": "bytes"}, "retype_at": {"s": (1, "s_io")}}),
]

SIG = {}            # (class, py name) -> python parameter names (without self/cls)
LEAN_OF = {}        # (class, py name) -> [lean names] (parse has two)
INFO = {t[0]: t for t in TARGETS if t[0] != "DISPATCH"}
DISPATCHED = {t[1] for t in TARGETS if t[0] == "DISPATCH"}
CLASS_ATTRS = {}    # "PubKeyNode.testnet_version" -> literal text
MODULE_CONSTS = {}  # HARDENED -> lean text


def lean_fn_for(cls_name, meth):
    """lean function that `self.meth` / `cls.meth` resolves to when written inside class `cls_name`"""
    if meth in DISPATCHED:
        return "node_" + meth
    for c in ([cls_name, "PubKeyNode"] if cls_name == "PrvKeyNode" else ["PubKeyNode", "PrvKeyNode"]):
        for ln, t in INFO.items():
            if t[1] == c and t[2] == meth and not t[6].get("isinstance"):
                return ln
    return None


class ObjFn(Fn):
    def __init__(self, node, lean_name, cls_name, selfkind, args, ret, opts):
        Fn.__init__(self, node, lean_name, args, ret, opts)
        self.cls_name = cls_name
        self.selfkind = selfkind
        self.nodes = set(opts.get("nodes", [])) | ({"self"} if selfkind == "self" else set())
        self.pks = set(opts.get("pks", []))
        self.sks = set(opts.get("sks", []))
        self.points = set(opts.get("points", []))
        self.optparams = set(opts.get("optparams", []))
        self.optbytes = set(opts.get("optbytes", []))
        self.assign_count = {}
        self.extra_names = {"hash256"}
        self.bytes_vars |= set(opts.get("lists", []))

    # ------------------------------------------------------------ kinds
    def is_node(self, e):
        return isinstance(e, ast.Name) and e.id in self.nodes

    def is_pk(self, e):
        if isinstance(e, ast.Name) and e.id in self.pks:
            return True
        if isinstance(e, ast.Attribute) and e.attr == "public_key" and self.is_node(e.value):
            return True
        if isinstance(e, ast.Attribute) and e.attr == "K" and self.is_sk(e.value):
            return True
        if isinstance(e, ast.Call) and isinstance(e.func, ast.Attribute) and isinstance(e.func.value, ast.Name) and \
                e.func.value.id == "PublicKey" and e.func.attr in ("parse", "from_point"):
            return True
        return False

    def is_sk(self, e):
        if isinstance(e, ast.Name) and e.id in self.sks:
            return True
        if isinstance(e, ast.Attribute) and e.attr == "private_key" and self.is_node(e.value):
            return True
        if isinstance(e, ast.Call) and isinstance(e.func, ast.Name) and e.func.id == "PrivateKey":
            return True
        if isinstance(e, ast.Call) and isinstance(e.func, ast.Attribute) and isinstance(e.func.value, ast.Name) and \
                e.func.value.id == "PrivateKey" and e.func.attr in ("parse",):
            return True
        return False

    def is_point(self, e):
        if isinstance(e, ast.Name) and e.id in self.points:
            return True
        if isinstance(e, ast.Attribute) and e.attr == "point" and (self.is_pk(e.value)):
            return True
        if isinstance(e, ast.BinOp) and isinstance(e.op, ast.Add) and self.is_point(e.left) and self.is_point(e.right):
            return True
        return False

    def is_listy(self, e):
        if isinstance(e, ast.Attribute) and e.attr in BYTES_FIELDS and self.is_node(e.value):
            return True
        if isinstance(e, ast.Attribute) and e.attr == "parent_fingerprint" and self.is_node(e.value):
            return True
        if isinstance(e, ast.Call) and isinstance(e.func, ast.Name) and e.func.id in ("bytes", "hmac_sha512", "hash160"):
            return True
        if isinstance(e, ast.Call) and isinstance(e.func, ast.Attribute) and e.func.attr == "sec":
            return True
        return Fn.is_listy(self, e)

    # ------------------------------------------------------------ expressions
    def kwargs_positional(self, e, params):
        """arguments of a call in the callee's parameter order (keywords resolved); missing ones -> None"""
        vals = {}
        for i, a in enumerate(e.args):
            if i >= len(params):
                raise Unsupported("too many arguments in " + ast.unparse(e))
            vals[params[i]] = a
        for k in e.keywords:
            if k.arg not in params or k.arg in vals:
                raise Unsupported("keyword %s in %s" % (k.arg, ast.unparse(e)))
            vals[k.arg] = k.value
        return [vals.get(p) for p in params]

    def ctor(self, e, isprv):
        """cls(...) / self.__class__(...): the record of the fields (`parent` abstracted as documented above)"""
        names, dflt = EXPECT_INIT_ARGS
        a = dict(zip(names[1:], self.kwargs_positional(e, names[1:])))
        if a["key"] is None or a["chain_code"] is None:
            raise Unsupported("constructor without key / chain code")

        def val(n, default):
            return self.expr(a[n]) if a[n] is not None else default
        parent = a["parent"]
        pfp = a["parent_fingerprint"]
        if parent is not None and not (isinstance(parent, ast.Constant) and parent.value is None):
            if not self.is_node(parent) or pfp is not None:
                raise Unsupported("constructor: parent form")
            p = self.expr(parent)
            if not self.option:
                raise Unsupported("constructor with parent in a total function")
            has, fp = "true", "some (← pub_fingerprint P %s)" % p
            path = "%s.path ++ [%s]" % (p, val("index", "0"))
        else:
            has = "false"
            fp = "none" if pfp is None or (isinstance(pfp, ast.Constant) and pfp.value is None) else \
                "some %s" % self.expr(pfp)
            path = "[]"
        return ("({ isPrv := %s, key := %s, chainCode := %s, depth := %s, index := %s, testnet := %s, hasParent := %s, "
                "parentFp := %s, path := %s, parsedVersion := none } : %s)" % (
                    isprv, val("key", None), val("chain_code", None), val("depth", "0"), val("index", "0"),
                    val("testnet", "false"), has, fp, path, NODE))

    def method_call(self, recv, meth, e):
        ln = lean_fn_for(self.cls_name, meth)
        if ln is None:
            raise Unsupported("method " + meth)
        if ln.startswith("node_"):
            t = next(t for t in TARGETS if t[0] == "DISPATCH" and t[1] == meth)
            params, opts = [p for p, _ in t[4]], t[6]
        else:
            t = INFO[ln]
            params, opts = [p for p, _ in t[4]], t[6]
        vals = self.kwargs_positional(e, params) if e is not None else []
        args = []
        for p, v in zip(params, vals):
            if v is None:
                dflt = SIG.get((t[1] if t[0] != "DISPATCH" else "PubKeyNode", meth), ([], {}))[1].get(p)
                if dflt is None:
                    raise Unsupported("missing argument %s of %s" % (p, meth))
                v = dflt
            ptype = dict(t[4])[p]
            if ptype.startswith("Option") and not (isinstance(v, ast.Name) and v.id in self.optparams) \
                    and not (isinstance(v, ast.Constant) and v.value is None):
                args.append("(some %s)" % self.expr(v))
            else:
                args.append(self.expr(v))
        txt = "(%s %s%s %s)" % (ln, "P " if opts.get("takesP") else "", recv, " ".join(args))
        txt = txt.replace("  ", " ").replace(" )", ")")
        if opts.get("stream") and not self.stream:
            txt = "%s.1" % txt           # a reading function also returns the unread rest; the caller drops it
        if opts.get("option"):
            if not self.option:
                raise Unsupported("option-returning method in a total function")
            return "(← %s)" % txt
        return txt

    def expr(self, e):
        if isinstance(e, ast.Name):
            if e.id == "CURVE_ORDER":
                return "P.curve.n"
            if e.id in MODULE_CONSTS:
                return MODULE_CONSTS[e.id]
        if isinstance(e, ast.Attribute):
            q = ast.unparse(e)
            if q in CLASS_ATTRS:
                return CLASS_ATTRS[q]
            if self.is_node(e.value):
                r = self.expr(e.value)
                if e.attr in NODE_FIELDS:
                    return "%s.%s" % (r, NODE_FIELDS[e.attr])
                if e.attr == "parsed_version":
                    return "%s.parsedVersion" % r
                if e.attr == "parsed_parent_fingerprint":
                    return "%s.parentFp" % r
                if e.attr in ("public_key", "private_key", "parent_fingerprint", "pub_version", "prv_version"):
                    return self.method_call(r, e.attr, None)
            if e.attr == "K" and self.is_sk(e.value):
                return "(P.curve.mulGen %s)" % self.expr(e.value)
            if e.attr == "point" and self.is_pk(e.value):
                return self.expr(e.value)
        if isinstance(e, ast.BinOp) and isinstance(e.op, ast.Add) and self.is_point(e.left) and self.is_point(e.right):
            return "(P.curve.add %s %s)" % (self.expr(e.left), self.expr(e.right))
        if isinstance(e, ast.IfExp) and isinstance(e.test, ast.Compare) and len(e.test.ops) == 1 and \
                isinstance(e.test.ops[0], ast.Is) and isinstance(e.test.left, ast.Name) and \
                e.test.left.id in self.optparams and isinstance(e.test.comparators[0], ast.Constant) and \
                e.test.comparators[0].value is None and isinstance(e.orelse, ast.Name) and e.orelse.id == e.test.left.id:
            # `A if v is None else v` for an optional parameter v
            return "(%s.getD %s)" % (self.ident(e.orelse.id), self.expr(e.body))
        if isinstance(e, ast.BoolOp) and isinstance(e.op, ast.Or) and len(e.values) == 2 and \
                isinstance(e.values[0], ast.Name) and e.values[0].id in self.optbytes:
            # `x or default` for x : None | bytes  (None and b"" are falsy)
            return "(match %s with | none => %s | some [] => %s | some f_ => f_)" % (
                self.ident(e.values[0].id), self.expr(e.values[1]), self.expr(e.values[1]))
        if isinstance(e, ast.Subscript) and not isinstance(e.slice, ast.Slice) and isinstance(e.value, ast.Attribute) \
                and e.value.attr in BYTES_FIELDS and self.is_node(e.value.value):
            return "((%s[%s]!).toNat)" % (self.expr(e.value), self.expr(e.slice))
        if isinstance(e, ast.ListComp) and len(e.generators) == 1 and not e.generators[0].ifs and \
                isinstance(e.generators[0].iter, ast.Call) and isinstance(e.generators[0].iter.func, ast.Name) and \
                e.generators[0].iter.func.id == "range" and len(e.generators[0].iter.args) == 1 and \
                isinstance(e.generators[0].iter.args[0], ast.Starred) and \
                isinstance(e.generators[0].iter.args[0].value, ast.Name) and isinstance(e.generators[0].target, ast.Name):
            # [f(i) for i in range(*interval)] with interval a pair (a, b)
            iv = self.ident(e.generators[0].iter.args[0].value.id)
            v = self.ident(e.generators[0].target.id)
            if not self.option:
                raise Unsupported("comprehension over fallible calls in a total function")
            body = self.expr(e.elt)
            if "←" not in body:
                return "((List.range' %s.1 (%s.2 - %s.1)).map (fun %s => %s))" % (iv, iv, iv, v, body)
            inner = body
            if inner.startswith("(← ") and inner.endswith(")") and "←" not in inner[3:]:
                return "(← (List.range' %s.1 (%s.2 - %s.1)).mapM (fun %s => %s))" % (iv, iv, iv, v, inner[3:-1])
            raise Unsupported("comprehension element " + body)
        return Fn.expr(self, e)

    def call(self, e, bind=True):
        f = e.func
        if isinstance(f, ast.Name):
            if f.id == "hmac_sha512":
                k, m = self.kwargs_positional(e, ["key", "msg"])
                return "(P.hmac512 %s %s)" % (self.expr(k), self.expr(m))
            if f.id == "hash160" and len(e.args) == 1:
                return "(Keys.hash160 P %s)" % self.expr(e.args[0])
            if f.id == "bytes" and len(e.args) == 1:
                a = e.args[0]
                if self.is_sk(a):
                    return "(Keys.privBytes %s)" % self.expr(a)
                if self.is_listy(a):
                    return self.expr(a)
                raise Unsupported("bytes() of " + ast.unparse(a))
            if f.id == "PrivateKey" and len(e.args) + len(e.keywords) == 1:
                a = self.kwargs_positional(e, ["sec_exp"])[0]
                if not self.is_listy(a):
                    raise Unsupported("PrivateKey(int)")
                return "(← Keys.mkPriv P.curve %s)" % self.expr(a)
            if f.id == "BytesIO" and len(e.args) == 1:
                return self.expr(e.args[0])              # the stream is the list of unread bytes
            if f.id == "cls" and self.selfkind == "cls":
                return self.ctor(e, "cls_isPrv")
            if f.id in T.KNOWN_FUNCS:
                e2 = ast.Call(func=f, args=list(e.args) + [k.value for k in e.keywords], keywords=[])
                # keywords -> positional needs the callee's parameter order
                callee_params = OBJ_HELPER_PARAMS.get(f.id)
                if callee_params and e.keywords:
                    e2 = ast.Call(func=f, args=self.kwargs_positional(e, callee_params), keywords=[])
                txt = Fn.call(self, e2, bind)
                return txt.replace(" hash256 ", " P.hash256 ", 1)
        if isinstance(f, ast.Attribute) and f.attr == "__class__" and self.is_node(f.value):
            return self.ctor(e, "%s.isPrv" % self.expr(f.value))
        if isinstance(f, ast.Attribute):
            if isinstance(f.value, ast.Name) and f.value.id == "PublicKey":
                if f.attr == "parse":
                    a = self.kwargs_positional(e, ["key_bytes"])[0]
                    return "(← P.curve.parse %s)" % self.expr(a)
                if f.attr == "from_point":
                    return self.expr(self.kwargs_positional(e, ["point"])[0])
            if isinstance(f.value, ast.Name) and f.value.id == "PrivateKey" and f.attr == "parse":
                a = self.kwargs_positional(e, ["key_bytes"])[0]
                return "(← Keys.mkPriv P.curve %s)" % self.expr(a)
            if f.attr == "sec" and self.is_pk(f.value):
                c = self.kwargs_positional(e, ["compressed"])[0]
                return "(P.curve.sec %s %s)" % ("true" if c is None else self.expr(c), self.expr(f.value))
            if f.attr == "fingerprint" and isinstance(f.value, ast.Attribute) and f.value.attr == "parent" and \
                    self.is_node(f.value.value) and not e.args and not e.keywords:
                return "%s.parentFp" % self.expr(f.value.value)      # self.parent.fingerprint(): see the header
            if isinstance(f.value, ast.Attribute) and f.value.attr == "__class__" and self.is_node(f.value.value):
                raise Unsupported("method on __class__")
            if self.is_node(f.value) or (isinstance(f.value, ast.Name) and f.value.id == "cls" and self.selfkind == "cls"):
                recv = self.expr(f.value) if self.is_node(f.value) else "cls_isPrv"
                return self.method_call(recv, f.attr, e)
        return Fn.call(self, e, bind)

    def cond(self, e):
        if isinstance(e, ast.Compare) and len(e.ops) == 1:
            l, op, r = e.left, e.ops[0], e.comparators[0]
            if isinstance(l, ast.Attribute) and l.attr == "parent" and self.is_node(l.value) and \
                    isinstance(r, ast.Constant) and r.value is None and isinstance(op, (ast.Is, ast.IsNot)):
                return "(%s.hasParent = %s)" % (self.expr(l.value), "false" if isinstance(op, ast.Is) else "true")
            if isinstance(op, (ast.Eq, ast.NotEq)) and isinstance(r, ast.Name) and r.id == "INFINITY" and self.is_point(l):
                return "(P.curve.isInf %s = %s)" % (self.expr(l), "true" if isinstance(op, ast.Eq) else "false")
        if isinstance(e, ast.Attribute) and e.attr == "parent" and self.is_node(e.value):
            return "(%s.hasParent = true)" % self.expr(e.value)       # node objects define no __bool__/__len__: truthy
        if isinstance(e, ast.Attribute) and e.attr == "testnet" and self.is_node(e.value):
            return "(%s.testnet = true)" % self.expr(e.value)
        if isinstance(e, ast.Call) and isinstance(e.func, ast.Attribute) and self.is_node(e.func.value) and \
                lean_fn_for(self.cls_name, e.func.attr) in INFO and INFO[lean_fn_for(self.cls_name, e.func.attr)][5] == "Bool":
            return "(%s = true)" % self.expr(e)
        return Fn.cond(self, e)

    # ------------------------------------------------------------ statements
    def _stmt(self, s, ind):
        if isinstance(s, ast.Try):
            ok = (len(s.body) == 1 and len(s.handlers) == 1 and not s.orelse and not s.finalbody and
                  isinstance(s.handlers[0].type, ast.Name) and s.handlers[0].type.id == "NameError" and
                  s.handlers[0].name is None)
            if ok:
                first = s.body[0]
                names = {n.func.id for n in ast.walk(first) if isinstance(n, ast.Call) and isinstance(n.func, ast.Name)} | \
                        {n.func.attr for n in ast.walk(first) if isinstance(n, ast.Call) and isinstance(n.func, ast.Attribute)}
                ok = bool(names & PYSECP_ONLY) and isinstance(first, (ast.Assign, ast.Expr, ast.Return))
            if not ok:
                raise Unsupported("try statement of another shape")
            out = []
            for b in s.handlers[0].body:
                out += self.stmt(b, ind)
            return out
        if isinstance(s, ast.Expr) and isinstance(s.value, ast.Call) and isinstance(s.value.func, ast.Attribute) and \
                s.value.func.attr == "append" and isinstance(s.value.func.value, ast.Attribute) and \
                s.value.func.value.attr == "children" and self.is_node(s.value.func.value.value):
            return [ind + "-- %s : the children list is not part of the node record (see Model/History.lean)" % ast.unparse(s)]
        if isinstance(s, ast.Assign) and len(s.targets) == 1 and isinstance(s.targets[0], ast.Tuple) and \
                isinstance(s.value, ast.Tuple) and len(s.value.elts) == len(s.targets[0].elts) and \
                all(isinstance(x, ast.Name) for x in s.targets[0].elts):
            tg = [x.id for x in s.targets[0].elts]
            used = {n.id for v in s.value.elts for n in ast.walk(v) if isinstance(n, ast.Name)}
            if used & set(tg):
                raise Unsupported("tuple assignment that reads its own targets")
            out = []
            for n, v in zip(tg, s.value.elts):
                out += self._stmt(ast.Assign(targets=[ast.Name(id=n, ctx=ast.Store())], value=v), ind)
            return out
        if isinstance(s, ast.Assign) and len(s.targets) == 1 and isinstance(s.targets[0], ast.Attribute) and \
                s.targets[0].attr == "parsed_version" and self.is_node(s.targets[0].value):
            n = self.expr(s.targets[0].value)
            return [ind + "%s := { %s with parsedVersion := some %s }" % (n, n, self.expr(s.value))]
        if isinstance(s, ast.Assign) and len(s.targets) == 1 and isinstance(s.targets[0], ast.Name):
            n = s.targets[0].id
            self.assign_count[n] = self.assign_count.get(n, 0) + 1
            ra = self.opts.get("retype_at", {}).get(n)
            if ra and self.assign_count[n] == ra[0]:
                rhs = self.expr(s.value)
                self.renamed[n] = ra[1]
                self.declared[-1].add(ra[1])
                self.declared[0].add(ra[1])
                if self.is_listy(s.value):
                    self.lists.add(n)
                    self.bytes_vars.add(n)
                return [ind + "let mut %s := %s" % (ra[1], rhs)]
            if self.is_pk(s.value):
                self.pks.add(n)
            if self.is_sk(s.value):
                self.sks.add(n)
            if self.is_point(s.value):
                self.points.add(n)
            if isinstance(s.value, ast.Call) and isinstance(s.value.func, (ast.Name, ast.Attribute)) and (
                    (isinstance(s.value.func, ast.Name) and s.value.func.id == "cls") or
                    (isinstance(s.value.func, ast.Attribute) and s.value.func.attr == "__class__")):
                self.nodes.add(n)
        return Fn._stmt(self, s, ind)

    def is_declared(self, n):
        if n in self.opts.get("predeclare", {}):
            return True
        return Fn.is_declared(self, n)

    def emit(self):
        body_nodes = list(self.node.body)
        spec = self.opts.get("isinstance")
        if spec:
            body_nodes = specialize(body_nodes, spec)
            self.node = ast.FunctionDef(name=self.node.name, args=self.node.args, body=body_nodes, decorator_list=[],
                                        lineno=0, col_offset=0)
        head_args = []
        if self.opts.get("takesP"):
            head_args.append("(P : Prims Pt)")
        if self.selfkind == "self":
            head_args.append("(self : %s)" % NODE)
        elif self.selfkind == "cls":
            head_args.append("(cls_isPrv : Bool)")
        head_args += ["(%s : %s)" % (self.ident(a), t) for a, t in self.args]
        body = self.block(self.node.body, "  ")
        pre = ["  let mut %s : %s := %s" % (self.ident(n), ty, v) for n, (ty, v) in self.opts.get("predeclare", {}).items()]
        assigned = {t.id for n in ast.walk(self.node) if isinstance(n, (ast.Assign, ast.AugAssign))
                    for t in (n.targets if isinstance(n, ast.Assign) else [n.target]) if isinstance(t, ast.Name)}
        if self.stream:
            assigned.add(self.stream)
        for a, _ in reversed(self.args):
            if a in assigned and a not in self.opts.get("retype_at", {}):
                pre.insert(0, "  let mut %s := %s" % (self.ident(a), self.ident(a)))
        kind = "do" if self.option else "Id.run do"
        head = "def %s %s%s : %s := %s" % (self.name, "{Pt : Type} " if self.opts.get("takesP") else "",
                                         " ".join(head_args), self.rettype, kind)
        note = ""
        if self.nat_subs:
            note = "-- Nat subtractions (the equivalence proof must justify them): " + "; ".join(self.nat_subs) + "\n"
        return note + head + "\n" + "\n".join(pre + body) + "\n"


OBJ_HELPER_PARAMS = {"decode_base58_checksum": ["s"], "encode_base58_checksum": ["data"],
                     "int_to_big_endian": ["n", "length"], "big_endian_to_int": ["b"]}


def specialize(stmts, spec):
    """evaluate `isinstance(v, T)` tests statically for the assumed input form (spec: variable -> 'str' | 'bytes')"""
    out = []
    for s in stmts:
        if isinstance(s, ast.If) and isinstance(s.test, ast.Call) and isinstance(s.test.func, ast.Name) and \
                s.test.func.id == "isinstance" and len(s.test.args) == 2 and isinstance(s.test.args[0], ast.Name) and \
                s.test.args[0].id in spec and isinstance(s.test.args[1], ast.Name):
            if s.test.args[1].id == spec[s.test.args[0].id]:
                out += specialize(s.body, spec)
            else:
                out += specialize(s.orelse, spec)
        elif isinstance(s, ast.Pass):
            continue
        else:
            out.append(s)
    return out


def class_table(tree):
    classes = {n.name: n for n in tree.body if isinstance(n, ast.ClassDef)}
    for c, exp in EXPECT_METHODS.items():
        if c not in classes:
            raise Unsupported("class %s not found" % c)
        got = {n.name for n in classes[c].body if isinstance(n, ast.FunctionDef)}
        if got != exp:
            raise Unsupported("methods of %s changed (method resolution): +%s -%s" % (
                c, sorted(got - exp), sorted(exp - got)))
    if [ast.unparse(b) for b in classes["PrvKeyNode"].bases] != ["PubKeyNode"] or \
            [ast.unparse(b) for b in classes["PubKeyNode"].bases] != ["object"]:
        raise Unsupported("base classes changed")
    for cname in ("PubKeyNode", "PrvKeyNode"):          # nothing but annotated attributes, __slots__ and methods
        for n in classes[cname].body:
            if isinstance(n, ast.AnnAssign) and isinstance(n.target, ast.Name) and isinstance(n.value, ast.Constant):
                if isinstance(n.value.value, int):
                    CLASS_ATTRS["%s.%s" % (cname, n.target.id)] = str(n.value.value)
            elif isinstance(n, ast.Assign) and ast.unparse(n.targets[0]) == "__slots__":
                pass
            elif isinstance(n, ast.FunctionDef):
                deco = [ast.unparse(d) for d in n.decorator_list]
                want = (["property"] if n.name in ("public_key", "private_key", "parent_fingerprint", "pub_version",
                                                   "prv_version") else
                        ["classmethod"] if n.name in ("parse", "_parse", "master_key") else [])
                if deco != want:
                    raise Unsupported("decorators of %s.%s changed: %s" % (cname, n.name, deco))
            elif isinstance(n, ast.Expr) and isinstance(n.value, ast.Constant):
                pass
            else:
                raise Unsupported("unexpected statement in class %s: %s" % (cname, ast.unparse(n)[:60]))
    init = next(n for n in classes["PubKeyNode"].body if isinstance(n, ast.FunctionDef) and n.name == "__init__")
    body = [b for b in init.body if not (isinstance(b, ast.Expr) and isinstance(b.value, ast.Constant))]
    if "\n".join(ast.unparse(b) for b in body) != EXPECT_INIT or \
            [a.arg for a in init.args.args] != EXPECT_INIT_ARGS[0] or \
            [ast.unparse(d) for d in init.args.defaults] != EXPECT_INIT_ARGS[1]:
        raise Unsupported("PubKeyNode.__init__ has another shape")
    for n in tree.body:
        if isinstance(n, ast.Assign) and len(n.targets) == 1 and isinstance(n.targets[0], ast.Name) and \
                n.targets[0].id == "HARDENED":
            MODULE_CONSTS["HARDENED"] = Fn(n, "_", [], "Nat", {}).expr(n.value)
    return classes


def translate_all():
    chunks, status = [], {}
    src = open(os.path.join(REPO, "btc_hd_wallet", "bip32.py"), encoding="utf-8").read()
    fatal = None
    classes = {}
    try:
        # the helpers of translate.py this layer calls must be known there (defaults of trailing parameters)
        T.translate_all()
        tree = ast.parse(src)
        classes = class_table(tree)
        for cname, cnode in classes.items():
            for n in cnode.body:
                if isinstance(n, ast.FunctionDef):
                    ps = [a.arg for a in n.args.args if a.arg not in ("self", "cls")]
                    dv = n.args.defaults
                    SIG[(cname, n.name)] = (ps, dict(zip(ps[len(ps) - len(dv):], dv)) if dv else {})
    except Unsupported as e:
        fatal = str(e)
    except SyntaxError as e:
        fatal = "syntax error: %s" % e
    for t in TARGETS:
        lean, cname, meth, selfkind, args, ret, opts = t
        if lean == "DISPATCH":
            name = "node_" + cname
            params = " ".join("(%s : %s)" % a for a in args)
            call = " ".join(a for a, _ in args)
            p = "P " if opts.get("takesP") else ""
            txt = ("def %s {Pt : Type} %s(self : %s) %s : %s :=\n  if self.isPrv = true then prv_%s %sself %s else pub_%s %sself %s\n"
                   % (name, "(P : Prims Pt) " if opts.get("takesP") else "", NODE, params, ret, cname, p, call, cname, p, call))
            if fatal:
                txt = "def %s {Pt : Type} (P : Prims Pt) (self : %s) %s : %s := Code.translationFailed _\n" % (name, NODE, params, ret)
            chunks.append("/-- dynamic dispatch of `%s` (overridden in `PrvKeyNode`) -/\n%s" % (cname, txt))
            continue
        try:
            if fatal:
                raise Unsupported(fatal)
            node = next((n for n in classes[cname].body if isinstance(n, ast.FunctionDef) and n.name == meth), None)
            if node is None:
                raise Unsupported("method not found")
            pyargs = [a.arg for a in node.args.args if a.arg not in ("self", "cls")]
            if pyargs != [a for a, _ in args]:
                raise Unsupported("parameter names changed: %s" % pyargs)
            if node.args.vararg or node.args.kwarg or node.args.kwonlyargs:
                raise Unsupported("signature shape")
            txt = ObjFn(node, lean, cname, selfkind, args, ret, opts).emit()
            status[lean] = "ok"
        except Unsupported as e:
            head = []
            if opts.get("takesP"):
                head.append("(P : Prims Pt)")
            head.append("(self : %s)" % NODE if selfkind == "self" else "(cls_isPrv : Bool)")
            head += ["(%s : %s)" % a for a in args]
            inh = "" if ret.startswith("Option") or ret in ("Bool", "Nat", "Bytes") else ""
            txt = ("-- TRANSLATION FAILED for %s.%s: %s\ndef %s %s%s : %s := Code.translationFailed _\n"
                   % (cname, meth, e, lean, "{Pt : Type} " if opts.get("takesP") else "", " ".join(head), ret))
            status[lean] = "FAILED: %s" % e
        chunks.append("/-- translated from `bip32.py` : `%s.%s` -/\n%s" % (cname, meth, txt))
    hdr = ("-- GENERATED by harness/translate_obj.py from /repo's working tree. Do not edit.\n"
           "import BtcHd.Generated.Code\nimport BtcHd.Model.Bip32\n\n"
           "set_option linter.unusedVariables false\n\n"
           "namespace BtcHd.CodeObj\nopen BtcHd BtcHd.Code\n\n"
           "instance : Inhabited Bip32.Node := ⟨⟨false, [], [], 0, 0, false, false, none, [], none⟩⟩\n\n")
    return hdr + "\n".join(chunks) + "\nend BtcHd.CodeObj\n", status


def main():
    text, status = translate_all()
    old = open(OUT, encoding="utf-8").read() if os.path.exists(OUT) else None
    if old != text:
        tmp = OUT + ".tmp%d" % os.getpid()
        open(tmp, "w", encoding="utf-8").write(text)
        os.replace(tmp, OUT)
    bad = {k: v for k, v in status.items() if v != "ok"}
    print("translate_obj: %d functions, %s%s" % (len(status), "changed" if old != text else "unchanged",
                                                (" ; FAILED: %s" % bad) if bad else ""))
    return status


if __name__ == "__main__":
    main()
