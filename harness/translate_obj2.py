#!/venv/bin/python
"""Translator, object layer II: the hash helpers of `helper.py`, the seed function of `bip39.py`, `keys.py`
(`PrivateKey`, `PublicKey`) and `base_wallet.py` (`BaseWallet`)  ->  Lean 4 (lean/BtcHd/Generated/CodeObj2.lean).

Same contract as harness/translate.py / translate_obj.py, whose walkers it extends; lean/BtcHd/Props/TrWallet.lean
proves each emitted function equal to the model function the property theorems are about.

Mapped BY TABLE here (trusted base of this layer, in addition to the tables of translate_obj.py):

* `hashlib.sha256(s).digest()`, `hmac.new(key=, msg=, digestmod=hashlib.sha512).digest()`,
  `hashlib.pbkdf2_hmac("sha512", a, b, PBKDF2_ROUNDS)`, `unicodedata.normalize("NFKD", s)` are the fields `sha256`,
  `hmac512`, `pbkdf2`, `nfkd` of the primitive bundle; `s.encode("utf-8")` is `Text.utf8`; `ripemd160` (repository
  code, `ripemd.py`) is the model's `Ripemd.ripemd160` (not translated: see DESIGN 10.11).
* a `BaseWallet` object is the record `Wallet.Wallet` (`master`, `testnet`, `mnemonic`, `password`); `self.bip85` is not
  a field of it (it is `None` exactly for watch-only wallets and otherwise determined by `master` / `testnet`).
* a `Bip32Path` object is the model's `Path.Path` (`Bip32Path.parse` is `Path.parse` — the translated parser is proved
  equal to it in Props/TrPath —, `.to_list()` is `.levels`, `.bip()` is `Path.bipOf`); a `Version` object is
  `Path.Version` (`Version(key_type=, testnet=, bip=)` the record, `int(v)` is `Version.toInt`, `Version.parse` the
  model's); `Key.PRV` / `Key.PUB` are 0 / 1 (`.value` the identity); `str(node)` is `Bip32.nodeRepr`.
* a `Script([...])` literal is the list of its commands (an `int` is an opcode, a `bytes` value a data element);
  `.raw_serialize()` is the TRANSLATED `Code.raw_serialize`; the script builders and `h160_to_* / h256_to_*` helpers are
  the translated functions of `BtcHd.Code`; node methods are the translated functions of `BtcHd.CodeObj`.
* `ecdsa.VerifyingKey.from_string(b, curve=SECP256k1)` is `curve.parse`, `vk.to_string(encoding=…)` is `curve.sec`,
  `SigningKey.from_string` + validity is `Keys.mkPriv` (as in translate_obj.py); `assert c` is `if not c: raise`.
"""
import ast
import os
import sys

HERE = os.path.dirname(os.path.abspath(__file__))
sys.path.insert(0, HERE)
import translate as T          # noqa: E402
import translate_obj as TO     # noqa: E402
from translate import Unsupported, Fn          # noqa: E402
from translate_obj import ObjFn, NODE          # noqa: E402

REPO = os.environ.get("VERIF_REPO", "/repo")
OUT = os.path.join(os.environ.get("VERIF_LEAN_DIR") or os.path.join(os.path.dirname(HERE), "lean"),
                   "BtcHd", "Generated", "CodeObj2.lean")
WAL = "Wallet.Wallet"

# lean name, file, class (None = module level), python name, ctx, params, return type, opts
TARGETS = [
    ("h_sha256", "helper.py", None, "sha256", "fn", [("s", "Bytes")], "Bytes", {"takesP": True}),
    ("h_hash256", "helper.py", None, "hash256", "fn", [("s", "Bytes")], "Bytes", {"takesP": True}),
    ("h_hash160", "helper.py", None, "hash160", "fn", [("s", "Bytes")], "Bytes", {"takesP": True}),
    ("h_hmac_sha512", "helper.py", None, "hmac_sha512", "fn", [("key", "Bytes"), ("msg", "Bytes")], "Bytes",
     {"takesP": True}),
    ("seed_from_mnemonic", "bip39.py", None, "bip39_seed_from_mnemonic", "fn",
     [("mnemonic", "List Char"), ("password", "List Char")], "Bytes",
     {"takesP": True, "strings": ["passphrase"], "lists": ["seed"]}),
    # ---- keys.py
    ("pk_sec", "keys.py", "PublicKey", "sec", "pk", [("compressed", "Bool")], "Bytes", {"takesP": True}),
    ("pk_parse", "keys.py", "PublicKey", "parse", "cls", [("key_bytes", "Bytes")], "Option Pt",
     {"takesP": True, "option": True}),
    ("pk_h160", "keys.py", "PublicKey", "h160", "pk", [("compressed", "Bool")], "Bytes", {"takesP": True}),
    ("pk_address", "keys.py", "PublicKey", "address", "pk",
     [("compressed", "Bool"), ("testnet", "Bool"), ("addr_type", "List Char")], "Option (List Char)",
     {"takesP": True, "option": True, "lists": ["h160"], "strings": ["addr_type"]}),
    ("sk_bytes", "keys.py", "PrivateKey", "__bytes__", "sk", [], "Bytes", {}),
    ("sk_parse", "keys.py", "PrivateKey", "parse", "cls", [("key_bytes", "Bytes")], "Option Nat",
     {"takesP": True, "option": True}),
    ("sk_from_int", "keys.py", "PrivateKey", "from_int", "cls", [("sec_exp", "Nat")], "Option Nat",
     {"takesP": True, "option": True}),
    ("sk_from_wif", "keys.py", "PrivateKey", "from_wif", "cls", [("wif_str", "List Char")], "Option Nat",
     {"takesP": True, "option": True, "lists": ["decoded"], "strings": ["wif_str"]}),
    # ---- base_wallet.py
    ("w_watch_only", "base_wallet.py", "BaseWallet", "watch_only", "wallet", [], "Bool", {}),
    ("w_p2pkh_address", "base_wallet.py", "BaseWallet", "p2pkh_address", "wallet", [("node", NODE)],
     "Option (List Char)", {"takesP": True, "option": True}),
    ("w_p2wpkh_address", "base_wallet.py", "BaseWallet", "p2wpkh_address", "wallet", [("node", NODE)],
     "Option (List Char)", {"takesP": True, "option": True}),
    ("w_p2sh_p2wpkh_address", "base_wallet.py", "BaseWallet", "p2sh_p2wpkh_address", "wallet", [("node", NODE)],
     "Option (List Char)", {"takesP": True, "option": True}),
    ("w_p2wsh_address", "base_wallet.py", "BaseWallet", "p2wsh_address", "wallet", [("node", NODE)],
     "Option (List Char)", {"takesP": True, "option": True, "lists": ["sha256_witness_script"],
                            "scripts": ["witness_script"]}),
    ("w_p2sh_p2wsh_address", "base_wallet.py", "BaseWallet", "p2sh_p2wsh_address", "wallet", [("node", NODE)],
     "Option (List Char)", {"takesP": True, "option": True, "lists": ["sha256_witness_script", "redeem_script"],
                            "scripts": ["witness_script"]}),
    ("w_by_path", "base_wallet.py", "BaseWallet", "by_path", "wallet", [("path", "List Char")], "Option " + NODE,
     {"takesP": True, "option": True, "retype_at": {"path": (1, "path_obj")}, "paths": ["path_obj"]}),
    ("w_from_bip39_seed_bytes", "base_wallet.py", "BaseWallet", "from_bip39_seed_bytes", "cls",
     [("bip39_seed", "Bytes"), ("testnet", "Bool")], "Option " + WAL, {"takesP": True, "option": True}),
    ("w_from_bip39_seed_hex", "base_wallet.py", "BaseWallet", "from_bip39_seed_hex", "cls",
     [("bip39_seed", "List Char"), ("testnet", "Bool")], "Option " + WAL,
     {"takesP": True, "option": True, "lists": ["seed_bytes"]}),
    ("w_from_mnemonic", "base_wallet.py", "BaseWallet", "from_mnemonic", "cls",
     [("mnemonic", "List Char"), ("password", "List Char"), ("testnet", "Bool")], "Option " + WAL,
     {"takesP": True, "option": True, "lists": ["bip39_seed"], "wallets": ["wallet"]}),
    ("w_from_entropy_hex", "base_wallet.py", "BaseWallet", "from_entropy_hex", "cls",
     [("entropy_hex", "List Char"), ("password", "List Char"), ("testnet", "Bool")], "Option " + WAL,
     {"takesP": True, "option": True, "strings": ["mnemonic"]}),
    ("w_from_extended_key", "base_wallet.py", "BaseWallet", "from_extended_key", "cls",
     [("extended_key", "List Char")], "Option " + WAL,
     {"takesP": True, "option": True, "versions": ["version"], "nodes": ["node"],
      "predeclare": {"node": (NODE, "default")}}),
    ("w_determine_node_version_int", "base_wallet.py", "BaseWallet", "determine_node_version_int", "wallet",
     [("node", NODE), ("key_type", "Nat")], "Option Path.Version",
     {"option": True, "paths": ["bip"], "versions": ["version"]}),
    ("w_node_extended_public_key", "base_wallet.py", "BaseWallet", "node_extended_public_key", "wallet",
     [("node", NODE)], "Option (List Char)", {"takesP": True, "option": True, "versions": ["version"]}),
    ("w_node_extended_private_key", "base_wallet.py", "BaseWallet", "node_extended_private_key", "wallet",
     [("node", NODE)], "Option (List Char)", {"takesP": True, "option": True, "versions": ["version"]}),
    ("w_node_extended_keys", "base_wallet.py", "BaseWallet", "node_extended_keys", "wallet",
     [("node", NODE)], "Option Wallet.Json", {"takesP": True, "option": True, "optstrs": ["prv"]}),
]
INFO = {t[0]: t for t in TARGETS}
BY_NAME = {}
for t in TARGETS:
    BY_NAME.setdefault((t[2], t[3]), t[0])
CODE_FUNCS = {  # translated functions of BtcHd.Code this layer calls: name -> (params, needs hash256, option)
    "h160_to_p2pkh_address": (["h160", "testnet"], True, False),
    "h160_to_p2sh_address": (["h160", "testnet"], True, False),
    "h160_to_p2wpkh_address": (["h160", "testnet", "witver"], False, True),
    "h256_to_p2wsh_address": (["h256", "testnet", "witver"], False, True),
    "p2wpkh_script": (["h160"], False, False),
    "p2wsh_script": (["h256"], False, False),
    "encode_base58_checksum": (["data"], True, False),
    "decode_base58_checksum": (["s"], True, True),
    "int_to_big_endian": (["n", "length"], False, True),
    "mnemonic_from_entropy": (["entropy"], "sha256", True),
}
CODE_DEFAULTS = {"witver": "0"}
NODE_METHODS = {  # node methods of CodeObj this layer calls: py name -> (lean fn, params, takesP, option)
    "extended_public_key": ("CodeObj.pub_extended_public_key", ["version"], True, True),
    "extended_private_key": ("CodeObj.prv_extended_private_key", ["version"], True, True),
    "derive_path": ("CodeObj.pub_derive_path", ["index_list"], True, True),
}


class WalletFn(ObjFn):
    def __init__(self, node, lean_name, cls_name, ctx, args, ret, opts, sigs):
        ObjFn.__init__(self, node, lean_name, cls_name or "", None, args, ret, opts)
        self.ctx = ctx
        self.sigs = sigs
        self.nodes = set(opts.get("nodes", [])) | {a for a, t in args if t == NODE}
        self.pks = set(opts.get("pks", [])) | ({"self"} if ctx == "pk" else set())
        self.sks = set(opts.get("sks", [])) | ({"self"} if ctx == "sk" else set())
        self.wallets = set(opts.get("wallets", [])) | ({"self"} if ctx == "wallet" else set())
        self.paths = set(opts.get("paths", []))
        self.versions = set(opts.get("versions", []))
        self.scripts = set(opts.get("scripts", []))
        self.optstrs = set(opts.get("optstrs", []))
        self.strings |= set(opts.get("strings", []))

    # -------------------------------------------------- kinds
    def is_node(self, e):
        if isinstance(e, ast.Attribute) and e.attr == "master" and isinstance(e.value, ast.Name) and e.value.id in self.wallets:
            return True
        return ObjFn.is_node(self, e)

    def is_listy(self, e):
        if isinstance(e, ast.Call) and isinstance(e.func, ast.Name) and e.func.id in ("sha256", "ripemd160", "hash256"):
            return True
        if isinstance(e, ast.Call) and isinstance(e.func, ast.Attribute) and e.func.attr in (
                "raw_serialize", "h160", "digest", "encode", "to_string"):
            return True
        if isinstance(e, ast.Name) and e.id in self.strings:
            return True
        return ObjFn.is_listy(self, e)

    def strlit(self, e):
        return isinstance(e, ast.Constant) and isinstance(e.value, str)

    # -------------------------------------------------- expressions
    def expr(self, e):
        if isinstance(e, ast.Constant) and isinstance(e.value, str) and len(e.value) == 1:
            pass
        if isinstance(e, ast.Name) and e.id == "PBKDF2_ROUNDS":
            if "PBKDF2_ROUNDS" not in MODULE_INTS:
                raise Unsupported("PBKDF2_ROUNDS is not a module-level integer literal")
            return "(%d : Nat)" % MODULE_INTS["PBKDF2_ROUNDS"]
        if isinstance(e, ast.Attribute):
            if isinstance(e.value, ast.Name) and e.value.id in self.wallets and e.attr in ("master", "testnet", "mnemonic", "password"):
                return "%s.%s" % (self.ident(e.value.id), e.attr)
            if isinstance(e.value, ast.Name) and e.value.id in self.wallets and e.attr == "watch_only":
                return "(w_watch_only %s)" % self.ident(e.value.id)
            if e.attr == "k" and isinstance(e.value, ast.Name) and e.value.id in self.sks and self.ctx == "sk":
                return "(Keys.privBytes %s)" % self.ident(e.value.id)         # the stored 32-byte string of the scalar
            if e.attr == "parsed_version" and isinstance(e.value, ast.Call):
                return "(%s).parsedVersion" % self.expr(e.value)
            if e.attr in ("testnet", "key_type") and isinstance(e.value, ast.Name) and e.value.id in self.versions:
                return "%s.%s" % (self.ident(e.value.id), {"testnet": "testnet", "key_type": "keyType"}[e.attr])
            q = ast.unparse(e)
            if q in ("Key.PRV", "Key.PRV.value"):
                return "(0 : Nat)"
            if q in ("Key.PUB", "Key.PUB.value"):
                return "(1 : Nat)"
            if e.attr == "value" and isinstance(e.value, ast.Name) and e.value.id == "key_type":
                return "key_type"
        if isinstance(e, ast.Dict):
            items = []
            for k, v in zip(e.keys, e.values):
                if not self.strlit(k):
                    raise Unsupported("dict key")
                if isinstance(v, ast.Name) and v.id in self.optstrs:
                    val = "(Wallet.optStr %s)" % self.ident(v.id)
                else:
                    val = "(Wallet.Json.str %s)" % self.expr(v)
                items.append("(%s, %s)" % (Fn.expr(self, k), val))
            return "(Wallet.Json.obj [%s])" % ", ".join(items)
        if isinstance(e, ast.IfExp) and isinstance(e.body, ast.Constant) and e.body.value is None:
            # `None if c else X`  (an optional text)
            x = self.expr(e.orelse)
            if "←" in x:
                return ("(← (if %s then pure (none : Option (List Char)) else (do pure (some %s) : Option (Option (List Char)))))"
                        % (self.cond(e.test), x))
            return "(if %s then (none : Option (List Char)) else some %s)" % (self.cond(e.test), x)
        return ObjFn.expr(self, e)

    def cond(self, e):
        if isinstance(e, ast.Compare) and len(e.ops) == 1 and isinstance(e.ops[0], (ast.Eq, ast.NotEq)):
            l, r = e.left, e.comparators[0]
            if isinstance(l, ast.Call) and isinstance(l.func, ast.Name) and l.func.id == "type" and len(l.args) == 1 and \
                    self.is_node(l.args[0]) and isinstance(r, ast.Name) and r.id in ("PubKeyNode", "PrvKeyNode"):
                want = "false" if r.id == "PubKeyNode" else "true"
                if isinstance(e.ops[0], ast.NotEq):
                    want = "true" if want == "false" else "false"
                return "(%s.isPrv = %s)" % (self.expr(l.args[0]), want)
            if isinstance(l, ast.Subscript) and isinstance(l.slice, ast.UnaryOp) and isinstance(l.slice.op, ast.USub) and \
                    isinstance(l.slice.operand, ast.Constant) and l.slice.operand.value == 1 and \
                    isinstance(r, ast.Constant) and isinstance(r.value, int) and self.is_listy(l.value):
                # bytes[-1] == n  (IndexError on the empty string: then the comparison is simply false here, and the
                # only caller has a non-empty value; the equivalence proof has to go through the model's `getLast?`)
                return "(%s.getLast? %s some (%d : UInt8))" % (self.expr(l.value), "=" if isinstance(e.ops[0], ast.Eq) else "≠", r.value)
            if self.strlit(r) and isinstance(l, ast.Name) and l.id in self.strings:
                op = "=" if isinstance(e.ops[0], ast.Eq) else "≠"
                v = r.value
                return "(%s %s ([%s] : List Char))" % (self.ident(l.id), op, ", ".join("Char.ofNat %d" % ord(c) for c in v))
        if isinstance(e, ast.Attribute) and e.attr == "watch_only":
            return "(%s = true)" % self.expr(e)
        if isinstance(e, ast.Attribute) and e.attr == "testnet":
            return "(%s = true)" % self.expr(e)
        return ObjFn.cond(self, e)

    def code_call(self, name, e):
        params, needs_h, opt = CODE_FUNCS[name]
        vals = self.kwargs_positional(e, params)
        args = []
        for p, v in zip(params, vals):
            if v is None:
                if p not in CODE_DEFAULTS:
                    raise Unsupported("missing argument %s of %s" % (p, name))
                args.append(CODE_DEFAULTS[p])
            else:
                args.append(self.expr(v))
        h = ["P.hash256"] if needs_h is True else ["P.sha256"] if needs_h == "sha256" else []
        txt = "(Code.%s %s)" % (name, " ".join(h + args))
        if opt:
            if not self.option:
                raise Unsupported("fallible helper in a total function")
            return "(← %s)" % txt
        return txt

    def own_call(self, lean, recv, e):
        t = INFO[lean]
        params = [p for p, _ in t[5]]
        vals = self.kwargs_positional(e, params) if e is not None else []
        defaults = self.sigs.get((t[2], t[3]), ([], {}))[1]
        args = []
        for p, v in zip(params, vals):
            if v is None:
                if p not in defaults:
                    raise Unsupported("missing argument %s of %s" % (p, t[3]))
                v = defaults[p]
            args.append(self.expr(v))
        parts = [lean] + (["P"] if t[7].get("takesP") else []) + ([recv] if recv else []) + args
        txt = "(%s)" % " ".join(parts)
        if t[7].get("option"):
            if not self.option:
                raise Unsupported("fallible callee in a total function")
            return "(← %s)" % txt
        return txt

    def call(self, e, bind=True):
        f = e.func
        q = ast.unparse(f)
        # ---- primitives
        if isinstance(f, ast.Attribute) and f.attr == "digest" and not e.args and isinstance(f.value, ast.Call):
            inner = f.value
            iq = ast.unparse(inner.func)
            if iq == "hashlib.sha256" and len(inner.args) == 1:
                return "(P.sha256 %s)" % self.expr(inner.args[0])
            if iq == "hmac.new":
                kw = {k.arg: k.value for k in inner.keywords}
                if set(kw) == {"key", "msg", "digestmod"} and ast.unparse(kw["digestmod"]) == "hashlib.sha512" and not inner.args:
                    return "(P.hmac512 %s %s)" % (self.expr(kw["key"]), self.expr(kw["msg"]))
            raise Unsupported("digest of " + iq)
        if q == "hashlib.pbkdf2_hmac" and len(e.args) == 4 and isinstance(e.args[0], ast.Constant) and e.args[0].value == "sha512":
            return "(P.pbkdf2 %s %s %s)" % (self.expr(e.args[1]), self.expr(e.args[2]), self.expr(e.args[3]))
        if q == "unicodedata.normalize" and len(e.args) == 2 and isinstance(e.args[0], ast.Constant) and e.args[0].value == "NFKD":
            return "(P.nfkd %s)" % self.expr(e.args[1])
        if isinstance(f, ast.Attribute) and f.attr == "encode" and len(e.args) == 1 and isinstance(e.args[0], ast.Constant) \
                and e.args[0].value == "utf-8":
            return "(Text.utf8 %s)" % self.expr(f.value)
        if isinstance(f, ast.Name) and f.id == "ripemd160" and len(e.args) == 1:
            return "(Ripemd.ripemd160 %s)" % self.expr(e.args[0])
        if isinstance(f, ast.Name) and f.id in ("sha256", "hash256", "hash160", "hmac_sha512") and self.ctx != "fn":
            lean = "h_" + f.id
            return self.own_call(lean, None, e)
        if isinstance(f, ast.Name) and f.id == "bip39_seed_from_mnemonic":
            return self.own_call("seed_from_mnemonic", None, e)
        if isinstance(f, ast.Name) and f.id in CODE_FUNCS:
            return self.code_call(f.id, e)
        if isinstance(f, ast.Name) and f.id == "str" and len(e.args) == 1 and self.is_node(e.args[0]):
            return "(Bip32.nodeRepr %s)" % self.expr(e.args[0])
        if isinstance(f, ast.Name) and f.id == "int" and len(e.args) == 1 and isinstance(e.args[0], ast.Name) and \
                e.args[0].id in self.versions:
            if not self.option:
                raise Unsupported("int(version) in a total function")
            return "(← Path.Version.toInt %s)" % self.ident(e.args[0].id)
        # ---- ecdsa (fall-back backend)
        if q == "ecdsa.VerifyingKey.from_string":
            a = e.args[0] if e.args else None
            kw = {k.arg: ast.unparse(k.value) for k in e.keywords}
            if a is None or kw != {"curve": "SECP256k1"}:
                raise Unsupported("VerifyingKey.from_string form")
            return "(← P.curve.parse %s)" % self.expr(a)
        if isinstance(f, ast.Name) and f.id == "cls" and self.ctx == "cls" and self.cls_name in ("PublicKey", "PrivateKey"):
            # PublicKey(pub_key) is the point; PrivateKey(sec_exp: bytes) validates the 32 bytes
            if self.cls_name == "PublicKey" and len(e.args) + len(e.keywords) == 1:
                a = e.args[0] if e.args else e.keywords[0].value
                return self.expr(a)
            a = self.kwargs_positional(e, ["sec_exp"])[0]
            return "(← Keys.mkPriv P.curve %s)" % self.expr(a)
        if isinstance(f, ast.Attribute) and f.attr == "to_string" and ast.unparse(f.value) == "self.K" and self.ctx == "pk":
            kw = {k.arg: k.value for k in e.keywords}
            enc = kw.get("encoding")
            if e.args or enc is None or not isinstance(enc, ast.IfExp) or not (
                    self.strlit(enc.body) and enc.body.value == "compressed" and self.strlit(enc.orelse)
                    and enc.orelse.value == "uncompressed"):
                raise Unsupported("to_string form")
            return "(P.curve.sec (decide %s) self)" % self.cond(enc.test)
        # ---- own classes
        if isinstance(f, ast.Attribute) and isinstance(f.value, ast.Name) and f.value.id == "self" and self.ctx in ("pk", "sk", "wallet"):
            lean = BY_NAME.get((self.cls_name, f.attr))
            if lean:
                return self.own_call(lean, "self", e)
        if isinstance(f, ast.Attribute) and isinstance(f.value, ast.Name) and f.value.id == "cls" and self.ctx == "cls":
            lean = BY_NAME.get((self.cls_name, f.attr))
            if lean:
                return self.own_call(lean, None, e)
        if isinstance(f, ast.Attribute) and self.is_pk(f.value) and f.attr in ("h160", "address"):
            lean = BY_NAME[("PublicKey", f.attr)]
            return self.own_call(lean, self.expr(f.value), e)
        if isinstance(f, ast.Attribute) and self.is_pk(f.value) and f.attr == "sec" and self.ctx != "pk":
            c = self.kwargs_positional(e, ["compressed"])[0]
            return "(pk_sec P %s %s)" % (self.expr(f.value), "true" if c is None else self.expr(c))
        if isinstance(f, ast.Attribute) and f.attr == "raw_serialize" and not e.args:
            v = f.value
            if isinstance(v, ast.Name) and v.id in self.scripts:
                return "(← Code.raw_serialize %s)" % self.ident(v.id)
            if isinstance(v, ast.Call) and isinstance(v.func, ast.Name) and v.func.id in ("p2wpkh_script", "p2wsh_script"):
                return "(← Code.raw_serialize %s)" % self.code_call(v.func.id, v)
            raise Unsupported("raw_serialize of " + ast.unparse(v))
        if isinstance(f, ast.Name) and f.id == "Script" and len(e.args) == 1 and isinstance(e.args[0], ast.List):
            items = []
            for x in e.args[0].elts:
                if isinstance(x, ast.Constant) and isinstance(x.value, int):
                    items.append("(Script.Cmd.op %d)" % x.value)
                elif self.is_listy(x):
                    items.append("(Script.Cmd.data %s)" % self.expr(x))
                else:
                    raise Unsupported("script element " + ast.unparse(x))
            return "([%s] : List Script.Cmd)" % ", ".join(items)
        # ---- nodes / paths / versions
        if q in ("PrvKeyNode.master_key",):
            a = self.kwargs_positional(e, ["bip39_seed", "testnet"])
            return "(← CodeObj.prv_master_key P true %s %s)" % (self.expr(a[0]), "false" if a[1] is None else self.expr(a[1]))
        if q in ("PrvKeyNode.parse", "PubKeyNode.parse"):
            a = self.kwargs_positional(e, ["s", "testnet"])
            if not (isinstance(a[0], ast.Name) and a[0].id in self.strings):
                raise Unsupported("node parse of a non-text")
            return "(← CodeObj.pub_parse_str P %s %s %s)" % ("true" if q.startswith("Prv") else "false", self.expr(a[0]),
                                                          "false" if a[1] is None else self.expr(a[1]))
        if q == "Bip32Path.parse":
            a = self.kwargs_positional(e, ["s"])[0]
            return "(← Path.parse %s)" % self.expr(a)
        if isinstance(f, ast.Attribute) and isinstance(f.value, ast.Name) and f.value.id in self.paths:
            if f.attr == "to_list" and not e.args:
                return "%s.levels" % self.ident(f.value.id)
            if f.attr == "bip" and not e.args:
                return "(Path.bipOf %s)" % self.ident(f.value.id)
        if q == "Version.parse":
            a = self.kwargs_positional(e, ["version_int"])[0]
            return "(← Path.Version.parse (← %s))" % self.expr(a)
        if q == "Version":
            a = self.kwargs_positional(e, ["key_type", "bip", "testnet"])
            return "({ keyType := %s, bip := %s, testnet := %s } : Path.Version)" % tuple(self.expr(x) for x in a)
        if isinstance(f, ast.Attribute) and self.is_node(f.value) and f.attr in NODE_METHODS:
            lean, params, takesP, opt = NODE_METHODS[f.attr]
            vals = self.kwargs_positional(e, params)
            args = []
            for p, v in zip(params, vals):
                if p == "version":
                    args.append("none" if v is None else "(some %s)" % self.expr(v))
                else:
                    args.append(self.expr(v))
            txt = "(%s %s%s %s)" % (lean, "P " if takesP else "", self.expr(f.value), " ".join(args))
            return "(← %s)" % txt if opt else txt
        if isinstance(f, ast.Name) and f.id == "cls" and self.ctx == "cls" and self.cls_name == "BaseWallet":
            a = self.kwargs_positional(e, ["master", "testnet"])
            return "({ master := %s, testnet := %s, mnemonic := none, password := none } : %s)" % (
                self.expr(a[0]), "false" if a[1] is None else self.expr(a[1]), WAL)
        return ObjFn.call(self, e, bind)

    # -------------------------------------------------- statements
    def _stmt(self, s, ind):
        if isinstance(s, ast.Assert):
            if not self.option:
                raise Unsupported("assert in a total function")
            return [ind + "if ¬ %s then" % self.cond(s.test), ind + "  none"]
        if isinstance(s, ast.Assign) and len(s.targets) == 1 and isinstance(s.targets[0], ast.Attribute) and \
                isinstance(s.targets[0].value, ast.Name) and s.targets[0].value.id in self.wallets and \
                s.targets[0].attr in ("mnemonic", "password"):
            n = self.ident(s.targets[0].value.id)
            return [ind + "%s := { %s with %s := some %s }" % (n, n, s.targets[0].attr, self.expr(s.value))]
        if isinstance(s, ast.Assign) and len(s.targets) == 1 and isinstance(s.targets[0], ast.Name):
            n = s.targets[0].id
            v = s.value
            if isinstance(v, ast.Call) and ast.unparse(v.func) in ("Bip32Path.parse",):
                self.paths.add(n)
            if isinstance(v, ast.Call) and ast.unparse(v.func) in ("Version.parse", "Version", "self.determine_node_version_int"):
                self.versions.add(n)
            if isinstance(v, ast.Call) and ast.unparse(v.func) in ("PrvKeyNode.parse", "PubKeyNode.parse", "PrvKeyNode.master_key"):
                self.nodes.add(n)
            if isinstance(v, ast.Call) and isinstance(v.func, ast.Name) and v.func.id == "Script":
                self.scripts.add(n)
            if isinstance(v, ast.Call) and isinstance(v.func, ast.Attribute) and isinstance(v.func.value, ast.Name) and \
                    v.func.value.id == "cls" and v.func.attr.startswith("from_"):
                self.wallets.add(n)
        return ObjFn._stmt(self, s, ind)

    def emit(self):
        head_args = []
        if self.opts.get("takesP"):
            head_args.append("(P : Prims Pt)")
        if self.ctx == "pk":
            head_args.append("(self : Pt)")
        elif self.ctx == "sk":
            head_args.append("(self : Nat)")
        elif self.ctx == "wallet":
            head_args.append("(self : %s)" % WAL)
        head_args += ["(%s : %s)" % (self.ident(a), t) for a, t in self.args]
        body = self.block(self.node.body, "  ")
        pre = ["  let mut %s : %s := %s" % (self.ident(n), ty, v) for n, (ty, v) in self.opts.get("predeclare", {}).items()]
        assigned = {t.id for n in ast.walk(self.node) if isinstance(n, (ast.Assign, ast.AugAssign))
                    for t in (n.targets if isinstance(n, ast.Assign) else [n.target]) if isinstance(t, ast.Name)}
        for a, _ in reversed(self.args):
            if a in assigned and a not in self.opts.get("retype_at", {}):
                pre.insert(0, "  let mut %s := %s" % (self.ident(a), self.ident(a)))
        kind = "do" if self.option else "Id.run do"
        needs_pt = self.opts.get("takesP") or self.ctx == "pk"
        head = "def %s %s%s : %s := %s" % (self.name, "{Pt : Type} " if needs_pt else "", " ".join(head_args),
                                         self.rettype, kind)
        return head + "\n" + "\n".join(pre + body) + "\n"


MODULE_INTS = {}


EXPECT_WALLET_INIT = ("self.master = master\nself.testnet = testnet\nself.mnemonic = None\nself.password = None\n"
                      "self.bip85 = BIP85DeterministicEntropy(master_node=self.master, testnet=self.testnet) "
                      "if not self.watch_only else None")


def translate_all():
    chunks, status = [], {}
    trees, fatal = {}, None
    try:
        T.translate_all()
        TO.translate_all()
        for f in sorted({t[1] for t in TARGETS}):
            trees[f] = ast.parse(open(os.path.join(REPO, "btc_hd_wallet", f), encoding="utf-8").read())
        MODULE_INTS.clear()
        for n in trees["bip39.py"].body:
            if isinstance(n, ast.Assign) and len(n.targets) == 1 and isinstance(n.targets[0], ast.Name) and \
                    isinstance(n.value, ast.Constant) and isinstance(n.value.value, int):
                MODULE_INTS[n.targets[0].id] = n.value.value
        bw = next(n for n in trees["base_wallet.py"].body if isinstance(n, ast.ClassDef) and n.name == "BaseWallet")
        init = next(n for n in bw.body if isinstance(n, ast.FunctionDef) and n.name == "__init__")
        body = [b for b in init.body if not (isinstance(b, ast.Expr) and isinstance(b.value, ast.Constant))]
        if "\n".join(ast.unparse(b) for b in body) != EXPECT_WALLET_INIT or \
                [a.arg for a in init.args.args] != ["self", "master", "testnet"]:
            raise Unsupported("BaseWallet.__init__ has another shape")
        for cname in ("PrivateKey", "PublicKey"):
            c = next(n for n in trees["keys.py"].body if isinstance(n, ast.ClassDef) and n.name == cname)
            slots = next((ast.unparse(n.value) for n in c.body if isinstance(n, ast.Assign) and
                          ast.unparse(n.targets[0]) == "__slots__"), None)
            if slots != {"PrivateKey": "('k', 'K')", "PublicKey": "'K'"}[cname]:
                raise Unsupported("slots of %s changed" % cname)
    except Unsupported as e:
        fatal = str(e)
    except (SyntaxError, StopIteration, OSError) as e:
        fatal = "cannot read sources: %r" % e
    sigs = {}
    for f, tree in trees.items():
        for n in tree.body:
            items = [(None, n)] if isinstance(n, ast.FunctionDef) else \
                [(n.name, m) for m in n.body if isinstance(m, ast.FunctionDef)] if isinstance(n, ast.ClassDef) else []
            for cname, fn in items:
                ps = [a.arg for a in fn.args.args if a.arg not in ("self", "cls")]
                dv = fn.args.defaults
                sigs[(cname, fn.name)] = (ps, dict(zip(ps[len(ps) - len(dv):], dv)) if dv else {})
    for lean, f, cname, meth, ctx, args, ret, opts in TARGETS:
        try:
            if fatal:
                raise Unsupported(fatal)
            tree = trees[f]
            scope = tree.body if cname is None else next(
                (n.body for n in tree.body if isinstance(n, ast.ClassDef) and n.name == cname), [])
            node = next((n for n in scope if isinstance(n, ast.FunctionDef) and n.name == meth), None)
            if node is None:
                raise Unsupported("function not found")
            pyargs = [a.arg for a in node.args.args if a.arg not in ("self", "cls")]
            if pyargs != [a for a, _ in args] and not (meth == "determine_node_version_int"):
                raise Unsupported("parameter names changed: %s" % pyargs)
            deco = [ast.unparse(d) for d in node.decorator_list]
            want = ["classmethod"] if ctx == "cls" else ["property"] if meth == "watch_only" else []
            if deco != want:
                raise Unsupported("decorators changed: %s" % deco)
            txt = WalletFn(node, lean, cname, ctx, args, ret, opts, sigs).emit()
            status[lean] = "ok"
        except Unsupported as e:
            head = []
            if opts.get("takesP"):
                head.append("(P : Prims Pt)")
            if ctx == "pk":
                head.append("(self : Pt)")
            elif ctx == "sk":
                head.append("(self : Nat)")
            elif ctx == "wallet":
                head.append("(self : %s)" % WAL)
            head += ["(%s : %s)" % a for a in args]
            needs_pt = opts.get("takesP") or ctx == "pk"
            txt = ("-- TRANSLATION FAILED for %s.%s: %s\ndef %s %s%s : %s := Code.translationFailed _\n"
                   % (cname, meth, e, lean, "{Pt : Type} " if needs_pt else "", " ".join(head), ret))
            status[lean] = "FAILED: %s" % e
        chunks.append("/-- translated from `%s` : `%s%s` -/\n%s" % (f, (cname + ".") if cname else "", meth, txt))
    hdr = ("-- GENERATED by harness/translate_obj2.py from /repo's working tree. Do not edit.\n"
           "import BtcHd.Generated.CodeObj\nimport BtcHd.Model.Wallet\n\n"
           "set_option linter.unusedVariables false\n\n"
           "namespace BtcHd.CodeObj2\nopen BtcHd BtcHd.Code BtcHd.CodeObj\n\n"
           "instance : Inhabited Wallet.Wallet := ⟨⟨default, false, none, none⟩⟩\n"
           "instance : Inhabited Wallet.Json := ⟨.null⟩\n"
           "instance : Inhabited Path.Version := ⟨⟨0, 0, false⟩⟩\n\n")
    return hdr + "\n".join(chunks) + "\nend BtcHd.CodeObj2\n", status


def main():
    text, status = translate_all()
    old = open(OUT, encoding="utf-8").read() if os.path.exists(OUT) else None
    if old != text:
        tmp = OUT + ".tmp%d" % os.getpid()
        open(tmp, "w", encoding="utf-8").write(text)
        os.replace(tmp, OUT)
    bad = {k: v for k, v in status.items() if v != "ok"}
    print("translate_obj2: %d functions, %s%s" % (len(status), "changed" if old != text else "unchanged",
                                                 (" ; FAILED: %s" % bad) if bad else ""))
    return status


if __name__ == "__main__":
    main()
