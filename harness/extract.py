#!/venv/bin/python
"""Regenerate lean/BtcHd/Generated/*.lean from /repo's current working tree.

Every constant the Lean model is defined over is read from the source on every
run: module-level values by importing the modules of the working tree,
function-local literals from the AST (with a behavioural probe as fall-back).
Files are rewritten only when their content changes so that an unchanged tree
costs a no-op `lake build`.
"""
import ast
import json
import importlib
import os
import sys

REPO = os.environ.get("VERIF_REPO", "/repo")
HERE = os.path.dirname(os.path.abspath(__file__))
OUT = os.path.join(os.environ.get("VERIF_LEAN_DIR") or os.path.join(os.path.dirname(HERE), "lean"), "BtcHd", "Generated")


def _fresh_import():
    for k in [k for k in sys.modules if k.startswith("btc_hd_wallet")]:
        del sys.modules[k]
    if REPO not in sys.path:
        sys.path.insert(0, REPO)
    importlib.invalidate_caches()
    mods = {}
    for name in ("helper", "bech32", "bip39", "bip32", "bip85", "keys",
                 "wallet_utils", "ripemd", "script", "base_wallet",
                 "paper_wallet", "__main__", "bip39_wordlist"):
        mods[name] = importlib.import_module("btc_hd_wallet." + name)
    return mods


def lean_chars(s):
    return "[" + ", ".join("Char.ofNat %d" % ord(c) for c in s) + "]"


def lean_nats(xs):
    return "[" + ", ".join(str(int(x)) for x in xs) + "]"


def lean_bytes(bs):
    return "[" + ", ".join(str(b) for b in bs) + "]"


def word_num(w):
    n = 0
    for ch in w.encode("utf-8"):
        n = n * 256 + ch
    return n


def _src(mod):
    with open(mod.__file__, "r", encoding="utf-8") as f:
        return f.read()


def _find_func(tree, name, cls=None):
    for node in ast.walk(tree):
        if cls is not None:
            if isinstance(node, ast.ClassDef) and node.name == cls:
                for sub in ast.walk(node):
                    if isinstance(sub, ast.FunctionDef) and sub.name == name:
                        return sub
        elif isinstance(node, ast.FunctionDef) and node.name == name:
            return node
    return None


def polymod_generator(bech32):
    """The five generator words of bech32_polymod: AST first, probe second."""
    try:
        fn = _find_func(ast.parse(_src(bech32)), "bech32_polymod")
        for node in ast.walk(fn):
            if isinstance(node, ast.List) and len(node.elts) == 5 and all(
                    isinstance(e, ast.Constant) and isinstance(e.value, int)
                    for e in node.elts):
                return [e.value for e in node.elts], "ast"
    except Exception:
        pass
    # linear probe: chk = 1 -> 32 ^ v ; with v = 32 ^ 2^(25+i) the next step
    # sees top = 2^i and (value 0) returns generator[i]
    gen = [bech32.bech32_polymod([32 ^ (1 << (25 + i)), 0]) for i in range(5)]
    return gen, "probe"


def int_literals(fn):
    out = []
    for node in ast.walk(fn):
        if isinstance(node, ast.Constant) and isinstance(node.value, int) \
                and not isinstance(node.value, bool):
            out.append(node.value)
    return out


def str_literals(fn):
    out = []
    for node in ast.walk(fn):
        if isinstance(node, ast.Constant) and isinstance(node.value, str):
            out.append(node.value)
    return out


def bytes_literals(fn):
    out = []
    for node in ast.walk(fn):
        if isinstance(node, ast.Constant) and isinstance(node.value, bytes):
            out.append(node.value)
    return out


def _b58decode_indep(s):
    alph = "123456789ABCDEFGHJKLMNPQRSTUVWXYZabcdefghijkmnopqrstuvwxyz"
    n = 0
    for c in s:
        n = n * 58 + alph.index(c)
    raw = n.to_bytes((n.bit_length() + 7) // 8, "big")
    z = len(s) - len(s.lstrip("1"))
    return b"\x00" * z + raw


def gather():
    m = _fresh_import()
    g = {}
    g["base58Alphabet"] = m["helper"].BASE58_ALPHABET
    g["charset"] = m["bech32"].CHARSET
    g["bech32mConst"] = m["bech32"].BECH32M_CONST
    g["polymodGen"], g["polymodGenHow"] = polymod_generator(m["bech32"])
    g["wordList"] = list(m["bip39_wordlist"].word_list)
    g["correctEntropyBits"] = list(m["bip39"].CORRECT_ENTROPY_BITS)
    g["correctMnemonicLength"] = list(m["bip39"].CORRECT_MNEMONIC_LENGTH)
    g["lenToBits"] = sorted(m["bip39"].MNEMONIC_LENGTH_TO_ENTROPY_BITS.items())
    g["pbkdf2Rounds"] = m["bip39"].PBKDF2_ROUNDS
    g["hardened"] = m["bip32"].HARDENED
    V = m["wallet_utils"].Version
    order_k = ["PUB", "PRV"]
    order_b = ["BIP44", "BIP49", "BIP84"]
    # (key type value, bip value, version) with PRV=0/PUB=1, BIP44=0/49=1/84=2
    kv = {"PRV": 0, "PUB": 1}
    bv = {"BIP44": 0, "BIP49": 1, "BIP84": 2}
    g["versionsMain"] = [(kv[k], bv[b], V.main[k][b]) for k in order_k for b in order_b]
    g["versionsTest"] = [(kv[k], bv[b], V.test[k][b]) for k in order_k for b in order_b]
    g["pubMain"] = m["bip32"].PubKeyNode.mainnet_version
    g["pubTest"] = m["bip32"].PubKeyNode.testnet_version
    g["prvMain"] = m["bip32"].PrvKeyNode.mainnet_version
    g["prvTest"] = m["bip32"].PrvKeyNode.testnet_version
    g["pubMark"] = m["bip32"].PubKeyNode.mark
    g["prvMark"] = m["bip32"].PrvKeyNode.mark
    r = m["ripemd"]
    for name in ("ML", "MR", "RL", "RR", "KL", "KR"):
        g["rmd" + name] = list(getattr(r, name))
    try:
        fn = _find_func(ast.parse(_src(r)), "ripemd160")
        init = None
        for node in ast.walk(fn):
            if isinstance(node, ast.Tuple) and len(node.elts) == 5 and all(
                    isinstance(e, ast.Constant) and isinstance(e.value, int)
                    for e in node.elts):
                init = [e.value for e in node.elts]
                break
        if init is None:
            # moved out of the function? any 5-int tuple/list of the module that is not one of the K tables
            for node in ast.walk(ast.parse(_src(r))):
                if isinstance(node, (ast.Tuple, ast.List)) and len(node.elts) == 5 and all(
                        isinstance(e, ast.Constant) and isinstance(e.value, int) for e in node.elts):
                    vals = [e.value for e in node.elts]
                    if vals not in (list(r.KL), list(r.KR)):
                        init = vals
                        break
        g["rmdInit"] = init or []
    except Exception:
        g["rmdInit"] = []
    g["bip85Key"] = m["bip85"].BIP85DeterministicEntropy.KEY
    # master HMAC key: the bytes literal in PrvKeyNode.master_key
    try:
        fn = _find_func(ast.parse(_src(m["bip32"])), "master_key", "PrvKeyNode")
        bl = [b for b in bytes_literals(fn)]
        g["masterKeyHmacKey"] = bl[0] if bl else b""
    except Exception:
        g["masterKeyHmacKey"] = b""
    # BIP39 salt prefix: string literals of bip39_seed_from_mnemonic
    try:
        fn = _find_func(ast.parse(_src(m["bip39"])), "bip39_seed_from_mnemonic")
        doc = ast.get_docstring(fn, clean=False)
        sl = [s for s in str_literals(fn)
              if s not in ("", "NFKD", "sha512", "utf-8") and s != doc]
        g["saltPrefix"] = sl[0] if sl else ""
    except Exception:
        g["saltPrefix"] = ""
    # --- behavioural probes (robust to refactoring); the AST values above are kept as fall-back -------------
    try:
        rec = []
        saved = m["bip32"].hmac_sha512
        m["bip32"].hmac_sha512 = lambda key, msg: (rec.append(bytes(key)), saved(key=key, msg=msg))[1]
        try:
            m["bip32"].PrvKeyNode.master_key(bip39_seed=bytes(range(16)))
        finally:
            m["bip32"].hmac_sha512 = saved
        if rec:
            g["masterKeyHmacKey"] = rec[0]
    except Exception:
        pass
    try:
        rec = []
        saved = m["bip85"].hmac_sha512
        m["bip85"].hmac_sha512 = lambda key, msg: (rec.append(bytes(key)), saved(key=key, msg=msg))[1]
        try:
            node = m["bip32"].PrvKeyNode.master_key(bip39_seed=bytes(range(16)))
            m["bip85"].BIP85DeterministicEntropy(master_node=node).entropy("m/0'")
        finally:
            m["bip85"].hmac_sha512 = saved
        if rec:
            g["bip85Key"] = rec[-1]
    except Exception:
        pass
    try:
        import hashlib as _hl
        rec = []
        saved = _hl.pbkdf2_hmac

        def spy(name, password, salt, iterations, dklen=None):
            rec.append((bytes(salt), iterations))
            return saved(name, password, salt, iterations, dklen)
        _hl.pbkdf2_hmac = spy
        try:
            m["bip39"].bip39_seed_from_mnemonic("x", "")
        finally:
            _hl.pbkdf2_hmac = saved
        if rec:
            g["saltPrefix"] = rec[0][0].decode("utf-8")
            g["pbkdf2Rounds"] = rec[0][1]
    except Exception:
        pass
    # address / WIF prefix bytes: behavioural probes (robust to refactoring)
    h = m["helper"]
    probe = bytes(range(1, 21))
    g["p2pkhMain"] = _b58decode_indep(h.h160_to_p2pkh_address(probe, False))[0]
    g["p2pkhTest"] = _b58decode_indep(h.h160_to_p2pkh_address(probe, True))[0]
    g["p2shMain"] = _b58decode_indep(h.h160_to_p2sh_address(probe, False))[0]
    g["p2shTest"] = _b58decode_indep(h.h160_to_p2sh_address(probe, True))[0]
    a_main = h.h160_to_p2wpkh_address(probe, False)
    a_test = h.h160_to_p2wpkh_address(probe, True)
    g["hrpMain"] = a_main[:a_main.rfind("1")] if a_main else ""
    g["hrpTest"] = a_test[:a_test.rfind("1")] if a_test else ""
    pk = m["keys"].PrivateKey(1)
    g["wifMain"] = _b58decode_indep(pk.wif(True, False))[0]
    g["wifTest"] = _b58decode_indep(pk.wif(True, True))[0]
    # BIP85 path templates (string literals containing '{}')
    tpl = {}
    tree = ast.parse(_src(m["bip85"]))
    for name in ("bip39_mnemonic", "wif", "xprv", "hex", "pwd"):
        fn = _find_func(tree, name, "BIP85DeterministicEntropy")
        ss = [s for s in str_literals(fn) if "{}" in s and s.startswith("m/")] if fn else []
        tpl[name] = ss[0] if ss else ""
    g["bip85Templates"] = tpl
    # bounds of BIP85 hex / pwd, from the comparison literals
    def _bounds(name):
        fn = _find_func(tree, name, "BIP85DeterministicEntropy")
        for node in ast.walk(fn):
            if isinstance(node, ast.Compare) and len(node.comparators) == 2:
                vals = [node.left] + node.comparators
                if isinstance(vals[0], ast.Constant) and isinstance(vals[2], ast.Constant):
                    return [vals[0].value, vals[2].value]
        return [0, 0]
    try:
        g["bip85HexBounds"] = _bounds("hex")
        g["bip85PwdBounds"] = _bounds("pwd")
    except Exception:
        g["bip85HexBounds"] = g["bip85PwdBounds"] = [0, 0]
    # behavioural probe of templates and bounds: record the path string handed to Bip32Path.parse
    try:
        B = m["bip85"].BIP85DeterministicEntropy
        node = m["bip32"].PrvKeyNode.master_key(bip39_seed=bytes(range(16)))
        b = B(master_node=node)
        rec = []
        savedp = m["bip85"].Bip32Path.parse

        def spy_parse(s_):
            rec.append(s_)
            return savedp(s_)
        m["bip85"].Bip32Path.parse = spy_parse
        try:
            def tpl_of(call, marks):
                del rec[:]
                try:
                    call()
                except Exception:
                    pass
                if not rec:
                    return None
                t_ = rec[0]
                for mk in marks:
                    t_ = t_.replace("/%d'" % mk, "/{}'", 1)
                return t_
            probes = {"bip39_mnemonic": tpl_of(lambda: b.bip39_mnemonic(word_count=24, index=59), [24, 59]),
                      "wif": tpl_of(lambda: b.wif(index=59), [59]),
                      "xprv": tpl_of(lambda: b.xprv(index=59), [59]),
                      "hex": tpl_of(lambda: b.hex(num_bytes=61, index=59), [61, 59]),
                      "pwd": tpl_of(lambda: b.pwd(pwd_len=61, index=59), [61, 59])}
            for k_, v_ in probes.items():
                if v_:
                    tpl[k_] = v_

            def accepted(fn):
                ok = []
                for n_ in range(0, 200):
                    del rec[:]
                    try:
                        fn(n_)
                        ok.append(n_)
                    except Exception:
                        if rec:          # got as far as deriving: the bound check passed
                            ok.append(n_)
                return [min(ok), max(ok)] if ok else [0, 0]
            g["bip85HexBounds"] = accepted(lambda n_: b.hex(num_bytes=n_, index=0))
            g["bip85PwdBounds"] = accepted(lambda n_: b.pwd(pwd_len=n_, index=0))
        finally:
            m["bip85"].Bip32Path.parse = savedp
        g["bip85Templates"] = tpl
    except Exception:
        pass
    # CLI bounds: probe the validators with a binary search-free direct call
    main = m["__main__"]
    def _max_ok(fn):
        # largest accepted value: validators accept [0, max)
        lo, hi = 0, 2 ** 40
        def ok(v):
            try:
                fn(str(v))
                return True
            except Exception:
                return False
        if not ok(0):
            return 0
        while hi - lo > 1:
            mid = (lo + hi) // 2
            if ok(mid):
                lo = mid
            else:
                hi = mid
        return hi
    g["cliAccountMax"] = _max_ok(main.account_index)
    g["cliAddressMax"] = _max_ok(main.address_index)
    # paranoia whitelist: list literal of strings in paranoia_mode
    try:
        fn = _find_func(ast.parse(_src(main)), "paranoia_mode")
        wl = []
        for node in ast.walk(fn):
            if isinstance(node, ast.List) and node.elts and all(
                    isinstance(e, ast.Constant) and isinstance(e.value, str)
                    for e in node.elts):
                wl = [e.value for e in node.elts]
        g["paranoiaKeys"] = wl
    except Exception:
        g["paranoiaKeys"] = []
    if not g["paranoiaKeys"]:
        # behavioural probe: which top-level keys survive the filter (decoys show a non-whitelist filter)
        try:
            entry = {"account_extended_keys": {"path": "p", "pub": "x", "prv": "y"}, "groups": [["a", "b", "c", "d"]]}
            probe = {"MASTER": {"mnemonic": "m", "password": "p"}, "BIP85": {"k": "v"}}
            for k in ("BIP44", "BIP49", "BIP84", "BIP86", "DECOY"):
                probe[k] = json.loads(json.dumps(entry))
            g["paranoiaKeys"] = [k for k in main.paranoia_mode(probe).keys()]
        except Exception:
            g["paranoiaKeys"] = []
    return g


def render(g):
    files = {}
    hdr = "-- GENERATED by harness/extract.py from /repo's working tree. Do not edit.\n"
    files["Base58.lean"] = hdr + (
        "namespace BtcHd.Generated\n\n"
        "def base58Alphabet : List Char := %s\n\n"
        "end BtcHd.Generated\n" % lean_chars(g["base58Alphabet"]))
    files["Bech32.lean"] = hdr + (
        "namespace BtcHd.Generated\n\n"
        "def charset : List Char := %s\n\n"
        "def bech32mConst : Nat := %d\n\n"
        "def polymodGen : List Nat := %s\n\n"
        "end BtcHd.Generated\n" % (lean_chars(g["charset"]), g["bech32mConst"],
                                   lean_nats(g["polymodGen"])))
    words = [word_num(w) for w in g["wordList"]]
    chunks = [words[i:i + 128] for i in range(0, len(words), 128)]
    body = "".join("def wordChunk%d : List Nat := %s\n\n" % (i, lean_nats(c))
                   for i, c in enumerate(chunks))
    body += "def wordNums : List Nat :=\n  " + " ++ ".join(
        "wordChunk%d" % i for i in range(len(chunks))) + "\n\n" if chunks else \
        "def wordNums : List Nat := []\n\n"
    files["Wordlist.lean"] = hdr + "namespace BtcHd.Generated\n\n" + body + \
        "end BtcHd.Generated\n"

    def triples(ts):
        return "[" + ", ".join("(%d, %d, %d)" % t for t in ts) + "]"
    files["Versions.lean"] = hdr + (
        "namespace BtcHd.Generated\n\n"
        "/-- (key type: PRV = 0, PUB = 1; bip: 44 = 0, 49 = 1, 84 = 2; version) -/\n"
        "def versionsMain : List (Nat × Nat × Nat) := %s\n\n"
        "def versionsTest : List (Nat × Nat × Nat) := %s\n\n"
        "def pubMain : Nat := %d\n\ndef pubTest : Nat := %d\n\n"
        "def prvMain : Nat := %d\n\ndef prvTest : Nat := %d\n\n"
        "def pubMark : List Char := %s\n\ndef prvMark : List Char := %s\n\n"
        "end BtcHd.Generated\n" % (
            triples(g["versionsMain"]), triples(g["versionsTest"]),
            g["pubMain"], g["pubTest"], g["prvMain"], g["prvTest"],
            lean_chars(g["pubMark"]), lean_chars(g["prvMark"])))
    files["Ripemd.lean"] = hdr + "namespace BtcHd.Generated\n\n" + "".join(
        "def rmd%s : List Nat := %s\n\n" % (n, lean_nats(g["rmd" + n]))
        for n in ("ML", "MR", "RL", "RR", "KL", "KR", "Init")) + \
        "end BtcHd.Generated\n"
    t = g["bip85Templates"]
    files["Misc.lean"] = hdr + (
        "namespace BtcHd.Generated\n\n"
        "def hardened : Nat := %d\n\n"
        "def pbkdf2Rounds : Nat := %d\n\n"
        "def correctEntropyBits : List Nat := %s\n\n"
        "def correctMnemonicLength : List Nat := %s\n\n"
        "def lenToBits : List (Nat × Nat) := %s\n\n"
        "def masterKeyHmacKey : List UInt8 := %s\n\n"
        "def bip85Key : List UInt8 := %s\n\n"
        "def saltPrefix : List Char := %s\n\n"
        "def p2pkhMain : UInt8 := %d\n\ndef p2pkhTest : UInt8 := %d\n\n"
        "def p2shMain : UInt8 := %d\n\ndef p2shTest : UInt8 := %d\n\n"
        "def wifMain : UInt8 := %d\n\ndef wifTest : UInt8 := %d\n\n"
        "def hrpMain : List Char := %s\n\ndef hrpTest : List Char := %s\n\n"
        "def bip85TplMnemonic : List Char := %s\n\n"
        "def bip85TplWif : List Char := %s\n\n"
        "def bip85TplXprv : List Char := %s\n\n"
        "def bip85TplHex : List Char := %s\n\n"
        "def bip85TplPwd : List Char := %s\n\n"
        "def bip85HexBounds : Nat × Nat := (%d, %d)\n\n"
        "def bip85PwdBounds : Nat × Nat := (%d, %d)\n\n"
        "def cliAccountMax : Nat := %d\n\n"
        "def cliAddressMax : Nat := %d\n\n"
        "def paranoiaKeys : List (List Char) := %s\n\n"
        "end BtcHd.Generated\n" % (
            g["hardened"], g["pbkdf2Rounds"],
            lean_nats(g["correctEntropyBits"]), lean_nats(g["correctMnemonicLength"]),
            "[" + ", ".join("(%d, %d)" % p for p in g["lenToBits"]) + "]",
            lean_bytes(g["masterKeyHmacKey"]), lean_bytes(g["bip85Key"]),
            lean_chars(g["saltPrefix"]),
            g["p2pkhMain"], g["p2pkhTest"], g["p2shMain"], g["p2shTest"],
            g["wifMain"], g["wifTest"],
            lean_chars(g["hrpMain"]), lean_chars(g["hrpTest"]),
            lean_chars(t["bip39_mnemonic"]), lean_chars(t["wif"]),
            lean_chars(t["xprv"]), lean_chars(t["hex"]), lean_chars(t["pwd"]),
            g["bip85HexBounds"][0], g["bip85HexBounds"][1],
            g["bip85PwdBounds"][0], g["bip85PwdBounds"][1],
            g["cliAccountMax"], g["cliAddressMax"],
            "[" + ", ".join(lean_chars(k) for k in g["paranoiaKeys"]) + "]"))
    return files


def write(files):
    os.makedirs(OUT, exist_ok=True)
    changed = []
    for name, text in files.items():
        p = os.path.join(OUT, name)
        old = None
        if os.path.exists(p):
            with open(p, "r", encoding="utf-8") as f:
                old = f.read()
        if old != text:
            tmp = p + ".tmp%d" % os.getpid()
            with open(tmp, "w", encoding="utf-8") as f:
                f.write(text)
            os.replace(tmp, p)
            changed.append(name)
    return changed


def main():
    g = gather()
    changed = write(render(g))
    print("extract: %d files, changed: %s (polymod generator via %s)" % (
        6, changed or "none", g["polymodGenHow"]))
    return g


if __name__ == "__main__":
    main()
