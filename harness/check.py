#!/venv/bin/python
"""Entry point behind /verif/check: decide one property.

  check.py <Cxx> [--tier quick|thorough] [--replay FILE] [--seed N]

Exit 0: property held on everything explored.  Exit 1: a line
`VIOLATION property=<id> replay=<path>[ no-failing-input-found]` was printed.
Exit 2: infrastructure problem / time-out (never a violation)."""
import argparse
import fcntl
import hashlib
import importlib
import json
import os
import random
import re
import subprocess
import sys
import time
import traceback

HERE = os.path.dirname(os.path.abspath(__file__))
VERIF = os.path.dirname(HERE)
LEAN = os.environ.get("VERIF_LEAN_DIR") or os.path.join(VERIF, "lean")     # override: a private copy (parallel seeded runs)
DRIVER = os.path.join(LEAN, ".lake", "build", "bin", "driver")
sys.path.insert(0, HERE)

FORBIDDEN = re.compile(
    r"\bsorry\b|\badmit\b|^\s*axiom\s|\bnative_decide\b|\bbv_decide\b|implemented_by|"
    r"\bunsafe\s|maxHeartbeats\s+0\b", re.M)
ALLOWED_AXIOMS = {"propext", "Classical.choice", "Quot.sound"}


def log(*a):
    print(*a, flush=True)


class Lock:
    def __enter__(self):
        self.f = open(os.path.join(LEAN, ".verif.lock") if os.environ.get("VERIF_LEAN_DIR") else os.path.join(VERIF, ".lock"), "w")
        fcntl.flock(self.f, fcntl.LOCK_EX)

    def __exit__(self, *a):
        fcntl.flock(self.f, fcntl.LOCK_UN)
        self.f.close()


def sh(cmd, cwd=None, timeout=None):
    p = subprocess.run(cmd, cwd=cwd, stdout=subprocess.PIPE, stderr=subprocess.STDOUT,
                       text=True, timeout=timeout)
    return p.returncode, p.stdout


def strip_comments(src):
    """remove Lean comments; string and character literals are copied verbatim (they may contain `--` or `/-`)"""
    out = []
    i = 0
    depth = 0
    n = len(src)
    while i < n:
        if depth:
            if src.startswith("/-", i):
                depth += 1
                i += 2
            elif src.startswith("-/", i):
                depth -= 1
                i += 2
            else:
                i += 1
            continue
        c = src[i]
        if c == '"':
            j = i + 1
            while j < n and src[j] != '"':
                j += 2 if src[j] == "\\" else 1
            out.append(src[i:j + 1])
            i = j + 1
        elif c == "'" and i + 2 < n and src[i + 1] != "\\" and src[i + 2] == "'":
            out.append(src[i:i + 3])
            i += 3
        elif c == "'" and i + 3 < n and src[i + 1] == "\\" and src[i + 3] == "'":
            out.append(src[i:i + 4])
            i += 4
        elif src.startswith("/-", i):
            depth += 1
            i += 2
        elif src.startswith("--", i):
            j = src.find("\n", i)
            i = n if j < 0 else j
        else:
            out.append(c)
            i += 1
    return "".join(out)


def forbidden_tokens():
    hits = []
    for root in (os.path.join(LEAN, "BtcHd"), os.path.join(LEAN, "Driver")):
        for d, _, fs in os.walk(root):
            for f in fs:
                if f.endswith(".lean"):
                    p = os.path.join(d, f)
                    src = strip_comments(open(p, encoding="utf-8").read())
                    # string literals may legitimately contain words; drop them
                    src = re.sub(r'"(\\.|[^"\\])*"', '""', src)
                    for m in FORBIDDEN.finditer(src):
                        hits.append("%s: %s" % (os.path.relpath(p, LEAN), m.group(0).strip()))
    return hits


def theorem_names(module):
    path = os.path.join(LEAN, module.replace(".", "/") + ".lean")
    if not os.path.exists(path):
        return []
    src = strip_comments(open(path, encoding="utf-8").read())
    ns = []
    names = []
    for line in src.splitlines():
        m = re.match(r"\s*namespace\s+(\S+)", line)
        if m:
            ns.append(m.group(1))
            continue
        m = re.match(r"\s*end\s+(\S+)", line)
        if m and ns and ns[-1].split(".")[-1] == m.group(1).split(".")[-1]:
            ns.pop()
            continue
        # private helpers are not property statements and cannot be named from outside
        m = re.match(r"\s*(?:@\[[^\]]*\]\s*)?(?:protected\s+)?theorem\s+(\S+)", line)
        if m:
            names.append(".".join(ns + [m.group(1)]))
    return names


def build_and_audit(prop_modules, need_driver=True, timeout=3000):
    """Returns (problems, info).  problems: list of strings naming the proof
    obligation that no longer checks."""
    problems = []
    info = {"obligations": 0, "discharged": 0, "axioms": {}, "theorems": []}
    targets = list(prop_modules) + (["driver"] if need_driver else [])
    t0 = time.time()
    rc, out = sh(["lake", "build"] + targets, cwd=LEAN, timeout=timeout)
    info["build_s"] = round(time.time() - t0, 1)
    info["driver_ok"] = os.path.exists(DRIVER)
    if rc != 0:
        # find which modules failed
        failed = re.findall(r"^- (\S+)", out, re.M)
        errs = [l for l in out.splitlines() if l.startswith("error:")][:12]
        problems.append("lake build failed: targets=%s failed=%s first-errors=%s" % (
            targets, failed, errs))
        # the driver may still be buildable on its own
        if need_driver:
            rc2, out2 = sh(["lake", "build", "driver"], cwd=LEAN, timeout=timeout)
            info["driver_ok"] = (rc2 == 0)
        info["build_log_tail"] = out[-3000:]
    names = []
    for m in prop_modules:
        names += theorem_names(m)
    info["theorems"] = names
    info["obligations"] = len(names)
    if rc == 0 and names:
        audit_dir = os.path.join(LEAN, ".lake", "audit")
        os.makedirs(audit_dir, exist_ok=True)
        key = hashlib.sha1(" ".join(prop_modules).encode()).hexdigest()[:10]
        f = os.path.join(audit_dir, "Audit_%s_%d.lean" % (key, os.getpid()))
        with open(f, "w") as fh:
            for m in prop_modules:
                fh.write("import %s\n" % m)
            for nme in names:
                fh.write("#print axioms %s\n" % nme)
        # the audit's output is a function of the compiled modules: re-use it while their .olean files are unchanged
        h = hashlib.sha1()
        for m in prop_modules:
            ol = os.path.join(LEAN, ".lake", "build", "lib", "lean", m.replace(".", "/") + ".olean")
            try:
                with open(ol, "rb") as fh_:
                    h.update(fh_.read())
            except OSError:
                h.update(b"missing")
        h.update("\n".join(names).encode())
        cache = os.path.join(audit_dir, "cache_%s.txt" % h.hexdigest()[:24])
        if os.path.exists(cache):
            rc3, out3 = 0, open(cache, encoding="utf-8").read()
            info["audit_cached"] = True
        else:
            rc3, out3 = sh(["lake", "env", "lean", f], cwd=LEAN, timeout=timeout)
            if rc3 == 0:
                with open(cache + ".tmp%d" % os.getpid(), "w", encoding="utf-8") as fh_:
                    fh_.write(out3)
                os.replace(cache + ".tmp%d" % os.getpid(), cache)
        os.unlink(f)
        flat = re.sub(r"\s+", " ", out3)
        for nme in names:
            m1 = re.search(r"'%s' depends on axioms: \[([^\]]*)\]" % re.escape(nme), flat)
            m2 = re.search(r"'%s' does not depend on any axioms" % re.escape(nme), flat)
            if m1:
                ax = [a.strip() for a in m1.group(1).split(",") if a.strip()]
            elif m2:
                ax = []
            else:
                problems.append("audit: no axiom report for %s (%s)" % (nme, out3[-400:]))
                continue
            info["axioms"][nme] = ax
            bad = [a for a in ax if a not in ALLOWED_AXIOMS]
            if bad:
                problems.append("audit: %s depends on non-standard axioms %s" % (nme, bad))
            else:
                info["discharged"] += 1
    hits = forbidden_tokens()
    if hits:
        problems.append("forbidden tokens in Lean sources: %s" % hits[:10])
    return problems, info


def run_driver(lines, timeout=3000):
    if not lines:
        return []
    p = subprocess.run([DRIVER], input="\n".join(lines) + "\n", stdout=subprocess.PIPE,
                       stderr=subprocess.PIPE, text=True, timeout=timeout)
    out = p.stdout.splitlines()
    if len(out) != len(lines):
        raise RuntimeError("driver returned %d lines for %d ops (rc=%s, stderr=%s)" % (
            len(out), len(lines), p.returncode, p.stderr[-500:]))
    return out


def source_literals(pid, exact_first=False):
    """integer literals (and their neighbours) appearing in the source files the property is anchored in:
    inputs for the literal-directed probe (catches `if x == <magic>` style changes that random inputs miss)"""
    import ast
    lits = set()
    try:
        props = [json.loads(l) for l in open(os.path.join(VERIF, "properties.jsonl"))]
        files = next(p["anchors"]["files"] for p in props if p["id"] == pid)
    except Exception:
        files = []
    repo = os.environ.get("VERIF_REPO", "/repo")
    for f in files:
        try:
            tree = ast.parse(open(os.path.join(repo, f), encoding="utf-8").read())
        except Exception:
            continue
        if f.endswith("bip39_wordlist/__init__.py"):
            continue
        for n in ast.walk(tree):
            if isinstance(n, ast.Constant) and isinstance(n.value, int) and not isinstance(n.value, bool):
                lits.add(n.value)
            if isinstance(n, ast.BinOp) and isinstance(n.op, ast.Pow) and isinstance(n.left, ast.Constant) \
                    and isinstance(n.right, ast.Constant) and isinstance(n.left.value, int) \
                    and isinstance(n.right.value, int) and 0 <= n.right.value <= 300 and abs(n.left.value) <= 300:
                lits.add(n.left.value ** n.right.value)
            if isinstance(n, ast.BinOp) and isinstance(n.op, (ast.LShift, ast.Mult)) and isinstance(n.left, ast.Constant) \
                    and isinstance(n.right, ast.Constant) and type(n.left.value) is int and type(n.right.value) is int:
                if isinstance(n.op, ast.LShift) and 0 <= n.right.value <= 64 and 0 < n.left.value <= 1024:
                    lits.add(n.left.value << n.right.value)
                elif isinstance(n.op, ast.Mult) and 0 < n.left.value <= 2 ** 20 and 0 < n.right.value <= 2 ** 20:
                    lits.add(n.left.value * n.right.value)
    out = set()
    for v in lits:
        for d in (-1, 0, 1):
            if v + d >= 0:
                out.add(v + d)
    exact = sorted(v for v in lits if v >= 0)
    if exact_first:
        return (exact + [v for v in sorted(out) if v not in lits])[:400]
    return sorted(out)[:400]


def source_strings(pid):
    """short string literals of the property's source files, with `{}` / `%s` / `%d` placeholders also filled in by small
    numbers: texts that mean something to the code (markers, separators, keys) offered to it as user text"""
    import ast
    try:
        props = [json.loads(l) for l in open(os.path.join(VERIF, "properties.jsonl"))]
        files = next(p["anchors"]["files"] for p in props if p["id"] == pid)
    except Exception:
        files = []
    repo = os.environ.get("VERIF_REPO", "/repo")
    out = []
    for f in files:
        if f.endswith("bip39_wordlist/__init__.py"):
            continue
        try:
            tree = ast.parse(open(os.path.join(repo, f), encoding="utf-8").read())
        except Exception:
            continue
        doc = set()
        for n in ast.walk(tree):
            if isinstance(n, (ast.FunctionDef, ast.ClassDef, ast.Module)):
                d = ast.get_docstring(n, clean=False)
                if d:
                    doc.add(d)
        for n in ast.walk(tree):
            if isinstance(n, ast.Constant) and isinstance(n.value, str) and 0 < len(n.value) <= 24 and \
                    n.value not in doc and "\n" not in n.value:
                v = n.value
                cand = [v]
                if "{" in v or "%" in v:
                    for k in (0, 1, 7):
                        try:
                            cand.append(v.format(k))
                        except Exception:
                            pass
                        try:
                            cand.append(v % k)
                        except Exception:
                            pass
                for c in cand:
                    if c not in out:
                        out.append(c)
    return out[:200]


def literal_probe(mod, pid, impl, known, max_ops=None):
    """run the property's operations at the source's own literals; returns oracle failures"""
    fn = getattr(mod, "literal_ops", None)
    if fn is None:
        return [], 0
    fails = []
    n = 0
    fs = getattr(mod, "literal_str_ops", None)
    if fs is not None:
        m_ = 0
        for txt in source_strings(pid):
            if max_ops is not None and m_ >= getattr(mod, "LITERAL_STR_BUDGET", 40):
                break
            for line in fs(txt):
                m_ += 1
                body = line.split(" #")[0]
                o = impl.run(body)
                try:
                    msg = mod.oracle(line, o)
                except Exception:
                    continue
                if msg and not mod.known_match(line, o, msg, known):
                    fails.append((line, msg))
    lits = source_literals(pid, exact_first=max_ops is not None)   # quick tier: the literals themselves first, then
    if max_ops is not None:                                         # their neighbours while the budget lasts
        lits = [v for v in lits if v <= 2 ** 16] + [v for v in lits if v > 2 ** 16]
    for lit in lits:
        if max_ops is not None and n >= max_ops:
            break
        for line in fn(lit):
            n += 1
            body = line.split(" #")[0]
            o = impl.run(body)
            try:
                msg = mod.oracle(line, o)
            except Exception:
                continue
            if msg and not mod.known_match(line, o, msg, known):
                fails.append((line, msg))
    return fails, n + (m_ if fs is not None else 0)


def source_env_vars():
    """environment variables the package reads by literal name -> candidate values (string literals of the same function
    plus common switch values)"""
    import ast
    repo = os.environ.get("VERIF_REPO", "/repo")
    out = {}
    pkg = os.path.join(repo, "btc_hd_wallet")
    for fn in sorted(os.listdir(pkg)) if os.path.isdir(pkg) else []:
        if not fn.endswith(".py"):
            continue
        try:
            tree = ast.parse(open(os.path.join(pkg, fn), encoding="utf-8").read())
        except Exception:
            continue
        scopes = [n for n in ast.walk(tree) if isinstance(n, (ast.FunctionDef, ast.Module))]
        consts = {t.id: n.value.value for n in tree.body if isinstance(n, ast.Assign) and isinstance(n.value, ast.Constant)
                  and isinstance(n.value.value, str) for t in n.targets if isinstance(t, ast.Name)}

        def name_of(e):
            """the variable's name: a literal, or a module-level text constant used in its place"""
            if isinstance(e, ast.Constant) and isinstance(e.value, str):
                return e.value
            if isinstance(e, ast.Name) and e.id in consts:
                return consts[e.id]
            return None
        for sc in scopes:
            names = []
            for n in ast.walk(sc):
                if isinstance(n, ast.Call) and ast.unparse(n.func) in ("os.environ.get", "os.getenv", "environ.get", "getenv") \
                        and n.args and name_of(n.args[0]):
                    names.append(name_of(n.args[0]))
                if isinstance(n, ast.Subscript) and ast.unparse(n.value) in ("os.environ", "environ") and name_of(n.slice):
                    names.append(name_of(n.slice))
                if isinstance(n, ast.Compare) and len(n.ops) == 1 and isinstance(n.ops[0], (ast.In, ast.NotIn)) and \
                        ast.unparse(n.comparators[0]) in ("os.environ", "environ") and name_of(n.left):
                    names.append(name_of(n.left))
            if names and not isinstance(sc, ast.Module):
                lits = [c.value for c in ast.walk(sc) if isinstance(c, ast.Constant) and isinstance(c.value, str)
                        and 0 < len(c.value) <= 24 and c.value not in names and "\n" not in c.value]
            else:
                lits = []
            for nm in names:
                vals = out.setdefault(nm, [])
                for v in lits + ["1", "true", "testnet", "0", "yes"]:
                    if v not in vals:
                        vals.append(v)
    return out


def load_known(pid):
    p = os.path.join(VERIF, "known_findings.json")
    if not os.path.exists(p):
        return []
    return [f for f in json.load(open(p))["findings"] if f["property"] == pid]


OUT_DIR = os.environ.get("VERIF_OUT_DIR") or VERIF      # override (seeded runs): evidence/ and replays/ go elsewhere


def write_evidence(pid, tier, seed, coverage, assumptions, wall, violations):
    os.makedirs(os.path.join(OUT_DIR, "evidence"), exist_ok=True)
    ev = {"property_id": pid, "tier": tier, "seed": seed, "level": "proof",
          "coverage": coverage, "assumptions": assumptions, "wall_s": round(wall, 2),
          "violations": violations}
    tmp = os.path.join(OUT_DIR, "evidence", ".%s.%d.tmp" % (pid, os.getpid()))
    with open(tmp, "w") as f:
        json.dump(ev, f, indent=1, sort_keys=True)
    os.replace(tmp, os.path.join(OUT_DIR, "evidence", pid + ".json"))


def write_replay(pid, seed, k, body):
    d = os.path.join(OUT_DIR, "replays")
    os.makedirs(d, exist_ok=True)
    p = os.path.join(d, "%s-%s-%d.json" % (pid, seed, k))
    with open(p, "w") as f:
        json.dump(body, f, indent=1)
    return os.path.relpath(p, OUT_DIR)


def main():
    ap = argparse.ArgumentParser()
    ap.add_argument("pid")
    ap.add_argument("--tier", default=os.environ.get("VERIF_TIER", "quick"))
    ap.add_argument("--seed", type=int, default=int(os.environ.get("VERIF_SEED", "0") or 0))
    ap.add_argument("--replay", default=None)
    args = ap.parse_args()
    pid, tier, seed = args.pid, args.tier, args.seed
    if tier not in ("quick", "thorough"):
        tier = "quick"
    t0 = time.time()
    try:
        return decide(pid, tier, seed, args.replay, t0)
    except subprocess.TimeoutExpired as e:
        log("TIMEOUT: %s" % e)
        return 2
    except Exception:
        traceback.print_exc()
        log("INFRASTRUCTURE-ERROR (not a violation)")
        return 2


def decide(pid, tier, seed, replay, t0):
    import extract
    with Lock():
        g = extract.main()
        import translate
        tr_status = translate.main()
        import translate_obj
        tr_status.update(translate_obj.main())
        import translate_obj2
        tr_status.update(translate_obj2.main())
        import translate_obj3
        tr_status.update(translate_obj3.main())
        import translate_obj4
        tr_status.update(translate_obj4.main())
        import translate_obj5
        tr_status.update(translate_obj5.main())
        import translate_obj6
        tr_status.update(translate_obj6.main())
        mod = importlib.import_module("props." + pid.lower())
        prop_modules = [m for m in mod.LEAN_MODULES
                        if os.path.exists(os.path.join(LEAN, m.replace(".", "/") + ".lean"))]
        if tier == "thorough":
            # translation tie: the Python functions re-emitted as Lean by harness/translate.py are PROVED equal to the
            # model functions (thorough tier only: a harmless rewrite of those functions breaks these proofs)
            prop_modules += [m for m in getattr(mod, "LEAN_MODULES_THOROUGH", [])
                             if os.path.exists(os.path.join(LEAN, m.replace(".", "/") + ".lean"))]
        if len(prop_modules) < len(mod.LEAN_MODULES):
            log("note: theorem module(s) not present yet: %s (property not claimed in MANIFEST until they exist)" % (
                sorted(set(mod.LEAN_MODULES) - set(prop_modules))))
        problems, info = build_and_audit(prop_modules)
        if tier == "thorough" and not problems:
            rc, out = sh(["lake", "env", "leanchecker"] + prop_modules, cwd=LEAN, timeout=3000)
            info["leanchecker"] = "ok" if rc == 0 else "FAILED: " + out[-500:]
            if rc != 0:
                problems.append("leanchecker rejected %s: %s" % (prop_modules, out[-300:]))
    import impl
    rng = random.Random(seed * 1000003 + int(pid[1:]))
    known = load_known(pid)
    known_lines = []
    failures = []          # (line, message) : property fails on the real code
    # ---- replay of a recorded case
    if replay:
        body = json.load(open(replay))
        lines = [c["line"] for c in body.get("cases", []) if "line" in c]
        ctx = {c["line"]: c.get("context", []) for c in body.get("cases", []) if "line" in c}
        for l in lines:
            for cl in ctx.get(l, []):       # the operations that preceded it in the run (state kept between calls)
                impl.run(cl.split(" #")[0])
            # the recorded case is run as it was found: plainly, and in each explored form / context (byte strings as
            # bytearray and positional arguments, worker thread, forked child)
            for how, runner in (("", impl.run_plain), (" [alternative argument forms]", impl.run_alt),
                                (" [worker thread]", impl.run_thread), (" [forked child]", impl.run_fork)):
                io_ = runner(l.split(" #")[0])
                with impl.redirect(runner):
                    msg = mod.oracle(l, io_)
                log("replay%s: %s -> impl %s ; oracle: %s" % (how, l, io_, msg or "holds"))
                if msg and not mod.known_match(l, io_, msg, known):
                    failures.append((l, msg))
                    break
        if failures:
            log("VIOLATION property=%s replay=%s" % (pid, replay))
            return 1
        return 0
    # ---- fixed findings must stay fixed
    fixed_checked = 0
    for f in known:
        if f["kind"] != "fixed":
            continue
        for l in f.get("lines", []):
            got = impl.run(l["line"])
            fixed_checked += 1
            ok = (got == l["expect"]) if not l["expect"].endswith("*") else got.startswith(l["expect"][:-1])
            if not ok and l.get("or_err") and got.startswith("err"):
                ok = True       # a refusal satisfies the property here as well
            if not ok:
                failures.append((l["line"], "fixed finding %s has returned: expected %s, real code gives %s" % (
                    f["id"], l["expect"], got)))
    # ---- correspondence
    cases = list(mod.cases(rng, tier))
    full_lines = [c[0] for c in cases]          # may carry " #meta" for the oracle only
    lines = [l.split(" #")[0] for l in full_lines]
    branches = {}
    for c in cases:
        branches[c[1]] = branches.get(c[1], 0) + 1
    impl_out, impl_t = [], []
    for l in lines:
        t_l = time.time()
        impl_out.append(impl.run(l))
        impl_t.append(time.time() - t_l)

    def within_budget(idx, seconds):
        """prefix of idx whose operations took at most `seconds` in the main run (the re-runs below cost as much)"""
        out, acc = [], 0.0
        for i in idx:
            acc += impl_t[i]
            if acc > seconds and out:
                break
            out.append(i)
        return out

    def stratified(r, cand, n):
        """a sample of `cand` that holds (at least) two cases of every branch class before it is filled up at random,
        ordered so that those come first (they survive a time budget)"""
        by, first = {}, []
        for i in r.sample(cand, len(cand)):
            b = cases[i][1]
            if by.get(b, 0) < 2:
                by[b] = by.get(b, 0) + 1
                first.append(i)
        chosen = set(first)
        rest = [i for i in r.sample(cand, len(cand)) if i not in chosen]
        return (first + rest)[:max(n, len(first))]
    disagreements = []
    model_out = None
    if info.get("driver_ok"):
        try:
            model_out = run_driver(lines)
        except Exception as e:
            problems.append("driver failed to run: %s" % e)
    else:
        problems.append("driver not buildable")
    if model_out is not None:
        for l, a, b in zip(lines, impl_out, model_out):
            if a != b:
                disagreements.append({"line": l, "impl": a, "model": b})
    # ---- oracle on every case (property restated on the real code's outputs)
    ok_n = sum(1 for o in impl_out if o.startswith("ok"))
    nontrivial = set()
    context = {}
    for i_, (l, o) in enumerate(zip(full_lines, impl_out)):
        try:
            if mod.nontrivial(l, o):
                nontrivial.add(l)
        except Exception:
            pass
        try:
            msg = mod.oracle(l, o)
        except Exception as e:      # the real output no longer has the shape the property's oracle can read
            if len(problems) < 50:
                problems.append("property oracle could not interpret the implementation's output for `%s`: %r" % (l[:200], e))
            continue
        if msg:
            k = mod.known_match(l, o, msg, known)
            if k:
                known_lines.append("KNOWN-FINDING: property=%s %s [%s]" % (pid, k["what"], l))
            else:
                failures.append((l, msg))
                context.setdefault(l, full_lines[max(0, i_ - 8):i_])
    extra = getattr(mod, "extra_checks", None)
    extra_info = {}
    if extra:
        for l, msg in extra(rng, tier, g, extra_info):
            k = mod.known_match(l, "", msg, known)
            if k:
                known_lines.append("KNOWN-FINDING: property=%s %s [%s]" % (pid, k["what"], l))
            else:
                failures.append((l, msg))
    # ---- interpreter modes: the same operations in a child interpreter that strips `assert` (python -O) must give the
    # same answers (a check that only exists as an assertion is not a check); rejections are sampled first.  The
    # property's oracle is evaluated on the child's answers WITH ITS FOLLOW-UP OPERATIONS (round trips, re-imports)
    # redirected to the child as well, so that a defect that only shows in the second step under -O is seen.
    mode_diffs = []

    def explore_child(flags, env, label, pick_, budget_s):
        """run the picked lines in a child interpreter; oracle failures there are violations"""
        ch = impl.Child(flags=flags, env=env)
        n_done, t_start = 0, time.time()
        try:
            for i in pick_:
                if time.time() - t_start > budget_s:
                    break
                o2 = ch.run(lines[i])
                n_done += 1
                if o2 == "child-died":
                    break
                differs = o2 != impl_out[i]
                if differs and impl.run_plain(lines[i]) != impl_out[i]:
                    continue            # depends on state left behind by unsampled lines: not comparable
                if differs:
                    mode_diffs.append((full_lines[i], impl_out[i], o2))
                if not o2.startswith("ok"):
                    continue            # a refusal in the other context hands out nothing wrong
                try:
                    with impl.redirect(ch.run):
                        msg = mod.oracle(full_lines[i], o2)
                except Exception:
                    msg = None
                if msg and not mod.known_match(full_lines[i], o2, msg, known):
                    # the same judgement in THIS interpreter must be clean (else it is reported by the main run already)
                    try:
                        base = mod.oracle(full_lines[i], impl_out[i])
                    except Exception:
                        base = None
                    if not base:
                        failures.append((full_lines[i], "%s: %s" % (label, msg)))
                        if len(failures) > 20:
                            break
        finally:
            ch.close()
        return n_done
    try:
        idx_err = [i for i, o in enumerate(impl_out) if not o.startswith("ok")]
        idx_ok = [i for i, o in enumerate(impl_out) if o.startswith("ok")]
        rng2 = random.Random(seed + 77)
        n_err, n_ok = (150, 80) if tier == "quick" else (1500, 800)
        pick = rng2.sample(idx_err, min(n_err, len(idx_err))) + rng2.sample(idx_ok, min(n_ok, len(idx_ok)))
        pick = [i for i in pick if len(lines[i]) < 20000]
        pick = sorted(set(within_budget(pick, 6.0 if tier == "quick" else 300.0)))
        if pick:
            t_m = time.time()
            info["optimized_interpreter_cases"] = explore_child(["-O"], None, "under `python -O` (assertions stripped)",
                                                                pick, 14.0 if tier == "quick" else 600.0)
            info["optimized_interpreter_s"] = round(time.time() - t_m, 1)
        # environment variables the source itself reads (os.environ / os.getenv with a literal name): each is set to
        # values taken from the string literals around it and to common switches, and the sample is repeated
        evs = source_env_vars()
        info["environment_variables_in_source"] = sorted(evs)
        n_env = 0
        for name, values in sorted(evs.items()):
            for val in values[:6]:
                n_env += explore_child([], {name: val}, "with the environment variable %s=%r set" % (name, val),
                                       pick[:120], 8.0 if tier == "quick" else 120.0)
        info["environment_variable_cases"] = n_env
    except Exception as e:      # noqa
        info["optimized_interpreter_cases"] = "error %r" % e
    # a mere difference between the two interpreter modes that the property's oracle does not object to is recorded,
    # not reported (the unchanged code has one: from_wif checks the compression flag byte with an `assert`)
    info["optimized_interpreter_differences"] = len(mode_diffs)
    # ---- alternative input forms: the same values handed over as bytearray / one-shot iterators (forms the unchanged
    # library accepts) must give the same answers
    try:
        rng3 = random.Random(seed + 99)
        cand = [i for i in range(len(lines)) if len(lines[i]) < 20000]
        pick = stratified(rng3, cand, min(len(cand), 400 if tier == "quick" else 4000))
        pick = within_budget(pick, 6.0 if tier == "quick" else 300.0)
        n_alt = 0
        for i in pick:
            o2 = impl.run_alt(lines[i])
            n_alt += 1
            # (only a WRONG ANSWER counts: a library that refuses the alternative form hands out nothing wrong)
            if o2 != impl_out[i] and o2.startswith("ok") and impl.run(lines[i]) == impl_out[i]:
                try:
                    msg = mod.oracle(full_lines[i], o2)
                except Exception:
                    msg = None
                if msg and not mod.known_match(full_lines[i], o2, msg, known):
                    failures.append((full_lines[i], "with byte strings passed as bytearray and paths as one-shot "
                                                    "iterators: " + msg))
                else:
                    info["alternative_form_differences"] = info.get("alternative_form_differences", 0) + 1
                if len(failures) > 20:
                    break
        info["alternative_form_cases"] = n_alt
    except Exception as e:      # noqa
        info["alternative_form_cases"] = "error %r" % e
    # ---- copies: a node / wallet that went through pickle, copy.deepcopy or copy.copy (all of which the unchanged
    # classes support) must answer like the original
    try:
        rng4 = random.Random(seed + 123)
        cand = [i for i in range(len(lines)) if len(lines[i]) < 20000 and impl_out[i].startswith("ok ") and
                (" N " in impl_out[i] or impl_out[i].startswith(("ok N", "ok W")))]
        pick = stratified(rng4, cand, min(len(cand), 150 if tier == "quick" else 2000))
        pick = within_budget(pick, 5.0 if tier == "quick" else 200.0)
        n_cp = 0
        for i in pick:
            how = ("pickle", "deepcopy", "copy")[n_cp % 3]
            o2 = impl.run_copy(lines[i], how)
            n_cp += 1
            if o2 != impl_out[i] and o2.startswith("ok") and impl.run(lines[i]) == impl_out[i]:
                try:
                    msg = mod.oracle(full_lines[i], o2)
                except Exception:
                    msg = None
                if msg and not mod.known_match(full_lines[i], o2, msg, known):
                    failures.append((full_lines[i], "after a %s of the resulting object: %s" % (how, msg)))
                    if len(failures) > 20:
                        break
                else:
                    info["copy_differences"] = info.get("copy_differences", 0) + 1
        info["copy_cases"] = n_cp
    except Exception as e:      # noqa
        info["copy_cases"] = "error %r" % e
    # ---- execution context: the same operations run in a fresh worker thread (not the thread that imported the
    # library) must give the same answers — state that lives per thread is right in one thread only
    try:
        rng5 = random.Random(seed + 211)
        cand = [i for i in range(len(lines)) if len(lines[i]) < 20000]
        pick = stratified(rng5, cand, min(len(cand), 120 if tier == "quick" else 1500))
        pick = within_budget(pick, 4.0 if tier == "quick" else 200.0)
        n_th = 0
        for i in pick:
            o2 = impl.run_thread(lines[i])
            n_th += 1
            if o2 != impl_out[i] and o2.startswith("ok") and impl.run_plain(lines[i]) == impl_out[i]:
                try:
                    with impl.redirect(impl.run_thread):
                        msg = mod.oracle(full_lines[i], o2)
                except Exception:
                    msg = None
                if msg and not mod.known_match(full_lines[i], o2, msg, known):
                    failures.append((full_lines[i], "when the call is made from a worker thread: " + msg))
                    if len(failures) > 20:
                        break
                else:
                    info["worker_thread_differences"] = info.get("worker_thread_differences", 0) + 1
        info["worker_thread_cases"] = n_th
    except Exception as e:      # noqa
        info["worker_thread_cases"] = "error %r" % e
    # ---- execution context: the same operations in a child process made by os.fork() after the library was imported
    # (multiprocessing fork workers, pre-fork servers): hooks that run at fork time act only there
    try:
        rng6 = random.Random(seed + 307)
        cand = [i for i in range(len(lines)) if len(lines[i]) < 20000]
        pick = stratified(rng6, cand, min(len(cand), 80 if tier == "quick" else 1000))
        pick = within_budget(pick, 3.0 if tier == "quick" else 150.0)
        n_fk = 0
        for i in pick:
            o2 = impl.run_fork(lines[i])
            n_fk += 1
            if o2 != impl_out[i] and o2.startswith("ok") and impl.run_plain(lines[i]) == impl_out[i]:
                try:
                    with impl.redirect(impl.run_fork):
                        msg = mod.oracle(full_lines[i], o2)
                except Exception:
                    msg = None
                if msg and not mod.known_match(full_lines[i], o2, msg, known):
                    failures.append((full_lines[i], "when the call is made in a forked child process: " + msg))
                    if len(failures) > 20:
                        break
                else:
                    info["forked_child_differences"] = info.get("forked_child_differences", 0) + 1
        info["forked_child_cases"] = n_fk
    except Exception as e:      # noqa
        info["forked_child_cases"] = "error %r" % e
    # ---- the caller changes what it received: every list / dict handed back is emptied by the harness and the request
    # is repeated — a library that hands out its own tables or cached results by reference answers differently
    try:
        rng8 = random.Random(seed + 401)
        cand = [i for i in range(len(lines)) if len(lines[i]) < 20000 and impl_out[i].startswith("ok")]
        pick = stratified(rng8, cand, min(len(cand), 150 if tier == "quick" else 2000))
        pick = within_budget(pick, 2.5 if tier == "quick" else 120.0)
        n_mu = 0
        for i in pick:
            o2 = impl.run_mut(lines[i])
            n_mu += 1
            if o2 != impl_out[i] and impl.run_plain(lines[i]) != o2:
                again = impl.run_plain(lines[i])
                msg = None
                if again != impl_out[i]:
                    try:
                        msg = mod.oracle(full_lines[i], again) or "the answer now differs from the first one (%s...)" % again[:60]
                    except Exception:
                        msg = "the answer now differs from the first one"
                elif o2.startswith("ok"):
                    try:
                        msg = mod.oracle(full_lines[i], o2)
                    except Exception:
                        msg = None
                if msg and not mod.known_match(full_lines[i], o2, msg, known):
                    failures.append((full_lines[i], "after the caller emptied the lists / dicts it had received from the "
                                                    "same request: " + msg))
                    if len(failures) > 20:
                        break
            elif o2 != impl_out[i] and o2.startswith("ok"):
                try:
                    msg = mod.oracle(full_lines[i], o2)
                except Exception:
                    msg = None
                if msg and not mod.known_match(full_lines[i], o2, msg, known):
                    failures.append((full_lines[i], "after the caller emptied the lists / dicts it had received from the "
                                                    "same request: " + msg))
        info["result_mutation_cases"] = n_mu
    except Exception as e:      # noqa
        info["result_mutation_cases"] = "error %r" % e
    # ---- a long-running process: base requests are answered, then S DISTINCT other requests of the property's own
    # kinds are served (the case generators with fresh seeds; S lies above every small integer literal of the source, so
    # that a capacity / eviction constant in the code is exceeded), then the base requests are asked again
    try:
        from props import common as _common
        S = _common.soak_size(pid, tier)
        rng9 = random.Random(seed + 503)
        cand = [i for i in range(len(lines)) if len(lines[i]) < 5000 and impl_out[i].startswith("ok")]
        base = stratified(rng9, cand, min(len(cand), 80 if tier == "quick" else 400))
        base = within_budget(base, 3.0 if tier == "quick" else 60.0)
        by_kind = {}
        for l_, t_ in zip(lines, impl_t):
            k_ = l_.split(" ", 1)[0]
            a_ = by_kind.setdefault(k_, [0, 0.0])
            a_[0] += 1
            a_[1] += t_
        cheap = {k_ for k_, (n_, t_) in by_kind.items() if t_ / n_ < (0.01 if tier == "quick" else 0.05)}
        seen, t_fill, r_ = set(lines), time.time(), 0
        limit = (25.0 if time.time() - t0 < 100 else 10.0) if tier == "quick" else 900.0      # (quick runs stay short)
        n_fill = 0
        # corner requests of the basic kinds the property's source files deal with, asked now and again at the end
        kinds = _common.soak_kinds(pid)
        corner = []
        for l_ in _common.soak_corner_lines(kinds, rng9):
            o_ = impl.run_plain(l_)
            if o_.startswith("ok"):
                corner.append((l_, o_))
        filler_log = []
        # S rounds of fresh requests of those kinds (every cache of a capacity below S wraps, whatever it is keyed by)
        gen_ = _common.soak_filler(kinds, rng9)
        while kinds and n_fill < S * len(kinds) and time.time() - t_fill < limit:
            l_ = next(gen_)
            impl.run_plain(l_)
            filler_log.append(l_)
            n_fill += 1
        for l_, o_ in corner:
            o2 = impl.run_plain(l_)
            if o2 != o_:
                try:
                    msg = mod.oracle(l_, o2)
                except Exception:
                    msg = None
                msg = msg or "the answer differs from the one given at the start of the process (%s... before, %s... now)" % (
                    o_[:60], o2[:60])
                failures.append((l_, "asked again after %d other distinct requests in the same process: %s" % (n_fill, msg)))
                context[l_] = [l_] + filler_log
                break
        while n_fill < S and time.time() - t_fill < limit and r_ < 400 and cheap:
            r_ += 1
            before_round = n_fill
            for c in mod.cases(random.Random(seed * 7919 + 1000 + r_), "quick"):
                l_ = c[0].split(" #")[0]
                if l_ in seen or len(l_) > 5000 or l_.split(" ", 1)[0] not in cheap:
                    continue
                seen.add(l_)
                impl.run_plain(l_)
                n_fill += 1
                if n_fill >= S or time.time() - t_fill > limit:
                    break
            if n_fill == before_round:
                break
        n_re = 0
        for i in base:
            o2 = impl.run_plain(lines[i])
            n_re += 1
            if o2 != impl_out[i]:
                try:
                    msg = mod.oracle(full_lines[i], o2)
                except Exception:
                    msg = None
                msg = msg or "the answer differs from the one given at the start of the process (%s... before, %s... now)" % (
                    impl_out[i][:50], o2[:50])
                if not mod.known_match(full_lines[i], o2, msg, known):
                    failures.append((full_lines[i], "asked again after %d other distinct requests in the same process: %s" % (
                        n_fill, msg)))
                    if len(failures) > 20:
                        break
        info["soak_filler_requests"] = n_fill
        info["soak_target"] = S
        info["soak_reasked"] = n_re
    except Exception as e:      # noqa
        info["soak_filler_requests"] = "error %r" % e
    # ---- something broke: search harder for a concrete failing input
    searched = 0
    probed = 0
    lf, probed = literal_probe(mod, pid, impl, known,
                               max_ops=None if (tier == "thorough" or problems or disagreements) else
                               getattr(mod, "LITERAL_BUDGET", 160))
    failures += lf
    if (problems or disagreements) and not failures:
        ds = getattr(mod, "deep_search", None)
        cand = [d["line"] for d in disagreements]
        if ds:
            for l, msg in ds(rng, tier, g, cand):
                searched += 1
                if not mod.known_match(l, "", msg, known):
                    failures.append((l, msg))
                    break
    grouped = {}
    for kl in known_lines:
        head, _, example = kl.rpartition(" [")
        grouped.setdefault(head, []).append(example.rstrip("]"))
    for head, ex in sorted(grouped.items()):
        log("%s (%d matching inputs this run, e.g. %s)" % (head, len(ex), ex[0][:160]))
    wall = time.time() - t0
    coverage = {
        "obligations": info["obligations"], "discharged": info["discharged"],
        "checker_cmd": "cd lean && lake build %s && lake env lean <#print axioms of every theorem>%s" % (
            " ".join(prop_modules), " && lake env leanchecker " + " ".join(prop_modules) if tier == "thorough" else ""),
        "trusted_base": mod.TRUSTED_BASE,
        "theorems": info["theorems"], "axioms": info["axioms"],
        "evaluations": len(lines), "distinct_nontrivial": len(nontrivial),
        "rule": mod.RULE, "samples": [{"line": l, "impl": o} for l, o in list(zip(lines, impl_out))[:3]]
        + [{"line": l, "impl": o} for l, o in list(zip(lines, impl_out))[-2:]],
        "generator_branches": branches, "impl_ok": ok_n, "impl_err": len(lines) - ok_n,
        "traces_validated_against_impl": len(lines) if model_out is not None else 0,
        "disagreements": len(disagreements), "fixed_findings_replayed": fixed_checked,
        "known_findings_reported": len(set(known_lines)), "build_s": info.get("build_s"),
        "proof_problems": problems, "deep_search_candidates": searched, "literal_probe_cases": probed,
        "exhaustive": False,
        "optimized_interpreter_cases": info.get("optimized_interpreter_cases", 0),
        "alternative_form_cases": info.get("alternative_form_cases", 0),
        "forked_child_cases": info.get("forked_child_cases", 0),
        "result_mutation_cases": info.get("result_mutation_cases", 0),
        "soak_filler_requests": info.get("soak_filler_requests", 0),
        "soak_target": info.get("soak_target", 0),
        "soak_reasked": info.get("soak_reasked", 0),
        "forked_child_differences": info.get("forked_child_differences", 0),
        "copy_cases": info.get("copy_cases", 0), "copy_differences": info.get("copy_differences", 0),
        "worker_thread_cases": info.get("worker_thread_cases", 0),
        "worker_thread_differences": info.get("worker_thread_differences", 0),
        "optimized_interpreter_differences": info.get("optimized_interpreter_differences", 0),
        "environment_variables_in_source": info.get("environment_variables_in_source", []),
        "environment_variable_cases": info.get("environment_variable_cases", 0),
        "alternative_form_differences": info.get("alternative_form_differences", 0),
    }
    coverage.update(extra_info)
    if "leanchecker" in info:
        coverage["leanchecker"] = info["leanchecker"]
    nviol = 0
    rc = 0
    if failures:
        nviol = len(failures)
        body = {"property": pid, "kind": "failing-input", "seed": seed, "tier": tier,
                "cases": [{"line": l, "impl": impl.run(l.split(" #")[0]) if l and not l.startswith("#") else None,
                           "why": m, "context": context.get(l, [])} for l, m in failures[:10]],
                "note": "context = the operations that ran just before the failing one in the same process; "
                        "--replay runs them first (some failures need state left behind by earlier calls)",
                "proof_problems": problems, "disagreements": disagreements[:10]}
        path = write_replay(pid, seed, 0, body)
        log("  failing input: %s :: %s" % failures[0])
        log("VIOLATION property=%s replay=%s" % (pid, path))
        rc = 1
    elif problems or disagreements:
        nviol = 1
        body = {"property": pid, "kind": "no-failing-input-found", "seed": seed, "tier": tier,
                "no_longer_checks": problems, "correspondence_disagreements": disagreements[:20],
                "cases": [{"line": d["line"]} for d in disagreements[:20]],
                "note": "the theorem(s) or correspondence named here no longer check; the search "
                        "over the implementation found no input on which the property fails"}
        path = write_replay(pid, seed, 0, body)
        for p_ in problems[:3]:
            log("  proof obligation broken: %s" % p_[:600])
        for d in disagreements[:3]:
            log("  correspondence broken: %s" % d)
        log("VIOLATION property=%s replay=%s no-failing-input-found" % (pid, path))
        rc = 1
    write_evidence(pid, tier, seed, coverage, mod.ASSUMPTIONS, wall, nviol)
    log("%s %s seed=%d: %d/%d obligations discharged, %d cases (%d distinct non-trivial), "
        "%d disagreements, %d failures, %.1fs" % (
            pid, tier, seed, info["discharged"], info["obligations"], len(lines), len(nontrivial),
            len(disagreements), len(failures), wall))
    return rc


if __name__ == "__main__":
    sys.exit(main())
