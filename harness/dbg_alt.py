#!/venv/bin/python
"""debug aid: dbg_alt.py <pid> [mode] — run every case of a property in an exploration mode (alt | thread | copy) and list the
answers that differ from the plain run together with what the property's oracle says about them."""
import importlib
import os
import random
import sys
import collections

sys.path.insert(0, os.path.dirname(os.path.abspath(__file__)))
import impl     # noqa: E402

pid = sys.argv[1]
mode = sys.argv[2] if len(sys.argv) > 2 else "alt"
mod = importlib.import_module("props." + pid.lower())
rng = random.Random(int(pid[1:]))
cases = list(mod.cases(rng, "quick"))
n = collections.Counter()
for c in cases:
    full = c[0]
    l = full.split(" #")[0]
    if len(l) > 20000:
        continue
    o1 = impl.run(l)
    o2 = impl.run_alt(l) if mode == "alt" else impl.run_thread(l) if mode == "thread" else impl.run_mut(l) if mode == "mut" \
        else impl.run_fork(l) if mode == "fork" else impl.run_copy(l, mode)
    if o1 != o2:
        try:
            msg = mod.oracle(full, o2)
        except Exception as e:
            msg = "oracle raised %r" % e
        n[(l.split(" ")[0], o2[:3], bool(msg))] += 1
        if msg and o2.startswith("ok"):
            print(l[:150], "\n   ->", (msg or "")[:200])
print(dict(n))
