#!/venv/bin/python
"""Run checks against a seeded change: apply /verif/seeded/<id>/patch.diff to /repo, run the quick check of the
property it breaks (and optionally of all properties), and undo the patch straight afterwards.

  seeded.py <seeded-dir> [--all] [--tier quick|thorough]
"""
import json
import os
import subprocess
import sys
import time

VERIF = os.path.dirname(os.path.dirname(os.path.abspath(__file__)))


def main():
    d = os.path.abspath(sys.argv[1])
    meta = json.load(open(os.path.join(d, "meta.json")))
    patch = os.path.join(d, "patch.diff")
    tier = "quick"
    if "--tier" in sys.argv:
        tier = sys.argv[sys.argv.index("--tier") + 1]
    pids = [meta["property"]]
    if "--all" in sys.argv:
        man = json.load(open(os.path.join(VERIF, "MANIFEST.json")))
        pids = [c["property_id"] for c in man["checks"]]
    st = subprocess.run(["git", "-C", "/repo", "status", "--porcelain"], capture_output=True, text=True).stdout
    if st.strip():
        print("refusing: /repo working tree is not clean:\n" + st)
        return 2
    subprocess.run(["git", "-C", "/repo", "apply", patch], check=True)
    results = {}
    try:
        for pid in pids:
            t0 = time.time()
            p = subprocess.run([os.path.join(VERIF, "check"), pid, "--tier", tier], cwd=VERIF, capture_output=True, text=True)
            viol = [l for l in p.stdout.splitlines() if l.startswith("VIOLATION") or "failing input" in l]
            results[pid] = {"exit": p.returncode, "lines": viol[:3], "s": round(time.time() - t0, 1)}
            print(pid, p.returncode, viol[:2], flush=True)
    finally:
        subprocess.run(["git", "-C", "/repo", "checkout", "--", "."], check=True)
    json.dump(results, open(os.path.join(d, "last_run.json"), "w"), indent=1)
    caught = [p for p, r in results.items() if r["exit"] == 1]
    print("caught by:", caught)
    return 0 if caught else 1


if __name__ == "__main__":
    sys.exit(main())
