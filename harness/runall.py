#!/venv/bin/python
"""Run every claimed check (quick or thorough) with the given seeds; report exits. Usage: runall.py [tier] seed..."""
import json, os, subprocess, sys, time
V = os.path.dirname(os.path.dirname(os.path.abspath(__file__)))
tier = sys.argv[1] if len(sys.argv) > 1 and sys.argv[1] in ("quick", "thorough") else "quick"
seeds = [int(x) for x in sys.argv[1:] if x.isdigit()] or [0]
man = json.load(open(os.path.join(V, "MANIFEST.json")))
bad = 0
for seed in seeds:
    for c in man["checks"]:
        cmd = c["quick_cmd"] if tier == "quick" else c["thorough_cmd"]
        t0 = time.time()
        p = subprocess.run(cmd, shell=True, cwd=V, env=dict(os.environ, VERIF_SEED=str(seed)), capture_output=True, text=True)
        last = p.stdout.strip().splitlines()[-1] if p.stdout.strip() else ""
        flag = "" if p.returncode == 0 else "  <<<<<< exit %d" % p.returncode
        if p.returncode != 0:
            bad += 1
            print(p.stdout[-1500:])
        print("seed %d %s %.1fs %s%s" % (seed, c["property_id"], time.time() - t0, last[:150], flag), flush=True)
print("non-zero exits:", bad)
