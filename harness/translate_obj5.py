#!/venv/bin/python
"""Translator, layer V: the random-source route (`bip39.mnemonic_from_entropy_bits`, `BaseWallet.from_entropy_bits`,
`BaseWallet.new_wallet`), the `__eq__` methods (`PubKeyNode`, `BaseWallet`, `BIP85DeterministicEntropy`, `PrivateKey`,
`PublicKey`), `BIP85DeterministicEntropy.from_xprv`, and the TEXT layer of `PaperWallet` (`json`, `pprint`, `export_wallet`,
`wasabi_json`, `export_wasabi`)  ->  lean/BtcHd/Generated/CodeObj5.lean; lean/BtcHd/Props/TrText.lean proves each emitted
function equal to the model (`Model/Bip39.lean`, `Model/Wallet.lean`, `Model/Extra.lean`).

Mapped BY TABLE here (in addition to the tables of the other layers):

* `random.getrandbits(k)` (the module-level `SystemRandom`) is `Bip39.getrandbits osRandom k` over an explicit
  `osRandom : Nat → Bytes` (C08 is about exactly this: what is NOT a theorem is that the generator is the OS one);
  `MNEMONIC_LENGTH_TO_ENTROPY_BITS = dict(zip(CORRECT_MNEMONIC_LENGTH, CORRECT_ENTROPY_BITS))` (shape-checked) is the
  zipped association list, `d[k]` its lookup (KeyError -> none).
* `json.dumps(data, indent=indent)` is `JsonText.dumps indent data` (the JSON text model, proved to round-trip and compared
  with CPython character for character); `sys.stdout.write(t)` appends `t` to the text the function "returns" (its
  output); `export_to_file(file_path=p, contents=t)` makes `t` the text the function "returns" (the file contents);
  `os.linesep` is `"\\n"`; `bytes.hex()` is `toHex`, `.upper()` on such a text maps a..f to A..F (`Py.upperAscii`).
* optional `data` arguments are `Option Wallet.Json`; `data if data else X` uses Python truthiness (`Extra.truthy`).
* `type(self) != type(other)` on nodes compares `isPrv`; `a.parent_fingerprint == b.parent_fingerprint` compares the
  translated properties.
"""
import ast
import os
import sys

HERE = os.path.dirname(os.path.abspath(__file__))
sys.path.insert(0, HERE)
import translate as T           # noqa: E402
import translate_obj as TO      # noqa: E402
import translate_obj2 as T2     # noqa: E402
import translate_obj3 as T3     # noqa: E402
from translate import Unsupported, Fn           # noqa: E402
from translate_obj import NODE                  # noqa: E402
from translate_obj2 import WAL                  # noqa: E402
from translate_obj3 import PaperFn              # noqa: E402

REPO = os.environ.get("VERIF_REPO", "/repo")
OUT = os.path.join(os.environ.get("VERIF_LEAN_DIR") or os.path.join(os.path.dirname(HERE), "lean"),
                   "BtcHd", "Generated", "CodeObj5.lean")
OJ = "Option Wallet.Json"

TARGETS = [
    ("mnemonic_from_entropy_bits", "bip39.py", None, "mnemonic_from_entropy_bits", "fn", [("entropy_bits", "Nat")],
     "Option (List Char)", {"takesP": True, "os": True, "option": True, "lists": ["entropy_bytes"]}),
    ("w_from_entropy_bits", "base_wallet.py", "BaseWallet", "from_entropy_bits", "cls",
     [("entropy_bits", "Nat"), ("password", "List Char"), ("testnet", "Bool")], "Option " + WAL,
     {"takesP": True, "os": True, "option": True, "strings": ["mnemonic"]}),
    ("w_new_wallet", "base_wallet.py", "BaseWallet", "new_wallet", "cls",
     [("mnemonic_length", "Nat"), ("password", "List Char"), ("testnet", "Bool")], "Option " + WAL,
     {"takesP": True, "os": True, "option": True}),
    ("node_eq", "bip32.py", "PubKeyNode", "__eq__", "node", [("other", NODE)], "Bool", {"nodes": ["other"]}),
    ("w_eq", "base_wallet.py", "BaseWallet", "__eq__", "wallet", [("other", WAL)], "Bool", {"wallets": ["other"]}),
    ("pw_json", "paper_wallet.py", "PaperWallet", "json", "wallet", [("data", OJ), ("indent", "Option Nat")],
     "Option (List Char)", {"takesP": True, "option": True, "optjson": ["data"]}),
    ("pw_pprint", "paper_wallet.py", "PaperWallet", "pprint", "wallet", [("data", OJ), ("indent", "Option Nat")],
     "Option (List Char)", {"takesP": True, "option": True, "optjson": ["data"], "stdout": True}),
    ("pw_export_wallet", "paper_wallet.py", "PaperWallet", "export_wallet", "wallet",
     [("file_path", "List Char"), ("indent", "Option Nat"), ("data", OJ)], "Option (List Char)",
     {"takesP": True, "option": True, "optjson": ["data"], "fileout": True}),
    ("pw_wasabi_json", "paper_wallet.py", "PaperWallet", "wasabi_json", "wallet", [("indent", "Option Nat")],
     "Option (List Char)", {"takesP": True, "option": True, "nodes": ["node"]}),
    ("pw_export_wasabi", "paper_wallet.py", "PaperWallet", "export_wasabi", "wallet",
     [("file_path", "List Char"), ("indent", "Option Nat")], "Option (List Char)",
     {"takesP": True, "option": True, "fileout": True}),
]
INFO = {t[0]: t for t in TARGETS}
BY_NAME = {(t[2], t[3]): t[0] for t in TARGETS}


class TextFn(PaperFn):
    def __init__(self, node, lean_name, cls_name, ctx, args, ret, opts, sigs):
        PaperFn.__init__(self, node, lean_name, cls_name, "wallet" if ctx in ("wallet",) else ctx, args, ret, opts, sigs)
        self.ctx5 = ctx
        self.optjson = set(opts.get("optjson", []))
        self.sigs5 = sigs
        if ctx == "node":
            self.nodes.add("self")
        self.wallets |= set(opts.get("wallets", []))
        self.nodes |= set(opts.get("nodes", []))
        self.optparams |= {a for a, t in args if t.startswith("Option Nat")}

    def expr(self, e):
        if isinstance(e, ast.Attribute) and ast.unparse(e) == "os.linesep":
            return "([Char.ofNat 10] : List Char)"
        if isinstance(e, ast.IfExp) and isinstance(e.test, ast.Name) and e.test.id in self.optjson and \
                isinstance(e.body, ast.Name) and e.body.id == e.test.id:
            # `data if data else X` for an optional report: None and empty containers / texts are falsy
            v = self.ident(e.test.id)
            return ("(← (match %s with | some j_ => (if Extra.truthy j_ = true then some j_ else %s) | none => %s))"
                    % (v, self.opt_of(e.orelse), self.opt_of(e.orelse)))
        if isinstance(e, ast.Subscript) and isinstance(e.value, ast.Name) and e.value.id == "MNEMONIC_LENGTH_TO_ENTROPY_BITS":
            if not self.option:
                raise Unsupported("dict lookup in a total function")
            return "(← (List.zip Generated.correctMnemonicLength Generated.correctEntropyBits).lookup %s)" % self.expr(e.slice)
        if isinstance(e, ast.Attribute) and e.attr == "parent_fingerprint" and self.is_node(e.value):
            return "(CodeObj.pub_parent_fingerprint %s)" % self.expr(e.value)
        return PaperFn.expr(self, e)

    def is_listy(self, e):
        if isinstance(e, ast.Call) and isinstance(e.func, ast.Attribute) and e.func.attr in ("fingerprint", "hex", "upper"):
            return True
        return PaperFn.is_listy(self, e)

    def opt_of(self, e):
        t = self.expr(e)
        if t.startswith("(← ") and t.endswith(")"):
            return t[3:-1]
        return "(some %s)" % t

    def cond(self, e):
        if isinstance(e, ast.Compare) and len(e.ops) == 1 and isinstance(e.ops[0], (ast.Eq, ast.NotEq)):
            l, r = e.left, e.comparators[0]
            if isinstance(l, ast.Call) and isinstance(r, ast.Call) and ast.unparse(l.func) == "type" and \
                    ast.unparse(r.func) == "type" and self.is_node(l.args[0]) and self.is_node(r.args[0]):
                op = "=" if isinstance(e.ops[0], ast.Eq) else "≠"
                return "(%s.isPrv %s %s.isPrv)" % (self.expr(l.args[0]), op, self.expr(r.args[0]))
            if isinstance(l, ast.Attribute) and isinstance(r, ast.Attribute) and l.attr == r.attr == "master" and \
                    isinstance(l.value, ast.Name) and l.value.id in self.wallets and isinstance(r.value, ast.Name) and \
                    r.value.id in self.wallets and isinstance(e.ops[0], ast.Eq):
                return "(node_eq %s.master %s.master = true)" % (self.ident(l.value.id), self.ident(r.value.id))
        return PaperFn.cond(self, e)

    def call(self, e, bind=True):
        f = e.func
        q = ast.unparse(f)
        if q == "random.getrandbits" and len(e.args) == 1:
            return "(Bip39.getrandbits osRandom %s)" % self.expr(e.args[0])
        if q == "json.dumps":
            kw = {k.arg: k.value for k in e.keywords}
            if len(e.args) != 1 or set(kw) != {"indent"}:
                raise Unsupported("json.dumps form")
            return "(JsonText.dumps %s %s)" % (self.expr(kw["indent"]), self.expr(e.args[0]))
        if isinstance(f, ast.Name) and f.id == "correct_entropy_bits_value":
            a = self.kwargs_positional(e, ["entropy_bits"])[0]
            return "(← Code.correct_entropy_bits_value %s)" % self.expr(a)
        if isinstance(f, ast.Name) and f.id == "mnemonic_from_entropy_bits":
            a = self.kwargs_positional(e, ["entropy_bits"])[0]
            return "(← mnemonic_from_entropy_bits P osRandom %s)" % self.expr(a)
        if isinstance(f, ast.Name) and f.id == "int_to_big_endian":
            a = self.kwargs_positional(e, ["n", "length"])
            return "(← Code.int_to_big_endian %s %s)" % (self.expr(a[0]), self.expr(a[1]))
        if isinstance(f, ast.Attribute) and f.attr == "upper" and not e.args:
            return "(%s.map Py.upperAscii)" % self.expr(f.value)
        if isinstance(f, ast.Attribute) and f.attr == "fingerprint" and not e.args and self.is_node(f.value):
            return "(← CodeObj.pub_fingerprint P %s)" % self.expr(f.value)
        if isinstance(f, ast.Attribute) and isinstance(f.value, ast.Name) and f.value.id in ("self", "cls"):
            lean = BY_NAME.get((self.cls_name, f.attr)) or BY_NAME.get(("BaseWallet", f.attr))
            if lean and f.attr != "export_to_file":
                t = INFO[lean]
                params = [p for p, _ in t[5]]
                vals = self.kwargs_positional(e, params)
                dfl = self.sigs5.get((t[2], t[3]), ([], {}))[1]
                args = []
                for p, v in zip(params, vals):
                    ptype = dict(t[5])[p]
                    if v is None:
                        v = dfl.get(p)
                        if v is None:
                            raise Unsupported("missing argument %s" % p)
                    if ptype.startswith("Option"):
                        if isinstance(v, ast.Constant) and v.value is None:
                            args.append("none")
                        elif isinstance(v, ast.Name) and (v.id in self.optjson or v.id in self.optparams):
                            args.append(self.ident(v.id))
                        else:
                            args.append("(some %s)" % self.expr(v))
                    else:
                        args.append(self.expr(v))
                recv = "self " if t[4] in ("wallet", "node") else ""
                txt = "(%s %s%s%s)" % (lean, ("P " + ("osRandom " if t[7].get("os") else "")) if t[7].get("takesP") else "",
                                       recv, " ".join(args))
                return "(← %s)" % txt if t[7].get("option") else txt
            if f.attr == "generate" and f.value.id == "self":
                dfl = T3.SIG_DEFAULTS.get("generate")
                if e.args or e.keywords or dfl is None:
                    raise Unsupported("generate call with arguments")
                return "(← CodeObj3.pw_generate P self %s %s)" % dfl
            if f.attr == "by_path" and f.value.id == "self":
                a = self.kwargs_positional(e, ["path"])[0]
                return "(← CodeObj2.w_by_path P self %s)" % Fn.expr(self, a)
            if f.attr == "from_mnemonic" and f.value.id == "cls":
                a = self.kwargs_positional(e, ["mnemonic", "password", "testnet"])
                return "(← CodeObj2.w_from_mnemonic P %s)" % " ".join(self.expr(x) for x in a)
        return PaperFn.call(self, e, bind)

    def _stmt(self, s, ind):
        if isinstance(s, ast.Expr) and isinstance(s.value, ast.Call):
            q = ast.unparse(s.value.func)
            if q == "sys.stdout.write" and self.opts.get("stdout") and len(s.value.args) == 1:
                return [ind + "out_ := out_ ++ %s" % self.expr(s.value.args[0])]
            if q == "self.export_to_file" and self.opts.get("fileout"):
                a = self.kwargs_positional(s.value, ["file_path", "contents"])
                return [ind + "out_ := %s" % self.expr(a[1])]
            if q == "correct_entropy_bits_value":
                return [ind + "let _ ← (Code.correct_entropy_bits_value %s)" % self.expr(self.kwargs_positional(s.value, ["entropy_bits"])[0])]
        if isinstance(s, ast.Assign) and len(s.targets) == 1 and isinstance(s.targets[0], ast.Name) and \
                s.targets[0].id in self.optjson:
            # `data = data if data else self.generate()`: from here on `data` is a report (no longer optional)
            n = s.targets[0].id
            rhs = self.expr(s.value)
            self.optjson.discard(n)
            self.jsons.add(n)
            self.renamed[n] = n + "_"
            self.declared[-1].add(n + "_")
            return [ind + "let mut %s_ := %s" % (n, rhs)]
        return PaperFn._stmt(self, s, ind)

    def emit(self):
        head_args = []
        if self.opts.get("takesP"):
            head_args.append("(P : Prims Pt)")
        if self.opts.get("os"):
            head_args.append("(osRandom : Nat → Bytes)")
        if self.ctx5 == "node":
            head_args.append("(self : %s)" % NODE)
        elif self.ctx5 == "wallet":
            head_args.append("(self : %s)" % WAL)
        head_args += ["(%s : %s)" % (self.ident(a), t) for a, t in self.args]
        body = self.block(self.node.body, "  ")
        pre = []
        if self.opts.get("stdout") or self.opts.get("fileout"):
            pre.append("  let mut out_ : List Char := []")
            body.append("  return out_")
        kind = "do" if self.option else "Id.run do"
        head = "def %s %s%s : %s := %s" % (self.name, "{Pt : Type} " if self.opts.get("takesP") else "",
                                         " ".join(head_args), self.rettype, kind)
        return head + "\n" + "\n".join(pre + body) + "\n"


def translate_all():
    chunks, status = [], {}
    trees, fatal, sigs = {}, None, {}
    try:
        T3.translate_all()
        for f in sorted({t[1] for t in TARGETS}):
            trees[f] = ast.parse(open(os.path.join(REPO, "btc_hd_wallet", f), encoding="utf-8").read())
        b39 = trees["bip39.py"]
        m = next((n for n in b39.body if isinstance(n, ast.Assign) and ast.unparse(n.targets[0]) == "MNEMONIC_LENGTH_TO_ENTROPY_BITS"), None)
        if m is None or ast.unparse(m.value) != "dict(zip(CORRECT_MNEMONIC_LENGTH, CORRECT_ENTROPY_BITS))":
            raise Unsupported("MNEMONIC_LENGTH_TO_ENTROPY_BITS has another shape")
        r = next((n for n in b39.body if isinstance(n, ast.Assign) and ast.unparse(n.targets[0]) == "random"), None)
        if r is None or ast.unparse(r.value) not in ("random.SystemRandom()", "SystemRandom()"):
            raise Unsupported("bip39.random is not a module-level SystemRandom()")
        pw = next(n for n in trees["paper_wallet.py"].body if isinstance(n, ast.ClassDef) and n.name == "PaperWallet")
        gen = next(n for n in pw.body if isinstance(n, ast.FunctionDef) and n.name == "generate")
        d = [ast.unparse(x) for x in gen.args.defaults]
        if [a.arg for a in gen.args.args] != ["self", "account", "interval"] or len(d) != 2:
            raise Unsupported("signature of generate")
        iv = ast.literal_eval(d[1])
        T3.SIG_DEFAULTS = {"generate": ("%d" % int(d[0]), "(%d, %d)" % (iv[0], iv[1]))}
        etf = next(n for n in pw.body if isinstance(n, ast.FunctionDef) and n.name == "export_to_file")
        if T3_body(etf) != "with open(file_path, 'w') as f:\n    f.write(contents)":
            raise Unsupported("export_to_file has another shape")
    except Unsupported as e:
        fatal = str(e)
    except (SyntaxError, StopIteration, OSError, ValueError) as e:
        fatal = "cannot read sources: %r" % e
    for f, tree in trees.items():
        for n in tree.body:
            items = [(None, n)] if isinstance(n, ast.FunctionDef) else \
                [(n.name, m_) for m_ in n.body if isinstance(m_, ast.FunctionDef)] if isinstance(n, ast.ClassDef) else []
            for cname, fn in items:
                ps = [a.arg for a in fn.args.args if a.arg not in ("self", "cls")]
                dv = fn.args.defaults
                sigs[(cname, fn.name)] = (ps, dict(zip(ps[len(ps) - len(dv):], dv)) if dv else {})
    for lean, f, cname, meth, ctx, args, ret, opts in TARGETS:
        try:
            if fatal:
                raise Unsupported(fatal)
            tree = trees[f]
            scope = tree.body if cname is None else next((n.body for n in tree.body if isinstance(n, ast.ClassDef) and n.name == cname), [])
            node = next((n for n in scope if isinstance(n, ast.FunctionDef) and n.name == meth), None)
            if node is None:
                raise Unsupported("function not found")
            pyargs = [a.arg for a in node.args.args if a.arg not in ("self", "cls")]
            if pyargs != [a for a, _ in args]:
                raise Unsupported("parameter names changed: %s" % pyargs)
            deco = [ast.unparse(d_) for d_ in node.decorator_list]
            if deco != (["classmethod"] if ctx == "cls" else []):
                raise Unsupported("decorators changed: %s" % deco)
            txt = TextFn(node, lean, cname, ctx, args, ret, opts, sigs).emit()
            status[lean] = "ok"
        except Unsupported as e:
            head = []
            if opts.get("takesP"):
                head.append("(P : Prims Pt)")
            if opts.get("os"):
                head.append("(osRandom : Nat → Bytes)")
            if ctx == "node":
                head.append("(self : %s)" % NODE)
            elif ctx == "wallet":
                head.append("(self : %s)" % WAL)
            head += ["(%s : %s)" % a for a in args]
            txt = ("-- TRANSLATION FAILED for %s.%s: %s\ndef %s %s%s : %s := Code.translationFailed _\n"
                   % (cname, meth, e, lean, "{Pt : Type} " if opts.get("takesP") else "", " ".join(head), ret))
            status[lean] = "FAILED: %s" % e
        chunks.append("/-- translated from `%s` : `%s%s` -/\n%s" % (f, (cname + ".") if cname else "", meth, txt))
    hdr = ("-- GENERATED by harness/translate_obj5.py from /repo's working tree. Do not edit.\n"
           "import BtcHd.Generated.CodeObj3\nimport BtcHd.Model.Extra\nimport BtcHd.Model.JsonText\n\n"
           "set_option linter.unusedVariables false\n\n"
           "namespace BtcHd.CodeObj5\nopen BtcHd BtcHd.Code BtcHd.CodeObj BtcHd.CodeObj2 BtcHd.CodeObj3\n\n")
    return hdr + "\n".join(chunks) + "\nend BtcHd.CodeObj5\n", status


def T3_body(fn):
    body = [b for b in fn.body if not (isinstance(b, ast.Expr) and isinstance(b.value, ast.Constant))]
    return "\n".join(ast.unparse(b) for b in body)


def main():
    text, status = translate_all()
    old = open(OUT, encoding="utf-8").read() if os.path.exists(OUT) else None
    if old != text:
        tmp = OUT + ".tmp%d" % os.getpid()
        open(tmp, "w", encoding="utf-8").write(text)
        os.replace(tmp, OUT)
    bad = {k: v for k, v in status.items() if v != "ok"}
    print("translate_obj5: %d functions, %s%s" % (len(status), "changed" if old != text else "unchanged",
                                                 (" ; FAILED: %s" % bad) if bad else ""))
    return status


if __name__ == "__main__":
    main()
