"""C20 — CLI: bad arguments yield no wallet output; good ones equal the API result."""
import json
import os
import subprocess
from .common import *  # noqa: F401,F403
from . import common
from .c06 import from_canon
import impl

PID = "C20"
LEAN_MODULES = ["BtcHd.Props.C20"]
LEAN_MODULES_THOROUGH = ['BtcHd.Props.TrCli', 'BtcHd.Props.TrPaper', 'BtcHd.Props.TrText']
TRUSTED_BASE = common.CORE_TRUSTED + [
    "PARTIAL: argparse tokenisation is modelled only for the canonical grammar (separate tokens, full option names, "
    "globals before the sub-command); the file system is abstracted to the class of the --file path; vectors outside "
    "the grammar are exercised on the real program by the oracle only"]
ASSUMPTIONS = ["argparse, pathlib, os.access, open() of CPython; no concurrent modification of the target directory"]
RULE = ("for each sub-command valid vectors and single-fault vectors on both sides of every bound (account, interval, "
        "mnemonic word count, seed/entropy length, extended-key length, file path class, paranoia/testnet, missing or "
        "unknown sub-command); 5% re-run as subprocess; non-trivial = distinct vector")
H = 2 ** 31
MN12 = "abandon abandon abandon abandon abandon abandon abandon abandon abandon abandon abandon about"
MN24 = ("abandon " * 23 + "art").strip()
XPRV = "xprv9s21ZrQH143K3QTDL4LXw2F7HEK3wJUD2nW2nRk4stbPy6cq3jPPqjiChkVvvNKmPGJxWUtg6LnF5kejMRNNU3TGtRBeJgk33yuGBxrMPHi"
XPUB = "xpub661MyMwAqRbcFtXgS5sYJABqqG9YLmC4Q1Rdap9gSE8NqtwybGhePY2gZ29ESFjqJoCu1Rupje8YtGqsefD265TMg7usUDFdp6W1EGMcet8"
TPRV = "tprv8ZgxMBicQKsPe5YMU9gHen4Ez3ApihUfykaqUorj9t6FDqy3nP6eoXiAo2ssvpAjoLroQxHqr3R5nE3a5dU3DHTjTgJDd7zrbniJr6nrCzd"
SEED = "5eb00bbddcf069084889a8ab9155568165f5c453ccb85e70811aaed6f6da5fc19a5ac40b389cd370d086206dec8aa6c43daea6690f20ad3d8d48b2d2ce9e38e4"


def enc(argv):
    return ",".join(sx(t) for t in argv) if argv else "="


def sub_valid(rng):
    r = rng.randrange(5)
    if r == 0:
        a = ["new"]
        if rng.random() < 0.5:
            a += ["--mnemonic-len", str(rng.choice([12, 15, 18, 21, 24]))]
        if rng.random() < 0.5:
            a += ["--password", rng.choice(["pw", "", "x y", "-5"])]
        return a
    if r == 1:
        return ["from-master-xprv", rng.choice([XPRV, XPRV, TPRV])]
    if r == 2:
        a = ["from-mnemonic", rng.choice([MN12, MN24])]
        if rng.random() < 0.5:
            a = ["from-mnemonic", "--password", "TREZOR", a[1]] if rng.random() < 0.5 else a + ["--password", "pw"]
        return a
    if r == 3:
        return ["from-bip39-seed", SEED]
    a = ["from-entropy-hex", bytes(rng.getrandbits(8) for _ in range(rng.choice([16, 20, 24, 28, 32]))).hex()]
    if rng.random() < 0.4:
        a += ["--password", "p"]
    return a


def globals_valid(rng):
    g = []
    if rng.random() < 0.35:
        g += [rng.choice(["-f", "--file"]), "@F"]
    if rng.random() < 0.4:
        g += ["--testnet"]
    if rng.random() < 0.4:
        g += ["--paranoia"]
    if rng.random() < 0.5:
        g += ["--account", str(rng.choice([0, 1, 7, H - 2, rng.randrange(H - 1)]))]
    if rng.random() < 0.6:
        a = rng.choice([0, 1, 5, H - 2, 1000])
        g += ["--interval", str(a), str(a + rng.choice([0, 1, 2]))]
    else:
        g += ["--interval", "0", "1"]
    return g


FAULTS = [
    ("account", lambda rng: ["--account", rng.choice(["-1", str(H - 1), str(H), str(2 ** 32), "x", "", "1.5", "0x1"])]),
    ("account-odd-int", lambda rng: ["--account", rng.choice(["+5", " 5", "1_0", "5 ", "00"])]),
    ("interval", lambda rng: ["--interval"] + rng.choice([["-1", "3"], ["0", str(2 ** 32 - 1)], ["0", str(2 ** 32)], ["a", "1"],
                                                           ["0", "-1"], [str(2 ** 32 - 1), "0"], ["5", "2"], ["3", "3"]])),
    ("interval-K2", lambda rng: ["--interval"] + rng.choice([[str(H), str(H + 1)], [str(H - 1), str(H + 1)],
                                                              [str(2 ** 32 - 3), str(2 ** 32 - 2)], [str(H), str(H)]])),
    ("interval-one-value", lambda rng: ["--interval", "0"]),
    ("unknown-option", lambda rng: [rng.choice(["--foo", "-x", "--testnett"])]),
    ("account-missing-value", lambda rng: ["--account"]),
]
# an option whose value is missing because ANOTHER OPTION follows it (argparse's own heuristics decide here, so these
# vectors are run on the real program and judged by the oracle only; the model's canonical grammar does not cover them)
ORACLE_ONLY_FAULTS = [
    ("file-missing-value", lambda rng: [rng.choice(["-f", "--file"])]),
    ("file-empty-value", lambda rng: ["--file="]),
    ("account-missing-value-mid", lambda rng: ["--account"]),
    ("interval-missing-values", lambda rng: ["--interval"]),
    ("interval-one-value-mid", lambda rng: ["--interval", "3"]),
]
SUB_FAULTS = [
    ("mnemonic-count", lambda rng: ["from-mnemonic", " ".join(["abandon"] * rng.choice([1, 11, 13, 14, 16, 23, 25]))]),
    ("mnemonic-spaces", lambda rng: ["from-mnemonic", rng.choice([" " + MN12, MN12 + " ", MN12.replace(" ", "  ", 1),
                                                                  " " + " ".join(["abandon"] * 10) + " about"])]),
    ("mnemonic-bad-checksum", lambda rng: ["from-mnemonic", " ".join(["abandon"] * 12)]),
    ("seed-length", lambda rng: ["from-bip39-seed", rng.choice([SEED[:-2], SEED + "00", SEED[:-1], ""])]),
    ("seed-nonhex", lambda rng: ["from-bip39-seed", "zz" + SEED[2:]]),
    ("entropy-length", lambda rng: ["from-entropy-hex", "00" * rng.choice([0, 15, 17, 31, 33, 64]) + rng.choice(["", "0"])]),
    ("entropy-ws", lambda rng: ["from-entropy-hex", rng.choice([" " + "00" * 15 + "0", "00" * 15 + " 0", "0 " * 16,
                                                               "00" * 14 + "    "])]),
    ("entropy-nonhex", lambda rng: ["from-entropy-hex", "g" * 32]),
    ("xkey-length", lambda rng: ["from-master-xprv", rng.choice([XPRV[:-1], XPRV + "1", ""])]),
    ("xkey-checksum", lambda rng: ["from-master-xprv", XPRV[:-1] + ("j" if XPRV[-1] != "j" else "k")]),
    ("xkey-public", lambda rng: ["from-master-xprv", XPUB]),
    ("no-subcommand", lambda rng: []),
    ("unknown-subcommand", lambda rng: [rng.choice(["frob", "New", "from-mnemonics"])]),
    ("missing-positional", lambda rng: [rng.choice(["from-mnemonic", "from-bip39-seed", "from-entropy-hex", "from-master-xprv"])]),
    ("extra-positional", lambda rng: ["from-bip39-seed", SEED, SEED]),
    ("global-after-sub", lambda rng: ["from-bip39-seed", SEED, "--testnet"]),
    ("new-bad-len", lambda rng: ["new", "--mnemonic-len", rng.choice(["13", "0", "x", "-12", "25"])]),
    ("new-positional", lambda rng: ["new", "extra"]),
    ("password-not-allowed", lambda rng: ["from-bip39-seed", "--password", "x", SEED]),
]


LITERAL_BUDGET = 32


def cases(rng, tier):
    n = 40 if tier == "quick" else 1500
    ob = lambda: hx(bytes(rng.getrandbits(8) for _ in range(40)))
    for _ in range(n):
        g = globals_valid(rng)
        s = sub_valid(rng)
        fs = "absent"
        r = rng.random()
        branch = "valid"
        if r < 0.25:
            name, f = rng.choice(FAULTS)
            # replace or add the faulty global
            g = [t for t in g] + f(rng) if rng.random() < 0.5 else f(rng) + g
            branch = "fault-" + name
        elif r < 0.55:
            name, f = rng.choice(SUB_FAULTS)
            s = f(rng)
            branch = "fault-" + name
        elif r < 0.7:
            fs = rng.choice(["file", "dir", "noparent"])
            if "@F" not in g:
                g = ["--file", "@F"] + g
            branch = "fault-file-" + fs
        yield "cli %s %s %s" % (fs, ob(), enc(g + s)), branch
    # values that begin with a character some argument parsers give a meaning to (`@name` = "read arguments from the file
    # name", `=`, `+`), naming files that EXIST in the working directory of the run (the harness puts `tmp`,
    # `wallet.json`, `out.json.tmp`, ... there): a value is a value
    for val in ("@tmp", "@wallet.json", "@out.json.tmp", "@missing-file", "=x", "+p", "@", "@@tmp"):
        yield "cli absent %s %s" % (ob(), enc(["--interval", "0", "1", "from-mnemonic", MN12, "--password", val])), "value-meta-character"
        yield "cli absent %s %s" % (ob(), enc(["--interval", "0", "1", "from-entropy-hex", "00" * 16, "--password", val])), "value-meta-character"
    for val in ("@tmp", "@wallet.json"):
        yield "cli absent %s %s" % (ob(), enc(["--interval", "0", "1", "from-mnemonic", val])), "value-meta-character-positional"
        yield "cli absent %s %s" % (ob(), enc(["--interval", "0", "1", "from-bip39-seed", val])), "value-meta-character-positional"


def extra_checks(rng, tier, g_, info):
    n = 0
    plan = []
    for rep in range(1 if tier == "quick" else 20):
        for name, f in ORACLE_ONLY_FAULTS:
            rest = [t for t in globals_valid(rng) if t not in ("-f", "--file", "@F")]
            if "--testnet" not in rest and "--paranoia" not in rest:
                rest = ["--testnet"] + rest
            opt_pos = [k for k in range(len(rest)) if rest[k].startswith("-")]
            # the faulty option directly before EVERY other option, and directly before the sub-command
            for k in (opt_pos + [len(rest)] if rep == 0 else [rng.choice(opt_pos + [len(rest)])]):
                plan.append((name, rest[:k] + f(rng) + rest[k:] + sub_valid(rng)))
    for name, argv in plan:
        line = "cli absent %s %s" % (hx(bytes(rng.getrandbits(8) for _ in range(40))), enc(argv))
        out = impl.run(line)
        n += 1
        msg = oracle(line, out)
        if msg:
            yield line, "option with a missing value (%s): %s" % (name, msg)
    info["missing_value_vectors"] = n
    # odd --file targets: a regular file as parent directory, a trailing slash, an over-long name, a symlink loop, a
    # dangling symlink — with every sub-command (the freshly drawn wallet of `new` included)
    m = 0
    subs = [sub_valid(rng) for _ in range(2 if tier == "quick" else 10)] + [["new"], ["new", "--mnemonic-len", "12"]]
    for fsk in ("parentfile", "trailslash", "longname", "symloop", "dangling", "filetrail", "filetraildot",
                "alias-dotslash", "alias-dblslash", "alias-subdotdot", "alias-linkdotdot", "alias-symfile",
                "alias-relative", "alias-reldotdot"):
        for sv in (subs if not fsk.startswith("alias-") or tier == "thorough" else subs[:1] + subs[-1:]):
            argv = ["--file", "@F"] + (["--paranoia"] if rng.random() < 0.5 else []) + ["--interval", "0", "1"] + sv
            line = "cli %s %s %s" % (fsk, hx(bytes(rng.getrandbits(8) for _ in range(40))), enc(argv))
            out = impl.run(line)
            m += 1
            v = ok_val(out)
            if v is None:
                yield line, "CLI run could not be canonicalised"
            elif v.startswith(("overwrote", "unexpected-files", "nonzero-status", "file-and-stdout", "existing-sibling")):
                yield line, "--file target of class %s: CLI broke the output contract: %s" % (fsk, v[:120])
    info["odd_file_targets"] = m
    # CRASH POINTS: the run is interrupted (KeyboardInterrupt) at its k-th derivation step.  It then ends with a
    # non-zero status — so it must have created no file and printed no wallet data
    q = 0
    for argv in (["--file", "@F", "--interval", "0", "2"] + sub_valid(rng), ["--interval", "0", "2"] + sub_valid(rng),
                 ["--file", "@F", "--interval", "0", "1", "new"]):
        osb = bytes(rng.getrandbits(8) for _ in range(40))
        _, det0 = impl.cli_run("absent", osb, argv)
        total = det0.get("hmac_calls") or 0
        ks = sorted(set([1, 2, 3, 5, 8, total // 2, total - 1, total] + [rng.randint(1, max(1, total)) for _ in range(3)]))
        for k in [k_ for k_ in ks if 1 <= k_ <= total][:(40 if tier == "thorough" else 7)]:
            canon, det = impl.cli_run("absent", osb, argv, interrupt_at=k)
            q += 1
            if canon.startswith(("nonzero-status", "file-and-stdout", "unexpected-files", "emit")) or det.get("created"):
                yield ("# cli (target absent) %s, OS bytes %s, interrupted (KeyboardInterrupt) at HMAC call %d of %d" % (
                    " ".join(argv), osb.hex(), k, total),
                    "an interrupted run (exit status %s) left output behind: %s" % (det.get("status"), canon[:80]))
                return
    info["cli_crash_points"] = q
    # output LENGTH equal to a size literal of the source (a buffer / chunk size), exactly and twice: the passphrase is
    # padded until the rendered report has that many characters; printed and saved, the text is still the API result
    import check as _check
    sizes = sorted(v for v in set(_check.source_literals("C20") + _check.source_literals("C06")) if 512 <= v <= 2 ** 18)
    z = 0
    mn_ = "legal winner thank year wave sausage worth useful legal winner thank yellow"
    for size in sizes[:6]:
        for mult in (1, 2):
            target = size * mult
            base_argv = ["--interval", "0", "%d" % max(1, target // 900), "from-mnemonic", mn_, "--password", "p"]
            canon0, det0 = impl.cli_run("absent", bytes(40), base_argv)
            len0 = len(det0.get("stdout") or "")
            if not len0 or len0 > target:
                continue
            pad = target - len0
            argv = base_argv[:-1] + ["p" + "a" * pad]
            for av, fsk in ((argv, "absent"), (["--file", "@F"] + argv, "absent")):
                line = "cli %s %s %s" % (fsk, hx(bytes(40)), enc(av))
                out = impl.run(line)
                z += 1
                msg = oracle(line, out)
                if msg:
                    yield line, "report of exactly %d characters (%d x the source literal %d): %s" % (target, mult, size, msg)
                    return
    info["exact_output_sizes"] = z
    # environment variants of the REAL program (subprocess): stdio encoding, locale, hash seed, optimisation — with
    # ASCII and non-ASCII secrets.  Exit status 0 => stdout is the API result; otherwise stdout carries no wallet data.
    envs = [{"PYTHONIOENCODING": "ascii"}, {"PYTHONIOENCODING": "latin-1"}, {"LC_ALL": "C", "LANG": "C", "PYTHONUTF8": "0"},
            {"PYTHONHASHSEED": "0"}, {"PYTHONHASHSEED": "4242"}, {"PYTHONOPTIMIZE": "1"}, {"PYTHONIOENCODING": "utf-16"}]
    if tier == "quick":
        envs = envs[:3] + [rng.choice(envs[3:])]
    mn_ = "legal winner thank year wave sausage worth useful legal winner thank yellow"
    vecs = [["--interval", "0", "1", "from-mnemonic", mn_, "--password", "p\u00e4ssw\u00f6rd"],
            ["--testnet", "--interval", "3", "4", "from-entropy-hex", "00" * 16, "--password", "\u30d1\u30b9"],
            ["--paranoia", "--interval", "0", "1", "from-mnemonic", mn_, "--password", "\U0001f511"],
            ["--interval", "0", "1", "from-mnemonic", mn_, "--password", "plain"]]
    k = 0
    for ev in envs:
        for argv in (vecs if tier == "thorough" else [vecs[0], rng.choice(vecs[1:])]):
            env = dict(os.environ, PYTHONPATH=impl.REPO)
            env.update(ev)
            p = subprocess.run(["/venv/bin/python", "-m", "btc_hd_wallet"] + argv, cwd="/", env=env,
                               stdout=subprocess.PIPE, stderr=subprocess.PIPE, timeout=600)
            k += 1
            enc_ = ev.get("PYTHONIOENCODING", "utf-8")
            try:
                text = p.stdout.decode(enc_ if enc_ != "utf-16" else "utf-16", errors="replace")
            except LookupError:
                text = p.stdout.decode("utf-8", errors="replace")
            line = "# environment %s: python -m btc_hd_wallet %s" % (ev, " ".join(argv))
            if p.returncode != 0:
                if any(marker in text for marker in ('"MASTER"', '"BIP44"', "legal winner", '"groups"')):
                    yield line, "the run failed (exit status %d) but wallet data was emitted on standard output" % p.returncode
                continue
            g2 = parse_intent(argv)
            try:
                rep = json.loads(text)
                want = api_result(g2, bytes(40))
            except Exception as e:
                yield line, "exit status 0 but standard output is not the report (%s)" % type(e).__name__
                continue
            if rep != want:
                yield line, "under this environment the CLI output differs from the API result"
    info["environment_variant_runs"] = k


def nontrivial(line, out):
    return True


def parse_intent(argv):
    """What the user asked for, read off the canonical vector (independent of the model):
    returns dict or None when the vector is not plainly valid."""
    g = {"file": False, "testnet": False, "paranoia": False, "account": 0, "a": 0, "b": 20}
    i = 0
    try:
        while i < len(argv):
            t = argv[i]
            if t in ("-f", "--file"):
                g["file"] = True
                i += 2
            elif t == "--testnet":
                g["testnet"] = True
                i += 1
            elif t == "--paranoia":
                g["paranoia"] = True
                i += 1
            elif t == "--account":
                g["account"] = int(argv[i + 1])
                i += 2
            elif t == "--interval":
                g["a"], g["b"] = int(argv[i + 1]), int(argv[i + 2])
                i += 3
            else:
                break
        g["cmd"] = argv[i]
        rest = argv[i + 1:]
        pw = ""
        ln = 24
        pos = []
        j = 0
        while j < len(rest):
            if rest[j] == "--password":
                pw = rest[j + 1]
                j += 2
            elif rest[j] == "--mnemonic-len":
                ln = int(rest[j + 1])
                j += 2
            else:
                pos.append(rest[j])
                j += 1
        g["password"], g["len"], g["pos"] = pw, ln, pos
        g["pw_given"] = "--password" in rest
        g["len_given"] = "--mnemonic-len" in rest
        return g
    except (IndexError, ValueError):
        return None


def api_result(g, osbytes):
    """The library API called directly with the same values."""
    from btc_hd_wallet import PaperWallet
    import btc_hd_wallet.__main__ as cli
    c = g["cmd"]
    if c == "new":
        with impl._Urandom(osbytes):
            w = PaperWallet.new_wallet(mnemonic_length=g["len"], password=g["password"], testnet=g["testnet"])
    elif c == "from-master-xprv":
        w = PaperWallet.from_extended_key(g["pos"][0])
    elif c == "from-mnemonic":
        w = PaperWallet.from_mnemonic(mnemonic=g["pos"][0].strip(), password=g["password"], testnet=g["testnet"])
    elif c == "from-bip39-seed":
        w = PaperWallet.from_bip39_seed_hex(g["pos"][0], testnet=g["testnet"])
    elif c == "from-entropy-hex":
        w = PaperWallet.from_entropy_hex(g["pos"][0], password=g["password"], testnet=g["testnet"])
    else:
        raise KeyError(c)
    data = w.generate(account=g["account"], interval=(g["a"], g["b"]))
    if g["paranoia"]:
        data = cli.paranoia_mode(data)
    return json.loads(json.dumps(data))


_sub_count = [0]


def oracle(line, out):
    tok = line.split(" ")
    fs, osb = tok[1], unhex(tok[2])
    argv = [] if tok[3] == "=" else [unstr(x) for x in tok[3].split(",")]
    v = ok_val(out)
    if v is None:
        return "CLI run could not be canonicalised"
    if v.startswith(("overwrote", "unexpected-files", "nonzero-status", "file-and-stdout", "existing-sibling")):
        return "CLI broke the output contract: %s" % v[:120]
    if v.startswith("zero-status-output-not-json"):
        return "exit status 0, but what was printed / saved is not a JSON document (it begins %r)" % unstr(v.split(" ")[1])[:60]
    if v in ("reject", "help"):
        # non-zero status, nothing on stdout (beyond usage text), no file: the first alternative of the
        # property.  (The property does not oblige the CLI to accept any particular vector.)
        return None
    # accepted
    kind, target, js = v.split(" ", 2)
    rep = from_canon(js)
    g = parse_intent(argv)
    if g is None:
        return "output emitted for an argument vector that is not well formed"
    if fs != "absent" and g["file"]:
        return "output written although the --file path is %s" % fs
    if (target == "file") != g["file"]:
        return "output went to %s but --file was %s" % (target, "given" if g["file"] else "not given")
    try:
        want = api_result(g, osb)
    except Exception as e:
        return "CLI emitted output but the API call with the same values fails (%s)" % type(e).__name__
    if rep != want:
        return "CLI output differs from the API result for the same secret/network/account/interval"
    # BIP44-shaped rows
    for p in ("BIP44", "BIP49", "BIP84"):
        for r in rep[p]["groups"]:
            comps = r[0].split("/")
            if len(comps) != 6 or not all(c.endswith("'") for c in comps[1:4]) or comps[4] != "0" or \
                    comps[5].endswith("'") or not comps[5].isdigit():
                return "row path %s is not BIP44-shaped (hardened purpose/coin/account, normal chain/index)" % r[0]
    # tie in-process to real process behaviour on a sample
    _sub_count[0] += 1
    if _sub_count[0] % 20 == 0 and g["cmd"] != "new" and not g["file"]:
        env = dict(os.environ, PYTHONPATH=impl.REPO)
        p = subprocess.run(["/venv/bin/python", "-m", "btc_hd_wallet"] + argv, cwd="/", env=env,
                           stdout=subprocess.PIPE, stderr=subprocess.PIPE, text=True, timeout=600)
        if p.returncode != 0 or json.loads(p.stdout) != rep:
            return "subprocess run differs from in-process run"
    return None


def known_match(line, out, msg, known):
    """K2: --interval END above 2^31 accepted, giving hardened address indexes."""
    if "not BIP44-shaped" not in msg:
        return None
    tok = line.split(" ")
    argv = [unstr(x) for x in tok[3].split(",")]
    g = parse_intent(argv)
    if g and g["b"] > H and g["b"] < 2 ** 32 - 1:
        # every offending row must have index >= 2^31 and nothing else wrong
        v = ok_val(out if out else impl.run(line)) or ok_val(impl.run(line))
        rep = from_canon(v.split(" ", 2)[2])
        for p in ("BIP44", "BIP49", "BIP84"):
            for r in rep[p]["groups"]:
                comps = r[0].split("/")
                bad = len(comps) != 6 or not all(c.endswith("'") for c in comps[1:4]) or comps[4] != "0"
                if bad:
                    return None
                if comps[5].endswith("'") and not (H <= int(comps[5][:-1]) + H < 2 ** 32):
                    return None
        for k in known:
            if k.get("id") == "K2":
                return k
    return None


def literal_ops(lit):
    ob = hx(bytes(range(40)))
    if lit <= 30:
        yield "cli absent %s %s" % (ob, enc(["--account", str(lit), "--paranoia", "--interval", "0", str(lit), "from-bip39-seed", SEED]))
    elif lit <= 5000:
        # a report of lit + 1 rows (a batch / page / buffer size in the code is crossed with certainty)
        yield "cli absent %s %s" % (ob, enc(["--paranoia", "--interval", "0", str(lit + 1), "from-bip39-seed", SEED]))
        yield "cli absent %s %s" % (ob, enc(["--account", str(lit), "--interval", "0", "1", "from-bip39-seed", SEED]))
    else:
        yield "cli absent %s %s" % (ob, enc(["--account", str(lit), "--interval", "0", "1", "from-bip39-seed", SEED]))
        yield "cli absent %s %s" % (ob, enc(["--interval", str(lit), str(lit + 1), "from-bip39-seed", SEED]))
