"""C04 — Mnemonic sentences encode their entropy losslessly with a valid checksum."""
import hashlib
from .common import *  # noqa: F401,F403
from . import common
import impl

PID = "C04"
LEAN_MODULES = ["BtcHd.Props.C04"]
LEAN_MODULES_THOROUGH = ['BtcHd.Props.TrBip39']
TRUSTED_BASE = common.CORE_TRUSTED + [
    "SHA-256 is a parameter of the theorems (only its 32-byte output length is used)",
    "lean/BtcHd/Official/Wordlist.lean is a frozen copy of bip-0039/english.txt, anchored by the SHA-256 "
    "2f5eed53a4727b4bf8880d8f3f199efc90e58503646d9ff8eff3a2ed3b24dbda of the newline-joined list (checked by the harness)"]
ASSUMPTIONS = ["bytes.fromhex / bin / zfill / re.findall of CPython as documented"]
RULE = ("for each of the 5 sizes: all-zero, all-one, single-bit, 1..31 leading zero bytes, entropy whose SHA-256 starts "
        "with zero bits, random; every other byte length 0..64; hex with embedded whitespace, odd length, upper case, "
        "non-hex; non-trivial = distinct case with non-constant entropy")
OFFICIAL_SHA = "2f5eed53a4727b4bf8880d8f3f199efc90e58503646d9ff8eff3a2ed3b24dbda"
SIZES = [16, 20, 24, 28, 32]


def cases(rng, tier):
    rb = lambda n: bytes(rng.getrandbits(8) for _ in range(n))
    for n in SIZES:
        yield "mn_from_ent " + sx(bytes(n).hex()), "all-zero"
        yield "mn_from_ent " + sx((b"\xff" * n).hex()), "all-one"
        for bit in (0, 1, 7, 8, 8 * n - 1, 8 * n - 11, 8 * n - 12):
            v = (1 << bit).to_bytes(n, "big")
            yield "mn_from_ent " + sx(v.hex()), "single-bit"
        for z in range(1, n):
            if tier == "thorough" or z in (1, 2, n // 2, n - 1):
                yield "mn_from_ent " + sx((bytes(z) + rb(n - z)).hex()), "leading-zero"
        # hash with leading zero bits (search)
        found = 0
        tries = 0
        while found < 2 and tries < 4000:
            e = rb(n)
            tries += 1
            if hashlib.sha256(e).digest()[0] < 8:
                yield "mn_from_ent " + sx(e.hex()), "hash-leading-zero"
                found += 1
        for _ in range(30 if tier == "quick" else 3000):
            e = rb(n).hex()
            r = rng.random()
            if r < 0.15:
                e = e.upper()
            elif r < 0.3:
                j = 2 * rng.randrange(n)
                e = e[:j] + rng.choice([" ", "\t", "\n", "  ", "\r\n"]) + e[j:]
            elif r < 0.35:
                e = " " + e + " "
            yield "mn_from_ent " + sx(e), "random"
    for n in range(0, 65):
        if n not in SIZES:
            yield "mn_from_ent " + sx(rb(n).hex()), "wrong-size"
            yield "mn_from_ent " + sx(" " + rb(n).hex()), "wrong-size-ws"
    for n in SIZES:
        e = rb(n).hex()
        yield "mn_from_ent " + sx(e[:-1]), "odd-length"
        yield "mn_from_ent " + sx(e[:-1] + "g"), "non-hex"
        yield "mn_from_ent " + sx(e[:3] + " " + e[3:]), "space-inside-pair"
        yield "mn_from_ent " + sx("0x" + e), "0x-prefix"
        yield "mn_from_ent " + sx(e + " " * 4), "trailing-ws-makes-len-valid"
        # a wrong decoded size whose *text* length looks right: 30 hex chars + 2 spaces
        yield "mn_from_ent " + sx(rb(n - 1).hex() + "  "), "text-length-right-size-wrong"


    # the module's public helpers are pure: calling them — with legal or illegal sizes — between requests must not
    # change what is accepted afterwards (helper call, then the request it could influence, in one process)
    for n in list(range(0, 65)) if tier == "thorough" else [0, 1, 15, 17, 19, 31, 33, 40, 64] + [rng.randrange(65) for _ in range(4)]:
        yield "mn_slen %d" % (8 * n), "helper-sentence-length"
        yield "mn_cslen %d" % (8 * n), "helper-checksum-length"
        yield "mn_bits_ok %d" % (8 * n), "helper-bits-ok"
        yield "mn_from_ent " + sx(rb(n).hex()), "after-helpers"
        yield "mn_slen %d" % n, "helper-sentence-length"
        yield "mn_bits_ok %d" % n, "helper-bits-ok"
    for n in SIZES:
        yield "mn_from_ent " + sx(rb(n).hex()), "after-helpers"
    # hex text in which one digit is a non-ASCII character that some str method maps to it (full-width, mathematical …)
    look = common.unicode_lookalikes()
    for n in SIZES[:2 if tier == "quick" else 5]:
        e = rb(n).hex()
        for _ in range(6):
            j = rng.randrange(len(e))
            subs = look.get(e[j], []) + look.get(e[j].upper(), [])
            if subs:
                yield "mn_from_ent " + sx(e[:j] + rng.choice(subs) + e[j + 1:]), "unicode-lookalike-hex"
    # the sentence a wallet REPORTS for its entropy, read after another wallet has been created
    for n in SIZES:
        a_, b_ = rb(n).hex(), rb(rng.choice(SIZES)).hex()
        yield "wallet_held ent:%s:-:-:%s ent:%s:-:-:%s" % (sx(a_), rng.choice("01"), sx(b_), rng.choice("01")), "held-wallet-mnemonic"
        yield "wallet ent:%s:-:-:0" % sx(a_), "wallet-mnemonic"


def nontrivial(line, out):
    if not line.startswith("mn_from_ent"):
        return True
    e = unstr(line.split(" ")[1])
    return len(set(e)) > 2


_words = [None]


def words():
    if _words[0] is None:
        from btc_hd_wallet.bip39_wordlist import word_list
        _words[0] = list(word_list)
    return _words[0]


def oracle(line, out):
    op, arg = line.split(" ")[:2]
    v = ok_val(out)
    if op in ("wallet", "wallet_held"):
        e = unstr(arg.split(":")[1])
        if v is None:
            return "wallet from valid entropy failed"
        got_mn = v.split(" ")[13]           # "s<hex of the text>" or "-"
        if not got_mn.startswith("s"):
            return "wallet reports no mnemonic"
        return oracle("mn_from_ent " + sx(e), "ok " + got_mn[1:])
    if op in ("mn_slen", "mn_cslen", "mn_bits_ok"):
        n = int(arg)
        if op == "mn_bits_ok":
            return None if (v is not None) == (n in (128, 160, 192, 224, 256)) else \
                "correct_entropy_bits_value accepts/refuses the wrong size %d" % n
        want = (n + n // 32) // 11 if op == "mn_slen" else n // 32
        return None if v == str(want) else "%s(%d) = %s, expected %d" % (op, n, v, want)
    e = unstr(arg)
    try:
        eb = bytes.fromhex(e)
    except ValueError:
        eb = None
    if eb is None or len(eb) not in SIZES:
        return None if v is None else "entropy of wrong size / malformed hex produced a sentence (%r)" % e[:20]
    if v is None:
        # refusing hex text that carries whitespace is not against the property (no sentence is handed out)
        return "valid entropy rejected" if e == eb.hex() or e == eb.hex().upper() else None
    ws = unstr(v).split(" ")
    if len(ws) != len(eb) * 3 // 4:
        return "sentence has %d words for %d bytes" % (len(ws), len(eb))
    wl = words()
    try:
        idx = [wl.index(w) for w in ws]
    except ValueError:
        return "sentence contains a word outside the list"
    bits = "".join(format(i, "011b") for i in idx)
    ent_bits = "".join(format(b, "08b") for b in eb)
    cs_bits = "".join(format(b, "08b") for b in hashlib.sha256(eb).digest())[:len(eb) // 4]
    if bits != ent_bits + cs_bits:
        return "sentence does not decode to entropy || first ENT/32 bits of SHA-256"
    return None


def official_words():
    """the frozen official list, read from lean/BtcHd/Official/Wordlist.lean (the copy the theorems are about)"""
    import os, re
    path = os.path.join(os.path.dirname(os.path.abspath(__file__)), "..", "..", "lean", "BtcHd", "Official", "Wordlist.lean")
    src = open(path, encoding="utf-8").read()
    ws = []
    for m in re.finditer(r"def textChunk\d+ : List String := \[(.*?)\]", src, re.S):
        ws += re.findall(r'"([a-z]+)"', m.group(1))
    return ws


def exception_safety(rng, tier, info):
    """every public function of the module is called with arguments that make it FAIL (non-integer sizes equal to or
    near a legal size, wrong types), and after each failed call a battery of wrong-size entropies must still be
    refused and a legal one still be encoded correctly: a failed call must leave nothing behind"""
    from decimal import Decimal
    from fractions import Fraction
    import btc_hd_wallet.bip39 as b39
    rb = lambda n: bytes(rng.getrandbits(8) for _ in range(n))
    bad_args = []
    for bits in (128, 160, 256):
        bad_args += [float(bits), Decimal(bits), Fraction(bits), bits + 0.5, str(bits), None, [bits], bits * 1j]
    bad_args += [136, 0, -128, 255.0, True]
    funcs = [("mnemonic_from_entropy_bits", lambda a: b39.mnemonic_from_entropy_bits(a)),
             ("mnemonic_sentence_length", lambda a: b39.mnemonic_sentence_length(a)),
             ("checksum_length", lambda a: b39.checksum_length(a)),
             ("correct_entropy_bits_value", lambda a: b39.correct_entropy_bits_value(a)),
             ("mnemonic_from_entropy", lambda a: b39.mnemonic_from_entropy(a))]
    n = 0
    for name, f in funcs:
        for a in (bad_args if tier == "thorough" else rng.sample(bad_args, 9)):
            try:
                with impl._Urandom(bytes(range(64))):
                    f(a)
                failed = False
            except Exception:
                failed = True
            n += 1
            probes = ["mn_from_ent " + sx(rb(k).hex()) for k in (17, 0, 33, rng.choice([1, 15, 31, 40, 64]))]
            probes.append("mn_from_ent " + sx(rb(rng.choice(SIZES)).hex()))
            for line in probes:
                out = impl.run(line)
                msg = oracle(line, out)
                if msg:
                    yield ("# %s(%r) %s, then: %s" % (name, a, "raised" if failed else "returned", line),
                           "after that call: " + msg)
                    return
    info["exception_safety_calls"] = n


def module_sweep(rng, tier, info):
    """EVERY public function of bip39.py and of the package's top level (found by introspection — also ones this harness
    has never heard of) is called with well-formed values of the module's own vocabulary (valid sentences, entropy hex,
    sizes, byte strings, words) in every parameter position; whatever the call does, afterwards the embedded word list
    is still the official list and sentences are still encoded correctly"""
    import inspect
    import btc_hd_wallet
    import btc_hd_wallet.bip39 as b39
    from .c12 import mnemonic as indep_mnemonic
    rb = lambda n: bytes(rng.getrandbits(8) for _ in range(n))
    sent12, sent24 = indep_mnemonic(rb(16)), indep_mnemonic(rb(32))
    pool = [sent12, sent24, " ".join(w_[:4] for w_ in sent12.split(" ")), sent12.upper(), rb(16).hex(), rb(32).hex(),
            128, 256, 12, 24, 4, rb(16), rb(32), "abandon", "zoo", ["abandon", "zoo"], sent12.split(" "), "", 0, None]
    fns = {}
    for mod in (b39, btc_hd_wallet):
        for nm, f in vars(mod).items():
            if nm.startswith("_") or not inspect.isfunction(f) or not getattr(f, "__module__", "").startswith("btc_hd_wallet.bip39"):
                continue
            fns[nm] = f
    n = 0
    before = list(words())
    for nm, f in sorted(fns.items()):
        try:
            params = [p_ for p_ in inspect.signature(f).parameters.values()
                      if p_.kind in (p_.POSITIONAL_ONLY, p_.POSITIONAL_OR_KEYWORD)]
        except (TypeError, ValueError):
            continue
        required = [p_ for p_ in params if p_.default is p_.empty]
        arglists = [[]] if not required else []
        if len(params) >= 1:
            arglists += [[v_] for v_ in pool]
        if len(params) >= 2:
            arglists += [[rng.choice(pool), rng.choice(pool)] for _ in range(12)]
        for args in arglists:
            if len(args) < len(required):
                continue
            try:
                with impl._Urandom(bytes(range(64))):
                    common.scribble(f(*args))       # ... and the caller empties whatever list / dict it got back
            except Exception:
                pass
            n += 1
            now = words()
            probe = "mn_from_ent " + sx(next((a_ for a_ in args if isinstance(a_, str) and len(a_) in (32, 64) and
                                              all(c_ in "0123456789abcdef" for c_ in a_)), rb(rng.choice(SIZES)).hex()))
            msg = None if now == before else "the embedded word list changed (first difference at index %d: %r)" % next(
                ((i, now[i] if i < len(now) else None) for i in range(max(len(now), len(before)))
                 if i >= len(now) or i >= len(before) or now[i] != before[i]))
            if msg is None:
                msg = oracle(probe, impl.run(probe))
            if msg:
                yield ("# bip39.%s(%s) was called, then: %s" % (nm, ", ".join(repr(a_)[:60] for a_ in args), probe),
                       "after that call: " + msg)
                return
    info["module_sweep_calls"] = n
    info["module_sweep_functions"] = sorted(fns)


def extra_checks(rng, tier, g, info):
    yield from exception_safety(rng, tier, info)
    yield from module_sweep(rng, tier, info)
    wl = words()
    digest = hashlib.sha256(("\n".join(wl) + "\n").encode()).hexdigest()
    info["wordlist_sha256"] = digest
    off = official_words()
    info["official_copy_sha256"] = hashlib.sha256(("\n".join(off) + "\n").encode()).hexdigest()
    if info["official_copy_sha256"] != OFFICIAL_SHA:
        yield "mn_from_ent -", "frozen official list in lean/BtcHd/Official/Wordlist.lean does not have the official digest"
        return
    if digest != OFFICIAL_SHA or len(wl) != 2048:
        # build a concrete entropy whose FIRST word index is the first position where the lists differ
        bad = next((i for i in range(2048) if i >= len(wl) or wl[i] != off[i]), 0)
        ent = (bad << (128 - 11)).to_bytes(16, "big")
        line = "mn_from_ent " + sx(ent.hex())
        got = impl.run(line)
        first = impl.unstr(got[3:]).split(" ")[0] if got.startswith("ok ") else got
        yield line, ("embedded word list differs from the official BIP39 English list at index %d: the sentence for "
                     "entropy %s starts with %r, official word is %r" % (bad, ent.hex(), first, off[bad]))


known_match = common.no_known


def literal_ops(lit):
    if lit <= 80:
        yield "mn_from_ent " + sx("5a" * lit)
        yield "mn_from_ent " + sx("00" * lit)
