"""C01 — BIP32 private child derivation matches the spec for every parent and index."""
import hashlib
import hmac
from .common import *  # noqa: F401,F403
from . import common
from .c09 import point, sec_c
import impl

PID = "C01"
LEAN_MODULES = ["BtcHd.Props.C01"]
LEAN_MODULES_THOROUGH = ['BtcHd.Props.TrBip32']
TRUSTED_BASE = common.CORE_TRUSTED + [
    "HMAC-SHA512, HASH160 and the curve are parameters of the theorems: they hold for every PRF output; "
    "the driver's concrete primitives are compared with hashlib/python-ecdsa on every case"]
ASSUMPTIONS = ["hmac/hashlib (OpenSSL) and python-ecdsa are correct"]
RULE = ("parents: scalars {1,n-1,leading-zero,random} x chain codes x depth {0,1,254} x 32/33-byte key form; indexes "
        "{0,1,2^31-1,2^31,2^31+1,2^32-1,random}; chosen PRF outputs driving IL+k to {1,n-1,wrap,small,leading-zero child}; "
        "multi-level paths; BIP32 vectors; non-trivial = distinct case")
IDX = [0, 1, 2, 2 ** 31 - 1, 2 ** 31, 2 ** 31 + 1, 2 ** 32 - 1]


def h160(b):
    return hashlib.new("ripemd160", hashlib.sha256(b).digest()).digest()


def spec_ckd_priv(k, chain, depth, index, prf=None):
    """BIP32 CKDpriv written from the specification; returns (k_child, chain_child, depth, index, fp) or None"""
    x, y = point(k)
    serP = sec_c(x, y)
    data = (b"\x00" + k.to_bytes(32, "big") if index >= 2 ** 31 else serP) + index.to_bytes(4, "big")
    I = prf if prf is not None else hmac.new(chain, data, hashlib.sha512).digest()
    IL = int.from_bytes(I[:32], "big")
    if IL >= N:
        return None
    ki = (IL + k) % N
    if ki == 0:
        return None
    return ki, I[32:], depth + 1, index, h160(serP)[:4]


def rand_parent(rng):
    r = rng.random()
    if r < 0.2:
        k = rng.choice([1, 2, N - 1, N - 2])
    elif r < 0.4:
        k = rng.getrandbits(rng.choice([8, 120, 200, 247])) or 1
    else:
        k = rng.randrange(1, N)
    chain = bytes(rng.getrandbits(8) for _ in range(32))
    depth = rng.choice([0, 1, 3, 254])
    form33 = rng.random() < 0.4
    key = (b"\x00" if form33 else b"") + k.to_bytes(32, "big")
    index = 0 if depth == 0 else rng.getrandbits(32)
    fp = "none" if depth == 0 else hx(bytes(rng.getrandbits(8) for _ in range(4)) or b"\x01")
    t = rng.choice("01")
    return "P:%s:%s:%d:%d:%s:%s" % (hx(key), hx(chain), depth, index, t, fp), k, chain, depth


def _cases_main(rng, tier):
    n = 60 if tier == "quick" else 5000
    # BIP32 test vector 1 & 3 seeds through master
    for seed in ("000102030405060708090a0b0c0d0e0f",
                 "4b381541583be4423346c643850da4b320e46a87ae3d2a4e6da11eba819cd4acba45d239319ac14f863b8d5ab5a0d0c64d2e8a1e7d1457df2e5a3c51c73235be",
                 "3ddd5602285899a946114506157c7997e5444528f3003f6134712147db19b678"):
        yield "master %s 0 -" % seed, "vector-master"
    yield ("ckd P:e8f32e723decf4051aefac8e2c93c9c5b214313817cdb01a1494b917c8436b35:"
           "873dff81c02f525623fd1fe5167eac3a55a049de3d314bb42ee227ffed37d508:0:0:0:none 2147483648,1,2147483650,2,1000000000 -"), "vector1-path"
    for _ in range(n):
        spec, k, chain, depth = rand_parent(rng)
        idx = rng.choice(IDX) if rng.random() < 0.6 else rng.getrandbits(32)
        yield "ckd %s %d -" % (spec, idx), "single-real-prf"
        if rng.random() < 0.5:
            path = [rng.choice(IDX) if rng.random() < 0.5 else rng.getrandbits(32) for _ in range(rng.randint(2, 5))]
            yield "ckd %s %s -" % (spec, impl.lst(str, path)), "path-real-prf"
        # chosen PRF output: drive (IL + k) mod n to corners (valid ones)
        for target in (1, 2, N - 1, rng.getrandbits(8) or 1, rng.getrandbits(200) or 1):
            IL = (target - k) % N
            if IL >= N:
                continue
            prf = IL.to_bytes(32, "big") + bytes(rng.getrandbits(8) for _ in range(32))
            yield "ckd %s %d prf=%s" % (spec, idx, prf.hex()), "single-chosen-prf"
        # invalid ones (C18 overlap, C01 demands failure as the spec does)
        for IL in (N, N + 1, 2 ** 256 - 1, (N - k) % N):
            if IL == 0:
                continue
            prf = IL.to_bytes(32, "big") + bytes(32)
            yield "ckd %s %d prf=%s" % (spec, idx, prf.hex()), "invalid-chosen-prf"
    # sibling parents differing in exactly one field, derived in one process (result must depend on all of
    # key, chain code and index and on nothing else)
    for _ in range(n // 2):
        spec, k, chain, depth = rand_parent(rng)
        cls, key, ch, d, idx, t, fp = spec.split(":")
        i = rng.choice(IDX)
        ch2 = hx(bytes(rng.getrandbits(8) for _ in range(32)))
        k2 = hx(rng.randrange(1, N).to_bytes(32, "big"))
        for kk, cc in [(key, ch), (key, ch2), (k2, ch), (key, ch), (key, ch2)]:
            yield "ckd P:%s:%s:%s:%s:%s:%s %d -" % (kk, cc, d, idx, t, fp, i), "prv-sibling-parents"
    for i in (2 ** 32, 2 ** 32 + 1, 2 ** 40):
        spec, k, chain, depth = rand_parent(rng)
        yield "ckd %s %d -" % (spec, i), "index-overflow"


def collision_cases(rng, tier, neuter_fn=None):
    """sibling parents whose public keys share the 4-byte fingerprint, same chain code, same indexes, one process"""
    pairs = common.fp_pairs()
    pairs = pairs[:4] if tier == "quick" else pairs
    for ka, kb in pairs:
        chain = hx(bytes(rng.getrandbits(8) for _ in range(32)))
        t = rng.choice("01")
        idxs = [0, 5, 2 ** 31 - 1] + ([] if neuter_fn else [2 ** 31, 2 ** 32 - 1])
        for i in idxs:
            for k in (ka, kb, ka):
                spec = "P:%s:%s:0:0:%s:none" % (hx(k.to_bytes(32, "big")), chain, t)
                if neuter_fn:
                    spec = neuter_fn(spec, k)
                yield "ckd %s %d -" % (spec, i), "fp-collision-siblings"
        path = [rng.choice(idxs) for _ in range(3)]
        for k in (ka, kb):
            spec = "P:%s:%s:0:0:%s:none" % (hx(k.to_bytes(32, "big")), chain, t)
            if neuter_fn:
                spec = neuter_fn(spec, k)
            yield "ckd %s %s -" % (spec, impl.lst(str, path)), "fp-collision-path"


def projection_cases(rng, tier, neuter_fn=None):
    """sibling parents whose SCALARS agree under a projection (hash(int), low/high bits, see common.projection_siblings),
    same chain code and indexes, used back to back in one process"""
    for ka, kb, why in common.projection_siblings(rng, 6 if tier == "quick" else 60):
        chain = hx(bytes(rng.getrandbits(8) for _ in range(32)))
        t = rng.choice("01")
        for i in [0, 7] + ([] if neuter_fn else [2 ** 31 + 1]):
            for k in (ka, kb, ka):
                spec = "P:%s:%s:0:0:%s:none" % (hx(k.to_bytes(32, "big")), chain, t)
                if neuter_fn:
                    spec = neuter_fn(spec, k)
                yield "ckd %s %d -" % (spec, i), "projection-siblings-" + why


def _hist_cases(rng, tier):
    """private derivation inside operation histories on ONE shared wallet: the same node is asked for several paths
    (the client hands over ONE list object, modified in place between requests — impl.HistCtx), single steps, bulk
    intervals; kept nodes are looked at again.  Judged by the stateless recomputation of C13."""
    from .c13 import gen_history
    H = 2 ** 31
    for _ in range(2 if tier == "quick" else 60):
        e = bytes(rng.getrandbits(8) for _ in range(16)).hex()
        i, j = rng.choice(IDX), rng.choice(IDX)
        ops = ["dp:0:%s" % impl.lst(str, [84 + H, H, H, 0, 0]), "dp:0:%s" % impl.lst(str, [84 + H, H, H, 0, 1]),
               "dp:0:%s" % impl.lst(str, [i, j]), "dp:0:%s" % impl.lst(str, [i, j, 7]), "dp:0:%s" % impl.lst(str, [i]),
               "dp:2:%s" % impl.lst(str, [1, 2]), "dp:2:%s" % impl.lst(str, [1, 3]), "dp:0:%s" % impl.lst(str, [j, i]),
               "xk:1", "xk:2", "xk:4", "xk:0", "dp:0:%s" % impl.lst(str, [j]), "ckd:0:%d" % i, "xk:5", "ckd:5:%d" % j,
               "dp:0:%s" % impl.lst(str, [i, i])] + gen_history(rng, 8)
        yield "hist ent:%s:-:-:%s %s" % (sx(e), rng.choice("01"), ";".join(ops)), "shared-private-object-history"


def _bulk_cases(rng, tier):
    for _ in range(2 if tier == "quick" else 40):
        spec, k, chain, depth = rand_parent(rng)
        for ar, a, b, st in common.bulk_interval_shapes(rng):
            yield "gen_step %s %d %d %d %d -" % (spec, ar, a, b, st), "bulk-interval-shape"


def nontrivial(line, out):
    return True


def oracle(line, out):
    tok = line.split(" ")
    op = tok[0]
    v = ok_val(out)
    if op == "hist":
        from .c13 import oracle as o13
        return o13(line, out)
    if op == "gen_step":
        return common.bulk_oracle(line, out)
    if op == "master":
        seed, t, prf = unhex(tok[1]), tok[2], tok[3]
        I = hmac.new(b"Bitcoin seed", seed, hashlib.sha512).digest() if prf == "-" else unhex(prf[4:])
        IL = int.from_bytes(I[:32], "big")
        if IL == 0 or IL >= N:
            return None if v is None else "invalid master key returned"
        if v is None:
            return "valid master key refused"
        f = v.split(" ")
        if unhex(f[2]) != I[:32] or unhex(f[3]) != I[32:] or f[4] != "0" or f[5] != "0":
            return "master key is not the split HMAC-SHA512('Bitcoin seed', seed)"
        return None
    if op == "ckd":
        spec, ls, prf = tok[1], impl.unlist(int, tok[2]), tok[3]
        cls, key, chain, depth, index, t, fp = spec.split(":")
        if cls != "P":
            return None
        kb = unhex(key)
        k = int.from_bytes(kb, "big")
        chain = unhex(chain)
        depth = int(depth)
        prfb = None if prf == "-" else unhex(prf[4:])
        cur = (k, chain, depth, int(index), None)
        for i in ls:
            if i >= 2 ** 32:
                cur = None
                break
            cur = spec_ckd_priv(cur[0], cur[1], cur[2], i, prfb)
            if cur is None:
                break
        if cur is None:
            return None if v is None else "BIP32-invalid child (or 33-bit index) returned: %s" % v[:60]
        if v is None:
            return "valid CKDpriv failed"
        f = v.split(" ")
        if not ls:
            return None
        got_key = unhex(f[2])
        if len(got_key) != 32:
            return "child key is %d bytes, not 32" % len(got_key)
        if int.from_bytes(got_key, "big") != cur[0]:
            return "child key != (IL + k_par) mod n"
        if unhex(f[3]) != cur[1] or int(f[4]) != cur[2] or int(f[5]) != cur[3] or unhex(f[7]) != cur[4]:
            return "chain code / depth / child number / parent fingerprint differ from CKDpriv"
        if f[6] != t:
            return "network flag changed by derivation"
        # printed strings
        for which, ver in (("prv", 0x04358394 if t == "1" else 0x0488ADE4), ("pub", 0x043587CF if t == "1" else 0x0488B21E)):
            if prfb is not None or cur[2] > 255:
                break
            s = impl.run("xk_ser %s %s %s -" % (spec, tok[2], which))
            x, y = point(cur[0])
            key33 = b"\x00" + cur[0].to_bytes(32, "big") if which == "prv" else sec_c(x, y)
            pl = ver.to_bytes(4, "big") + bytes([cur[2]]) + cur[4] + cur[3].to_bytes(4, "big") + cur[1] + key33
            if s != "ok " + sx(b58check_enc(pl)):
                return "extended %s key string of the derived node differs from the BIP32 serialisation" % which
        return None
    return None


known_match = common.no_known


def literal_ops(lit):
    spec = "P:%s:%s:1:5:0:01020304" % (hx((2 ** 200 + 7).to_bytes(32, "big")), hx(bytes(range(32))))
    yield "ckd %s %d -" % (spec, lit)
    if 1 <= lit < N:
        yield "ckd P:%s:%s:0:0:0:none 1,2147483649 -" % (hx(lit.to_bytes(32, "big")), hx(bytes(32)))


def cases(rng, tier):
    yield from _cases_main(rng, tier)
    yield from _hist_cases(rng, tier)
    yield from _bulk_cases(rng, tier)
    yield from collision_cases(rng, tier)
    yield from projection_cases(rng, tier)
