"""C18 — Invalid children are reported, never returned."""
from .common import *  # noqa: F401,F403
from . import common
from .c09 import point, sec_c
from .c01 import rand_parent
from .c02 import neuter
import impl

PID = "C18"
LEAN_MODULES = ["BtcHd.Props.C18"]
LEAN_MODULES_THOROUGH = ['BtcHd.Props.TrBip32']
TRUSTED_BASE = common.CORE_TRUSTED + [
    "the PRF is a parameter: the theorems are quantified over every 64-byte output; on the real code the corners "
    "are reached by substituting bip32.hmac_sha512 / bip85.hmac_sha512 from outside"]
ASSUMPTIONS = ["module attribute substitution reaches every HMAC call of bip32.py / bip85.py (they import the helper by name)"]
RULE = ("IL in {0,1,n-1,n,n+1,2^256-1,n-k,n-k±1,random} x IR random on several parents, for master / CKDpriv / CKDpub / "
        "BIP85 wif|xprv; for the public side IL with IL*G = -K; non-trivial = distinct case")


def il_values(rng, k):
    vals = [0, 1, 2, N - 1, N, N + 1, 2 ** 256 - 1, (N - k) % N, (N - k + 1) % N, (N - k - 1) % N,
            rng.randrange(1, N), rng.randrange(N, 2 ** 256)]
    return vals


def cases(rng, tier):
    yield from _bulk_cases(rng, tier)
    n = 12 if tier == "quick" else 600
    for _ in range(n):
        spec, k, chain, depth = rand_parent(rng)
        pub = neuter(spec, k)
        for IL in il_values(rng, k):
            IR = bytes(rng.getrandbits(8) for _ in range(32))
            prf = "prf=" + (IL.to_bytes(32, "big") + IR).hex()
            idx = rng.choice([0, 1, 2 ** 31 - 1])
            yield "ckd %s %d %s" % (spec, idx, prf), "ckd-prv"
            yield "ckd %s %d %s" % (spec, idx + 2 ** 31, prf), "ckd-prv-hardened"
            yield "ckd %s %d %s" % (pub, idx, prf), "ckd-pub"
            # the request repeated on the SAME parent object: an invalid child must be reported every time
            # (c = ckd, d = derive_path, g / G = bulk generation: every entry point that derives a child)
            pat = rng.choice(["cc", "cd", "dd", "cdd", "dcd", "g", "gc", "cg", "G", "gd", "Gg"])
            yield "ckd_retry %s %d %s %s" % (spec, idx, prf, pat), "ckd-prv-retry"
            yield "ckd_retry %s %d %s %s" % (pub, idx, prf, pat), "ckd-pub-retry"
            yield "master %s %s %s" % (hx(bytes(rng.getrandbits(8) for _ in range(16))), rng.choice("01"), prf), "master"
            # BIP85: the first HMAC calls (derivations) must be valid; use a constant PRF whose halves are both IL
            e = "prf=" + (IL.to_bytes(32, "big") + IL.to_bytes(32, "big")).hex()
            yield "bip85 %s wif 0 0 %s" % (spec, e), "bip85-wif"
            yield "bip85 %s xprv 0 0 %s" % (spec, e), "bip85-xprv"
        # BOTH conditions at once: IL >= n and IL + k_par = 0 (mod n), i.e. IL = 2n - k_par, a 256-bit value only for
        # parents within 2^256 - n of n (about 2^-128 of all parents)
        for r_ in (1, 2, rng.randrange(1, 2 ** 64), rng.randrange(2 ** 100, 2 ** 128)):
            kp = N - r_
            IL2 = 2 * N - kp
            if IL2 >= 2 ** 256:
                continue
            spec2 = "P:%s:%s:%d:%d:0:%s" % (hx(kp.to_bytes(32, "big")), hx(bytes(rng.getrandbits(8) for _ in range(32))),
                                             1, 7, hx(bytes(4)))
            prf2 = "prf=" + (IL2.to_bytes(32, "big") + bytes(rng.getrandbits(8) for _ in range(32))).hex()
            for idx2 in (0, 7, 2 ** 31 + 7):
                yield "ckd %s %d %s" % (spec2, idx2, prf2), "both-invalid-conditions"
                yield "ckd_retry %s %d %s %s" % (spec2, idx2, prf2, rng.choice(["c", "d", "g", "cd"])), "both-invalid-conditions-retry"
        # PATHS of several levels whose invalid child sits at level j (the private key is zero there: IL = -k/j mod n;
        # the public key is the point at infinity there), with levels before and behind it, all-hardened, all-normal
        # and mixed: the request as a whole is refused
        H = 2 ** 31
        for j in (1, 2, 3):
            IL = (-k * pow(j, -1, N)) % N
            prf = "prf=" + (IL.to_bytes(32, "big") + bytes(rng.getrandbits(8) for _ in range(32))).hex()
            for extra_levels in (0, 1, 2):
                L = j + extra_levels
                for shape in ("hard", "normal", "mixed"):
                    ls = [rng.choice([0, 1, 7, 83696968]) + (H if shape == "hard" or (shape == "mixed" and rng.random() < 0.5) else 0)
                          for _ in range(L)]
                    yield "ckd %s %s %s" % (spec, impl.lst(str, ls), prf), "path-invalid-level-%d-of-%d-%s" % (j, L, shape)
                    if shape == "normal":
                        yield "ckd %s %s %s" % (pub, impl.lst(str, ls), prf), "path-invalid-level-pub"


def _bulk_cases(rng, tier):
    for _ in range(2 if tier == "quick" else 40):
        spec, k, chain, depth = rand_parent(rng)
        pub = neuter(spec, k)
        for IL in il_values(rng, k)[:10]:
            prf = "prf=" + (IL.to_bytes(32, "big") + bytes(rng.getrandbits(8) for _ in range(32))).hex()
            ar, a, b, st = rng.choice([(3, 4, 0, -2), (3, 0, 6, 3), (1, 0, 2, 0), (3, 2 ** 31 + 2, 2 ** 31 - 1, -2), (2, 1, 3, 0)])
            yield "gen_step %s %d %d %d %d %s" % (rng.choice([spec, pub]), ar, a, b, st, prf), "bulk-interval-shape-prf"


def nontrivial(line, out):
    return True


def oracle(line, out):
    tok = line.split(" ")
    op = tok[0]
    v = ok_val(out)
    if op == "gen_step":
        return common.bulk_oracle(line, out)
    prf = tok[3] if op == "ckd_retry" else tok[-1]
    if not prf.startswith("prf="):
        return None
    I = unhex(prf[4:])
    IL = int.from_bytes(I[:32], "big")
    if op == "master":
        bad = IL == 0 or IL >= N
        if bad:
            return None if v is None else "invalid master key returned (IL = %x)" % IL
        return "valid master key refused" if v is None else None
    if op == "ckd":
        # (a path of several levels under the constant PRF: every level sees the same IL; the FIRST invalid level
        # decides — nothing behind it can make the request valid again)
        spec = tok[1]
        cls, key, chain, depth, index, t, fp = spec.split(":")
        levels = impl.unlist(int, tok[2])
        if cls == "P":
            k = int.from_bytes(unhex(key), "big")
            for lv, _i in enumerate(levels):
                if IL >= N or (IL + k) % N == 0:
                    return None if v is None else "invalid private child (level %d of the path, IL = %x) passed over: a node was returned" % (lv + 1, IL)
                k = (IL + k) % N
            if v is None:
                return "valid private child refused"
            if int.from_bytes(unhex(v.split(" ")[2]), "big") in (0,) or int.from_bytes(unhex(v.split(" ")[2]), "big") >= N:
                return "returned child key is zero or >= n"
            return None
        import ecdsa
        vk = ecdsa.VerifyingKey.from_string(unhex(key), curve=ecdsa.SECP256k1)
        pt = vk.pubkey.point
        for lv, i_ in enumerate(levels):
            if i_ >= 2 ** 31:
                return None         # hardened from public data: C02's subject
            if IL >= N:
                return None if v is None else "public child returned although IL >= n"
            if IL == 0:
                return None      # documented corner: the public side refuses, BIP32 does not require it to
            pt = ecdsa.SECP256k1.generator * IL + pt
            if pt == ecdsa.ellipticcurve.INFINITY:
                return None if v is None else "public child at infinity (level %d of the path) passed over: a node was returned" % (lv + 1)
        return "valid public child refused" if v is None else None
    if op == "ckd_retry":
        if v is None:
            return "request sequence failed as a whole"
        outs = v.split(" ; ")
        first = None
        for j, o in enumerate(outs):
            single = oracle("ckd %s %s %s" % (tok[1], tok[2], tok[3]), "err" if o == "err" else "ok " + o)
            if single:
                return "request #%d on the same parent object: %s" % (j + 1, single)
        if len(set(outs)) != 1:
            return "repeating the request on the same parent object gave different answers"
        return None
    if op == "bip85":
        app = tok[2]
        # with a constant PRF every derivation step sees the same IL: the path derivation itself may fail
        secret = IL   # wif: first 32 bytes; xprv: key = last 32 bytes (= IL too)
        bad = secret == 0 or secret >= N
        if bad:
            return None if v is None else "BIP85 %s emitted for an invalid secret" % app
        return None
    return None


known_match = common.no_known
