"""C03 — Mnemonic+passphrase to seed to master key follows BIP39/BIP32 for all text."""
import hashlib
import hmac
import unicodedata
from .common import *  # noqa: F401,F403
from . import common
import impl

PID = "C03"
LEAN_MODULES = ["BtcHd.Props.C03", "BtcHd.Props.RealInst.C03"]
LEAN_MODULES_THOROUGH = ['BtcHd.Props.TrWallet']
TRUSTED_BASE = common.CORE_TRUSTED + [
    "NFKD is a parameter of the model: CPython's unicodedata supplies the normalised strings with every operation; "
    "PBKDF2-HMAC-SHA512 and HMAC-SHA512 are parameters of the theorems, the driver's concrete versions are compared "
    "with hashlib on every case"]
ASSUMPTIONS = ["unicodedata.normalize('NFKD', .) implements Unicode NFKD", "hashlib.pbkdf2_hmac is PBKDF2"]
RULE = ("mnemonic/passphrase pairs from: ASCII, composed vs decomposed (é ñ Å Hangul), compatibility (ﬁ ① full-width), "
        "CJK, combining-mark reorderings, empty passphrase, Trezor vectors; seeds of length 16..64; both networks; "
        "five constructors; non-trivial = distinct case")

TEXTS = ["", "TREZOR", "password", "é", "é", "ñandú", "ñandú", "Å", "Å", "Å", "ﬁ", "①②",
         "ＡＢＣ１２３", "한글", "한글", "日本語パスワード", "㍍", "ｶﾞ", "ạ̇", "ạ̇",
         "ǆ", "ẛ̣", "½", "Ω", "Ω", " 　", "🔑", "ß", "İstanbul", " x", "µ", "…"]
MN = ["abandon abandon abandon abandon abandon abandon abandon abandon abandon abandon abandon about",
      "legal winner thank year wave sausage worth useful legal winner thank yellow",
      "あいこくしん　あいこくしん　あいこくしん　あいこくしん　あいこくしん　あいこくしん　あいこくしん　あいこくしん　あいこくしん　あいこくしん　あいこくしん　あおぞら",
      "zoo zoo zoo zoo zoo zoo zoo zoo zoo zoo zoo wrong", "é ﬁ Å", "not a real mnemonic", ""]


def nf(s):
    return unicodedata.normalize("NFKD", s)


def _cases_core(rng, tier):
    n = 25 if tier == "quick" else 1500
    pairs = [(MN[0], "TREZOR"), (MN[1], "TREZOR"), (MN[0], ""), (MN[2], "㍍ガバヴァぱばぐゞちぢ十人十色")]
    for _ in range(n):
        m = rng.choice(MN) if rng.random() < 0.6 else " ".join(rng.choice(TEXTS + ["word"]) for _ in range(rng.randint(1, 12)))
        p = rng.choice(TEXTS) if rng.random() < 0.7 else "".join(rng.choice(TEXTS) for _ in range(rng.randint(1, 4)))
        pairs.append((m, p))
    # pairs whose CONCATENATION coincides (only the split point moves), and swapped pairs, in one process
    for m, p in list(pairs[:6]) + [("パス", ""), (MN[0], "TREZOR")]:
        cat = m + p
        for cut in sorted({0, len(m), len(cat), max(0, len(m) - 3), min(len(cat), len(m) + 2)}):
            pairs.append((cat[:cut], cat[cut:]))
        pairs.append((p, m))
    # the same for the byte strings that are actually hashed: key = NFKD(m), salt = "mnemonic" + NFKD(p).  Pairs whose
    # key‖salt concatenations coincide: (M, A+"mnemonic"+B) and (M+"mnemonic"+A, B) — anything keyed on the joined
    # material (without a length or separator) confuses exactly these
    for M in (MN[0], MN[4], "x"):
        for A in ("", "é", " y"):
            for B in ("", "TREZOR"):
                pairs.append((M, A + "mnemonic" + B))
                pairs.append((M + "mnemonic" + A, B))
                pairs.append((M, A + "mnemonic" + B))
    # byte lengths around the SHA-512 padding boundary (111/112), the HMAC block size (128: a longer key is hashed
    # first) and well beyond: mnemonic = HMAC key, salt = "mnemonic" + passphrase
    lens = [111, 112, 127, 128, 129, 256, 1000] if tier == "thorough" else [rng.choice([111, 112]), 128, 129, rng.choice([127, 256, 1000])]
    for ln in lens:
        unit = rng.choice(["a", "é", "語"])
        body = (unit * ln)
        cut = ln // len(unit.encode())
        while len(unicodedata.normalize("NFKD", body[:cut]).encode()) > ln:
            cut -= 1
        txt = body[:cut] + "x" * (ln - len(unicodedata.normalize("NFKD", body[:cut]).encode()))
        pairs.append((txt, "TREZOR"))
        pairs.append((MN[0], txt[: max(0, len(txt) - 8)]))       # salt "mnemonic"+p has byte length ≈ ln
    # texts on which NFKD is not the concatenation of the normal forms of their characters (canonical reordering across
    # a character boundary; common.nfkd_boundary_texts), as passphrase and inside the sentence
    for tx in common.nfkd_boundary_texts(rng, 14 if tier == "quick" else 300):
        pairs.append((MN[0], tx))
        if rng.random() < 0.4:
            pairs.append(("abandon " + tx, ""))
    # sentences made of word-list words only, with IRREGULAR white space (double, leading, trailing blanks, tab, newline,
    # NBSP, ideographic space): the text that is hashed is NFKD of the text as given — never a re-joined word list
    words_ = MN[1].split(" ")
    for sep_variant in ("  ".join(words_), " " + MN[1], MN[1] + " ", MN[1] + "\n", "\t".join(words_), "\n".join(words_),
                        " ".join(words_[:6]) + "  " + " ".join(words_[6:]), "\u00a0".join(words_), "\u3000".join(words_),
                        MN[0].replace(" ", "  ", 1), MN[3] + "\r\n"):
        pairs.append((sep_variant, rng.choice(["", "TREZOR"])))
    # invisible / format / control characters in front of, behind and inside either text (byte-order mark, zero-width
    # space and joiners, word joiner, soft hyphen, directional marks, NUL, line separators): NFKD keeps every one of
    # them, so they are part of what is hashed — a "clean-up" of pasted text changes the wallet
    INVIS = ["\ufeff", "\u200b", "\u200c", "\u200d", "\u2060", "\u00ad", "\u200e", "\u200f", "\u202a", "\u202c",
             "\u2066", "\u2069", "\u034f", "\u061c", "\u180e", "\ufffd", "\x00", "\x7f", "\x1b", "\ufe0f"]
    inv = INVIS + [c for c in common.EDGE_CHARS if c not in INVIS]
    if tier == "quick":
        inv = ["\ufeff", "\u200b"] + rng.sample(inv[2:], 8)
    for c in inv:
        where = rng.randrange(3) if tier == "quick" else None
        for k_, (m, p) in enumerate([(c + MN[0], "TREZOR"), (MN[0] + c, ""), (MN[0].replace(" ", " " + c, 1), "x"),
                                     (MN[0], c + "TREZOR"), (MN[0], "TREZOR" + c), (MN[0], c), (c, c)]):
            if where is None or k_ % 3 == where or k_ in (0, 3):
                pairs.append((m, p))
    for m, p in pairs:
        yield "seed %s %s %s %s" % (sx(m), sx(nf(m)), sx(p), sx(nf(p))), "seed"
        t = rng.choice("01")
        yield "wallet mn:%s:%s:%s:%s:%s" % (sx(m), sx(nf(m)), sx(p), sx(nf(p)), t), "from-mnemonic"
    for _ in range(n):
        ln = rng.choice([16, 20, 24, 28, 32])
        e = bytes(rng.getrandbits(8) for _ in range(ln)).hex()
        p = rng.choice(TEXTS)
        t = rng.choice("01")
        yield "wallet ent:%s:%s:%s:%s" % (sx(e), sx(p), sx(nf(p)), t), "from-entropy"
    for _ in range(n):
        ln = rng.choice([16, 32, 64, rng.randint(16, 64), rng.randint(0, 100)])
        sd = bytes(rng.getrandbits(8) for _ in range(ln))
        t = rng.choice("01")
        yield "wallet seedb:%s:%s" % (hx(sd), t), "from-seed-bytes"
        yield "wallet seedh:%s:%s" % (sx(sd.hex()), t), "from-seed-hex"
    # byte seeds that happen to be TEXT of another accepted input form: the ASCII bytes of a hex dump (the hex-seed
    # constructor's language), of digits, of Base58 / printable text, of whitespace — each is a legal seed in its own right
    texts = ["000102030405060708090a0b0c0d0e0f", "deadbeefcafebabe", "0123456789abcdef" * 4, "DEADBEEF" * 4, "00" * 16,
             "ff" * 32, "de ad be ef ca fe ba be de ad be ef", " " * 16, "\n" * 32, "1234567890123456",
             "xprv9s21ZrQH143K3QTDL4LXw2F7HEK3wJUD2", "abandon abandon ", "0x" + "ab" * 15]
    for tx in texts + ["".join(rng.choice("0123456789abcdefABCDEF") for _ in range(2 * rng.randint(8, 32))) for _ in range(6)]:
        sd = tx.encode()
        t = rng.choice("01")
        yield "wallet seedb:%s:%s" % (hx(sd), t), "seed-bytes-look-like-text"
        yield "master %s %s -" % (hx(sd), t), "seed-bytes-look-like-text-master"
        yield "wallet seedh:%s:%s" % (sx(sd.hex()), t), "seed-bytes-look-like-text-hexroute"
    # held wallets: the first wallet is inspected only after a second one (valid or not) has been created
    held = [("mn:%s:%s:%s:%s:0" % (sx(MN[0]), sx(nf(MN[0])), sx("TREZOR"), sx("TREZOR")),
             "mn:%s:%s:%s:%s:1" % (sx(MN[1]), sx(nf(MN[1])), sx(""), sx(""))),
            ("ent:%s:-:-:0" % sx("00" * 16), "ent:%s:-:-:0" % sx("ff" * 32)),
            ("ent:%s:%s:%s:1" % (sx("7f" * 20), sx("pw"), sx("pw")), "seedb:%s:0" % hx(bytes(range(64)))),
            ("seedb:%s:1" % hx(bytes(range(32))), "ent:%s:-:-:0" % sx("ab" * 17)),
            ("ent:%s:-:-:0" % sx("01" * 24), "mn:%s:%s:%s:%s:0" % (sx("not a mnemonic"), sx("not a mnemonic"), sx("x"), sx("x")))]
    for n_, (a_, b_) in enumerate(held):
        yield "wallet_held %s %s" % (a_, b_), "held-wallet"
        if n_ < 3:                      # (in the last two pairs the second wallet is invalid on purpose)
            yield "wallet_held %s %s" % (b_, a_), "held-wallet"
    # hex texts (entropy, seed) with the white space bytes.fromhex tolerates: the wallet is the wallet of the BYTES
    for ln in ([16, 32] if tier == "quick" else [16, 20, 24, 28, 32]):
        e = bytes(rng.getrandbits(8) for _ in range(ln)).hex()
        for v_ in common.hex_blank_variants(rng, e, many=(tier == "thorough")):
            yield "wallet ent:%s:-:-:%s" % (sx(v_), rng.choice("01")), "entropy-hex-with-blanks"
    for ln in ([16, 64] if tier == "quick" else [16, 32, 64, 17]):
        sd = bytes(rng.getrandbits(8) for _ in range(ln)).hex()
        for v_ in common.hex_blank_variants(rng, sd, many=(tier == "thorough")):
            yield "wallet seedh:%s:%s" % (sx(v_), rng.choice("01")), "seed-hex-with-blanks"
    yield "wallet seedh:%s:0" % sx("zz"), "seed-hex-bad"
    yield "wallet seedh:%s:0" % sx("abc"), "seed-hex-odd"


def nontrivial(line, out):
    return True


def indep_seed(m, p):
    return hashlib.pbkdf2_hmac("sha512", nf(m).encode(), ("mnemonic" + nf(p)).encode(), 2048, 64)


def indep_master(seed):
    I = hmac.new(b"Bitcoin seed", seed, hashlib.sha512).digest()
    k = int.from_bytes(I[:32], "big")
    return None if k == 0 or k >= N else (I[:32], I[32:])


def _master_fields(v):
    f = v.split(" ")
    # W testnet watch N cls key chain depth index testnet fp repr ver mn pw
    return {"t": f[1], "watch": f[2], "cls": f[4], "key": unhex(f[5]), "chain": unhex(f[6]), "depth": f[7],
            "index": f[8], "nt": f[9], "mn": f[13], "pw": f[14]}


def oracle(line, out):
    tok = line.split(" ")
    v = ok_val(out)
    if tok[0] == "master":
        from .c01 import oracle as o1
        return o1(line, out)
    if tok[0] == "wallet_held":
        m = oracle("wallet " + tok[1], out)
        return ("wallet looked at after another wallet (%s...) was created: %s" % (tok[2][:24], m)) if m else None
    if tok[0] == "seed":
        m, p = unstr(tok[1]), unstr(tok[3])
        if v is None or unhex(v) != indep_seed(m, p):
            return "seed != PBKDF2-HMAC-SHA512(NFKD(m), 'mnemonic'+NFKD(p), 2048, 64)"
        return None
    if tok[0] != "wallet":
        return None
    parts = tok[1].split(":")
    kind = parts[0]
    if kind == "mn":
        seed = indep_seed(unstr(parts[1]), unstr(parts[3]))
        t = parts[5]
    elif kind == "ent":
        e = unstr(parts[1])
        from .c12 import mnemonic
        seed = indep_seed(mnemonic(bytes.fromhex(e)), unstr(parts[2]))
        t = parts[4]
    elif kind == "seedb":
        seed = unhex(parts[1])
        t = parts[2]
    elif kind == "seedh":
        try:
            seed = bytes.fromhex(unstr(parts[1]))
        except ValueError:
            return None if v is None else "wallet from malformed seed hex"
        t = parts[2]
    else:
        return None
    mk = indep_master(seed)
    if mk is None:
        return None if v is None else "invalid master key returned"
    if v is None:
        return "wallet constructor failed on valid input"
    f = _master_fields(v)
    if f["key"] != mk[0] or f["chain"] != mk[1]:
        return "master key material is not HMAC-SHA512('Bitcoin seed', seed) split in halves"
    if f["t"] != t or f["nt"] != t or f["watch"] != "0" or f["cls"] != "P" or f["depth"] != "0" or f["index"] != "0":
        return "master node flags wrong"
    # constructors agree: rebuild from seed bytes / hex / master xprv and from the other network
    for alt in ("wallet seedb:%s:%s" % (hx(seed), t), "wallet seedh:%s:%s" % (sx(seed.hex()), t),
                "wallet seedb:%s:%s" % (hx(seed), "1" if t == "0" else "0")):
        a = ok_val(impl.run(alt))
        if a is None:
            return "constructor disagreement: %s failed" % alt.split(":")[0]
        fa = _master_fields(a)
        if fa["key"] != f["key"] or fa["chain"] != f["chain"]:
            return "constructors / networks disagree on the master key material (%s)" % alt[:20]
    w = impl.make_wallet(tok[1])
    xprv = w.master.extended_private_key()
    a = ok_val(impl.run("wallet xkey:%s" % sx(xprv)))
    if a is None:
        return "wallet could not be rebuilt from its own master extended private key"
    fa = _master_fields(a)
    if int.from_bytes(fa["key"], "big") != int.from_bytes(f["key"], "big") or fa["chain"] != f["chain"] or fa["t"] != t:
        return "wallet rebuilt from the master xprv holds different key material / network"
    return None


known_match = common.no_known


def cases(rng, tier):
    from . import extra
    yield from _cases_core(rng, tier)
    yield from extra.cases_for('walleteq', rng, tier)
