"""C07 — Extended keys round-trip through serialisation for all fields and 12 versions."""
from .common import *  # noqa: F401,F403
from . import common
import hashlib
import impl
import ecdsa

PID = "C07"
LEAN_MODULES = ["BtcHd.Props.C07", "BtcHd.Props.RealInst.C07"]
LEAN_MODULES_THOROUGH = ['BtcHd.Props.TrBip32', 'BtcHd.Props.TrWallet', 'BtcHd.Props.TrVersion']
TRUSTED_BASE = common.CORE_TRUSTED + [
    "curve facts (sec/parse round trip, 33-byte compressed points) are explicit CurveLaws hypotheses of the theorems; "
    "the driver's concrete secp256k1 is compared with python-ecdsa on every case"]
ASSUMPTIONS = ["python-ecdsa implements secp256k1 point (de)serialisation correctly"]
RULE = ("nodes with depth {0,1,254,255,random}, index/fingerprint boundaries, scalars 1, n-1, leading-zero, random, "
        "both parities; all 12 versions x {prv,pub} exhaustively; three input forms; unknown versions by bit flips; "
        "non-trivial = distinct case with depth>0 or non-zero index")

VERS_MAIN = {"xpub": 0x0488B21E, "xprv": 0x0488ADE4, "ypub": 0x049D7CB2, "yprv": 0x049D7878,
             "zpub": 0x04B24746, "zprv": 0x04B2430C}
VERS_TEST = {"tpub": 0x043587CF, "tprv": 0x04358394, "upub": 0x044A5262, "uprv": 0x044A4E28,
             "vpub": 0x045F1CF6, "vprv": 0x045F18BC}
ALL = dict(VERS_MAIN, **VERS_TEST)
G = ecdsa.SECP256k1.generator


def pub_sec(k):
    pt = G * k
    return bytes([2 + (pt.y() & 1)]) + pt.x().to_bytes(32, "big")


def rand_scalar(rng):
    r = rng.random()
    if r < 0.15:
        return rng.choice([1, 2, N - 1, N - 2, 2 ** 255, 2 ** 128])
    if r < 0.35:
        return rng.getrandbits(rng.choice([8, 64, 128, 200, 248]))or 1
    return rng.randrange(1, N)


def node_spec(rng, prv=True, master_ok=True):
    k = rand_scalar(rng)
    depth = rng.choice([0, 1, 2, 5, 254, 255]) if rng.random() < 0.7 else rng.randint(0, 255)
    if depth == 0 and master_ok:
        index, fp = 0, "none"
    else:
        if depth == 0:
            depth = 1
        index = rng.choice([0, 1, 2 ** 31 - 1, 2 ** 31, 2 ** 32 - 1]) if rng.random() < 0.5 else rng.getrandbits(32)
        fp = hx(bytes(rng.getrandbits(8) for _ in range(4)))
        if fp == "00000000":
            fp = "00000001"
    chain = bytes(rng.getrandbits(8) for _ in range(32)) if rng.random() < 0.9 else bytes(32)
    t = rng.choice("01")
    if prv:
        form = rng.random()
        key = k.to_bytes(32, "big") if form < 0.5 else b"\x00" + k.to_bytes(32, "big")
        cls = "P"
    else:
        key = pub_sec(k)
        cls = "p"
    return "%s:%s:%s:%d:%d:%s:%s" % (cls, hx(key), hx(chain), depth, index, t, fp), k


def _decodes(b):
    try:
        b.decode("utf-8")
        return True
    except UnicodeDecodeError:
        return False


def lift_x_any(x):
    """a y with (x, y) on secp256k1, or None"""
    P_ = 2 ** 256 - 2 ** 32 - 977
    if not 0 < x < P_:
        return None
    y2 = (pow(x, 3, P_) + 7) % P_
    y = pow(y2, (P_ + 1) // 4, P_)
    return y if y * y % P_ == y2 else None


def payload(version, depth, fp, index, chain, key33):
    return version.to_bytes(4, "big") + bytes([depth]) + fp + index.to_bytes(4, "big") + chain + key33


def _cases_core(rng, tier):
    prev_pl = [None]
    n = 25 if tier == "quick" else 1500
    for i in range(n):
        spec, k = node_spec(rng, prv=True)
        for name, v in ALL.items():
            if i % 3 and tier == "quick" and name not in ("xpub", "xprv", "vpub", "uprv"):
                continue
            which = "pub" if name.endswith("pub") else "prv"
            yield "xk_ser %s - %s %d" % (spec, which, v), "ser-" + name
        yield "xk_ser %s - pub -" % spec, "ser-default-pub"
        yield "xk_ser %s - prv -" % spec, "ser-default-prv"
        spec2, _ = node_spec(rng, prv=False)
        v = rng.choice([x for nme, x in ALL.items() if nme.endswith("pub")])
        yield "xk_ser %s - pub %d" % (spec2, v), "ser-pubnode"
        yield "xk_ser %s - prv %d" % (spec2, v), "ser-pubnode-prv-request"
    # parsing: three forms, all versions
    for i in range(n):
        k = rand_scalar(rng)
        depth = rng.choice([0, 1, 254, 255, rng.randint(0, 255)])
        fp = bytes(4) if depth == 0 else bytes(rng.getrandbits(8) for _ in range(4))
        index = 0 if depth == 0 else rng.choice([0, 1, 2 ** 31, 2 ** 32 - 1, rng.getrandbits(32)])
        chain = bytes(rng.getrandbits(8) for _ in range(32))
        for name, v in ALL.items():
            if tier == "quick" and i % 4 and name not in ("xpub", "xprv", "tpub", "zprv"):
                continue
            prv = name.endswith("prv")
            key33 = (b"\x00" + k.to_bytes(32, "big")) if prv else pub_sec(k)
            pl = payload(v, depth, fp, index, chain, key33)
            s = b58check_enc(pl)
            cls = "P" if prv else "p"
            t = rng.choice("01")
            yield "xk_parse %s %s s %s" % (cls, t, sx(s)), "parse-str-" + name
            yield "xk_parse %s %s b %s" % (cls, t, hx(pl)), "parse-bytes"
            yield "xk_parse %s %s io %s" % (cls, t, hx(pl)), "parse-stream"
            # a stream that is not at position 0: a header or an earlier record has been read from it already
            pre = rng.choice([prev_pl[0] or pl, bytes(rng.getrandbits(8) for _ in range(rng.choice([1, 2, 4, 78, 100])))])
            yield "xk_parse %s %s io@%d %s" % (cls, t, len(pre), hx(pre + pl)), "parse-stream-positioned"
            prev_pl[0] = pl
            yield "wallet xkey:%s" % sx(s), "wallet-from-" + name
            # unknown version: one bit flipped
            bad = v ^ (1 << rng.randrange(32))
            if bad not in ALL.values():
                yield "wallet xkey:%s" % sx(b58check_enc(payload(bad, depth, fp, index, chain, key33))), "wallet-unknown-version"
            # corrupted checksum / character
            cs = list(s)
            j = rng.randrange(len(cs))
            cs[j] = rng.choice([c for c in B58 if c != cs[j]])
            yield "wallet xkey:%s" % sx("".join(cs)), "wallet-corrupt"
    # public keys at the boundaries of the coordinate range (x just below p, x in [n, p), tiny x, …)
    for sec33 in common.boundary_points():
        depth = rng.choice([0, 1, 3, 255])
        fp = bytes(4) if depth == 0 else bytes(rng.getrandbits(8) for _ in range(4)) or b"\x01\x02\x03\x04"
        index = 0 if depth == 0 else rng.choice([0, 5, 2 ** 31, 2 ** 32 - 1])
        chain = bytes(rng.getrandbits(8) for _ in range(32))
        t = rng.choice("01")
        names = [nme for nme in ALL if nme.endswith("pub")]
        for name in (names if tier == "thorough" else rng.sample(names, 2)):
            pl = payload(ALL[name], depth, fp, index, chain, sec33)
            s_ = b58check_enc(pl)
            yield "xk_parse p %s s %s" % (t, sx(s_)), "boundary-point-str"
            yield "xk_parse p %s b %s" % (t, hx(pl)), "boundary-point-bytes"
            yield "xk_parse p %s io %s" % (t, hx(pl)), "boundary-point-stream"
            yield "wallet xkey:%s" % sx(s_), "boundary-point-wallet"
            spec = "p:%s:%s:%d:%d:%s:%s" % (hx(sec33), hx(chain), depth, index, t, "none" if depth == 0 else hx(fp))
            yield "xk_ser %s - pub %d" % (spec, ALL[name]), "boundary-point-ser"
    for _ in range(n):
        a, _k = node_spec(rng, prv=True)
        b = a if rng.random() < 0.5 else node_spec(rng, prv=True)[0]
        yield "node_eq %s %s" % (a, b), "node-eq"
    # a valid extended key with one line terminator / blank / control / invisible character in front of it or behind it
    for name in (["xprv", "vpub"] if tier == "quick" else list(ALL)):
        prv = name.endswith("prv")
        k = rand_scalar(rng)
        key33 = (b"\x00" + k.to_bytes(32, "big")) if prv else pub_sec(k)
        good = b58check_enc(payload(ALL[name], 0, bytes(4), 0, bytes(range(32)), key33))
        for bad_s in common.edge_variants(good):
            yield "xk_parse %s 0 s %s" % ("P" if prv else "p", sx(bad_s)), "edge-character-parse"
            yield "wallet xkey:%s" % sx(bad_s), "edge-character-wallet"
    # extremes of every field of the 78-byte layout, one at a time: parent fingerprint 00000000 / ffffffff on a DERIVED
    # key (legal: 2^-32 of all parents), child number 0 / 2^32-1, depth 1 / 255, chain code all-zero / all-ff
    for name in (["xpub", "xprv", "tpub", "vprv"] if tier == "quick" else list(ALL)):
        prv = name.endswith("prv")
        k = rand_scalar(rng)
        key33 = (b"\x00" + k.to_bytes(32, "big")) if prv else pub_sec(k)
        base = dict(depth=2, fp=b"\x11\x22\x33\x44", index=9, chain=bytes(range(32)))
        for field, values in (("fp", [bytes(4), b"\xff" * 4, b"\x00\x00\x00\x01", b"\x01\x00\x00\x00"]),
                              ("index", [0, 2 ** 32 - 1, 2 ** 31, 2 ** 31 - 1]), ("depth", [1, 255, 127, 128]),
                              ("chain", [bytes(32), b"\xff" * 32])):
            for v_ in values:
                f_ = dict(base)
                f_[field] = v_
                pl = payload(ALL[name], f_["depth"], f_["fp"], f_["index"], f_["chain"], key33)
                s_ = b58check_enc(pl)
                cls = "P" if prv else "p"
                yield "xk_parse %s 0 s %s" % (cls, sx(s_)), "field-extreme-parse-" + field
                yield "xk_parse %s 0 b %s" % (cls, hx(pl)), "field-extreme-parse-" + field
                yield "wallet xkey:%s" % sx(s_), "field-extreme-wallet-" + field
                spec = "%s:%s:%s:%d:%d:%s:%s" % (cls, hx(key33 if not prv else k.to_bytes(32, "big")), hx(f_["chain"]),
                                                  f_["depth"], f_["index"], "1" if name in VERS_TEST else "0", hx(f_["fp"]))
                yield "xk_ser %s - %s %d" % (spec, "prv" if prv else "pub", ALL[name]), "field-extreme-ser-" + field
    # 78-byte payloads that READ AS TEXT (every byte 7-bit, or printable, or the whole a valid UTF-8 sequence): for each
    # version whose four bytes allow it (decided by trying), every other field is drawn from that alphabet, the public
    # key's x by search.  The bytes form of parse() must still read them as the raw serialisation.
    def _from(alpha, n_):
        return bytes(rng.choice(alpha) for _ in range(n_))

    def _utf8(n_):
        out = b""
        while len(out) < n_:
            c = rng.choice(["é", "ñ", "a", "Z", "7", "語", "ü"]).encode()
            if len(out) + len(c) <= n_:
                out += c
        return out
    for name in ALL:
        prv = name.endswith("prv")
        vb = ALL[name].to_bytes(4, "big")
        for label, gen, test in (("7bit", lambda n_: _from(range(1, 0x80), n_), lambda b: b.isascii()),
                                 ("utf8", _utf8, lambda b: _decodes(b))):
            if not test(vb):
                continue
            for _try in range(400):
                body = gen(32)
                if prv:
                    k_ = int.from_bytes(body, "big")
                    if not 0 < k_ < N:
                        continue
                    key33 = b"\x00" + body
                    break
                y_ = lift_x_any(int.from_bytes(body, "big"))
                if y_ is not None:
                    key33 = bytes([2 + (y_ & 1)]) + body
                    break
            else:
                continue
            depth = gen(1)[0]
            fp, idx, chain = gen(4), int.from_bytes(gen(4), "big"), gen(32)
            pl = payload(ALL[name], depth, fp, idx, chain, key33)
            if not (test(pl) or prv):
                continue
            cls = "P" if prv else "p"
            tn = "1" if name in VERS_TEST else "0"
            yield "xk_parse %s %s b %s" % (cls, tn, hx(pl)), "payload-reads-as-text-" + label
            yield "xk_parse %s %s s %s" % (cls, tn, sx(b58check_enc(pl))), "payload-reads-as-text-" + label
            yield "xk_parse %s %s io %s" % (cls, tn, hx(pl)), "payload-reads-as-text-" + label
            spec = "%s:%s:%s:%d:%d:%s:%s" % (cls, hx(key33[1:] if prv else key33), hx(chain), depth, idx, tn, hx(fp))
            yield "xk_ser %s - %s %d" % (spec, "prv" if prv else "pub", ALL[name]), "payload-reads-as-text-ser-" + label
    # private payloads that are themselves a Base58Check FRAME: the last four bytes of the scalar equal the double
    # SHA-256 checksum of the 74 bytes in front of them (the scalar's low 32 bits are free) — and the same with the
    # SHA-256 / CRC-like look of other framings (last 4 = first 4 of sha256).  Bytes, text and stream forms must agree.
    for name in ([n_ for n_ in ALL if n_.endswith("prv")] if tier == "thorough" else ["xprv", "vprv"]):
        for frame in ("hash256", "sha256"):
            head = payload(ALL[name], rng.choice([0, 3, 255]), bytes(rng.getrandbits(8) for _ in range(4)),
                           rng.choice([0, 7, 2 ** 31 + 7]), bytes(rng.getrandbits(8) for _ in range(32)),
                           b"\x00" + bytes(rng.getrandbits(8) for _ in range(28)))
            tail = (dsha(head) if frame == "hash256" else hashlib.sha256(head).digest())[:4]
            pl = head + tail
            if not 0 < int.from_bytes(pl[46:], "big") < N:
                continue
            tn = "1" if name in VERS_TEST else "0"
            yield "xk_parse P %s b %s" % (tn, hx(pl)), "payload-is-checksum-frame"
            yield "xk_parse P %s s %s" % (tn, sx(b58check_enc(pl))), "payload-is-checksum-frame"
            yield "xk_parse P %s io %s" % (tn, hx(pl)), "payload-is-checksum-frame"
            yield "wallet xkey:%s" % sx(b58check_enc(pl)), "payload-is-checksum-frame-wallet"
    # extended keys whose Base58Check TEXT has an interior, aligned block of the zero digit '1' (the chain code is
    # solved for it, common.solve_zero_block): block-wise / padded encoders lose or invent such digits
    for name in (["xpub", "tprv", "zpub"] if tier == "quick" else list(ALL)):
        prv = name.endswith("prv")
        k = rand_scalar(rng)
        key33 = (b"\x00" + k.to_bytes(32, "big")) if prv else pub_sec(k)
        for a_, b_ in ((40, 50), (30, 40), (20, 30), (35, 40), (10, 20), (45, 50)):
            depth, fp, index = 1, b"\x01\x02\x03\x04", 7
            head = ALL[name].to_bytes(4, "big") + bytes([depth]) + fp + index.to_bytes(4, "big")
            shift = (33 + 4) * 8
            known = (int.from_bytes(head, "big") << (256 + shift)) + (int.from_bytes(key33, "big") << 32)
            f_ = common.solve_zero_block(rng, known, 256, shift, a_, b_, unknown_bits=32)
            if f_ is None:
                continue
            chain = f_.to_bytes(32, "big")
            spec = "%s:%s:%s:%d:%d:%s:%s" % ("P" if prv else "p", hx(key33 if not prv else k.to_bytes(32, "big")), hx(chain),
                                              depth, index, "1" if name in VERS_TEST else "0", hx(fp))
            yield "xk_ser %s - %s %d" % (spec, "prv" if prv else "pub", ALL[name]), "zero-digit-block-xkey"
            s_ = b58check_enc(payload(ALL[name], depth, fp, index, chain, key33))
            yield "xk_parse %s 0 s %s" % ("P" if prv else "p", sx(s_)), "zero-digit-block-xkey-parse"
    # helper interleaving: the public helpers of the version table are asked about UNKNOWN versions before (and after)
    # a wallet is requested from a key carrying that version — asking a question must not teach the table anything
    for _ in range(6 if tier == "quick" else 100):
        base = rng.choice(list(ALL.values()))
        bad = rng.choice([base ^ (1 << rng.randrange(32)), base + rng.choice([-1, 1, 2]), rng.getrandbits(32), 0, 2 ** 32 - 1])
        if bad in ALL.values() or not 0 <= bad < 2 ** 32:
            continue
        k = rand_scalar(rng)
        for key33 in (b"\x00" + k.to_bytes(32, "big"), pub_sec(k)):
            xk = b58check_enc(payload(bad, 0, bytes(4), 0, bytes(range(32)), key33))
            yield "wallet xkey:%s" % sx(xk), "helper-interleaving-before"
            order = ["ver_bip %d" % bad, "ver_valid %d" % bad, "ver_parse %d" % bad]
            rng.shuffle(order)
            for o in order:
                yield o, "helper-interleaving-helper"
            yield "wallet xkey:%s" % sx(xk), "helper-interleaving-after"
            yield "ver_valid %d" % bad, "helper-interleaving-helper"
            yield "ver_parse %d" % bad, "helper-interleaving-helper"
        good_v = rng.choice(list(ALL.values()))
        yield "ver_valid %d" % good_v, "helper-known-version"
        yield "ver_parse %d" % good_v, "helper-known-version"


def nontrivial(line, out):
    return True


def oracle(line, out):
    tok = line.split(" ")
    op = tok[0]
    v = ok_val(out)
    if op == "xk_ser":
        spec, _ls, which, ver = tok[1:5]
        cls, key, chain, depth, index, t, fp = spec.split(":")
        if cls == "p" and which == "prv":
            return None if v is None else "public node produced an extended PRIVATE key"
        if v is None:
            return "serialising a valid node raised"
        s = unstr(v)
        if len(s) != 111:
            return "extended key string has %d characters, not 111" % len(s)
        try:
            pl = b58check_dec(s)
        except ValueError:
            return "extended key string is not valid Base58Check"
        keyb = unhex(key)
        k = int.from_bytes(keyb, "big") if cls == "P" else None
        depth, index = int(depth), int(index)
        want_v = int(ver) if ver != "-" else {("pub", "0"): 0x0488B21E, ("pub", "1"): 0x043587CF,
                                             ("prv", "0"): 0x0488ADE4, ("prv", "1"): 0x04358394}[(which, t)]
        fpb = bytes(4) if fp == "none" else unhex(fp)
        key33 = (b"\x00" + k.to_bytes(32, "big")) if which == "prv" else (pub_sec(k) if cls == "P" else keyb)
        want = payload(want_v, depth, fpb, index, unhex(chain), key33)
        if pl != want:
            return "78-byte payload differs from the BIP32 layout"
        if which == "pub" and cls == "P" and (pl[46:78] == k.to_bytes(32, "big") or pl[45:78] == b"\x00" + k.to_bytes(32, "big")):
            return "serialised extended PUBLIC key carries the private scalar in its key field"
        # parse back (string form) and re-serialise
        klass = "P" if which == "prv" else "p"
        back = impl.run("xk_parse %s %s s %s" % (klass, t, v))
        if not back.startswith("ok N"):
            return "parsing the serialised key failed"
        f = back.split(" ")
        f = f[1:]      # drop "ok"
        if int.from_bytes(unhex(f[2]), "big") != int.from_bytes(key33, "big") or f[3] != chain or \
                int(f[4]) != depth or int(f[5]) != index or unhex(f[7]) != fpb or int(f[9]) != want_v:
            return "parsed node differs from the serialised one: %s" % back[:160]
        spec_back = "%s:%s:%s:%s:%s:%s:%s" % (klass, f[2], f[3], f[4], f[5], t, f[7] if f[7] != "-" else "none")
        re = impl.run("xk_ser %s - %s %d" % (spec_back, which, want_v))
        if re != out:
            return "re-serialising the parsed node gives a different string"
        return None
    if op == "xk_parse":
        cls, t, form, data = tok[1:5]
        if form == "s":
            try:
                pl = b58check_dec(unstr(data))
            except ValueError:
                return None if v is None else "extended key text with foreign characters / a wrong checksum was parsed"
        else:
            pl = unhex(data)
        if form.startswith("io@"):
            pl = pl[int(form[3:]):]
        if v is None:
            return "parsing a valid 78-byte extended key failed (form %s)" % form
        f = v.split(" ")
        if unhex(f[2]) != pl[45:78] or unhex(f[3]) != pl[13:45] or int(f[4]) != pl[4] or \
                int(f[5]) != int.from_bytes(pl[9:13], "big") or int(f[9]) != int.from_bytes(pl[:4], "big") or \
                (unhex(f[7]) != (pl[5:9] if any(pl[5:9]) else bytes(4))) or f[1] != cls or f[6] != t:
            return "parsed fields differ from the payload (form %s)" % form
        return None
    if op == "wallet":
        s = unstr(tok[1].split(":")[1])
        try:
            pl = b58check_dec(s)
        except ValueError:
            return None if v is None else "wallet built from a corrupted extended key"
        ver = int.from_bytes(pl[:4], "big")
        names = [n for n, x in ALL.items() if x == ver]
        if not names:
            return None if v is None else "wallet built from unknown version 0x%08x" % ver
        if v is None:
            return "wallet could not be built from a valid %s" % names[0]
        f = v.split(" ")
        testnet = names[0] in VERS_TEST
        watch = names[0].endswith("pub")
        if f[1] != ("1" if testnet else "0") or f[2] != ("1" if watch else "0") or f[4] != ("p" if watch else "P") \
                or f[9] != ("1" if testnet else "0"):
            return "version prefix %s did not determine key type / network: %s" % (names[0], v[:40])
        return None
    if op in ("ver_valid", "ver_parse"):
        ver = int(tok[1])
        names = [n for n, x in ALL.items() if x == ver]
        if op == "ver_valid":
            return None if v == ("1" if names else "0") else "valid_version(0x%08x) says %s" % (ver, v)
        if not names:
            return None if v is None else "Version.parse accepted the unknown version 0x%08x" % ver
        want = "%d %d %s" % (0 if names[0].endswith("prv") else 1, {"x": 0, "t": 0, "y": 1, "u": 1, "z": 2, "v": 2}[names[0][0]],
                             "1" if names[0] in VERS_TEST else "0")
        return None if v == want else "Version.parse(%s) gives %s, expected %s" % (names[0], v, want)
    if op == "node_eq":
        a, b = tok[1], tok[2]
        fa, fb = a.split(":"), b.split(":")
        same = (int(fa[1], 16) == int(fb[1], 16) and fa[2:6] == fb[2:6]
                and (fa[6] if fa[6] != "none" else "00000000") == (fb[6] if fb[6] != "none" else "00000000"))
        if v is None or (v == "1") != same:
            return "node equality wrong"
        return None
    return None


known_match = common.no_known


def cases(rng, tier):
    from . import extra
    yield from _cases_core(rng, tier)
    yield from extra.cases_for('versions', rng, tier)
