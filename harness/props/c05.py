"""C05 — Every address is the standard encoding of the right script on the right network."""
import hashlib
from .common import *  # noqa: F401,F403
from . import common
from .c09 import point, sec_c, sec_u
from .c11 import indep_decode
import impl

PID = "C05"
LEAN_MODULES = ["BtcHd.Props.C05", "BtcHd.Props.RealInst.C05"]
LEAN_MODULES_THOROUGH = ['BtcHd.Props.TrAddr', 'BtcHd.Props.TrWallet', 'BtcHd.Props.TrRipemd']
TRUSTED_BASE = common.CORE_TRUSTED + [
    "SHA-256 is a parameter; RIPEMD-160 is repository code and is modelled in full (tables extracted from the source, "
    "checked against the specification's formulas); its 80-step compression is mirrored and compared with OpenSSL's "
    "ripemd160 for every length 0..1024 (testing)"]
ASSUMPTIONS = ["hashlib.new('ripemd160') (OpenSSL legacy provider) is a correct RIPEMD-160"]
RULE = ("keys of both parities, x with leading zero bytes, k in {1,n-1,2^i,random}; 5 kinds x 2 networks, "
        "compressed/uncompressed P2PKH; hash inputs of every length 0..200 (quick) / 0..1024 (thorough) plus padding "
        "boundaries; non-trivial = distinct case")
KINDS = ["p2pkh", "p2wpkh", "p2sh_p2wpkh", "p2wsh", "p2sh_p2wsh"]


def h160(b):
    return hashlib.new("ripemd160", hashlib.sha256(b).digest()).digest()


def expected(kind, sec, t):
    """(codec, version/hrp, hash) expected for a compressed key"""
    if kind == "p2pkh":
        return "b58", 0x6f if t else 0x00, h160(sec)
    if kind == "p2wpkh":
        return "b32", "tb" if t else "bc", h160(sec)
    if kind == "p2sh_p2wpkh":
        return "b58", 0xc4 if t else 0x05, h160(b"\x00\x14" + h160(sec))
    ws = b"\x51\x21" + sec + b"\x51\xae"
    if kind == "p2wsh":
        return "b32", "tb" if t else "bc", hashlib.sha256(ws).digest()
    return "b58", 0xc4 if t else 0x05, h160(b"\x00\x20" + hashlib.sha256(ws).digest())


def _zero_block_cases(rng, tier):
    """hashes constructed so that the Base58Check text of the address has an interior, aligned block of the zero digit
    '1' (common.zero_block_cases): a positional encoder that loses zero digits is wrong exactly there"""
    for c in common.zero_block_cases(rng, 6 if tier == "quick" else 60):
        if c[0] == "h160":
            ver, h = c[1], c[2]
            kind = "p2pkh" if ver in (0x00, 0x6f) else "p2sh"
            yield "h_addr %s %s %s 0" % (kind, hx(h), "1" if ver in (0x6f, 0xc4) else "0"), "zero-digit-block-address"


def _mismatched_flag_wallets(rng, tier):
    """wallets built with the class constructor whose root NODE carries the other network flag than the WALLET (no
    classmethod constructor produces one, the constructor accepts it): every address kind follows the wallet"""
    for _ in range(2 if tier == "quick" else 30):
        sd = bytes(rng.getrandbits(8) for _ in range(32))
        for nt, wt in (("0", "1"), ("1", "0"), ("1", "1")):
            pth = rng.choice(["m", "m/0", "m/84'/0'/0'/0/3", "m/1/2"])
            for kind in KINDS:
                yield "w_addr raw:%s:%s:%s %s %s" % (hx(sd), nt, wt, sx(pth), kind), "node-flag-vs-wallet-flag"


def _imported_key_nodes(rng, tier):
    """the node of an IMPORTED extended key itself (a parsed private key is held in its 33-byte 00-prefixed form, a public
    one as 33-byte SEC) and its children, every address kind: the address commits to the PUBLIC key of the node"""
    from .c07 import payload, pub_sec
    for name, ver in (("xprv", 0x0488ADE4), ("tprv", 0x04358394), ("zprv", 0x04B2430C), ("xpub", 0x0488B21E), ("vpub", 0x045F1CF6)):
        for _ in range(1 if tier == "quick" else 10):
            k = rng.randrange(1, N)
            prv = name.endswith("prv")
            key33 = (b"\x00" + k.to_bytes(32, "big")) if prv else pub_sec(k)
            depth = rng.choice([0, 3])
            s_ = b58check_enc(payload(ver, depth, bytes(4) if depth == 0 else b"\x09\x08\x07\x06", 0 if depth == 0 else 5,
                                      bytes(rng.getrandbits(8) for _ in range(32)), key33))
            root = "m" if prv else "M"
            for pth in (root, root + "/0", root + "/1/2"):
                for kind in KINDS:
                    yield "w_addr xkey:%s %s %s" % (sx(s_), sx(pth), kind), "imported-key-node"


_RMD = {
    "ML": [0, 1, 2, 3, 4, 5, 6, 7, 8, 9, 10, 11, 12, 13, 14, 15], "MR": [5, 14, 7, 0, 9, 2, 11, 4, 13, 6, 15, 8, 1, 10, 3, 12],
    "RL": [11, 14, 15, 12, 5, 8, 7, 9, 11, 13, 14, 15, 6, 7, 9, 8], "RR": [8, 9, 9, 11, 13, 15, 15, 5, 7, 7, 8, 11, 14, 14, 12, 6],
    "KR0": 0x50a28be6, "INIT": (0x67452301, 0xefcdab89, 0x98badcfe, 0x10325476, 0xc3d2e1f0)}


def rmd_corner_block(rng, side, j, what):
    """a 64-byte first block for which step j (< 16: round 0, where every message word is used once per line) of the
    left / right line of RIPEMD-160 meets the named corner.  Written from the specification (round-0 functions only:
    f = x^y^z on the left, x^(y|~z) on the right), independent of the code under test."""
    M = 0xffffffff

    def rol(v, r):
        v &= M
        return ((v << r) | (v >> (32 - r))) & M

    def ror(v, r):
        return rol(v, 32 - r)
    order = _RMD["ML"] if side == "L" else _RMD["MR"]
    rots = _RMD["RL"] if side == "L" else _RMD["RR"]
    k = 0 if side == "L" else _RMD["KR0"]
    x = [rng.getrandbits(32) for _ in range(16)]
    a, b, c, d, e = _RMD["INIT"]
    for t in range(j + 1):
        f = (b ^ c ^ d) if side == "L" else (b ^ (c | (~d & M)))
        f &= M
        if t == j:
            # want: rol(a + f + x + k, r) + e  at the corner  (or a + f + x + k itself)
            if what.startswith("sum="):
                target = {"sum=2^32": 2 ** 32, "sum=2^32-1": 2 ** 32 - 1, "sum=2^32+1": 2 ** 32 + 1}[what]
                rot_val = target - e
                if not 0 <= rot_val <= M:
                    return None
                pre = ror(rot_val, rots[t])                 # value of (a+f+x+k) mod 2^32
            else:
                pre = {"pre=2^32": 0, "pre=2^32-1": M, "pre=0": 0}[what]
            xw = (pre - a - f - k) % 2 ** 32
            if what == "pre=0" and (a + f + xw + k) != 0:
                return None                                  # the unreduced sum cannot be 0 unless every term is
            x[order[t]] = xw
        s_ = rol(a + f + x[order[t]] + k, rots[t]) + e
        a, b, c, d, e = e, s_ & M, b, rol(c, 10), d
    return b"".join(w.to_bytes(4, "little") for w in x)


def cases(rng, tier):
    yield from _zero_block_cases(rng, tier)
    yield from _mismatched_flag_wallets(rng, tier)
    yield from _imported_key_nodes(rng, tier)
    ks = [1, 2, 3, N - 1, N - 2, 2 ** 255, 2 ** 64]
    for _ in range(25 if tier == "quick" else 2500):
        ks.append(rng.randrange(1, N))
    # x with leading zero byte: search a few
    found = 0
    k = rng.randrange(1, N)
    while found < (1 if tier == "quick" else 4):
        k += 1
        x, y = point(k)
        if x >> 248 == 0:
            ks.append(k)
            found += 1
        if k % 4000 == 0 and tier == "quick":
            break
    # keys whose HASH160 (of the key, or of the script built from it) starts with a zero byte: the Base58
    # leading-'1' corner of mainnet P2PKH addresses (version byte 0x00 followed by 0x00...)
    found = {"p2pkh": 0, "p2pkh-u": 0, "p2sh_p2wpkh": 0}
    want = 2 if tier == "quick" else 8
    k = rng.randrange(1, 2 ** 64)
    tries = 0
    while min(found.values()) < want and tries < 4000:
        tries += 1
        k += 1
        x, y = point(k)
        sc = sec_c(x, y)
        if found["p2pkh"] < want and h160(sc)[0] == 0:
            found["p2pkh"] += 1
            for t in "01":
                yield "addr p2pkh %s %s" % (hx(sc), t), "addr-h160-leading-zero"
                yield "pk_addr %s 1 %s p2pkh" % (hx(sc), t), "addr-h160-leading-zero"
        if found["p2pkh-u"] < want and h160(sec_u(x, y))[0] == 0:
            found["p2pkh-u"] += 1
            yield "pk_addr %s 0 0 p2pkh" % hx(sc), "addr-h160-leading-zero-uncompressed"
        if found["p2sh_p2wpkh"] < want and h160(b"\x00\x14" + h160(sc))[0] == 0:
            found["p2sh_p2wpkh"] += 1
            for t in "01":
                yield "addr p2sh_p2wpkh %s %s" % (hx(sc), t), "addr-scripthash-leading-zero"
    for k in ks:
        x, y = point(k)
        sc = sec_c(x, y)
        for kind in KINDS:
            for t in "01":
                yield "addr %s %s %s" % (kind, hx(sc), t), "addr-" + kind
        for c in "01":
            for t in "01":
                yield "pk_addr %s %s %s p2pkh" % (hx(sc), c, t), "pk-p2pkh"
        yield "pk_addr %s 1 0 p2wpkh" % hx(sec_u(x, y)), "pk-p2wpkh"
        # the same key handed over in every encoding PublicKey.parse accepts (compressed, uncompressed, python-ecdsa's
        # raw x||y, hybrid 06/07): the addresses depend on the point, not on the bytes it was parsed from
        xb, yb = x.to_bytes(32, "big"), y.to_bytes(32, "big")
        forms = [sc, sec_u(x, y), xb + yb, bytes([6 + (y & 1)]) + xb + yb]
        f = forms[rng.randrange(4)] if tier == "quick" and k > 3 else None
        for form in ([f] if f is not None else forms):
            for c in "01":
                yield "pk_addr %s %s %s p2pkh" % (hx(form), c, rng.choice("01")), "pk-key-encoding-form"
            yield "pk_addr %s 1 0 p2wpkh" % hx(form), "pk-key-encoding-form"
            yield "sec_parse " + hx(form), "pk-key-encoding-form"
        # several requests on ONE PublicKey object, in varying order (compressed before uncompressed and back)
        reqs = [rng.choice(["1:0:p2pkh", "0:0:p2pkh", "1:1:p2pkh", "0:1:p2pkh", "1:0:p2wpkh", "1:1:p2wpkh",
                            "1:0:h160", "0:0:h160"]) for _ in range(rng.randint(2, 6))]
        yield "pk_seq %s %s" % (hx(sc), ",".join(["1:0:h160", "0:0:p2pkh"] + reqs)), "pk-object-reuse"
        yield "pk_addr %s 1 0 p2tr" % hx(sc), "pk-unsupported"
    top = 200 if tier == "quick" else 1024
    lens = list(range(0, top + 1)) + [55, 56, 63, 64, 65, 119, 120, 127, 128, 183, 184, 1000, 1023, 1024]
    for ln in lens:
        d = bytes((ln * 7 + i * 13) & 0xff for i in range(ln))
        yield "rmd160 " + hx(d), "rmd160-len"
        if ln % 3 == 0:
            yield "h160 " + hx(d), "h160-len"
    for _ in range(50 if tier == "quick" else 2000):
        d = bytes(rng.getrandbits(8) for _ in range(rng.randint(0, 300)))
        yield "rmd160 " + hx(d), "rmd160-random"
        yield "sha256 " + hx(d), "sha256-conformance"
    # RIPEMD-160 driven to the ALGEBRAIC CORNERS of its word arithmetic: in step j of either line the message word used
    # there is solved so that the rotated sum plus e is exactly 2^32 (reduces to 0), 2^32 - 1, 2^32 + 1, or the sum
    # before the rotation is exactly 2^32 / 2^32 - 1 / 0 — values a reduction written with a comparison, or a rotate
    # that assumes a reduced operand, gets wrong (they occur with probability 2^-32 per step on random input)
    for side in ("L", "R"):
        for j in (range(16) if tier == "thorough" else sorted(rng.sample(range(16), 4))):
            for what in ("sum=2^32", "sum=2^32-1", "sum=2^32+1", "pre=2^32", "pre=2^32-1", "pre=0"):
                blk = rmd_corner_block(rng, side, j, what)
                if blk is not None:
                    tail = bytes(rng.getrandbits(8) for _ in range(rng.choice([0, 0, 5, 64])))
                    yield "rmd160 " + hx(blk + tail), "rmd160-word-corner"
    for kind, ln in (("p2pkh", 20), ("p2sh", 20), ("p2wpkh", 20), ("p2wsh", 32)):
        yield "scr_build %s %s" % (kind, hx(bytes(rng.getrandbits(8) for _ in range(ln)))), "builder"


def nontrivial(line, out):
    return True


def oracle(line, out):
    tok = line.split(" ")
    op = tok[0]
    v = ok_val(out)
    if op == "h_addr" and tok[1] in ("p2pkh", "p2sh"):
        h, t = unhex(tok[2]), tok[3] == "1"
        ver = {("p2pkh", False): 0x00, ("p2pkh", True): 0x6f, ("p2sh", False): 0x05, ("p2sh", True): 0xc4}[(tok[1], t)]
        if v is None:
            return "no address for a 20-byte hash"
        try:
            pl = b58check_dec(unstr(v))
        except ValueError:
            return "%s address of a given hash is not valid Base58Check" % tok[1]
        return None if pl == bytes([ver]) + h else "%s address does not decode to version || hash" % tok[1]
    if op == "addr":
        kind, sec, t = tok[1], unhex(tok[2]), tok[3] == "1"
        codec, tag, h = expected(kind, sec, t)
        if v is None:
            return "no %s address for a valid key" % kind
        s = unstr(v)
        if codec == "b58":
            try:
                pl = b58check_dec(s)
            except ValueError:
                return "%s address is not valid Base58Check" % kind
            if pl[0] != tag:
                return "%s address has version byte 0x%02x, expected 0x%02x" % (kind, pl[0], tag)
            if pl[1:] != h:
                return "%s address commits to the wrong hash" % kind
        else:
            d = indep_decode(tag, s)
            if d is None:
                return "%s address does not decode as %s segwit address" % (kind, tag)
            if d[0] != 0 or bytes(d[1]) != h:
                return "%s address has wrong witness version/program" % kind
        return None
    if op == "w_addr":
        wspec, pth, kind = tok[1], tok[2], tok[3]
        nd = impl.run("w_bypath %s %s" % (wspec, pth))
        if not nd.startswith("ok N"):
            return None
        f = nd.split(" ")
        kb = unhex(f[3])
        if f[2] == "P":
            x, y = point(int.from_bytes(kb, "big"))
            sec = sec_c(x, y)
        else:
            sec = kb
        if wspec.startswith("xkey:"):
            ver_ = int.from_bytes(b58check_dec(unstr(wspec.split(":")[1]))[:4], "big")
            flag = "1" if ver_ in (0x043587CF, 0x04358394, 0x044A5262, 0x044A4E28, 0x045F1CF6, 0x045F18BC) else "0"
        else:
            flag = wspec.split(":")[-1]
        return oracle("addr %s %s %s" % (kind, hx(sec), flag), out)
    if op == "pk_addr":
        key, c, t, kind = unhex(tok[1]), tok[2] == "1", tok[3] == "1", tok[4]
        if kind not in ("p2pkh", "p2wpkh"):
            return None if v is None else "unsupported address type produced a value"
        import ecdsa
        vk = ecdsa.VerifyingKey.from_string(key, curve=ecdsa.SECP256k1)
        enc = vk.to_string("compressed" if c else "uncompressed")
        if v is None:
            return "no address for a valid key"
        s = unstr(v)
        if kind == "p2pkh":
            try:
                pl = b58check_dec(s)
            except ValueError:
                return "P2PKH address (compressed=%s) is not valid Base58Check for an independent decoder" % c
            if pl != bytes([0x6f if t else 0]) + h160(enc):
                return "P2PKH address (compressed=%s) does not decode to version||HASH160(sec)" % c
        else:
            d = indep_decode("tb" if t else "bc", s)
            if d is None or d[0] != 0 or bytes(d[1]) != h160(enc):
                return "P2WPKH address wrong"
        return None
    if op == "pk_seq":
        if v is None:
            return "request sequence on one key object failed"
        key = unhex(tok[1])
        import ecdsa
        vk = ecdsa.VerifyingKey.from_string(key, curve=ecdsa.SECP256k1)
        outs = v.split(" ; ")
        for r, o in zip(tok[2].split(","), outs):
            c, t, kind = r.split(":")
            enc = vk.to_string("compressed" if c == "1" else "uncompressed")
            if o == "err":
                return "request %s on a reused key object failed" % r
            got = unstr(o)
            if kind == "h160":
                if got != h160(enc).hex():
                    return "HASH160 (compressed=%s) wrong after earlier requests on the same object" % c
            elif kind == "p2pkh":
                try:
                    pl = b58check_dec(got)
                except ValueError:
                    return "address not Base58Check"
                if pl != bytes([0x6f if t == "1" else 0]) + h160(enc):
                    return ("P2PKH address (compressed=%s) on a reused key object does not commit to HASH160 of that "
                            "encoding (request sequence %s)" % (c, tok[2]))
            else:
                d = indep_decode("tb" if t == "1" else "bc", got)
                if d is None or bytes(d[1]) != h160(enc):
                    return "P2WPKH address wrong on a reused key object"
        return None
    if op == "rmd160":
        d = unhex(tok[1])
        if v is None or unhex(v) != hashlib.new("ripemd160", d).digest():
            return "ripemd160 differs from OpenSSL for a %d-byte input" % len(d)
        return None
    if op == "h160":
        d = unhex(tok[1])
        if v is None or unhex(v) != h160(d):
            return "hash160 != RIPEMD160(SHA256(x)) for a %d-byte input" % len(d)
        return None
    if op == "scr_build":
        from .c19 import oracle as o19
        return o19(line, out)
    return None


known_match = common.no_known


def extra_checks(rng, tier, g, info):
    """a wallet whose `testnet` attribute is assigned after construction: the five address kinds of one node must still
    be encodings for ONE network (see c16.flag_reassigned)"""
    from .c16 import flag_reassigned
    yield from flag_reassigned(rng, tier, info)
