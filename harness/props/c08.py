"""C08 — New wallets draw their full entropy from the operating system's CSPRNG."""
import os
import random as _random
from .common import *  # noqa: F401,F403
from . import common
import impl

PID = "C08"
LEAN_MODULES = ["BtcHd.Props.C08"]
LEAN_MODULES_THOROUGH = ['BtcHd.Props.TrBip39', 'BtcHd.Props.TrText']
TRUSTED_BASE = common.CORE_TRUSTED + [
    "PARTIAL by nature: that bip39.random is a SystemRandom reading os.urandom, and that the kernel CSPRNG is "
    "unpredictable, are not theorems; they are tied by replacing os.urandom / random._urandom with a recording stub"]
ASSUMPTIONS = ["CPython's SystemRandom.getrandbits reads os.urandom((k+7)//8) big-endian and shifts right",
               "the operating system's CSPRNG is unpredictable"]
RULE = ("for each of the five mnemonic lengths: chosen OS byte strings (all-zero, all-one, single-bit incl. the most "
        "significant, random) fed through an os.urandom stub, with the process PRNG re-seeded to equal and different "
        "states; invalid lengths; non-trivial = distinct case with non-constant OS bytes")
LENS = {12: 128, 15: 160, 18: 192, 21: 224, 24: 256}


def cases(rng, tier):
    n = 12 if tier == "quick" else 600
    for ln, bits in LENS.items():
        nb = bits // 8
        pats = [bytes(nb), b"\xff" * nb, b"\x80" + bytes(nb - 1), bytes(nb - 1) + b"\x01", b"\x00\x01" + bytes(nb - 2)]
        pats += [bytes(rng.getrandbits(8) for _ in range(nb)) for _ in range(n)]
        for ob in pats:
            yield "mn_new %s %d" % (hx(ob + b"\xaa" * 8), bits), "mn-new-%d" % ln
        for ob in pats[:6]:
            t = rng.choice("01")
            yield "wallet new:%s:%d:-:-:%s" % (hx(ob + b"\x55" * 8), ln, t), "new-wallet-%d" % ln
    for bits in (0, 1, 127, 129, 64, 512, 255):
        yield "mn_new %s %d" % (hx(bytes(range(80))), bits), "bad-bits"
    for ln in (0, 11, 13, 25, 48):
        yield "wallet new:%s:%d:-:-:0" % (hx(bytes(range(80))), ln), "bad-length"


def nontrivial(line, out):
    return len(set(line.split(" ")[1])) > 4


def _decode(mn):
    from btc_hd_wallet.bip39_wordlist import word_list
    ws = mn.split(" ")
    bits = "".join(format(word_list.index(w), "011b") for w in ws)
    ent = len(ws) * 32 // 3
    return int(bits[:ent], 2).to_bytes(ent // 8, "big")


def oracle(line, out):
    tok = line.split(" ")
    v = ok_val(out)
    if tok[0] == "mn_new":
        ob, bits = unhex(tok[1]), int(tok[2])
        if bits not in LENS.values():
            return None if v is None else "mnemonic produced for an unsupported entropy size"
        if v is None:
            return "new mnemonic failed"
        if _decode(unstr(v)) != ob[:bits // 8]:
            return "the mnemonic's entropy is not exactly the bytes supplied by the OS source"
        return None
    if tok[0] == "wallet":
        parts = tok[1].split(":")
        ob, ln = unhex(parts[1]), int(parts[2])
        if ln not in LENS:
            return None if v is None else "wallet created for an unsupported mnemonic length"
        if v is None:
            return "new wallet failed"
        f = v.split(" ")
        mn = impl.unstr(f[13][1:])
        if _decode(mn) != ob[:LENS[ln] // 8]:
            return "new wallet's entropy is not the OS bytes"
        return None
    return None


def failing_source(rng, tier, info):
    """the OS random source FAILS (OSError: out of file descriptors, no entropy device): always, or for the first k
    requests.  A mnemonic that is handed out all the same comes from nowhere — whenever one is returned, the OS source
    must have delivered at least ENT bits for it and the entropy must be exactly those bytes"""
    import btc_hd_wallet.bip39 as b39
    from btc_hd_wallet.base_wallet import BaseWallet
    from .c12 import mnemonic as indep_mnemonic
    n = 0
    for ln, bits in LENS.items():
        for fail_first in (10 ** 9, 1, 2, 3, 5):
            for route in ("mnemonic_from_entropy_bits", "new_wallet"):
                state = {"calls": 0, "given": []}
                data = bytes(rng.getrandbits(8) for _ in range(64))

                def stub(k, _st=state, _ff=fail_first, _d=data):
                    _st["calls"] += 1
                    if _st["calls"] <= _ff:
                        raise OSError(24, "Too many open files")
                    _st["given"].append(_d[:k])
                    return _d[:k]
                saved = (_random._urandom, os.urandom)
                _random._urandom = stub
                os.urandom = stub
                try:
                    try:
                        m = b39.mnemonic_from_entropy_bits(bits) if route == "mnemonic_from_entropy_bits" else \
                            BaseWallet.new_wallet(mnemonic_length=ln).mnemonic
                    except Exception:
                        m = None
                finally:
                    _random._urandom, os.urandom = saved
                n += 1
                if m is None:
                    continue
                got_bits = 8 * sum(len(x) for x in state["given"])
                ok_ = got_bits >= bits and any(len(x) * 8 >= bits and indep_mnemonic(x[:bits // 8]) == m for x in state["given"])
                if not ok_:
                    yield ("# %s for %d words while the OS source raises OSError on its first %s requests" % (
                        route, ln, "ALL" if fail_first > 100 else fail_first),
                        "a mnemonic was handed out (%s ...) although the OS source delivered %d bits for it" % (
                            " ".join(m.split(" ")[:3]), got_bits))
                    return
    info["failing_source_runs"] = n


def extra_checks(rng, tier, g, info):
    """On the real code, with the REAL os.urandom observed from outside: request sizes, independence of the
    process-wide PRNG state, bit variation and distinctness."""
    import btc_hd_wallet.bip39 as b39
    from btc_hd_wallet.base_wallet import BaseWallet
    yield from failing_source(rng, tier, info)
    real_urandom = os.urandom
    n_draw = 64 if tier == "quick" else 512
    calls = 0
    for ln, bits in LENS.items():
        # 1. request sizes, through a recording pass-through stub
        rec = []

        def stub(n, _rec=rec):
            _rec.append(n)
            return real_urandom(n)
        saved = (_random._urandom, os.urandom)
        _random._urandom = stub
        os.urandom = stub
        try:
            b39.mnemonic_from_entropy_bits(bits)
            w = BaseWallet.new_wallet(mnemonic_length=ln)
        finally:
            _random._urandom, os.urandom = saved
        calls += 2
        if sum(rec) * 8 < 2 * bits or len(rec) != 2 or any(r * 8 < bits for r in rec):
            yield ("mn_new - %d" % bits,
                   "creating a %d-word mnemonic requested %s bytes from the OS source (need >= %d each time)" % (ln, rec, bits // 8))
            continue
        # 2. same PRNG state twice -> results must differ (they come from the OS, not the seedable generator)
        outs = []
        for seed in (1234, 1234, 99):
            _random.seed(seed)
            outs.append(b39.mnemonic_from_entropy_bits(bits))
        if outs[0] == outs[1]:
            yield ("mn_new - %d" % bits, "two new mnemonics coincide after random.seed(1234) twice: entropy follows the seedable PRNG")
            continue
        # 3. every entropy bit varies over fresh draws, no two coincide
        ents = [_decode(b39.mnemonic_from_entropy_bits(bits)) for _ in range(n_draw)]
        calls += n_draw
        if len(set(ents)) != len(ents):
            yield ("mn_new - %d" % bits, "two fresh mnemonics coincide")
            continue
        ones = [0] * bits
        for e in ents:
            x = int.from_bytes(e, "big")
            for j in range(bits):
                ones[j] += (x >> j) & 1
        stuck = [j for j in range(bits) if ones[j] in (0, n_draw)]
        if stuck:
            yield ("mn_new - %d" % bits, "entropy bit(s) %s never vary over %d fresh %d-word mnemonics" % (
                stuck[:8], n_draw, ln))
    info["real_urandom_draws"] = calls
    # 4. import fall-backs: every module the package imports under `try: ... except ImportError` may be absent
    #    (or shadowed) in a user's environment; the entropy source must be the OS one on that branch as well.
    #    Each such module is made un-importable in a fresh process and the request-size / re-seed test repeated.
    names = optional_imports()
    info["import_fallbacks_explored"] = sorted(names)
    for name in sorted(names):
        res = run_blocked(name)
        for ln, r in sorted(res.items()):
            if "error" in r:
                continue        # the package refuses to work without the module: no wallet, no claim
            bits = LENS[int(ln)]
            if r["requested"] * 8 < bits:
                yield ("mn_new - %d #import-of-%s-fails" % (bits, name),
                       "with module `%s` not importable, a new %s-word wallet requested %d bytes from the OS source "
                       "(need >= %d)" % (name, ln, r["requested"], bits // 8))
            elif r["repeat"]:
                yield ("mn_new - %d #import-of-%s-fails" % (bits, name),
                       "with module `%s` not importable, two new %s-word wallets coincide after random.seed(7) twice"
                       % (name, ln))


def optional_imports():
    """top-level names of modules imported inside a `try` whose handlers catch ImportError (or everything)"""
    import ast
    import glob
    out = set()
    for f in glob.glob(os.path.join(impl.REPO, "btc_hd_wallet", "*.py")):
        try:
            tree = ast.parse(open(f).read())
        except SyntaxError:
            continue
        for node in ast.walk(tree):
            if not isinstance(node, ast.Try):
                continue
            catches = False
            for h in node.handlers:
                ts = [h.type] if h.type is not None and not isinstance(h.type, ast.Tuple) else (h.type.elts if h.type is not None else [None])
                for t in ts:
                    nm = getattr(t, "id", None) or getattr(t, "attr", None)
                    if t is None or nm in ("ImportError", "ModuleNotFoundError", "Exception", "BaseException"):
                        catches = True
            if not catches:
                continue
            for b in node.body:
                for x in ast.walk(b):
                    if isinstance(x, ast.Import):
                        out.update(a.name.split(".")[0] for a in x.names)
                    elif isinstance(x, ast.ImportFrom) and x.module and x.level == 0:
                        out.add(x.module.split(".")[0])
    out.discard("btc_hd_wallet")
    return out


_BLOCKED_SRC = r'''
import sys, json, os, random
name, repo = sys.argv[1], sys.argv[2]
sys.modules[name] = None            # `import name` now raises ImportError
sys.path.insert(0, repo)
res = {}
try:
    from btc_hd_wallet.base_wallet import BaseWallet
    real = os.urandom
    for ln in (12, 15, 18, 21, 24):
        rec = []
        def stub(n, _rec=rec):
            _rec.append(n)
            return real(n)
        saved = (random._urandom, os.urandom)
        random._urandom = stub; os.urandom = stub
        try:
            BaseWallet.new_wallet(mnemonic_length=ln)
            req = sum(rec)
            outs = []
            for s in (7, 7):
                random.seed(s)
                outs.append(BaseWallet.new_wallet(mnemonic_length=ln).mnemonic)
            res[ln] = {"requested": req, "repeat": outs[0] == outs[1]}
        except Exception as e:
            res[ln] = {"error": repr(e)[:100]}
        finally:
            random._urandom, os.urandom = saved
except Exception as e:
    res = {ln: {"error": repr(e)[:100]} for ln in (12, 15, 18, 21, 24)}
print(json.dumps(res))
'''


def run_blocked(name):
    import json
    import subprocess
    import sys
    p = subprocess.run([sys.executable, "-c", _BLOCKED_SRC, name, impl.REPO], capture_output=True, text=True, timeout=300)
    try:
        return json.loads(p.stdout.strip().splitlines()[-1])
    except Exception:
        return {}


known_match = common.no_known
