"""Shared helpers for property modules: independent codecs (never the repository's
own code, never the model), boundary values, known-finding matching."""
import hashlib
import os
import sys

HERE = os.path.dirname(os.path.abspath(__file__))
sys.path.insert(0, os.path.dirname(HERE))
from impl import hx, sx, unhex, unstr  # noqa: E402,F401

N = 0xFFFFFFFFFFFFFFFFFFFFFFFFFFFFFFFEBAAEDCE6AF48A03BBFD25E8CD0364141
P = 2 ** 256 - 2 ** 32 - 977
B58 = "123456789ABCDEFGHJKLMNPQRSTUVWXYZabcdefghijkmnopqrstuvwxyz"
B32 = "qpzry9x8gf2tvdw0s3jn54khce6mua7l"

CORE_TRUSTED = [
    "Lean 4.33.0 kernel; axioms propext, Classical.choice, Quot.sound only (audited per theorem with #print axioms)",
    "harness/extract.py (constants regenerated from /repo on every run)",
    "harness/check.py + harness/impl.py + Driver/Main.lean (correspondence check, canonicalisation)",
    "Python control flow is modelled by hand (lean/BtcHd/Model) and tied by correspondence only",
]


def dsha(b):
    return hashlib.sha256(hashlib.sha256(b).digest()).digest()


def b58enc(b):
    n = int.from_bytes(b, "big")
    out = ""
    while n:
        n, r = divmod(n, 58)
        out = B58[r] + out
    z = len(b) - len(b.lstrip(b"\x00"))
    return "1" * z + out


def b58dec(s):
    """independent decoder; ValueError on foreign characters"""
    n = 0
    for c in s:
        i = B58.find(c)
        if i < 0:
            raise ValueError("foreign")
        n = n * 58 + i
    z = len(s) - len(s.lstrip("1"))
    body = n.to_bytes((n.bit_length() + 7) // 8, "big")
    return b"\x00" * z + body


def b58check_dec(s):
    raw = b58dec(s)
    if len(raw) < 4 or dsha(raw[:-4])[:4] != raw[-4:]:
        raise ValueError("checksum")
    return raw[:-4]


def b58check_enc(b):
    return b58enc(b + dsha(b)[:4])


def no_known(line, out, msg, known):
    return None


def ok_val(out):
    """payload of an `ok ...` line, None for err"""
    return out[3:] if out.startswith("ok ") else None


_fp_pairs = [None]


def fp_pairs():
    """corpus of pairs of secp256k1 secret keys whose public keys have the SAME 4-byte BIP32 fingerprint
    (birthday search, harness/corpus/fp_collisions.json): an identifier the library itself uses and that is
    not unique, so anything keyed on it (caches, look-ups) is wrong exactly on such pairs"""
    if _fp_pairs[0] is None:
        import json
        d = json.load(open(os.path.join(os.path.dirname(HERE), "corpus", "fp_collisions.json")))
        _fp_pairs[0] = [(int(e["kA"], 16), int(e["kB"], 16)) for e in d]
    return _fp_pairs[0]


def xkey_string(version, depth, fp, index, chain, key33):
    """independent Base58Check serialisation of an extended key"""
    return b58check_enc(version.to_bytes(4, "big") + bytes([depth]) + fp + index.to_bytes(4, "big") + chain + key33)
