"""Shared helpers for property modules: independent codecs (never the repository's
own code, never the model), boundary values, known-finding matching."""
import hashlib
import os
import sys

HERE = os.path.dirname(os.path.abspath(__file__))
sys.path.insert(0, os.path.dirname(HERE))
from impl import hx, sx, unhex, unstr  # noqa: E402,F401

N = 0xFFFFFFFFFFFFFFFFFFFFFFFFFFFFFFFEBAAEDCE6AF48A03BBFD25E8CD0364141
P = 2 ** 256 - 2 ** 32 - 977
B58 = "123456789ABCDEFGHJKLMNPQRSTUVWXYZabcdefghijkmnopqrstuvwxyz"
B32 = "qpzry9x8gf2tvdw0s3jn54khce6mua7l"

CORE_TRUSTED = [
    "Lean 4.33.0 kernel; axioms propext, Classical.choice, Quot.sound only (audited per theorem with #print axioms)",
    "harness/extract.py (constants regenerated from /repo on every run)",
    "harness/check.py + harness/impl.py + Driver/Main.lean (correspondence check, canonicalisation)",
    "Python control flow is modelled by hand (lean/BtcHd/Model) and tied by correspondence only",
]


def dsha(b):
    return hashlib.sha256(hashlib.sha256(b).digest()).digest()


def b58enc(b):
    n = int.from_bytes(b, "big")
    out = ""
    while n:
        n, r = divmod(n, 58)
        out = B58[r] + out
    z = len(b) - len(b.lstrip(b"\x00"))
    return "1" * z + out


def b58dec(s):
    """independent decoder; ValueError on foreign characters"""
    n = 0
    for c in s:
        i = B58.find(c)
        if i < 0:
            raise ValueError("foreign")
        n = n * 58 + i
    z = len(s) - len(s.lstrip("1"))
    body = n.to_bytes((n.bit_length() + 7) // 8, "big")
    return b"\x00" * z + body


def b58check_dec(s):
    raw = b58dec(s)
    if len(raw) < 4 or dsha(raw[:-4])[:4] != raw[-4:]:
        raise ValueError("checksum")
    return raw[:-4]


def b58check_enc(b):
    return b58enc(b + dsha(b)[:4])


def no_known(line, out, msg, known):
    return None


def ok_val(out):
    """payload of an `ok ...` line, None for err"""
    return out[3:] if out.startswith("ok ") else None


_fp_pairs = [None]


def fp_pairs():
    """corpus of pairs of secp256k1 secret keys whose public keys have the SAME 4-byte BIP32 fingerprint
    (birthday search, harness/corpus/fp_collisions.json): an identifier the library itself uses and that is
    not unique, so anything keyed on it (caches, look-ups) is wrong exactly on such pairs"""
    if _fp_pairs[0] is None:
        import json
        d = json.load(open(os.path.join(os.path.dirname(HERE), "corpus", "fp_collisions.json")))
        _fp_pairs[0] = [(int(e["kA"], 16), int(e["kB"], 16)) for e in d]
    return _fp_pairs[0]


def xkey_string(version, depth, fp, index, chain, key33):
    """independent Base58Check serialisation of an extended key"""
    return b58check_enc(version.to_bytes(4, "big") + bytes([depth]) + fp + index.to_bytes(4, "big") + chain + key33)


def projection_siblings(rng, count):
    """pairs (k1, k2) of distinct valid secp256k1 scalars that AGREE under a projection something might be keyed on:
    CPython's own hash() of an int (the value modulo sys.hash_info.modulus = 2^61-1 on 64-bit builds), the low
    32 / 64 / 128 bits, the high 192 bits, all bytes but the first.  Random scalars collide under these with
    probability <= 2^-32, single-bit siblings never do; a memo, dict or lookup keyed on such a projection is wrong
    exactly on these pairs (used back to back in one process)."""
    mods = [sys.hash_info.modulus, 2 ** 32, 2 ** 64, 2 ** 128]
    out = []
    for j in range(count):
        M = mods[j % len(mods)]
        while True:
            k1 = rng.randrange(1, N)
            m = rng.randrange(1, max(2, (N - 1 - k1) // M)) if j % 2 else rng.choice([1, 2, 3, 0xC0FFEE])
            k2 = k1 + m * M
            if 1 <= k2 < N:
                break
            k2 = k1 - m * M
            if 1 <= k2 < N:
                break
        out.append((k1, k2, "mod-%d-bit" % M.bit_length()))
    for j in range(max(1, count // 4)):
        k1 = rng.randrange(2 ** 200, N)
        out.append((k1, ((k1 >> 64) << 64) | (rng.getrandbits(64) or 1), "same-high-192"))
        b = bytearray(k1.to_bytes(32, "big"))
        b[0] = (b[0] + 1 + rng.randrange(0xfe)) % 0xff
        k2 = int.from_bytes(b, "big")
        if 1 <= k2 < N and k2 != k1:
            out.append((k1, k2, "same-low-31-bytes"))
    # the smallest instances: 1 vs 2^61, 8 vs 2^64 (both members are "boundary" scalars)
    out.append((1, 1 + sys.hash_info.modulus, "mod-hash-small"))
    out.append((1 << (sys.hash_info.modulus.bit_length()), 1, "mod-hash-pow2"))
    return out


def soak_size(pid, tier):
    """how many distinct children a long-lived-object soak derives under ONE node: a fixed floor, raised above every
    small integer literal of the property's source files (a capacity / eviction constant in the code is met with
    certainty, whatever its value up to the cap)"""
    import check
    lits = [x for x in check.source_literals(pid) if 2 <= x <= (20000 if tier == "quick" else 200000)]
    floor = 2200 if tier == "quick" else 20000
    return max([floor] + [x + 60 for x in lits])


_bpts = [None]


def boundary_points():
    """compressed SEC encodings of valid secp256k1 points whose x coordinate sits at a boundary: the largest x below the
    field prime p, the first x at or above the group order n (n < p: a bound on scalars is not a bound on
    coordinates), the smallest x, x with leading zero bytes, x around 2^255 — both parities each.  Points produced
    as k*G from generated scalars land in none of these classes."""
    if _bpts[0] is None:
        def on_curve_from(x0, step, count):
            out, x = [], x0
            while len(out) < count and 0 < x < P:
                rhs = (pow(x, 3, P) + 7) % P
                y = pow(rhs, (P + 1) // 4, P)
                if y * y % P == rhs:
                    for yy in (y, P - y):
                        out.append(bytes([2 + (yy & 1)]) + x.to_bytes(32, "big"))
                x += step
            return out
        pts = []
        pts += on_curve_from(P - 1, -1, 4)             # just below p
        pts += on_curve_from(N, 1, 4)                  # at / just above n
        pts += on_curve_from(N - 1, -1, 2)             # just below n
        pts += on_curve_from(1, 1, 4)                  # smallest x
        pts += on_curve_from(2 ** 255, 1, 2)
        pts += on_curve_from(2 ** 200, 1, 2)           # leading zero bytes
        pts += on_curve_from((P + N) // 2, 1, 2)       # middle of [n, p)
        # boundaries of the OTHER coordinate: points with tiny |y| (y = ±1, ±2, …).  There x^3 + 7 = y^2 is tiny, i.e.
        # x^3 mod p lies just below p and the sum x^3 + 7 wraps around the modulus.  p = 7 (mod 9), so a cubic residue
        # c has the cube root c^((p+2)/9); the other two differ by a primitive cube root of unity.
        w = next(pow(g, (P - 1) // 3, P) for g in range(2, 50) if pow(g, (P - 1) // 3, P) != 1)
        for y in (1, 2, 3, 4, 5, 6, 7, 8):
            c = (y * y - 7) % P
            if c and pow(c, (P - 1) // 3, P) == 1:
                x0 = pow(c, (P + 2) // 9, P)
                for x in (x0, x0 * w % P, x0 * w * w % P):
                    if (pow(x, 3, P) + 7 - y * y) % P == 0:
                        for yy in (y, P - y):
                            pts.append(bytes([2 + (yy & 1)]) + x.to_bytes(32, "big"))
        _bpts[0] = pts
    return _bpts[0]


def solve_zero_block(rng, high, field_bits, shift, a, b, fmax=None, unknown_bits=None):
    """A value f < 2^field_bits (f < fmax if given) such that N = high + f * 2^shift + c has base-58 digits
    number a .. b-1 (from the right) all ZERO for EVERY 0 <= c < 2^(shift+1) — c stands for the part of the number the
    caller cannot choose (the 4 checksum bytes and a flag byte below the field).  Needs 58^a > 2^(shift+2).
    58^b = 2^b * 29^b and 2^shift is invertible modulo 29^b only, hence the two-step solution."""
    T, M = 58 ** a, 58 ** b
    ub = shift + 1 if unknown_bits is None else unknown_bits      # c < 2^ub (default: everything below the field)
    assert T > 2 ** (ub + 1) and shift >= b
    Mp = M >> b                                    # 29^b
    for _ in range(200):
        # want (high + f*2^shift) mod M = s with s < T - 2^(shift+1) and s = high (mod 2^b)  [f*2^shift = 0 mod 2^b]
        s = (high % (1 << b)) + (rng.randrange(0, (T - (1 << ub)) >> b) << b)
        x = (s - high) % M                         # = f * 2^shift (mod M), divisible by 2^b
        xp = (x >> b) % Mp
        f0 = xp * pow(pow(2, shift - b, Mp), -1, Mp) % Mp
        span = (1 << field_bits) if fmax is None else fmax
        if f0 >= span:
            continue
        f = f0 + Mp * rng.randrange(0, max(1, (span - f0) // Mp))
        if 0 < f < span:
            lo = high + (f << shift)
            if all(((lo + c) // T) % (M // T) == 0 for c in (0, (1 << ub) - 1)):
                return f
    return None


def zero_block_cases(rng, count):
    """(kind, value) pairs whose Base58Check text has an interior block of the zero digit '1' at an aligned position:
    ('h160', version byte, 20-byte hash) for addresses and ('wif', scalar, compressed, testnet) for WIF"""
    out = []
    blocks = [(8, 10), (10, 15), (10, 20), (15, 20), (20, 30), (12, 17)]
    for j in range(count):
        a, b = blocks[j % len(blocks)]
        ver = rng.choice([0x00, 0x05, 0x6f, 0xc4])
        h = solve_zero_block(rng, ver << (160 + 32), 160, 32, a, b)
        if h is not None:
            out.append(("h160", ver, h.to_bytes(20, "big"), (a, b)))
        comp, test = rng.random() < 0.5, rng.random() < 0.5
        pre = 0xef if test else 0x80
        shift = 40 if comp else 32
        high = (pre << (256 + shift)) + ((1 << 32) if comp else 0)
        k = solve_zero_block(rng, high, 256, shift, max(a, 8), max(b, 10), fmax=N)
        if k is not None and 1 <= k < N:
            out.append(("wif", k, comp, test, (a, b)))
    return out


_ulook = [None]


def unicode_lookalikes():
    """non-ASCII characters that Python's own str methods map to ASCII: c.lower(), c.upper(), c.casefold() or the
    NFKC / NFKD normal form of c is a single printable ASCII character (KELVIN SIGN -> k, LONG S -> S, full-width and
    mathematical letters and digits, ...).  Returned as {ascii_char: [characters]} — the substitution alphabet for
    'is a character that merely LOOKS right to some str method accepted?'"""
    if _ulook[0] is None:
        import unicodedata
        out = {}
        for cp_ in range(0x80, 0x30000):
            c = chr(cp_)
            if 0xD800 <= cp_ <= 0xDFFF:
                continue
            imgs = {c.lower(), c.upper(), c.casefold(), unicodedata.normalize("NFKC", c), unicodedata.normalize("NFKD", c)}
            for im in imgs:
                if len(im) == 1 and 33 <= ord(im) <= 126:
                    out.setdefault(im, [])
                    if c not in out[im] and len(out[im]) < 6:
                        out[im].append(c)
        _ulook[0] = out
    return _ulook[0]


EDGE_CHARS = ["\n", "\r", "\r\n", " ", "\t", "\x0b", "\x0c", "\x00", "\x1c", "\x1d", "\x1e", "\x1f", "\x85", "\xa0",
              "\u2028", "\u2029", "\ufeff", "\u200b", "\u3000"]


def edge_variants(s):
    """the text with ONE character put in front of it or behind it that a str method tolerates quietly: line
    terminators (`$` in a regular expression matches before a final newline; `splitlines`), blanks and control
    characters (`strip`, `split`, `int`), NUL, invisible characters.  A validator that accepts `s` must not accept
    these unless the format allows the character."""
    for c in EDGE_CHARS:
        yield s + c
        yield c + s
    yield s + "\n\n"


_nfkd_pairs = [None]


def nfkd_boundary_texts(rng, count):
    """texts on which NFKD is NOT the concatenation of the normal forms of the pieces: a character whose decomposition
    ENDS in a combining mark followed by a character whose decomposition STARTS with a combining mark of a lower
    class (canonical reordering across the boundary).  The second characters include the handful of characters that
    are starters themselves but decompose into a leading non-starter (found by scanning the Unicode table), and plain
    combining marks.  A per-character or per-chunk normaliser is wrong exactly here."""
    import unicodedata as U
    if _nfkd_pairs[0] is None:
        A, B0, B1 = [], [], []
        for cp in range(0x80, 0x30000):
            if 0xD800 <= cp <= 0xDFFF:
                continue
            c = chr(cp)
            d = U.normalize("NFKD", c)
            if U.combining(d[-1]) > 0 and U.combining(c) == 0:
                A.append(c)
            if U.combining(d[0]) > 0:
                (B1 if U.combining(c) > 0 else B0).append(c)
        _nfkd_pairs[0] = (A, B0, B1)
    A, B0, B1 = _nfkd_pairs[0]
    out = []
    for b in B0:                                   # every starter with a non-starter decomposition
        found = 0
        for _ in range(400):
            a = rng.choice(A)
            if U.normalize("NFKD", a + b) != U.normalize("NFKD", a) + U.normalize("NFKD", b):
                out.append(a + b)
                found += 1
                if found == 2:
                    break
    tries = 0
    while len(out) < count and tries < 20000:
        tries += 1
        a, b = rng.choice(A), rng.choice(B1 if rng.random() < 0.7 else B0)
        t = a + b
        if U.normalize("NFKD", t) != U.normalize("NFKD", a) + U.normalize("NFKD", b):
            out.append(rng.choice(["", "x", "pass "]) + t + rng.choice(["", "y"]))
    return out[:max(count, len(B0))]


def bulk_interval_shapes(rng, normal_only=False):
    """(arity, a, b, step) for `generate_children(interval)`: every tuple shape `range(*interval)` accepts — `(b,)`,
    `(a, b)`, `(a, b, step)` with positive, negative and zero steps, empty, descending, crossing 2^31 in both directions"""
    H = 2 ** 31
    out = [(1, 0, 3, 0), (1, 0, 0, 0), (2, 2, 5, 0), (2, 5, 2, 0), (3, 0, 6, 2), (3, 6, 0, -2), (3, 5, 5, -1), (3, 2, 9, 4),
           (3, 3, 0, -1), (3, 0, 3, 0), (3, 2, -3, -2), (3, H - 1, H - 4, -1), (3, H - 3, H, 2)]
    # intervals that straddle the byte boundaries of ser32(i) (2^8, 2^16, 2^24 and a multiple of 2^24) and 2^31 - 1
    for edge in (2 ** 8, 2 ** 16, 2 ** 24, 5 * 2 ** 24, 127 * 2 ** 24):
        out.append((2, edge - 2, edge + 2, 0))
    out.append((3, 2 ** 24 + 1, 2 ** 24 - 3, -1))
    if not normal_only:
        out += [(3, H + 1, H - 3, -1), (3, 2 ** 32 - 1, 5, -(2 ** 30)), (3, H + 2, H - 1, -2), (3, H - 2, H + 2, 1),
                (3, H - 2, H + 3, 3), (2, H - 1, H + 1, 0), (3, H, H - 2, -1), (1, 0, 2, 0)]
    return out


def bulk_oracle(line, out):
    """`gen_step`: a bulk request answers like the single requests for the same indexes, in order; if any of them is
    refused (hardened index on a public node, invalid child, negative or oversized index, step 0) the whole is refused"""
    import impl
    tok = line.split(" ")
    spec, ar, a, b, st, prf = tok[1], int(tok[2]), int(tok[3]), int(tok[4]), int(tok[5]), tok[6]
    if ar == 1:
        a, st = 0, 1
    elif ar == 2:
        st = 1
    v = ok_val(out)
    if st == 0:
        return None if v is None else "interval with step 0 answered"
    want = []
    for i in range(a, b, st):
        if len(want) > 64:
            return None
        r = impl.run("ckd %s %d %s" % (spec, i, prf)) if 0 <= i < 2 ** 32 else "err"
        if not r.startswith("ok "):
            return None if v is None else ("bulk derivation over %s answered although the single request for index %d "
                                           "is refused" % ((a, b, st), i))
        want.append(r[3:])
    if v is None:
        return "bulk derivation over %s refused although every single request succeeds" % ((a, b, st),)
    got = v[2:].split(" / ") if v.startswith("L ") else []
    if got != want:
        return "bulk derivation over %s differs from the single requests" % ((a, b, st),)
    return None


def hex_blank_variants(rng, hexstr, many=False):
    """the hex text with ASCII white space where bytes.fromhex tolerates it (between byte pairs, in front, behind): a
    trailing newline / CR LF, surrounding blanks, a byte-per-group dump, and spreads of exactly 8 / 16 / 24 / 32 blanks
    (so that the CHARACTER count is again a multiple of eight) — the bytes are the same bytes"""
    pairs = [hexstr[i:i + 2] for i in range(0, len(hexstr), 2)]
    out = [hexstr + "\n", hexstr + "\r\n", " " + hexstr, "  " + hexstr + "  ", "\t" + hexstr, " ".join(pairs),
           " ".join(pairs) + "\n", hexstr.upper() + " "]
    for k in (8, 16, 24, 32):
        if len(pairs) > 1:
            gaps = [0] * (len(pairs) + 1)
            for _ in range(k):
                gaps[rng.randrange(len(gaps))] += 1
            out.append("".join(" " * g + p for g, p in zip(gaps, pairs)) + " " * gaps[-1])
    return out if many else [out[0], out[1], out[3], out[5], out[6]] + rng.sample(out[8:], min(2, len(out[8:])))


# ---- long-running-process soak (check.py): cheap DISTINCT requests of the basic kinds, and corner requests to re-ask
_FILE_KINDS = {
    "btc_hd_wallet/bip32.py": ["ckd", "xk"], "btc_hd_wallet/keys.py": ["sec", "priv"],
    "btc_hd_wallet/helper.py": ["h160", "b58"], "btc_hd_wallet/bech32.py": ["b32"],
    "btc_hd_wallet/bip39.py": ["seed", "mn"], "btc_hd_wallet/bip85.py": ["ckd"], "btc_hd_wallet/script.py": ["h160"],
    "btc_hd_wallet/base_wallet.py": ["ckd", "xk", "h160", "b58"], "btc_hd_wallet/paper_wallet.py": ["ckd", "b58"],
    "btc_hd_wallet/wallet_utils.py": ["xk"], "btc_hd_wallet/ripemd.py": ["h160"], "btc_hd_wallet/__main__.py": [],
}


def soak_kinds(pid):
    import json
    import os
    try:
        props = [json.loads(l) for l in open(os.path.join(os.path.dirname(os.path.dirname(os.path.dirname(
            os.path.abspath(__file__)))), "properties.jsonl"))]
        files = next(p["anchors"]["files"] for p in props if p["id"] == pid)
    except Exception:
        files = []
    out = []
    for f in files:
        for k in _FILE_KINDS.get(f, []):
            if k not in out:
                out.append(k)
    return out


_walk = [None]


def _soak_one(kind, rng, corner=False):
    rb = lambda n: bytes(rng.getrandbits(8) for _ in range(n))
    if kind == "ckd":
        k = rng.randrange(1, N)
        return "ckd P:%s:%s:0:0:0:none %d -" % (hx(k.to_bytes(32, "big")), hx(rb(32)), rng.choice([0, 1, 7]))
    if kind == "xk":
        k = rng.randrange(1, N)
        pl = (0x0488ADE4).to_bytes(4, "big") + bytes([rng.choice([0, 2])]) + rb(4) + rng.choice([0, 5]).to_bytes(4, "big") + \
            rb(32) + b"\x00" + k.to_bytes(32, "big")
        form = rng.choice(["s", "b"])
        return "xk_parse P 0 %s %s %d" % (form, sx(b58check_enc(pl)) if form == "s" else hx(pl), rng.choice([0, 3, 2 ** 31]))
    if kind == "sec":
        # (a walk P, P+G, P+2G, ... : one point addition per fresh key instead of a scalar multiplication)
        import ecdsa
        if _walk[0] is None or corner:
            _walk[0] = ecdsa.SECP256k1.generator * rng.randrange(1, N)
        _walk[0] = _walk[0] + ecdsa.SECP256k1.generator
        x, y = _walk[0].x(), _walk[0].y()
        unc = b"\x04" + x.to_bytes(32, "big") + y.to_bytes(32, "big")
        return "sec_parse " + hx(unc if (corner or rng.random() < 0.5) else bytes([2 + (y & 1)]) + x.to_bytes(32, "big"))
    if kind == "priv":
        return "priv_new " + hx(rng.randrange(1, N).to_bytes(32, "big"))
    if kind == "h160":
        return "h160 " + hx(rb(rng.choice([20, 33, 65, rng.randint(1, 80)])))
    if kind == "b58":
        return "b58ce " + hx(rb(rng.choice([21, 34, rng.randint(1, 40)])))
    if kind == "b32":
        from .c11 import indep_encode
        ver = rng.choice([0, 1])
        return "b32_dec %s %s" % (sx("bc"), sx(indep_encode("bc", ver, rb(20 if ver == 0 else 32))))
    if kind == "seed":
        import unicodedata
        m, p_ = "w%d x%d" % (rng.getrandbits(40), rng.getrandbits(20)), rng.choice(["", "caf\u00e9", "p%d" % rng.getrandbits(16)])
        nf = lambda t: unicodedata.normalize("NFKD", t)
        return "seed %s %s %s %s" % (sx(m), sx(nf(m)), sx(p_), sx(nf(p_)))
    if kind == "mn":
        return "mn_from_ent " + sx(rb(rng.choice([16, 20, 24, 28, 32])).hex())
    raise KeyError(kind)


def soak_corner_lines(kinds, rng):
    """requests to ask at the start of the process and again at its end: one or two of every basic kind, in the forms a
    key-normalising cache files under another key than it evicts by (33-byte private node keys of parsed nodes,
    uncompressed / hybrid encodings, the empty byte string, texts that are not in normal form)"""
    out = []
    for k in kinds:
        out.append(_soak_one(k, rng, corner=True))
        out.append(_soak_one(k, rng, corner=True))
    if "h160" in kinds:
        out += ["h160 -", "rmd160 -"]
    if "seed" in kinds:
        out.append("seed %s %s %s %s" % (sx("abandon ability"), sx("abandon ability"), sx("caf\u00e9"), sx("cafe\u0301")))
    if "b58" in kinds:
        out.append("b58ce 00")
    return out


def soak_filler(kinds, rng):
    """endless stream of cheap DISTINCT requests, one kind after the other"""
    while kinds:
        for k in kinds:
            yield _soak_one(k, rng)


def scribble(v, depth=0):
    """empty every list / dict / set / bytearray reachable from a value the library handed back (what a caller that
    re-uses or redacts what it received does)"""
    if depth > 6:
        return
    try:
        if isinstance(v, dict):
            for x in list(v.values()):
                scribble(x, depth + 1)
            v.clear()
        elif isinstance(v, list):
            for x in list(v):
                scribble(x, depth + 1)
            v.clear()
        elif isinstance(v, (set, bytearray)):
            v.clear()
    except Exception:
        pass
