"""C10 — Base58Check is lossless and never accepts a wrong checksum."""
from .common import *  # noqa: F401,F403
from . import common

PID = "C10"
LEAN_MODULES = ["BtcHd.Props.C10"]
LEAN_MODULES_THOROUGH = ['BtcHd.Props.TrBase58']
TRUSTED_BASE = common.CORE_TRUSTED + [
    "double SHA-256 is a parameter of the theorems (only `4 <= len` of its output is used); the driver's concrete SHA-256 is compared with hashlib on every case",
]
ASSUMPTIONS = [
    "hashlib.sha256 (OpenSSL) behaves as a function returning 32 bytes",
    "the empty byte string / empty text are outside the property's quantifier and are not generated",
]
RULE = ("byte strings of length 1..128 with 0..len leading zeros, boundaries of 58^k/256^k, all short strings "
        "(thorough); strings from valid encodings by substitution (incl. 0 O I l), insertion, deletion, "
        "'1'-prefixing, checksum-byte flips; a case is non-trivial when it is distinct and its input is "
        "neither all-zero nor a single character")


def _rand_bytes(rng, n):
    return bytes(rng.getrandbits(8) for _ in range(n))


def cases(rng, tier):
    # valid Base58 / Base58Check strings with one character replaced by a non-ASCII look-alike
    look_ = common.unicode_lookalikes()
    for _ in range(30 if tier == "quick" else 600):
        body = bytes(rng.getrandbits(8) for _ in range(rng.choice([1, 5, 21, 34])))
        s58 = b58check_enc(body)
        jj = rng.randrange(len(s58))
        subs = look_.get(s58[jj], []) + look_.get(s58[jj].swapcase(), [])
        if subs:
            bad = s58[:jj] + rng.choice(subs) + s58[jj + 1:]
            yield "b58d " + sx(bad), "unicode-lookalike"
            yield "b58cd " + sx(bad), "unicode-lookalike-check"
    # numbers whose base-58 digit string has an INTERIOR run of the zero digit, at every alignment and length
    # (block-wise or padded encoders lose or invent such digits), and runs of the top digit
    for start in list(range(1, 32)) + [40, 50, 60, 100]:
        for ln in ([1, 2, 4, 5, 6, 9, 10, 11] if tier == "quick" else range(1, 25)):
            for fill in (0, 57):
                digits = [rng.randrange(1, 58) for _ in range(start)] + [fill] * ln + [rng.randrange(1, 58) for _ in range(rng.randint(1, 6))]
                digits.reverse()            # most significant first
                n_ = 0
                for d_ in digits:
                    n_ = n_ * 58 + d_
                bs = n_.to_bytes((n_.bit_length() + 7) // 8, "big")
                yield "b58e " + hx(bs), "interior-digit-run"
                if fill == 0 and ln in (5, 10):
                    yield "b58d " + sx("".join(B58[d_] for d_ in digits)), "interior-digit-run-decode"
    # valid strings with ONE line terminator / blank / control / invisible character in front or behind
    for body in [b"\x00" + bytes(range(1, 21)), b"\x6f" + bytes(20), bytes(5), b"\x80" + bytes(range(32)) + b"\x01"] + \
            [bytes(rng.getrandbits(8) for _ in range(rng.choice([1, 21, 34]))) for _ in range(2 if tier == "quick" else 30)]:
        for good in (b58check_enc(body), b58enc(body)):
            for bad in common.edge_variants(good):
                for op in ("b58d", "b58cd", "b58addr"):
                    yield "%s %s" % (op, sx(bad)), "edge-character:" + op
    # strings over the alphabet whose HEAD reads like the prefix of another format (segwit addresses, extended keys,
    # WIF and address first characters, URI schemes, hex markers): they are Base58 strings like any other
    heads = ["bc1q", "bc1p", "tb1q", "tb1p", "bc1", "tb1", "bcrt1q", "xpub", "xprv", "tpub", "tprv", "zpub", "ypub",
             "Zpub", "vpub", "upub", "K", "L", "5", "c", "9", "m", "n", "2", "3", "1", "11", "bitcoin", "lnbc", "m/",
             "Qm", "z", "zz", "x", "bc", "tb", "pk", "sk", "addr", "wif", "hex", "b58", "A", "a"]
    heads = [h_ for h_ in heads if all(c_ in B58 for c_ in h_)]
    for h_ in (heads if tier == "thorough" else heads[:6] + rng.sample(heads[6:], 8)):
        for ln in (0, 3, 20, 38):
            s_ = h_ + "".join(rng.choice(B58) for _ in range(ln))
            yield "b58d " + sx(s_), "format-lookalike-head"
            # ... and the same head on a string with a VALID checksum: decode, correct the last four bytes, re-encode
            raw = b58dec(s_)
            if len(raw) > 5:
                good = b58enc(raw[:-4] + dsha(raw[:-4])[:4])
                if good.startswith(h_):
                    yield "b58cd " + sx(good), "format-lookalike-head-check"
    n_rand = 1500 if tier == "quick" else 60000
    # corpus / boundaries
    fixed = [b"\x00", b"\x01", b"\x39", b"\x3a", b"\xff", b"\x00\x00", b"\x00\x01", b"\x01\x00",
             bytes(20), bytes(21), b"\x00" * 5 + b"\x01", b"\x80" + bytes(32) + b"\x01"]
    for k in range(1, 12):
        for d in (-1, 0, 1):
            v = 58 ** k + d
            fixed.append(v.to_bytes((v.bit_length() + 7) // 8, "big"))
            v = 256 ** k + d
            fixed.append(v.to_bytes((v.bit_length() + 7) // 8, "big"))
    for b in fixed:
        yield "b58e " + hx(b), "enc-boundary"
        yield "b58ce " + hx(b), "encC-boundary"
        yield "b58d " + sx(b58enc(b)), "dec-of-valid"
        yield "b58cd " + sx(b58check_enc(b)), "decC-of-valid"
    # "too short to hold a checksum": every proper prefix of payload||checksum for small payloads
    # (for the empty payload these are the 0..3-byte prefixes of hash256(b"")), and all short strings
    for pl in [b"", b"\x00", b"\x00\x00", b"\x01", b"\x80", bytes(20), b"\x05" + bytes(range(20))]:
        raw = pl + dsha(pl)[:4]
        for k in range(0, len(raw)):
            if raw[:k]:
                yield "b58cd " + sx(b58enc(raw[:k])), "decC-truncated-checksum"
                yield "b58addr " + sx(b58enc(raw[:k])), "decC-truncated-checksum"
        for pre in (b"\x00", b"\x00\x00\x00"):
            yield "b58cd " + sx(b58enc(pre + dsha(b"")[:3])), "decC-truncated-checksum"
    chars = B58 + "0OIl"
    for a in chars:
        yield "b58cd " + sx(a), "decC-all-1"
        for b in chars:
            yield "b58cd " + sx(a + b), "decC-all-2"
    if tier == "thorough":
        for a in B58:
            for b in B58:
                for c in B58:
                    yield "b58cd " + sx(a + b + c), "decC-all-3"
        for a in range(256):
            yield "b58e %02x" % a, "enc-all-1"
        for a in range(256):
            for b in range(0, 256, 5):
                yield "b58e %02x%02x" % (a, b), "enc-all-2"
        for a in B58 + "0OIl":
            for b in B58 + "0OIl":
                yield "b58d " + sx(a + b), "dec-all-2"
    for i in range(n_rand):
        ln = rng.choice([1, 2, 3, 4, 5, 8, 20, 21, 25, 32, 33, 34, 37, 38, 64, 78, 82, 128]) \
            if rng.random() < 0.5 else rng.randint(1, 128)
        z = rng.randint(0, ln) if rng.random() < 0.4 else 0
        b = bytes(z) + _rand_bytes(rng, ln - z)
        r = rng.random()
        if r < 0.2:
            yield "b58e " + hx(b), "enc-random"
        elif r < 0.35:
            yield "b58ce " + hx(b), "encC-random"
        else:
            valid = b58check_enc(b) if rng.random() < 0.6 else b58enc(b)
            s = list(valid)
            m = rng.random()
            if m < 0.15:
                branch = "dec-valid"
            elif m < 0.4:
                j = rng.randrange(len(s))
                s[j] = rng.choice(B58 + "0OIl")
                branch = "dec-subst"
            elif m < 0.55:
                s.insert(rng.randint(0, len(s)), rng.choice(B58 + "0OIl "))
                branch = "dec-insert"
            elif m < 0.7:
                if len(s) > 1:
                    del s[rng.randrange(len(s))]
                branch = "dec-delete"
            elif m < 0.85:
                s = ["1"] * rng.randint(1, 4) + s
                branch = "dec-1prefix"
            else:
                s = s[:rng.randint(1, min(len(s), 6))]
                branch = "dec-short"
            s = "".join(s)
            op = rng.choice(["b58d", "b58cd", "b58cd", "b58addr"])
            yield "%s %s" % (op, sx(s)), branch + ":" + op


def nontrivial(line, out):
    op, arg = line.split(" ")
    raw = unhex(arg)
    return len(raw) > 1 and any(raw)


def oracle(line, out):
    """C10 restated on the real code's outputs with independent codecs."""
    op, arg = line.split(" ")
    v = ok_val(out)
    if op == "b58e":
        b = unhex(arg)
        if v is None:
            return "encode_base58 raised on a non-empty byte string"
        s = unstr(v)
        if any(c not in B58 for c in s):
            return "encoding contains a character outside the Base58 alphabet"
        if b58dec(s) != b:
            return "encoding does not decode (independent decoder) to the input: lossless encoding violated"
        if len(s) - len(s.lstrip("1")) != len(b) - len(b.lstrip(b"\x00")):
            return "leading zero bytes do not map one-for-one to leading '1'"
        import impl
        back = impl.run("b58d " + sx(s))
        if back != "ok " + hx(b):
            return "decode_base58(encode_base58(b)) != b : %s" % back
        return None
    if op == "b58ce":
        b = unhex(arg)
        if v is None:
            return "encode_base58_checksum raised"
        if unstr(v) != b58check_enc(b):
            return "checksummed encoding differs from Base58Check(b)"
        import impl
        back = impl.run("b58cd " + v)
        if back != "ok " + hx(b):
            return "decode_base58_checksum(encode_base58_checksum(b)) != b : %s" % back
        return None
    s = unstr(arg)
    if s == "":
        return None
    foreign = any(c not in B58 for c in s)
    if op == "b58d":
        if foreign:
            return None if v is None else "string with a character outside the alphabet was decoded"
        if v is None:
            return "decode_base58 raised on a string over the alphabet"
        import impl
        back = impl.run("b58e " + v)
        if back != "ok " + sx(s):
            return "encode_base58(decode_base58(s)) != s : got %s" % back
        return None
    if op in ("b58cd", "b58addr"):
        try:
            want = b58check_dec(s)
        except ValueError:
            want = None
        if want is None:
            return None if v is None else "string with wrong/absent checksum accepted: payload %s" % v
        if op == "b58addr":
            want = want[1:]
        if v is None:
            return "valid Base58Check string rejected"
        if unhex(v) != want:
            return "payload differs from independent Base58Check decoding"
        return None
    return None


known_match = common.no_known


def literal_ops(lit):
    if lit <= 200:
        yield "b58e " + hx(bytes(lit) or b"\x00")
        yield "b58ce " + hx(bytes([lit % 256]) * max(1, lit % 40))
    v = lit.to_bytes((lit.bit_length() + 7) // 8 or 1, "big")
    yield "b58e " + hx(v)
    yield "b58d " + sx(b58enc(v) or "1")


def literal_str_ops(txt):
    """a string literal of the source that is itself a string over the Base58 alphabet, as head of decoder input"""
    if txt and all(c_ in B58 for c_ in txt):
        for tail in ("", "2NEpo7TZRRrLZSi2U", "1" * 7 + "z"):
            yield "b58d " + sx(txt + tail)
            raw = b58dec(txt + tail)
            if len(raw) > 5:
                good = b58enc(raw[:-4] + dsha(raw[:-4])[:4])
                yield "b58cd " + sx(good)
