"""C16 — Mainnet and testnet artefacts never mix."""
from .common import *  # noqa: F401,F403
from . import common
from .c06 import wspecs, from_canon
from .c07 import ALL, VERS_TEST, VERS_MAIN
from .c15 import leaves
import impl

PID = "C16"
LEAN_MODULES = ["BtcHd.Props.C16"]
LEAN_MODULES_THOROUGH = ['BtcHd.Props.TrWallet', 'BtcHd.Props.TrPaper', 'BtcHd.Props.TrVersion']
TRUSTED_BASE = common.CORE_TRUSTED
ASSUMPTIONS = ["the BIP85 block is governed by C12 (BIP85 fixes mainnet encodings) and is excluded here, see DESIGN §4"]
RULE = ("both networks x wallets x paths/accounts x every output-producing API (five address kinds, rows, account keys, "
        "node keys, Wasabi export, re-import from each of the 12 version prefixes); non-trivial = distinct case")
H = 2 ** 31
KINDS = ["p2pkh", "p2wpkh", "p2sh_p2wpkh", "p2wsh", "p2sh_p2wsh"]


def classify(s):
    """network of a tagged string: 'main' / 'test' / None (untagged or unknown)"""
    if not isinstance(s, str):
        return None
    low = s.lower()
    if low.startswith("bc1"):
        return "main"
    if low.startswith("tb1"):
        return "test"
    try:
        pl = b58check_dec(s)
    except (ValueError, IndexError):
        return None
    if len(pl) == 21:
        return {0x00: "main", 0x05: "main", 0x6f: "test", 0xc4: "test"}.get(pl[0])
    if len(pl) in (33, 34):
        return {0x80: "main", 0xef: "test"}.get(pl[0])
    if len(pl) == 78:
        v = int.from_bytes(pl[:4], "big")
        if v in VERS_MAIN.values():
            return "main"
        if v in VERS_TEST.values():
            return "test"
    return None


def literal_ops(lit):
    w = "seedb:%s:%s" % (hx(bytes(range(16, 48))), "01"[lit % 2])
    if lit < 2 ** 31:
        yield "generate %s %d 0 1" % (w, lit)
        for t in "01":          # the literal as PURPOSE of a path (hardened and not), on both networks
            w2 = "seedb:%s:%s" % (hx(bytes(range(16, 48))), t)
            yield "w_extkeys %s %s" % (w2, sx("m/%d'/%s'/0'" % (lit, t)))
            yield "w_extkeys %s %s" % (w2, sx("m/%d/0" % lit))


LITERAL_BUDGET = 16


def cases(rng, tier):
    n = 8 if tier == "quick" else 300
    for w in wspecs(rng, n):
        acct = rng.choice([0, 1, rng.randrange(H)])
        yield "generate %s %d 0 2" % (w, acct), "generate"
        yield "wasabi %s" % w, "wasabi"
        for _ in range(3):
            path = "m/" + "/".join(rng.choice(["0", "1", "44'", "49'", "84'", "0'", "1'", "5"]) for _ in range(rng.randint(0, 5)))
            path = path.rstrip("/")
            yield "w_extkeys %s %s" % (w, sx(path)), "extkeys"
            yield "w_addr %s %s %s" % (w, sx(path), rng.choice(KINDS)), "addr"
            yield "w_group %s %s %s" % (w, sx(path), rng.choice(KINDS)), "group"
    # wallets built with the class constructor from a node whose own flag differs from the wallet's: everything the
    # WALLET emits must still follow the wallet's flag (the Wasabi export and node-level default serialisations
    # follow the node's flag already on the unchanged code and are not requested here: see DESIGN 10.4)
    for _ in range(2 if tier == "quick" else 40):
        sd = hx(bytes(rng.getrandbits(8) for _ in range(16)))
        for nt, wt in (("0", "1"), ("1", "0")):
            w = "raw:%s:%s:%s" % (sd, nt, wt)
            yield "generate %s %d 0 2" % (w, rng.choice([0, 1])), "raw-mismatch-generate"
            yield "w_extkeys %s %s" % (w, sx("m/49'/1'/0'")), "raw-mismatch-extkeys"
            yield "w_group %s %s p2pkh" % (w, sx("m/44'/0'/0'/0/1")), "raw-mismatch-group"
            for kind in KINDS:
                yield "w_addr %s %s %s" % (w, sx("m/0/1"), kind), "raw-mismatch-addr"
    # re-import from each of the 12 versions
    from .c07 import payload, pub_sec
    for name, ver in ALL.items():
        for _ in range(1 if tier == "quick" else 20):
            k = rng.randrange(1, N)
            prv = name.endswith("prv")
            key33 = (b"\x00" + k.to_bytes(32, "big")) if prv else pub_sec(k)
            s = b58check_enc(payload(ver, 0, bytes(4), 0, bytes(rng.getrandbits(8) for _ in range(32)), key33))
            w = "xkey:" + sx(s)
            yield "wallet " + w, "import-" + name
            yield "w_extkeys %s %s" % (w, sx("m/0/1" if prv else "M/0/1")), "import-extkeys"
            for kind in KINDS:
                yield "w_addr %s %s %s" % (w, sx("m/3" if prv else "M/3"), kind), "import-addr"
            yield "w_group %s %s p2wpkh" % (w, sx("m/84'/0'/0'/0/0" if prv else "M/0/0")), "import-group"
            if prv:
                yield "generate %s 0 0 1" % w, "import-generate"
                yield "wasabi %s" % w, "import-wasabi"
    yield from _self_describing_imports(rng, tier)
    # every small purpose number (not only 44 / 49 / 84): extended keys of such nodes carry the wallet's network
    purposes = list(range(0, 100)) if tier == "thorough" else [0, 1, 43, 44, 45, 48, 49, 50, 83, 84, 85, 86, 87, 141]
    for t in "01":
        w = "seedb:%s:%s" % (hx(bytes(rng.getrandbits(8) for _ in range(32))), t)
        for pu in purposes:
            yield "w_extkeys %s %s" % (w, sx("m/%d'/%s'/0'" % (pu, t))), "purpose-sweep"


def _self_describing_imports(rng, tier):
    """extended keys of nodes whose OWN metadata looks like a BIP44 path element of the other network (depth 1..4, child
    number = purpose / coin type / account / chain values), serialised under each of the 12 versions: the network of the
    imported wallet is the network of the version prefix and of nothing else"""
    from .c07 import payload, pub_sec
    metas = [(2, H + 1), (2, H), (1, H + 44), (1, H + 84), (3, H), (3, H + 1), (2, 1), (4, 1), (4, 0), (1, H + 49)]
    for depth, idx in (metas if tier == "thorough" else rng.sample(metas, 4) + [(2, H + 1)]):
        for name, ver in (list(ALL.items()) if tier == "thorough" else rng.sample(list(ALL.items()), 5)):
            k = rng.randrange(1, N)
            prv = name.endswith("prv")
            key33 = (b"\x00" + k.to_bytes(32, "big")) if prv else pub_sec(k)
            fp = bytes(rng.getrandbits(8) for _ in range(4))
            s_ = b58check_enc(payload(ver, depth, fp, idx, bytes(rng.getrandbits(8) for _ in range(32)), key33))
            w = "xkey:" + sx(s_)
            yield "wallet " + w, "import-self-describing-" + name
            root = "m" if prv else "M"
            yield "w_addr %s %s %s" % (w, sx(root + "/3"), rng.choice(KINDS)), "import-self-describing-addr"
            yield "w_extkeys %s %s" % (w, sx(root + "/0/1")), "import-self-describing-extkeys"
            if prv:
                yield "generate %s 0 0 1" % w, "import-self-describing-generate"


def nontrivial(line, out):
    return True


def wallet_net(wspec):
    parts = wspec.split(":")
    if parts[0] == "raw":
        return "test" if parts[3] == "1" else "main"
    if parts[0] == "xkey":
        pl = b58check_dec(unstr(parts[1]))
        return "test" if int.from_bytes(pl[:4], "big") in VERS_TEST.values() else "main"
    return "test" if parts[-1] == "1" else "main"


def oracle(line, out):
    tok = line.split(" ")
    v = ok_val(out)
    if v is None:
        return None
    op = tok[0]
    net = wallet_net(tok[1] if op != "wallet" else tok[1])
    if op == "wallet":
        f = v.split(" ")
        if (f[1] == "1") != (net == "test") or (f[9] == "1") != (net == "test"):
            return "wallet imported from a %snet extended key reports the other network" % net
        return None
    if op in ("generate", "wasabi", "w_extkeys", "w_group"):
        rep = from_canon(v)
        for path, leaf in leaves(rep):
            if path and path[0] == "BIP85":
                continue
            c = classify(leaf)
            if c is not None and c != net:
                return "%snet wallet emitted a %snet artefact at %s: %s" % (net, c, path, leaf[:30])
        if op == "generate":
            for p in ("BIP44", "BIP49", "BIP84"):
                coin = rep[p]["account_extended_keys"]["path"].split("/")[2]
                if coin != ("1'" if net == "test" else "0'"):
                    return "coin type %s in a %snet wallet" % (coin, net)
                for r in rep[p]["groups"]:
                    if r[0].split("/")[2] != ("1'" if net == "test" else "0'"):
                        return "row coin type wrong"
        if op in ("w_extkeys",):
            for kk in ("pub", "prv"):
                if rep.get(kk) is not None and classify(rep[kk]) != net:
                    return "node extended %s key carries the wrong network tag" % kk
        return None
    if op == "w_addr":
        c = classify(unstr(v))
        if c != net:
            return "%s address of a %snet wallet is tagged %s" % (tok[3], net, c)
        return None
    return None


def flag_reassigned(rng, tier, info):
    """the wallet's public `testnet` attribute is assigned AFTER construction (w.testnet = ...): whatever the wallet
    emits afterwards must carry ONE network — a wallet that answers partly from the flag and partly from something it
    remembered at construction mixes the two.  (The BIP85 block and the Wasabi export follow the root node, DESIGN 10.4.)"""
    n = 0
    for _ in range(2 if tier == "quick" else 25):
        sd = bytes(rng.getrandbits(8) for _ in range(rng.choice([16, 32, 64])))
        for t0 in (False, True):
            for how in ("seed", "raw"):
                if how == "seed":
                    w = impl.pw.PaperWallet.from_bip39_seed_bytes(bip39_seed=sd, testnet=t0)
                else:
                    w = impl.pw.PaperWallet(master=impl.bip32.PrvKeyNode.master_key(bip39_seed=sd, testnet=t0), testnet=t0)
                w.testnet = not t0
                node = w.by_path(rng.choice(["m/0/1", "m/84'/1'/0'/0/3", "m/44'/0'/2'"]))
                got = []
                for kind in KINDS:
                    got.append((kind + " address", impl.addr_fn(w, kind)(node)))
                ek = w.node_extended_keys(node)
                got += [("node extended public key", ek["pub"]), ("node extended private key", ek["prv"])]
                rep = w.generate(account=rng.choice([0, 1]), interval=(0, 2))
                for path, leaf in leaves(rep):
                    if path and path[0] != "BIP85":
                        got.append(("report leaf %s" % (path,), leaf))
                n += len(got)
                nets = {}
                for what, v in got:
                    c = classify(v)
                    if c is not None:
                        nets.setdefault(c, (what, v))
                if len(nets) > 1:
                    yield ("# PaperWallet built from seed %s with testnet=%s (%s route), then `w.testnet = %s`" % (
                        sd.hex(), t0, how, not t0),
                        "one wallet emits both networks: %s is %s (mainnet) while %s is %s (testnet)" % (
                            nets["main"][0], nets["main"][1], nets["test"][0], nets["test"][1]))
                    return
    info["flag_reassigned_outputs"] = n


def objects_in_report_data(rng, tier, info):
    """json / pprint / export_wallet are handed caller-built `data` that holds library objects (nodes, private and public
    keys) next to ordinary rows.  The unchanged library refuses such data; whatever is rendered instead of a refusal is
    wallet output, and every network-tagged string in it must carry the wallet's network."""
    import contextlib
    import io
    import json
    import os
    import shutil
    import tempfile
    n = 0
    tmp = tempfile.mkdtemp(prefix="verif_c16_")
    try:
        for _ in range(2 if tier == "quick" else 20):
            sd = bytes(rng.getrandbits(8) for _ in range(32))
            for t in (True, False):
                w = impl.pw.PaperWallet.from_bip39_seed_bytes(bip39_seed=sd, testnet=t)
                node = w.by_path("m/84'/%d'/0'/0/%d" % (1 if t else 0, rng.randrange(20)))
                objs = {"node": node, "private key": node.private_key, "public key": node.public_key,
                        "public node": impl.bip32.PubKeyNode(key=node.public_key.sec(), chain_code=node.chain_code,
                                                             index=node.index, depth=node.depth, testnet=t,
                                                             parent_fingerprint=node.parent_fingerprint)}
                for what, obj in objs.items():
                    for shape in ({"key": obj}, {"rows": [["m/0", "x", obj]]}, [obj]):
                        for route in ("json", "pprint", "export_wallet"):
                            text = None
                            try:
                                if route == "json":
                                    text = w.json(data=shape)
                                elif route == "pprint":
                                    buf = io.StringIO()
                                    with contextlib.redirect_stdout(buf):
                                        w.pprint(data=shape)
                                    text = buf.getvalue()
                                else:
                                    fn = os.path.join(tmp, "o%d.json" % n)
                                    w.export_wallet(file_path=fn, data=shape)
                                    text = open(fn).read()
                            except Exception:
                                pass
                            n += 1
                            if not text:
                                continue
                            try:
                                val = json.loads(text)
                            except ValueError:
                                continue
                            for path, leaf in leaves(val):
                                c = classify(leaf)
                                if c is not None and c != ("test" if t else "main"):
                                    yield ("# %snet PaperWallet (seed %s): %s(data=...) with a %s object inside the data" % (
                                        "test" if t else "main", sd.hex(), route, what),
                                        "the rendered text carries a %snet artefact: %s" % (c, leaf))
                                    return
    finally:
        shutil.rmtree(tmp, ignore_errors=True)
    info["object_data_renderings"] = n


def edited_version_lists(rng, tier, info):
    """every public helper of wallet_utils.Version that hands back a list / dict is called and the caller EDITS what it
    got (extends it with the other helpers' results, then empties it); re-importing extended keys afterwards still takes
    the network from the version prefix"""
    import inspect
    from btc_hd_wallet.wallet_utils import Version
    from .c07 import payload, pub_sec
    got_all = []
    n = 0
    for nm, f in inspect.getmembers(Version, predicate=callable):
        if nm.startswith("_"):
            continue
        try:
            r = f()
        except Exception:
            continue
        if isinstance(r, (list, dict, set)):
            got_all.append(r)
            n += 1
    for r in got_all:           # the caller merges the lists it received ...
        for o in got_all:
            try:
                if isinstance(r, list) and isinstance(o, list) and r is not o:
                    r += list(o)
            except Exception:
                pass
    for name, ver in ALL.items():
        k = rng.randrange(1, N)
        prv = name.endswith("prv")
        key33 = (b"\x00" + k.to_bytes(32, "big")) if prv else pub_sec(k)
        s_ = b58check_enc(payload(ver, 0, bytes(4), 0, bytes(rng.getrandbits(8) for _ in range(32)), key33))
        line = "wallet xkey:" + sx(s_)
        msg = oracle(line, impl.run(line))
        if msg:
            yield ("# after the caller extended the lists returned by the Version helpers: " + line, msg)
            return
    for r in got_all:           # ... and empties them
        common.scribble(r)
    for name, ver in ALL.items():
        k = rng.randrange(1, N)
        prv = name.endswith("prv")
        key33 = (b"\x00" + k.to_bytes(32, "big")) if prv else pub_sec(k)
        s_ = b58check_enc(payload(ver, 0, bytes(4), 0, bytes(rng.getrandbits(8) for _ in range(32)), key33))
        line = "wallet xkey:" + sx(s_)
        out = impl.run(line)
        msg = oracle(line, out) or (None if out.startswith("ok") else "a key with a known version prefix is no longer accepted")
        if msg:
            yield ("# after the caller emptied the lists returned by the Version helpers: " + line, msg)
            return
    info["version_helper_results_edited"] = n


def extra_checks(rng, tier, g, info):
    yield from flag_reassigned(rng, tier, info)
    yield from objects_in_report_data(rng, tier, info)
    yield from edited_version_lists(rng, tier, info)


known_match = common.no_known
