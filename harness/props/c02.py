"""C02 — Public-only derivation agrees with private derivation on every normal path."""
from .common import *  # noqa: F401,F403
from . import common
from .c09 import point, sec_c
from .c01 import rand_parent, h160, collision_cases
import impl

PID = "C02"
LEAN_MODULES = ["BtcHd.Props.C02", "BtcHd.Props.RealCurve"]
LEAN_MODULES_THOROUGH = ['BtcHd.Props.TrBip32']
TRUSTED_BASE = common.CORE_TRUSTED + [
    "curve group laws are explicit hypotheses (GroupLaws) of the general theorems; Props/RealCurve.lean PROVES them "
    "(and CurveLaws) for the concrete secp256k1 the driver runs (Prims/Bundle.lean: p, n prime by Pratt certificates, "
    "the model's Jacobian arithmetic = Mathlib's group law on y^2 = x^3 + 7 over ZMod p, G of order n), so what is "
    "trusted is that python-ecdsa computes the same functions as that model (compared on every case); "
    "the IL = 0 corner (reachable only by PRF substitution) is excluded by hypothesis and documented"]
ASSUMPTIONS = ["python-ecdsa computes the same point arithmetic and encodings as Real.Secp (differentially tested)"]
RULE = ("parents as C01 (incl. scalars near n), neutered; normal index sequences of length 1..6 over boundaries; "
        "refusal at 2^31, 2^31+1, 2^32-1, random hardened; non-trivial = distinct case")
NORMAL = [0, 1, 2, 2 ** 31 - 1, 2 ** 31 - 2, 2 ** 30]


def neuter(spec, k):
    cls, key, chain, depth, index, t, fp = spec.split(":")
    x, y = point(k)
    return "p:%s:%s:%s:%s:%s:%s" % (hx(sec_c(x, y)), chain, depth, index, t, fp)


def _cases_main(rng, tier):
    n = 50 if tier == "quick" else 4000
    for _ in range(n):
        spec, k, chain, depth = rand_parent(rng)
        pub = neuter(spec, k)
        ls = [rng.choice(NORMAL) if rng.random() < 0.5 else rng.getrandbits(31) for _ in range(rng.randint(1, 6))]
        yield "ckd %s %s -" % (pub, impl.lst(str, ls)), "pub-path"
        yield "ckd %s %s -" % (spec, impl.lst(str, ls)), "prv-path"
        yield "xk_ser %s %s pub -" % (pub, impl.lst(str, ls)), "pub-xpub"
        h = rng.choice([2 ** 31, 2 ** 31 + 1, 2 ** 32 - 1, 2 ** 31 + rng.getrandbits(31)])
        yield "ckd %s %d -" % (pub, h), "pub-hardened-refused"
        ls2 = ls[:rng.randint(0, len(ls))] + [h]
        yield "ckd %s %s -" % (pub, impl.lst(str, ls2)), "pub-hardened-in-path"
    yield "ckd %s 4294967296 -" % pub, "pub-index-overflow"
    # parents whose x coordinate sits at a boundary of the coordinate range (common.boundary_points)
    for sec33 in common.boundary_points():
        chain = hx(bytes(rng.getrandbits(8) for _ in range(32)))
        spec_b = "p:%s:%s:1:7:%s:01020304" % (hx(sec33), chain, rng.choice("01"))
        for i in (0, rng.getrandbits(31)):
            yield "ckd %s %d -" % (spec_b, i), "pub-boundary-point-parent"
        yield "ckd %s %d -" % (spec_b, 2 ** 31), "pub-boundary-point-hardened"
    # sibling parents that differ in exactly ONE field (same key / other chain code, same chain code / other key,
    # same both / other depth): the result must depend on every input of CKDpub, in one process
    for _ in range(n // 2):
        spec, k, chain, depth = rand_parent(rng)
        cls, key, ch, d, idx, t, fp = neuter(spec, k).split(":")
        i = rng.choice(NORMAL)
        ch2 = hx(bytes(rng.getrandbits(8) for _ in range(32)))
        k2 = rng.randrange(1, N)
        x2, y2 = point(k2)
        variants = [(key, ch), (key, ch2), (hx(sec_c(x2, y2)), ch), (key, ch), (key, ch2)]
        for kk, cc in variants:
            yield "ckd p:%s:%s:%s:%s:%s:%s %d -" % (kk, cc, d, idx, t, fp, i), "pub-sibling-parents"


def nontrivial(line, out):
    return True


def oracle(line, out):
    tok = line.split(" ")
    v = ok_val(out)
    if tok[0] == "hist":
        from .c13 import oracle as o13
        return o13(line, out)
    if tok[0] == "gen_step":
        return common.bulk_oracle(line, out)
    if tok[0] == "w_bypath":
        # watch-only wallet built from an extended public key: decode the key independently, derive with CKDpub
        raw = b58check_dec(unstr(tok[1].split(":")[1]))
        depth, fp0, index = raw[4], raw[5:9], int.from_bytes(raw[9:13], "big")
        chain, key = hx(raw[13:45]), hx(raw[45:78])
        comps = unstr(tok[2]).split("/")[1:]
        ls = [int(c) for c in comps]
        t = "0"
    elif tok[0] == "xk_parse" and len(tok) == 6:
        # public-only data (an extended PUBLIC key) loaded through either node class, then derived along a path
        raw = b58check_dec(unstr(tok[4])) if tok[3] == "s" else unhex(tok[4])
        depth, index = raw[4], int.from_bytes(raw[9:13], "big")
        chain, key = hx(raw[13:45]), hx(raw[45:78])
        ls = impl.unlist(int, tok[5])
        t = tok[2]
        if tok[1] == "P" and v is None:
            return None         # the private class refusing to work on public data hands out nothing
    elif tok[0] == "ckd":
        spec, ls = tok[1], impl.unlist(int, tok[2])
        cls, key, chain, depth, index, t, fp = spec.split(":")
        if cls != "p":
            return None
    else:
        return None
    if any(i >= 2 ** 31 for i in ls):
        return None if v is None else "hardened child derived from public-only data"
    # private derivation of the same path, then neutered — via the real private code on a parent
    # with the same public key is impossible without k; instead use independent CKDpub on python-ecdsa
    import ecdsa
    import hmac
    import hashlib
    G = ecdsa.SECP256k1.generator
    vk = ecdsa.VerifyingKey.from_string(unhex(key), curve=ecdsa.SECP256k1)
    pt = vk.pubkey.point
    cc = unhex(chain)
    d = int(depth)
    idx = int(index)
    fpb = None
    for i in ls:
        serP = bytes([2 + (pt.y() & 1)]) + pt.x().to_bytes(32, "big")
        I = hmac.new(cc, serP + i.to_bytes(4, "big"), hashlib.sha512).digest()
        IL = int.from_bytes(I[:32], "big")
        if IL >= N or IL == 0:
            return None
        npt = G * IL + pt
        if npt == ecdsa.ellipticcurve.INFINITY:
            return None if v is None else "point at infinity returned"
        fpb = h160(serP)[:4]
        pt, cc, d, idx = npt, I[32:], d + 1, i
    if v is None:
        return "valid CKDpub failed"
    f = v.split(" ")
    serP = bytes([2 + (pt.y() & 1)]) + pt.x().to_bytes(32, "big")
    if unhex(f[2]) != serP or unhex(f[3]) != cc or int(f[4]) != d or int(f[5]) != idx or (ls and unhex(f[7]) != fpb):
        return "public derivation differs from CKDpub (independent computation)"
    return None


def extra_checks(rng, tier, g, info):
    """neuter(CKDpriv(path)) == CKDpub(neuter)(path) on the real code, directly."""
    import btc_hd_wallet.bip32 as b
    n = 40 if tier == "quick" else 3000
    cnt = 0
    for _ in range(n):
        spec, k, chain, depth = rand_parent(rng)
        prv = impl.unnode(spec)
        pub = impl.unnode(neuter(spec, k))
        ls = [rng.choice(NORMAL) if rng.random() < 0.5 else rng.getrandbits(31) for _ in range(rng.randint(1, 6))]
        a = prv.derive_path(ls)
        c = pub.derive_path(ls)
        cnt += 1
        same = (a.public_key.sec() == c.key and a.chain_code == c.chain_code and a.depth == c.depth and
                a.index == c.index and a.parent_fingerprint == c.parent_fingerprint and
                a.fingerprint() == c.fingerprint() and
                (a.depth > 255 or a.extended_public_key() == c.extended_public_key()))
        if not same:
            yield "ckd %s %s -" % (neuter(spec, k), impl.lst(str, ls)), \
                "public derivation disagrees with private derivation then neutering (parent %s)" % spec
    info["pub_vs_prv_paths"] = cnt


known_match = common.no_known


XPUB = 0x0488B21E


def wallet_cases(rng, tier):
    """watch-only WALLETS built from sibling extended public keys (same key / other chain code — hence the same
    master fingerprint —, fingerprint-colliding keys / same chain code, same all / other depth and child number),
    asked for the same path strings in one process"""
    pairs = common.fp_pairs()
    n = 3 if tier == "quick" else len(pairs)
    for ka, kb in pairs[:n]:
        ch1 = bytes(rng.getrandbits(8) for _ in range(32))
        ch2 = bytes(rng.getrandbits(8) for _ in range(32))
        xa, ya = point(ka)
        xb, yb = point(kb)
        sibs = [common.xkey_string(XPUB, 0, bytes(4), 0, ch1, sec_c(xa, ya)),
                common.xkey_string(XPUB, 0, bytes(4), 0, ch2, sec_c(xa, ya)),
                common.xkey_string(XPUB, 0, bytes(4), 0, ch1, sec_c(xb, yb)),
                common.xkey_string(XPUB, 3, b"\x01\x02\x03\x04", 7, ch1, sec_c(xa, ya)),
                common.xkey_string(XPUB, 0, bytes(4), 0, ch1, sec_c(xa, ya))]
        paths = ["M/0/1", "M/%d" % rng.choice(NORMAL), "M/1/2/3"]
        for pth in paths:
            for xk in sibs:
                yield "w_bypath xkey:%s %s" % (sx(xk), sx(pth)), "wallet-sibling-xpubs"


def _hist_cases(rng, tier):
    """public-only derivation inside operation histories on ONE shared watch-only object (children kept and looked at
    again after bulk generation with empty and non-empty intervals, repeated and refused requests); judged by the
    stateless recomputation of C13"""
    from .c13 import gen_history
    for _ in range(3 if tier == "quick" else 60):
        k = rng.randrange(1, N)
        x, y = point(k)
        chain = bytes(rng.getrandbits(8) for _ in range(32))
        xk = common.xkey_string(XPUB, 0, bytes(4), 0, chain, sec_c(x, y))
        i, j = rng.choice(NORMAL), rng.choice(NORMAL)
        a = rng.choice([0, 3, 5])
        ops = ["ckd:0:%d" % i, "dp:0:%s" % impl.lst(str, [j, i]), "gc:0:%d:%d" % (a, a), "xk:1", "xk:2",
               "gc:1:%d:%d" % (a + 2, a), "gc:0:0:2", "xk:1", "ad:2:p2wpkh"] + gen_history(rng, 10, watch=True)
        yield "hist xkey:%s %s" % (sx(xk), ";".join(ops)), "shared-public-object-history"


def _bulk_cases(rng, tier):
    """the bulk entry point with every tuple shape `range(*interval)` accepts (one, two, three elements; negative,
    zero and large steps; descending across 2^31): a bulk answer is the list of the single answers or a refusal"""
    for _ in range(2 if tier == "quick" else 40):
        spec, k, chain, depth = rand_parent(rng)
        pub = neuter(spec, k)
        for ar, a, b, st in common.bulk_interval_shapes(rng):
            yield "gen_step %s %d %d %d %d -" % (pub, ar, a, b, st), "bulk-interval-shape"


def _other_class_cases(rng, tier):
    """an extended PUBLIC key loaded with PrvKeyNode.parse (the classmethod builds `cls`; BaseWallet.from_extended_key
    itself parses every key with the private class first to read its version) and with PubKeyNode.parse, in every input
    form, then derived: public-only data never yields a hardened child, and what it yields on a normal path is the
    CKDpub child"""
    from .c07 import payload, pub_sec, ALL, VERS_TEST
    H = 2 ** 31
    for _ in range(3 if tier == "quick" else 60):
        k = rng.randrange(1, N)
        name = rng.choice([n_ for n_ in ALL if n_.endswith("pub")])
        pl = payload(ALL[name], rng.choice([0, 1, 3]), bytes(rng.getrandbits(8) for _ in range(4)), rng.choice([0, 5, H + 1]),
                     bytes(rng.getrandbits(8) for _ in range(32)), pub_sec(k))
        tn = "1" if name in VERS_TEST else "0"
        for ls in ([H], [0], [rng.randrange(H)], [1, H + 5], [2 ** 32 - 1], [0, 1, 2]):
            for cls in ("P", "p"):
                form = rng.choice(["s", "b", "io"])
                arg = sx(b58check_enc(pl)) if form == "s" else hx(pl)
                yield "xk_parse %s %s %s %s %s" % (cls, tn, form, arg, impl.lst(str, ls)), \
                    "public-key-through-%s-class" % ("private" if cls == "P" else "public")


def cases(rng, tier):
    yield from _cases_main(rng, tier)
    yield from _other_class_cases(rng, tier)
    yield from _bulk_cases(rng, tier)
    yield from _hist_cases(rng, tier)
    yield from collision_cases(rng, tier, neuter_fn=neuter)
    yield from wallet_cases(rng, tier)
