"""C12 — BIP85 child secrets equal the specified derivation for every app and index."""
import base64
import hashlib
import hmac
from .common import *  # noqa: F401,F403
from . import common
import json
from .c01 import spec_ckd_priv, rand_parent
import impl

PID = "C12"
LEAN_MODULES = ["BtcHd.Props.C12"]
LEAN_MODULES_THOROUGH = ['BtcHd.Props.TrBip39', 'BtcHd.Props.TrPath', 'BtcHd.Props.TrPaper']
TRUSTED_BASE = common.CORE_TRUSTED + ["HMAC-SHA512 / SHA-256 / curve are parameters of the theorems"]
ASSUMPTIONS = ["hmac/hashlib/base64 of CPython are correct (used by the independent BIP85 oracle)"]
RULE = ("master keys random and boundary; indexes {0,1,2^31-1,random} and {-1,-2^31,2^31,2^32}; all five word counts and "
        "11/13/25; byte counts 15..65 and password lengths 19..87 exhaustively; BIP85 reference vector; "
        "non-trivial = distinct case")
H = 2 ** 31
REF_XPRV = "xprv9s21ZrQH143K2LBWUUQRFXhucrQqBpKdRRxNVq2zBqsx8HVqFk2uYo8kmbaLLHRdqtQpUm98uKfu3vca1LqdGhUtyoFnCNkfmXRyPXLjbKb"


def entropy(k, chain, path):
    cur = (k, chain, 0, 0, None)
    for i in path:
        cur = spec_ckd_priv(cur[0], cur[1], cur[2], i)
        if cur is None:
            return None
    return hmac.new(b"bip-entropy-from-k", cur[0].to_bytes(32, "big"), hashlib.sha512).digest()


def words():
    from btc_hd_wallet.bip39_wordlist import word_list
    return word_list


def mnemonic(eb):
    bits = "".join(format(b, "08b") for b in eb) + "".join(format(b, "08b") for b in hashlib.sha256(eb).digest())[:len(eb) // 4]
    wl = words()
    return " ".join(wl[int(bits[i:i + 11], 2)] for i in range(0, len(bits), 11))


def indep(app, k, chain, param, index):
    """BIP85 from the specification; returns string or None (= must be refused)"""
    if not 0 <= index < H:
        return None
    if app == "mnemonic":
        if param not in (12, 15, 18, 21, 24):
            return None
        e = entropy(k, chain, [83696968 + H, 39 + H, H, param + H, index + H])
        return mnemonic(e[:param * 4 // 3])
    if app == "wif":
        e = entropy(k, chain, [83696968 + H, 2 + H, index + H])
        s = int.from_bytes(e[:32], "big")
        if s == 0 or s >= N:
            return None
        return b58check_enc(b"\x80" + e[:32] + b"\x01")
    if app == "xprv":
        e = entropy(k, chain, [83696968 + H, 32 + H, index + H])
        s = int.from_bytes(e[32:], "big")
        if s == 0 or s >= N:
            return None
        return b58check_enc((0x0488ADE4).to_bytes(4, "big") + bytes(9) + e[:32] + b"\x00" + e[32:])
    if app == "hex":
        if not 16 <= param <= 64:
            return None
        e = entropy(k, chain, [83696968 + H, 128169 + H, param + H, index + H])
        return e[:param].hex()
    if app == "pwd":
        if not 20 <= param <= 86:
            return None
        e = entropy(k, chain, [83696968 + H, 707764 + H, param + H, index + H])
        return base64.b64encode(e).decode()[:param]


def master_spec(rng):
    k = rng.randrange(1, N) if rng.random() < 0.8 else rng.choice([1, N - 1, 2 ** 200])
    chain = bytes(rng.getrandbits(8) for _ in range(32))
    return "P:%s:%s:0:0:0:none" % (hx(k.to_bytes(32, "big")), hx(chain))


def _deep_masters(rng, tier):
    """BIP85 on a master key that is itself deep in a tree: the application paths (3, 4 or 5 levels) then end at
    depth 253, 254, 255 and 256+ — the derived node is only used for its private key, every depth is legal"""
    for depth in ([250, 251, 252] if tier == "quick" else [248, 249, 250, 251, 252, 253, 254, 255]):
        k = rng.randrange(1, N)
        spec = "P:%s:%s:%d:%d:0:%s" % (hx(k.to_bytes(32, "big")), hx(bytes(rng.getrandbits(8) for _ in range(32))), depth,
                                        rng.getrandbits(32), "0a0b0c0d")
        yield "bip85 %s mnemonic 12 0 -" % spec, "deep-master"
        yield "bip85 %s hex 32 1 -" % spec, "deep-master"
        yield "bip85 %s pwd 21 0 -" % spec, "deep-master"
        yield "bip85 %s wif 0 2 -" % spec, "deep-master"
        yield "bip85 %s xprv 0 0 -" % spec, "deep-master"


def _cases_core(rng, tier):
    yield from _deep_masters(rng, tier)
    masters = [master_spec(rng) for _ in range(2 if tier == "quick" else 40)]
    good_idx = [0, 1, H - 1]
    bad_idx = [-1, -2, -H, H, H + 1, 2 ** 32, 2 ** 32 - 1]
    for m in masters:
        for wc in (11, 12, 13, 15, 18, 21, 24, 25, 0, -12):
            for i in good_idx[:2 if tier == "quick" else 3] + [rng.randrange(H)]:
                yield "bip85 %s mnemonic %d %d -" % (m, wc, i), "mnemonic"
        for nb in range(14, 67):
            yield "bip85 %s hex %d %d -" % (m, nb, rng.choice(good_idx + [rng.randrange(H)])), "hex-exhaustive"
        for ln in range(18, 89):
            yield "bip85 %s pwd %d %d -" % (m, ln, rng.choice(good_idx + [rng.randrange(H)])), "pwd-exhaustive"
        for i in good_idx + [rng.randrange(H) for _ in range(3)]:
            yield "bip85 %s wif 0 %d -" % (m, i), "wif"
            yield "bip85 %s xprv 0 %d -" % (m, i), "xprv"
        for i in bad_idx:
            for app, param in (("mnemonic", 12), ("wif", 0), ("xprv", 0), ("hex", 32), ("pwd", 21)):
                yield "bip85 %s %s %d %d -" % (m, app, param, i), "bad-index"
        for app, param in (("hex", -16), ("hex", 2 ** 31), ("pwd", -21), ("pwd", 2 ** 31 + 20), ("mnemonic", 2 ** 31 + 12)):
            yield "bip85 %s %s %d 0 -" % (m, app, param), "bad-param"
    for _ in range(2 if tier == "quick" else 30):
        k1, k2 = rng.randrange(1, N), rng.randrange(1, N)
        c1, c2 = (bytes(rng.getrandbits(8) for _ in range(32)) for _ in range(2))
        sib = ["P:%s:%s:0:0:0:none" % (hx(k.to_bytes(32, "big")), hx(c)) for k, c in
               [(k1, c1), (k1, c2), (k2, c1), (k1, c1), (k1, c2)]]
        for app, param in (("wif", 0), ("hex", 32), ("mnemonic", 12), ("xprv", 0), ("pwd", 21)):
            i = rng.choice([0, 1, 7])
            for m in sib:
                yield "bip85 %s %s %d %d -" % (m, app, param, i), "sibling-masters"
    # the same master key handed over in every extended-private-key form (xprv, yprv, zprv, tprv, uprv, vprv): BIP85
    # output is a function of key and chain code, never of the text form the master arrived in
    for _ in range(1 if tier == "quick" else 10):
        k = rng.randrange(1, N)
        chain = bytes(rng.getrandbits(8) for _ in range(32))
        for ver in (0x0488ADE4, 0x049D7878, 0x04B2430C, 0x04358394, 0x044A4E28, 0x045F18BC):
            xk = common.xkey_string(ver, 0, bytes(4), 0, chain, b"\x00" + k.to_bytes(32, "big"))
            for app, param in (("xprv", 0), ("wif", 0), ("mnemonic", 12), ("hex", 32), ("pwd", 21)):
                yield "w_bip85 xkey:%s %s %d %d" % (sx(xk), app, param, rng.choice([0, 1, 7])), "master-form-%08x" % ver
    yield "w_bip85 xkey:%s mnemonic 12 0" % sx(REF_XPRV), "reference-vector"
    yield "w_bip85 xkey:%s wif 0 0" % sx(REF_XPRV), "reference-vector"
    yield "w_bip85 xkey:%s xprv 0 0" % sx(REF_XPRV), "reference-vector"
    yield "w_bip85 xkey:%s hex 64 0" % sx(REF_XPRV), "reference-vector"
    yield "w_bip85 xkey:%s pwd 21 0" % sx(REF_XPRV), "reference-vector"


def nontrivial(line, out):
    return True


REF = {("mnemonic", 12): "girl mad pet galaxy egg matter matrix prison refuse sense ordinary nose",
       ("wif", 0): "Kzyv4uF39d4Jrw2W7UryTHwZr1zQVNk4dAFyqE6BuMrMh1Za7uhp",
       ("hex", 64): "492db4698cf3b73a5a24998aa3e9d7fa96275d85724a91e71aa2d645442f878555d078fd1f1f67e368976f04137b1f7a0d19232136ca50c44614af72b5582a5c"}


def oracle(line, out):
    tok = line.split(" ")
    v = ok_val(out)
    if tok[0] == "w_bip85":
        app, param = tok[2], int(tok[3])
        want = REF.get((app, param))
        if unstr(tok[1].split(":")[1]) == REF_XPRV and int(tok[4]) == 0:
            if want is not None and (v is None or unstr(v) != want):
                return "BIP85 reference vector (%s) not reproduced" % app
            return None
        pl = b58check_dec(unstr(tok[1].split(":")[1]))
        if len(pl) != 78 or pl[45] != 0:
            return None
        want2 = indep(app, int.from_bytes(pl[46:78], "big"), pl[13:45], param, int(tok[4]))
        if want2 is None:
            return None if v is None else "BIP85 %s accepted an out-of-range request" % app
        if v is None or unstr(v) != want2:
            return ("BIP85 %s of a master imported from an extended key with version %s differs from the specified "
                    "derivation: %s" % (app, pl[:4].hex(), (unstr(v) if v else "refused")[:50]))
        return None
    if tok[0] != "bip85":
        return None
    spec, app, param, index = tok[1], tok[2], int(tok[3]), int(tok[4])
    cls, key, chain, *_ = spec.split(":")
    k = int.from_bytes(unhex(key), "big")
    want = indep(app, k, unhex(chain), param, index)
    if want is None:
        return None if v is None else ("BIP85 %s accepted out-of-range parameter/index (param=%d index=%d) and emitted %s"
                                       % (app, param, index, unstr(v)[:40]))
    if v is None:
        return "BIP85 %s refused a valid request (param=%d index=%d)" % (app, param, index)
    if unstr(v) != want:
        return "BIP85 %s differs from the specified derivation (param=%d index=%d)" % (app, param, index)
    return None


known_match = common.no_known


def literal_ops(lit):
    m = "P:%s:%s:0:0:0:none" % (hx((12345).to_bytes(32, "big")), hx(bytes(range(32))))
    for app, param in (("wif", 0), ("xprv", 0), ("hex", 32), ("pwd", 21), ("mnemonic", 12)):
        yield "bip85 %s %s %d %d -" % (m, app, param, lit)
    for app in ("hex", "pwd", "mnemonic"):
        yield "bip85 %s %s %d 0 -" % (m, app, lit)


def numeric_forms(rng, tier, info):
    """parameters and indexes that are not plain ints — floats, Decimals, Fractions, strings (also ones carrying a
    path separator), booleans: a value outside the allowed set must be refused, never mapped onto some path.  An
    answer is tolerated only for an integral value inside the range, and then it must be the integer's answer."""
    from fractions import Fraction
    k = rng.randrange(1, N)
    chain = bytes(rng.getrandbits(8) for _ in range(32))
    spec = "P:%s:%s:0:0:0:none" % (hx(k.to_bytes(32, "big")), hx(chain))
    n = 0
    base_idx = [0, 1, 7, H - 1]
    apps = [("wif", 0), ("xprv", 0), ("hex", 32), ("hex", 64), ("pwd", 21), ("pwd", 86), ("mnemonic", 12)]
    for app, param in apps:
        idx_tokens = []
        for i in base_idx:
            idx_tokens += ["f:%d.5" % i, "f:%d.0" % i, "d:%d.5" % i, "d:%d" % i, "q:%d/2" % (2 * i + 1), "q:%d/1" % i,
                           "s:" + sx(str(i)), "s:" + sx(" %d" % i), "s:" + sx("%d'/7" % i), "s:" + sx("1/%d" % i)]
        idx_tokens += ["f:-0.5", "f:2147483647.5", "q:7/3", "b:1", "b:0", "f:1e3", "s:" + sx("0x10")]
        par_tokens = ["f:%d.5" % param, "f:%d.9" % param, "f:%d.0" % param, "d:%d.5" % param, "q:%d/2" % (2 * param + 1),
                      "s:" + sx(str(param)), "s:" + sx("%d'/0" % param)]
        cases_ = [("i:%d" % param, t) for t in idx_tokens] + ([(t, "i:0") for t in par_tokens] if param else [])
        if tier == "quick":
            cases_ = rng.sample(cases_, min(len(cases_), 18))
        for pt, it in cases_:
            line = "bip85x %s %s %s %s" % (spec, app, pt, it)
            # (asked twice: with keyword arguments, and — impl.run_alt — with positional ones)
            for runner, how in ((impl.run, ""), (impl.run_alt, ", arguments passed positionally")):
                got = runner(line)
                n += 1
                if not got.startswith("ok "):
                    continue
                pv, iv = impl.pyvalue(pt), impl.pyvalue(it)
                ok_int = []
                for v in (pv, iv):
                    try:
                        ok_int.append(not isinstance(v, (str, bool)) and v == int(v))
                    except (TypeError, ValueError):
                        ok_int.append(False)
                want = indep(app, k, chain, int(pv), int(iv)) if all(ok_int) else None
                if want is None or unstr(got[3:]) != want:
                    yield (line, "BIP85 %s answered for a %s that is not an allowed integer (param %r, index %r%s) instead "
                                 "of refusing: %s" % (app, "parameter/index", pv, iv, how, unstr(got[3:])[:40]))
    info["non_integer_parameter_cases"] = n


def refused_then_corrected(rng, tier, info):
    """sequences on ONE BIP85 object in which a refused request (parameter of the wrong type or out of range, bad
    index) is directly followed by the corrected request and by requests of the neighbouring applications: a refusal
    must leave nothing behind.  Every answered request must be the stateless answer."""
    k = rng.randrange(1, N)
    chain = bytes(rng.getrandbits(8) for _ in range(32))
    spec = "P:%s:%s:0:0:0:none" % (hx(k.to_bytes(32, "big")), hx(chain))
    n = 0
    seqs = []
    for app, param in (("hex", 32), ("hex", 16), ("pwd", 21), ("mnemonic", 24), ("mnemonic", 12), ("wif", 0), ("xprv", 0)):
        bad_p = ["f:%d.0" % param, "d:%d" % param, "q:%d/1" % param, "s:" + sx(str(param)), "f:%d.5" % param, "i:%d" % (param + 1000)]
        bad_i = ["f:0.0", "i:-1", "i:%d" % H, "s:" + sx("0"), "q:0/1"]
        refusals = [(app, "i:%d" % param, bi) for bi in bad_i]
        if app not in ("wif", "xprv"):
            refusals += [(app, bp, "i:0") for bp in bad_p]          # EVERY refused parameter form, systematically
        if tier == "quick":
            refusals = refusals[len(bad_i) - 2:] if app not in ("wif", "xprv") else refusals[:2]
        for refused in refusals:
            first = rng.choice([("wif", "i:0", "i:0"), ("hex", "i:64", "i:1"), ("xprv", "i:0", "i:2"), (app, "i:%d" % param, "i:3")])
            seqs.append([first, refused, (app, "i:%d" % param, "i:0"), (app, "i:%d" % param, "i:5"), first])
    for sq in seqs:
        line = "bip85_seq %s %s" % (spec, ";".join(",".join(r) for r in sq))
        got = impl.run(line)
        n += 1
        if not got.startswith("ok "):
            yield line, "request sequence on one BIP85 object could not be run"
            continue
        for r, o in zip(sq, got[3:].split(" ; ")):
            app, pt, it = r
            pv, iv = impl.pyvalue(pt), impl.pyvalue(it)
            plain = pt.startswith("i:") and it.startswith("i:")
            want = None
            if plain:
                try:
                    want = indep(app, k, chain, pv, iv)
                except Exception:
                    want = None
            if o == "err":
                if plain and want is not None and 0 <= iv < H:
                    yield line, "valid BIP85 request %s refused after a refused request on the same object" % (r,)
                    break
                continue
            if want is None and not plain:
                try:
                    ok_int = all(not isinstance(x, (str, bool)) and x == int(x) for x in (pv, iv))
                    want = indep(app, k, chain, int(pv), int(iv)) if ok_int else None
                except Exception:
                    want = None
            if want is None or unstr(o) != want:
                yield (line, "BIP85 request %s on an object that has just refused a request is answered with %s, not the "
                             "specified derivation" % (r, unstr(o)[:40]))
                break
    info["refused_then_corrected_sequences"] = n


def extra_checks(rng, tier, g, info):
    yield from refused_then_corrected(rng, tier, info)
    yield from numeric_forms(rng, tier, info)
    yield from _soak(rng, tier, g, info)
    yield from _derived_masters(rng, tier, info)
    yield from _edited_results(rng, tier, info)


def _edited_results(rng, tier, info):
    """the caller edits / empties the BIP85 block (and whole reports) it received from a wallet; the next request on the
    same wallet still answers with the specified child secrets"""
    n = 0
    for _ in range(1 if tier == "quick" else 8):
        k = rng.randrange(1, N)
        chain = bytes(rng.getrandbits(8) for _ in range(32))
        xprv = common.xkey_string(0x0488ADE4, 0, bytes(4), 0, chain, b"\x00" + k.to_bytes(32, "big"))
        w = impl.make_wallet("xkey:" + sx(xprv))
        first = json.loads(json.dumps(w.bip85_data()))
        for how in ("bip85_data", "generate"):
            got = w.bip85_data() if how == "bip85_data" else w.generate(account=0, interval=(0, 1))
            common.scribble(got)
            again = json.loads(json.dumps(w.bip85_data()))
            rep = w.generate(account=0, interval=(0, 1))
            n += 2
            if again != first or rep.get("BIP85") != first:
                yield ("# wallet %s: the caller emptied the value returned by %s(), then asked again" % (xprv, how),
                       "the BIP85 block is no longer the one first given (now %s...)" % json.dumps(again)[:80])
                return
        want_wif = indep("wif", k, chain, 0, 0)
        if want_wif is not None and want_wif not in json.dumps(first):
            yield ("# wallet %s: bip85_data()" % xprv, "the BIP85 block does not contain the WIF of index 0 (%s)" % want_wif)
            return
    info["edited_result_requests"] = n


def _derived_masters(rng, tier, info):
    """the BIP85 master is a node DERIVED in this process (it has a parent object, a depth, a place in a larger tree):
    an account key, a deep child, a child of a parsed key.  BIP85 works from the key it is given — the secrets are those
    of that node's private key and chain code, whatever tree the node object hangs in."""
    import btc_hd_wallet.bip85 as b85
    n = 0
    for _ in range(2 if tier == "quick" else 25):
        k0 = rng.randrange(1, N)
        c0 = bytes(rng.getrandbits(8) for _ in range(32))
        xprv = common.xkey_string(0x0488ADE4, 0, bytes(4), 0, c0, b"\x00" + k0.to_bytes(32, "big"))
        root = impl.make_wallet("xkey:" + sx(xprv)).master
        for path in ([84 + H, H, H], [0], [1, 2, 3 + H, 4, 5], [H + 83696968]):
            node = root.derive_path(path)
            k = int.from_bytes(bytes(node.private_key), "big")
            chain = node.chain_code
            routes = {"BIP85DeterministicEntropy(master_node=derived node)": b85.BIP85DeterministicEntropy(master_node=node),
                      "wallet built on the derived node, .bip85": type(impl.make_wallet("xkey:" + sx(xprv)))(master=node).bip85}
            for how, b in routes.items():
                for app, param, idx in (("wif", 0, rng.randrange(H)), ("hex", 32, 0), ("mnemonic", 12, 1), ("xprv", 0, 7),
                                        ("pwd", 21, 0)):
                    n += 1
                    want = indep(app, k, chain, param, idx)
                    try:
                        got = impl._bip85_call(b, app, param, idx)
                    except Exception as e:
                        got = "raised %s" % type(e).__name__
                    if got != want:
                        yield ("# %s; root %s, node at %s; %s(param %d, index %d)" % (how, xprv, path, app, param, idx),
                               "BIP85 %s is not derived from the key it was given (the node at %s): %s, expected %s" % (
                                   app, path, str(got)[:40], str(want)[:40]))
                        return
    info["derived_master_requests"] = n


def _soak(rng, tier, g, info):
    """long-lived BIP85 object: S distinct indexes are used under one application node (S above every small literal of
    the source, common.soak_size) — through the node API on the wallet's own nodes and through the BIP85 calls
    themselves — then early / middle / late requests are repeated on the SAME object and compared with the
    independent derivation"""
    S = common.soak_size(PID, tier)
    k = rng.randrange(1, N)
    chain = bytes(rng.getrandbits(8) for _ in range(32))
    xprv = common.xkey_string(0x0488ADE4, 0, bytes(4), 0, chain, b"\x00" + k.to_bytes(32, "big"))
    w = impl.make_wallet("xkey:" + sx(xprv))
    b = w.bip85
    node = w.master.derive_path([83696968 + H, 2 + H])
    for i in range(S):
        node.ckd(H + i)
    small = 150 if tier == "quick" else 3000
    for i in range(small):
        b.hex(32, i)
    probes = sorted(set([0, 1, 2, 7, small - 1, S // 2, S - 1, S, S + 1] + [rng.randrange(S) for _ in range(6)]))
    n = 0
    for i in probes:
        for app, param, call in (("wif", 0, lambda: b.wif(i)), ("hex", 32, lambda: b.hex(32, i)),
                                 ("xprv", 0, lambda: b.xprv(i))):
            if app != "wif" and i >= small + 2:
                continue
            n += 1
            want = indep(app, k, chain, param, i)
            try:
                got = call()
            except Exception as e:
                got = "raised %r" % e
            if got != want:
                yield ("# soak: one BIP85 object (master %s), %d indexes used under m/83696968'/2', %d under .../128169'/32', "
                       "then %s(index %d)" % (xprv, S, small, app, i),
                       "BIP85 %s on a heavily used object differs from the specified derivation: %s" % (app, str(got)[:60]))
                return
    info["soak_children_per_node"] = S
    info["soak_requests_checked"] = n


def cases(rng, tier):
    from . import extra
    yield from _cases_core(rng, tier)
    yield from extra.cases_for('bip85obj', rng, tier)
