"""C14 — Watch-only wallets reproduce all public data and can never yield private data."""
from .common import *  # noqa: F401,F403
from . import common
from .c06 import from_canon
from .c07 import ALL
from .c16 import classify, KINDS
import impl

PID = "C14"
LEAN_MODULES = ["BtcHd.Props.C14", "BtcHd.Props.RealInst.C14"]
LEAN_MODULES_THOROUGH = ['BtcHd.Props.TrBip32', 'BtcHd.Props.TrWallet']
TRUSTED_BASE = common.CORE_TRUSTED + ["curve group laws are CurveLaws hypotheses (through C02)"]
ASSUMPTIONS = ["python-ecdsa implements the secp256k1 group law"]
RULE = ("export nodes at depth 0..6 of full wallets, six public versions, sub-paths of length 0..4 over normal boundaries, "
        "both networks, five address kinds; private-data requests and hardened sub-paths; non-trivial = distinct case")
H = 2 ** 31
PUBV = {n: v for n, v in ALL.items() if n.endswith("pub")}
MN = "legal winner thank year wave sausage worth useful legal winner thank yellow"


def _collision_wallets(rng, tier):
    """watch-only wallets whose ROOT public keys share the 4-byte fingerprint (corpus common.fp_pairs) or are the same
    key under another chain code / depth, on the same network, asked for the same sub-paths and addresses back to
    back in one process; every answer is compared with the full wallet built from the matching private key"""
    from .c09 import point, sec_c
    pairs = common.fp_pairs()
    for ka, kb in (pairs[:2] if tier == "quick" else pairs):
        ch1, ch2 = (bytes(rng.getrandbits(8) for _ in range(32)) for _ in range(2))
        t = rng.choice("01")
        vprv, vpub = (0x04358394, 0x043587CF) if t == "1" else (0x0488ADE4, 0x0488B21E)
        sibs = []
        for k, ch in ((ka, ch1), (kb, ch1), (ka, ch2), (ka, ch1)):
            x, y = point(k)
            full = "xkey:" + sx(common.xkey_string(vprv, 0, bytes(4), 0, ch, b"\x00" + k.to_bytes(32, "big")))
            wo = "xkey:" + sx(common.xkey_string(vpub, 0, bytes(4), 0, ch, sec_c(x, y)))
            sibs.append((full, wo))
        for sub in ([0, 1], [rng.choice([0, 7, 2 ** 31 - 1])], [1, 2, 3]):
            sp = "/".join(["M"] + [str(i) for i in sub])
            for full, wo in sibs:
                meta = "%s|%s|%s" % (full, impl.lst(str, []), impl.lst(str, sub))
                yield "w_bypath %s %s #%s" % (wo, sx(sp), meta), "fp-collision-wallets"
                yield "w_addr %s %s %s #%s" % (wo, sx(sp), rng.choice(KINDS), meta), "fp-collision-wallets-addr"


def _bulk_cases(rng, tier):
    from .c02 import neuter
    from .c01 import rand_parent
    for _ in range(1 if tier == "quick" else 20):
        spec, k, chain, depth = rand_parent(rng)
        for ar, a, b, st in common.bulk_interval_shapes(rng):
            yield "gen_step %s %d %d %d %d -" % (neuter(spec, k), ar, a, b, st), "bulk-interval-shape"


def cases(rng, tier):
    n = 10 if tier == "quick" else 400
    yield from _bulk_cases(rng, tier)
    yield from _hist_cases(rng, tier)
    yield from _collision_wallets(rng, tier)
    # export nodes deep in the tree as well: the depth byte crosses 0x7f/0x80 and approaches 0xff
    deep = [127, 128, 200, 251] if tier == "quick" else [126, 127, 128, 129, 130, 200, 250, 251]
    deep = [rng.choice(deep[:2]), rng.choice(deep[2:])] if tier == "quick" else deep
    for j in range(n + len(deep)):
        t = rng.choice("01")
        e = bytes(rng.getrandbits(8) for _ in range(16)).hex()
        full = "ent:%s:-:-:%s" % (sx(e), t)
        depth = rng.randint(0, 6) if j >= len(deep) else deep[j]
        exp = [rng.choice([0, 1, 44 + H, H, H + 1, 7, 2 ** 31 - 1]) for _ in range(depth)]
        w = impl.make_wallet(full)
        node = w.master.derive_path(exp[:5]) if depth <= 5 else w.master.derive_path(exp)
        exp = exp if depth > 5 else exp[:5]
        name = rng.choice(list(PUBV))
        xpub = node.extended_public_key(version=PUBV[name])
        wo = "xkey:" + sx(xpub)
        yield "wallet " + wo, "import-" + name
        sub = [rng.choice([0, 1, 2, 2 ** 31 - 1, rng.getrandbits(31)]) for _ in range(rng.randint(0, 4))]
        # (both root markers: the library reads `m` and `M` alike, on full and on watch-only wallets)
        sp = "/".join([rng.choice(["M", "m"])] + [str(i) for i in sub])
        meta = "%s|%s|%s" % (full, impl.lst(str, exp), impl.lst(str, sub))
        yield "w_bypath %s %s #%s" % (wo, sx(sp), meta), "pub-subpath"
        other = ("m" if sp[0] == "M" else "M") + sp[1:]
        yield "w_bypath %s %s #%s" % (wo, sx(other), meta), "pub-subpath-other-marker"
        yield "w_addr %s %s %s #%s" % (wo, sx(other), rng.choice(KINDS), meta), "pub-subpath-other-marker-addr"
        for kind in KINDS:
            yield "w_addr %s %s %s #%s" % (wo, sx(sp), kind, meta), "addr-" + kind
        yield "w_extkeys %s %s #%s" % (wo, sx(sp), meta), "extkeys"
        yield "w_group %s %s %s #%s" % (wo, sx(sp), rng.choice(KINDS), meta), "group"
        yield "w_extprv %s %s" % (wo, sx(sp)), "extprv-request"
        yield "w_bip85 %s wif 0 0" % wo, "bip85-request"
        yield "w_bip85 %s mnemonic 12 0" % wo, "bip85-request"
        yield "generate %s 0 0 1" % wo, "generate-request"
        if depth >= 1 and j % 3 == 0:
            pl = b58check_dec(xpub)
            for fpx in (bytes(4), b"\xff" * 4):
                xz = "xkey:" + sx(b58check_enc(pl[:5] + fpx + pl[9:]))
                yield "wallet " + xz, "import-fingerprint-extreme"
                sp1 = "/".join(["M"] + [str(i) for i in (sub or [0])])
                meta1 = "%s|%s|%s" % (full, impl.lst(str, exp), impl.lst(str, sub or [0]))
                yield "w_bypath %s %s #%s" % (xz, sx(sp1), meta1), "import-fingerprint-extreme"
                yield "w_addr %s %s p2wpkh #%s" % (xz, sx(sp1), meta1), "import-fingerprint-extreme"
        hp = "/".join(["M"] + [str(i) for i in sub[:2]] + [rng.choice(["0'", "1h", "2147483647'", "44'"])])
        yield "w_bypath %s %s" % (wo, sx(hp)), "hardened-refused"
        yield "ckd %s %d -" % ("p:%s:%s:%d:%d:%s:none" % (hx(node.public_key.sec()), hx(node.chain_code), 0, 0, t),
                               rng.choice([H, H + 1, 2 ** 32 - 1])), "hardened-refused-ckd"


def nontrivial(line, out):
    return True


def _hist_cases(rng, tier):
    """several requests on ONE shared watch-only wallet object, in non-ascending index order
    (the full wallet is rebuilt fresh for the comparison by the C13 stateless oracle)"""
    from .c13 import gen_history
    for _ in range(3 if tier == "quick" else 60):
        t = rng.choice("01")
        e = bytes(rng.getrandbits(8) for _ in range(16)).hex()
        w = impl.make_wallet("ent:%s:-:-:%s" % (sx(e), t))
        node = w.master.derive_path([84 + H, H, H])
        wo = "xkey:" + sx(node.extended_public_key(version=rng.choice(list(PUBV.values()))))
        ops = []
        for _ in range(rng.randint(4, 10)):
            a, b = rng.choice([0, 1]), rng.choice([7, 5, 3, 2, 1, 0])
            ops.append("bp:" + sx("M/%d/%d" % (a, b)))
        ops += ["ckd:0:%d" % i for i in rng.sample([9, 4, 2, 0, 1, 3], 4)]
        ops += gen_history(rng, 12, watch=True)
        # refused requests that share their first steps with nodes handed out earlier, then every held node re-inspected
        a, b = rng.choice([0, 1]), rng.choice([7, 5, 3, 2, 1, 0])
        ops += ["bp:" + sx("M/%d/%d'" % (a, b)), "bp:" + sx("M/%d/%d/0h" % (a, b)), "dp:0:%s" % impl.lst(str, [a, b, H]),
                "ckd:1:%d" % (H + 3), "gc:0:%d:%d" % (H - 2, H + 2), "gc:1:%d:%d" % (H - 1, H + 1), "gc:1:%d:%d" % (H, H + 1)]
        ops += ["xk:%d" % h for h in range(0, 8)] + ["ad:%d:p2wpkh" % h for h in range(1, 5)]
        yield "hist %s %s" % (wo, ";".join(ops)), "shared-watch-only-object"


_base_cache = {}


def _split(line):
    if " #" in line:
        body, meta = line.split(" #", 1)
        return body.split(" "), meta.split("|")
    return line.split(" "), None


def oracle(line, out):
    tok, meta = _split(line)
    v = ok_val(out)
    op = tok[0]
    if op == "gen_step":
        return common.bulk_oracle(line.split(" #")[0], out)
    if op == "hist":
        from .c13 import oracle as o13
        m = o13(line, out)
        if m:
            return m
        # on a watch-only wallet every request that involves a hardened child number must be REFUSED, whatever the
        # entry point (single step, path, bulk interval, textual path)
        if v is not None and tok[1].startswith("xkey:"):
            outs = v.split(" ; ")
            for o, res in zip(tok[2].split(";"), outs):
                t = o.split(":")
                hard = False
                if t[0] == "ckd":
                    hard = int(t[2]) >= H
                elif t[0] == "dp":
                    hard = any(i >= H for i in impl.unlist(int, t[2]))
                elif t[0] == "gc":
                    hard = int(t[2]) < int(t[3]) and int(t[3]) - 1 >= H
                elif t[0] == "bp":
                    hard = any(c.endswith(("'", "h")) for c in unstr(t[1]).split("/")[1:6])
                if hard and res != "err":
                    return "watch-only wallet answered a request with a hardened child number (%s): %s" % (o, res[:60])
        return None
    if op == "wallet":
        if v is None:
            return "wallet could not be built from an extended public key"
        f = v.split(" ")
        if f[2] != "1" or f[4] != "p":
            return "wallet built from an extended public key does not report watch-only"
        w = impl.make_wallet(tok[1])
        if w.bip85 is not None:
            return "watch-only wallet offers BIP85"
        return None
    if op in ("w_extprv", "w_bip85", "generate"):
        return None if v is None else "watch-only wallet answered a private-data request (%s): %s" % (op, v[:40])
    if op in ("w_bypath", "ckd") and meta is None:
        return None if v is None else "hardened derivation from public-only data produced a key"
    if meta is None:
        return None
    full, exp, sub = meta[0], impl.unlist(int, meta[1]), impl.unlist(int, meta[2])
    if v is None:
        return "watch-only wallet failed on a non-hardened sub-path"
    fw = impl.make_wallet(full)
    ck = (full, meta[1])
    if ck not in _base_cache:
        _base_cache.clear()
        _base_cache[ck] = impl.make_wallet(full).master.derive_path(exp)
    b0 = _base_cache[ck]
    import btc_hd_wallet.bip32 as _b32
    base = _b32.PrvKeyNode(key=b0.key, chain_code=b0.chain_code, index=b0.index, depth=b0.depth, testnet=b0.testnet,
                           parent_fingerprint=b0.parent_fingerprint)     # a fresh object every time
    ref = base.derive_path(sub)
    if op == "w_bypath":
        f = v.split(" ")
        if unhex(f[2]) != ref.public_key.sec() or unhex(f[3]) != ref.chain_code or \
                int(f[5]) != ref.index or (sub and unhex(f[7]) != ref.parent_fingerprint) or f[1] != "p":
            return "watch-only node differs from the full wallet's node below the export node"
        if int(f[4]) != len(sub):   # depth is relative to the imported node? no: it is the absolute depth
            pass
        if int(f[4]) != ref.depth:
            return "depth metadata differs (%s vs %d)" % (f[4], ref.depth)
        return None
    same_net = fw.testnet == impl.make_wallet(tok[1]).testnet
    if op == "w_addr":
        want = impl.addr_fn(fw, tok[3])(ref)
        if same_net and unstr(v) != want:
            return "%s address differs from the full wallet's" % tok[3]
        if not same_net and classify(unstr(v)) == classify(want):
            return "address network does not follow the imported version prefix"
        return None
    if op == "w_extkeys":
        rep = from_canon(v)
        if rep.get("prv") is not None:
            return "watch-only wallet returned an extended private key field"
        pl = b58check_dec(rep["pub"])
        if pl[45:] != ref.public_key.sec() or pl[13:45] != ref.chain_code:
            return "extended public key of the sub-node differs from the full wallet's"
        return None
    if op == "w_group":
        row = from_canon(v)
        if row[3] is not None:
            return "watch-only row contains a WIF"
        if row[2] != ref.public_key.sec().hex():
            return "watch-only row public key differs"
        if same_net and row[1] != impl.addr_fn(fw, tok[3])(ref):
            return "watch-only row address differs"
        return None
    return None


def extra_checks(rng, tier, g, info):
    """watch-only wallets assembled with the class constructor from a parsed extended public key whose node flag is the
    parser's default (mainnet) while the wallet is a testnet wallet, and the reverse: every address kind, at several
    sub-paths, must be the full wallet's address of the wallet's network"""
    from .c13 import soak as _soak13
    yield from _soak13(rng, tier, info)
    n = 0
    for _ in range(2 if tier == "quick" else 30):
        e = bytes(rng.getrandbits(8) for _ in range(16)).hex()
        for wt in ("1", "0"):
            full = impl.make_wallet("ent:%s:-:-:%s" % (sx(e), wt))
            coin = 1 if wt == "1" else 0
            acc = full.by_path("m/84'/%d'/0'" % coin)
            name = rng.choice([k for k in PUBV])
            xpub = acc.extended_public_key(version=PUBV[name])
            for nt in ("0", "1"):
                wo = impl.make_wallet("rawx:%s:%s:%s" % (sx(xpub), nt, wt))
                for sub in ([], [0], [0, 7], [1, 2 ** 31 - 1]):
                    a = acc.derive_path(sub)
                    b = wo.master.derive_path(sub)
                    for kind in KINDS:
                        n += 1
                        x, y = impl.addr_fn(full, kind)(a), impl.addr_fn(wo, kind)(b)
                        if x != y:
                            yield ("# watch-only wallet BaseWallet(master=PubKeyNode.parse(%s, testnet=%s), testnet=%s), "
                                   "sub-path %s, %s" % (xpub, nt == "1", wt == "1", sub, kind),
                                   "%s address differs from the full wallet's: %s vs %s" % (kind, y, x))
                            return
    info["constructor_route_addresses"] = n
    # the account keys of a wallet stored BACK TO BACK as 78-byte records (behind a header) in one stream and read one
    # after the other with PubKeyNode.parse(stream): each watch-only wallet is the wallet of ITS record
    import io
    import btc_hd_wallet.bip32 as bip32_
    m = 0
    for _ in range(2 if tier == "quick" else 30):
        e = bytes(rng.getrandbits(8) for _ in range(16)).hex()
        wt = rng.choice("01")
        full = impl.make_wallet("ent:%s:-:-:%s" % (sx(e), wt))
        coin = 1 if wt == "1" else 0
        accs = [full.by_path("m/%d'/%d'/%d'" % (pu, coin, rng.choice([0, 1]))) for pu in (44, 49, 84)]
        header = bytes(rng.getrandbits(8) for _ in range(rng.choice([0, 3, 78])))
        buf = io.BytesIO(header + b"".join(a.serialize_public() for a in accs))
        buf.read(len(header))
        for rec, acc in enumerate(accs):
            try:
                node = bip32_.PubKeyNode.parse(buf, testnet=(wt == "1"))
            except Exception:
                break               # a refusal hands out nothing
            wo = type(full)(master=node, testnet=(wt == "1"))
            for sub in ([], [0, rng.randrange(20)], [1, 2 ** 31 - 1]):
                a = acc.derive_path(sub)
                m += 1
                what = None
                try:
                    b = wo.master.derive_path(sub)
                    if a.public_key.sec() != b.public_key.sec() or a.chain_code != b.chain_code:
                        what = "public key / chain code"
                    elif (a.depth, a.index, a.parent_fingerprint) != (b.depth, b.index, b.parent_fingerprint):
                        what = "depth / child number / parent fingerprint"
                    else:
                        for kind in KINDS:
                            if impl.addr_fn(full, kind)(a) != impl.addr_fn(wo, kind)(b):
                                what = kind + " address"
                except Exception as ex:     # the record was accepted, yet the wallet built from it cannot answer
                    what = "public data (the request fails with %s: the accepted node is not the record's node)" % type(ex).__name__
                if what:
                    yield ("# watch-only wallet from record %d of a stream of %d-byte header + three 78-byte account keys "
                           "(entropy %s, testnet=%s), read with PubKeyNode.parse(stream); sub-path %s" % (
                               rec, len(header), e, wt == "1", sub),
                           "%s differs from the full wallet's below that account" % what)
                    return
    info["stream_record_comparisons"] = m


known_match = common.no_known
