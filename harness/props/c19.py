"""C19 — Script and varint wire encodings round-trip with standard minimal pushes."""
import io
from .common import *  # noqa: F401,F403
from . import common
import impl

PID = "C19"
LEAN_MODULES = ["BtcHd.Props.C19", "BtcHd.Props.Extra"]
LEAN_MODULES_THOROUGH = ['BtcHd.Props.TrVarint']
TRUSTED_BASE = common.CORE_TRUSTED
ASSUMPTIONS = ["io.BytesIO.read returns at most the requested bytes (short at end of input)",
               "opcode bytes 1..77 are push prefixes and are not generated as opcodes of round-trip scripts"]
RULE = ("every element length 0..521 (exhaustive), every opcode byte, random multi-element scripts, every "
        "prefix of corpus serialisations and of random scripts, parser-grammar wire scripts (any push form and length field) cut at every header position under three declared lengths, all byte strings of length ≤ 4 over the parser-relevant bytes, varints at all size boundaries ±1; "
        "non-trivial = distinct case whose script has ≥ 2 commands or a data element, or a varint ≥ 0xfd, "
        "or a truncated input")

BOUNDS = [0, 1, 0xfc, 0xfd, 0xfe, 0xff, 0x100, 0xffff, 0x10000, 0x10001, 0xffffffff, 2 ** 32, 2 ** 32 + 1,
          2 ** 63, 2 ** 64 - 2, 2 ** 64 - 1, 2 ** 64, 2 ** 64 + 1, 2 ** 70]


def _ser_indep(cmds):
    """independent standard serialisation (raw), None if not serialisable"""
    out = b""
    for c in cmds:
        if isinstance(c, int):
            if not 0 <= c <= 255:
                return None
            out += bytes([c])
        else:
            n = len(c)
            if n <= 75:
                out += bytes([n])
            elif n <= 255:
                out += b"\x4c" + bytes([n])
            elif n <= 520:
                out += b"\x4d" + n.to_bytes(2, "little")
            else:
                return None
            out += c
    return out


def _varint_indep(n):
    if n < 0xfd:
        return bytes([n])
    if n < 0x10000:
        return b"\xfd" + n.to_bytes(2, "little")
    if n < 2 ** 32:
        return b"\xfe" + n.to_bytes(4, "little")
    if n < 2 ** 64:
        return b"\xff" + n.to_bytes(8, "little")
    return None


def _cmds_str(cmds):
    return impl.lst(impl.cmdS, cmds)


def _rand_script(rng, maxn=6):
    cmds = []
    for _ in range(rng.randint(0, maxn)):
        if rng.random() < 0.5:
            cmds.append(rng.choice([0] + list(range(78, 256))))
        else:
            ln = rng.choice([1, 2, 20, 32, 33, 65, 74, 75, 76, 77, 78, 200, 255, 256, 257, 300, 519, 520]) \
                if rng.random() < 0.6 else rng.randint(1, 520)
            cmds.append(bytes(rng.getrandbits(8) for _ in range(ln)))
    return cmds


def _cases_core(rng, tier):
    # exhaustive element lengths 0..521
    for ln in range(0, 523):
        d = bytes((ln + i) & 0xff for i in range(ln))
        yield "scr_raw d" + hx(d).replace("-", ""), "len-exhaustive"
        if ln % (1 if tier == "thorough" else 7) == 0 or ln in (1, 75, 76, 255, 256, 520, 521):
            yield "scr_ser " + _cmds_str([0xac, d] if ln else [0xac]), "len-ser"
    # elements OVER the limit, alone and between ordinary elements, first / middle / last: 521, 522, PUSHDATA2's own
    # range up to 65535 and what lies beyond it
    for ln in ([521, 522, 600, 4096, 65535, 65536] if tier == "quick" else [521, 522, 523, 600, 1000, 4096, 65534, 65535, 65536, 70000]):
        big = bytes((ln + i) & 0xff for i in range(ln))
        for cmds in ([big], [0x76, big], [big, 0xac], [bytes(20), big, bytes(33)], [bytes(520), big], [big, big]):
            yield "scr_raw " + _cmds_str(cmds), "oversize-element"
            yield "scr_ser " + _cmds_str(cmds), "oversize-element-ser"
    # scripts of the STANDARD TEMPLATE shapes with arbitrary (unsorted, repeated, mixed-length) data: bare multisig
    # m-of-n, pay-to-pubkey, P2PKH / P2SH / witness programs, OP_RETURN data, time locks — the wire bytes are those of
    # the command list as given, element by element, in the order given
    def _key(compressed=True):
        return (bytes([rng.choice([2, 3])]) + bytes(rng.getrandbits(8) for _ in range(32))) if compressed else \
            (b"\x04" + bytes(rng.getrandbits(8) for _ in range(64)))
    for _ in range(6 if tier == "quick" else 200):
        n_ = rng.randint(1, 5)
        m_ = rng.randint(1, n_)
        keys_ = [_key(rng.random() < 0.8) for _ in range(n_)]
        for ks in (keys_, sorted(keys_), sorted(keys_, reverse=True), keys_[:1] * n_):
            cmds = [0x50 + m_] + ks + [0x50 + n_, 0xae]
            yield "scr_raw " + _cmds_str(cmds), "template-multisig"
            yield "scr_ser " + _cmds_str(cmds), "template-multisig-ser"
        h20, h32 = bytes(rng.getrandbits(8) for _ in range(20)), bytes(rng.getrandbits(8) for _ in range(32))
        for cmds in ([_key(), 0xac], [_key(False), 0xac], [0x76, 0xa9, h20, 0x88, 0xac], [0xa9, h20, 0x87], [0, h20], [0, h32],
                     [0x51, h32], [0x6a, bytes(rng.getrandbits(8) for _ in range(rng.choice([1, 40, 80])))],
                     [bytes([rng.randrange(1, 255), rng.randrange(256), rng.randrange(128)]), 0xb1, 0x75] + [_key(), 0xac],
                     [0x63, _key(), 0xac, 0x67, bytes([7, 0]), 0xb2, 0x75, _key(), 0xac, 0x68]):
            yield "scr_raw " + _cmds_str(cmds), "template-standard"
            yield "scr_ser " + _cmds_str(cmds), "template-standard-ser"
    # PUSHDATA2 pushes declaring 4 KiB … 64 KiB, complete and cut short by 1 … several thousand bytes (the end falling
    # before, on and behind every 4096-byte boundary of the data): input that ends early is never accepted
    for n_ in ([4097, 8192, 8193, 10000, 16385, 65535] if tier == "quick" else [521, 4096, 4097, 8191, 8192, 8193, 10000, 12289,
                                                                                  16384, 16385, 32769, 65535]):
        body = bytes([0x4d]) + n_.to_bytes(2, "little") + bytes((n_ + i) & 0xff for i in range(n_))
        cuts = sorted(set([1, 2, 100, 1000, n_ % 4096 or 4096, (n_ % 4096) + 1, max(1, (n_ % 4096) - 1), n_ - 1, n_ // 2]))
        for cut in [c_ for c_ in cuts if 0 < c_ <= n_][: (6 if tier == "quick" else 20)]:
            part = body[:len(body) - cut]
            yield "scr_parse " + hx(_varint_indep(len(body)) + part), "big-push-cut-short"
        yield "scr_parse " + hx(_varint_indep(len(body)) + body), "big-push-complete"
    for b in range(0, 300):
        yield "scr_raw o%d" % b, "opcode-exhaustive"
    for n in BOUNDS:
        for d in (-1, 0, 1):
            if n + d >= 0:
                yield "vi_enc %d" % (n + d), "varint-bound"
    corpus = [[0x76, 0xa9, bytes(20), 0x88, 0xac], [0xa9, bytes(range(20)), 0x87], [0, bytes(32)],
              [0x51, bytes(33), 0x51, 0xae], [bytes(75)], [bytes(76)], [bytes(255), bytes(256)], [bytes(520)], []]
    n_rand = 120 if tier == "quick" else 4000
    scripts = corpus + [_rand_script(rng) for _ in range(n_rand)]
    for cmds in scripts:
        raw = _ser_indep(cmds)
        yield "scr_ser " + _cmds_str(cmds), "ser-random"
        if raw is None:
            continue
        ser = _varint_indep(len(raw)) + raw
        yield "scr_parse " + hx(ser), "parse-valid"
        yield "scr_parse " + hx(ser + bytes(rng.getrandbits(8) for _ in range(rng.randint(1, 5)))), "parse-trailing"
        # a stream that has been read from before (header consumed, earlier script parsed): position k > 0
        pre = bytes(rng.getrandbits(8) for _ in range(rng.randint(1, 9)))
        yield "scr_parse %s %d" % (hx(pre + ser), len(pre)), "parse-positioned"
        yield "scr_parse %s %d" % (hx(ser + ser), len(ser)), "parse-second-record"
        cuts = range(len(ser)) if len(ser) <= 80 or tier == "thorough" else \
            sorted(set([0, 1, 2, 3, len(ser) - 1, len(ser) - 2] + [rng.randrange(len(ser)) for _ in range(6)]))
        for c in cuts:
            yield "scr_parse " + hx(ser[:c]), "parse-prefix"
        # declared length wrong by ±1
        for dl in (-1, 1):
            if len(raw) + dl >= 0:
                yield "scr_parse " + hx(_varint_indep(len(raw) + dl) + raw), "parse-badlen"
    for _ in range(300 if tier == "quick" else 20000):
        n = rng.choice([rng.getrandbits(rng.randint(1, 66)), rng.choice(BOUNDS)])
        yield "vi_enc %d" % n, "varint-random"
        enc = _varint_indep(n)
        if enc is not None:
            tail = bytes(rng.getrandbits(8) for _ in range(rng.randint(0, 3)))
            yield "vi_read " + hx(enc + tail), "varint-read"
            yield "vi_read %s %d" % (hx(tail + enc + tail), len(tail)), "varint-positioned"
            for c in range(len(enc)):
                yield "vi_read " + hx(enc[:c]), "varint-prefix"
    for _ in range(200 if tier == "quick" else 5000):
        bs = bytes(rng.getrandbits(8) for _ in range(rng.randint(0, 12)))
        yield "scr_parse " + hx(bs), "parse-junk"
        yield "vi_read " + hx(bs), "varint-junk"
    # aggregate size: scripts whose TOTAL serialised size sits around every varint width change and around powers of
    # two / ten up to 2^17 (many maximal elements, or hundreds of small commands), parsed back
    targets = [252, 253, 254, 1000, 4096, 9999, 10000, 10001, 16384, 32768, 65535, 65536, 65537, 100000, 131072]
    for tgt in (targets if tier == "thorough" else rng.sample(targets, 5) + [10001, 65536]):
        for style in ("big", "small"):
            cmds, size = [], 0
            while size < tgt:
                left = tgt - size
                if style == "big":
                    ln = min(520, max(1, left - 3))
                else:
                    ln = min(rng.choice([1, 2, 20, 33]), max(1, left - 1))
                if left <= 1 or rng.random() < (0.0 if style == "big" else 0.4):
                    cmds.append(rng.choice([0, 0x76, 0xac]))
                    size += 1
                else:
                    cmds.append(bytes(rng.getrandbits(8) for _ in range(ln)))
                    size += len(_ser_indep([cmds[-1]]))
            yield "scr_ser " + _cmds_str(cmds), "aggregate-size-%s" % style
    # re-segmentation siblings: scripts with the SAME serialised length and the SAME outer opcodes as a given script
    # (the four standard templates first) whose inner structure differs — one data element replaced by two pushes, by
    # an opcode and a push, or by three pushes of the same total wire size
    def resegment(cmds):
        out = []
        for k, c in enumerate(cmds):
            if isinstance(c, bytes) and 3 <= len(c) <= 75:
                L = len(c)
                a = rng.randint(1, L - 2)
                out.append(cmds[:k] + [c[:a], c[a + 1:]] + cmds[k + 1:])                       # two pushes
                out.append(cmds[:k] + [rng.choice([0x76, 0xa9, 0x51, 0xac]), c[1:]] + cmds[k + 1:])  # opcode + push
                out.append(cmds[:k] + [c[1:], rng.choice([0x87, 0x88, 0x00])] + cmds[k + 1:])        # push + opcode
                if L >= 5:
                    b = rng.randint(1, L - a - 2) if L - a - 2 >= 1 else 1
                    out.append(cmds[:k] + [c[:a], c[a + 1:a + 1 + b], c[a + 2 + b:]] + cmds[k + 1:])
        return [o for o in out if all(not isinstance(x, bytes) or len(x) >= 1 for x in o)]
    h20, h32 = bytes(rng.getrandbits(8) for _ in range(20)), bytes(rng.getrandbits(8) for _ in range(32))
    templates = [[0x76, 0xa9, h20, 0x88, 0xac], [0xa9, h20, 0x87], [0, h20], [0, h32], [0x51, bytes(33), 0x51, 0xae]]
    for base in templates + [_rand_script(rng, 4) for _ in range(20 if tier == "quick" else 600)]:
        for sib in resegment(base):
            raw = _ser_indep(sib)
            yield "scr_ser " + _cmds_str(sib), "resegmented-sibling"
            if raw is not None:
                yield "scr_parse " + hx(_varint_indep(len(raw)) + raw), "resegmented-parse"
    # wire-level grammar of the PARSER (not only the image of the serialiser): opcodes, direct pushes and
    # PUSHDATA1/PUSHDATA2 with ANY length field (zero, non-minimal, oversized), cut at every position while the
    # declared script length is (a) that of the complete script, (b) that of the cut script, (c) off by one
    def wire_token():
        r = rng.random()
        if r < 0.3:
            return bytes([rng.choice([0] + list(range(78, 256)))])
        if r < 0.5:
            n = rng.choice([1, 2, 3, 75, rng.randint(1, 75)])
            return bytes([n]) + bytes(rng.getrandbits(8) for _ in range(n))
        if r < 0.75:
            n = rng.choice([0, 1, 2, 75, 76, 255, rng.randint(0, 255)])
            return b"\x4c" + bytes([n]) + bytes(rng.getrandbits(8) for _ in range(n))
        n = rng.choice([0, 1, 2, 255, 256, 257, 520, 521, rng.randint(0, 600)])
        return b"\x4d" + n.to_bytes(2, "little") + bytes(rng.getrandbits(8) for _ in range(n))
    for _ in range(60 if tier == "quick" else 3000):
        toks = [wire_token() for _ in range(rng.randint(1, 3))]
        raw = b"".join(toks)
        yield "scr_parse " + hx(_varint_indep(len(raw)) + raw), "wire-complete"
        # cut points: every position inside the LAST token's header and a few inside its data, every token boundary
        last = len(raw) - len(toks[-1])
        cuts = set(range(last, min(len(raw), last + 4))) | {len(raw) - 1, len(raw) - 2} | \
            {sum(len(t) for t in toks[:i]) for i in range(len(toks))}
        if tier == "thorough":
            cuts |= set(range(len(raw)))
        for c in sorted(x for x in cuts if 0 <= x < len(raw)):
            yield "scr_parse " + hx(_varint_indep(len(raw)) + raw[:c]), "wire-cut-declared-full"
            yield "scr_parse " + hx(_varint_indep(c) + raw[:c]), "wire-cut-declared-cut"
            yield "scr_parse " + hx(_varint_indep(c + 1) + raw[:c]), "wire-cut-declared-plus1"
    # every byte string of length <= 4 (quick) / <= 5 (thorough) over the bytes that matter to the two parsers
    alpha = [0, 1, 2, 3, 0x4b, 0x4c, 0x4d, 0x4e, 0xfd, 0xff]
    import itertools
    for ln in range(1, 5 if tier == "quick" else 6):
        for t in itertools.product(alpha, repeat=ln):
            yield "scr_parse " + hx(bytes(t)), "wire-small-exhaustive"
    for kind, ln in (("p2pkh", 20), ("p2sh", 20), ("p2wpkh", 20), ("p2wsh", 32)):
        yield "scr_build %s %s" % (kind, hx(bytes(range(ln)))), "builder"


def nontrivial(line, out):
    op, arg = line.split(" ", 1)
    if op in ("scr_raw", "scr_ser"):
        return "d" in arg or "," in arg
    if op == "vi_enc":
        return int(arg) >= 0xfd
    return True


def _parse_indep(bs):
    """independent strict parser: (cmds, rest) or None"""
    s = io.BytesIO(bs)

    def rd(n):
        if n > len(bs):
            raise ValueError
        b = s.read(n)
        if len(b) != n:
            raise ValueError
        return b
    try:
        i = rd(1)[0]
        n = {0xfd: 2, 0xfe: 4, 0xff: 8}.get(i)
        length = i if n is None else int.from_bytes(rd(n), "little")
        body = rd(length)
    except ValueError:
        return None
    rest = s.read()
    b = io.BytesIO(body)
    cmds = []

    def rb(n):
        if n > len(body):
            raise ValueError
        x = b.read(n)
        if len(x) != n:
            raise ValueError
        return x
    try:
        while b.tell() < len(body):
            c = rb(1)[0]
            if 1 <= c <= 75:
                cmds.append(rb(c))
            elif c == 76:
                cmds.append(rb(rb(1)[0]))
            elif c == 77:
                cmds.append(rb(int.from_bytes(rb(2), "little")))
            else:
                cmds.append(c)
    except ValueError:
        return None
    return cmds, rest


def _positioned(arg):
    """`<hex> [k]`: the bytes the parser gets to see when the stream has already been read up to position k"""
    parts = arg.split(" ")
    bs = unhex(parts[0])
    return bs[int(parts[1]):] if len(parts) > 1 else bs


def oracle(line, out):
    op, arg = line.split(" ", 1)
    v = ok_val(out)
    if op in ("scr_raw", "scr_ser"):
        cmds = impl.unlist(impl.uncmd, arg)
        wf = all((isinstance(c, int) and (c == 0 or 78 <= c <= 255)) or
                 (isinstance(c, bytes) and 1 <= len(c) <= 520) for c in cmds)
        raw = _ser_indep(cmds)
        too_long = any(isinstance(c, bytes) and len(c) > 520 for c in cmds)
        if too_long:
            return None if v is None else "element over 520 bytes was serialised"
        if not wf:
            return None          # outside the property's quantifier
        want = raw if op == "scr_raw" else _varint_indep(len(raw)) + raw
        if v is None:
            return "well-formed script refused by %s" % op
        if unhex(v) != want:
            return "serialisation is not the standard minimal-push form"
        if op == "scr_ser":
            back = impl.run("scr_parse " + v)
            if back != "ok %s -" % _cmds_str(cmds):
                return "parse(serialize(script)) != script: %s" % back[:120]
        return None
    if op == "scr_parse":
        bs = _positioned(arg)
        want = _parse_indep(bs)
        if v is None:
            # rejecting is always allowed except for serialisations of well-formed scripts
            if want is not None and want[1] == b"":
                cmds = want[0]
                if all((isinstance(c, int) and (c == 0 or c >= 78)) or (isinstance(c, bytes) and 1 <= len(c) <= 520)
                       for c in cmds) and _varint_indep(len(_ser_indep(cmds) or b"")) + (_ser_indep(cmds) or b"x") == bs:
                    return "valid serialisation rejected by parse"
            return None
        if want is None:
            return "input that ends early (or whose declared length is not met) was accepted: %s" % v[:80]
        cmds_s, rest_s = v.split(" ")
        if unhex(rest_s) != want[1]:
            return "parse consumed a different number of bytes than declared"
        return None
    if op == "vi_enc":
        n = int(arg)
        want = _varint_indep(n)
        if want is None:
            return None if v is None else "varint >= 2^64 was encoded"
        if v is None:
            return "varint below 2^64 refused"
        if unhex(v) != want:
            return "varint not in shortest standard form"
        back = impl.run("vi_read " + v)
        if back != "ok %d -" % n:
            return "read_varint(encode_varint(n)) != n: %s" % back
        return None
    if op == "vi_read":
        bs = _positioned(arg)
        if not bs:
            return None if v is None else "empty input accepted"
        need = {0xfd: 3, 0xfe: 5, 0xff: 9}.get(bs[0], 1)
        if len(bs) < need:
            return None if v is None else "truncated varint accepted: %s" % v
        if v is None:
            return "complete varint rejected"
        n, rest = v.split(" ")
        want = bs[0] if need == 1 else int.from_bytes(bs[1:need], "little")
        if int(n) != want or unhex(rest) != bs[need:]:
            return "varint decoded to a different value / consumed a different length"
        return None
    if op == "scr_build":
        kind, h = arg.split(" ")
        h = unhex(h)
        tpl = {"p2pkh": b"\x76\xa9\x14" + h + b"\x88\xac", "p2sh": b"\xa9\x14" + h + b"\x87",
               "p2wpkh": b"\x00\x14" + h, "p2wsh": b"\x00\x20" + h}[kind]
        if v is None or unhex(v.split(" ")[1]) != tpl:
            return "script builder does not serialise to the standard template"
        return None
    return None


known_match = common.no_known


def literal_ops(lit):
    yield "vi_enc %d" % lit
    if lit <= 700:
        yield "scr_raw d" + "ab" * lit if lit else "scr_raw o0"
        yield "scr_ser o172,d" + "cd" * lit if lit else "scr_ser o172"


def cases(rng, tier):
    from . import extra
    yield from _cases_core(rng, tier)
    yield from extra.cases_for('script', rng, tier)
