"""C11 — Segwit addresses follow BIP173/BIP350 and detect up to four character errors."""
from .common import *  # noqa: F401,F403
from . import common
import impl

PID = "C11"
LEAN_MODULES = ["BtcHd.Props.C11", "BtcHd.Props.C11b", "BtcHd.Props.C11c"]
LEAN_MODULES_THOROUGH = ["BtcHd.Props.TrBech32"]
TRUSTED_BASE = common.CORE_TRUSTED + [
    "the BCH facts are `decide +kernel` evaluations (kernel GMP arithmetic), one module per row, generated from the "
    "generator words extracted from the source"]
ASSUMPTIONS = ["str.lower/upper/rfind/find of CPython on ASCII text"]
RULE = ("all (version,length) in 0..17 x 0..42 with random programs (exhaustive); hrp in {bc,tb,random printable, "
        "upper-case, empty, long}; mutations of valid addresses: 1-4 substitutions inside/outside the charset, "
        "insert/delete, case changes, constant swap, padding flips, >90 chars; BIP173/350 vectors; "
        "non-trivial = distinct case")
M_CONST = 0x2bc830a3
GEN = [0x3b6a57b2, 0x26508e6d, 0x1ea119fa, 0x3d4233dd, 0x2a1462b3]

VALID = [
    "BC1QW508D6QEJXTDG4Y5R3ZARVARY0C5XW7KV8F3T4", "tb1qrp33g0q5c5txsp9arysrx4k6zdkfs4nce4xj0gdcccefvpysxf3q0sl5k7",
    "bc1pw508d6qejxtdg4y5r3zarvary0c5xw7kw508d6qejxtdg4y5r3zarvary0c5xw7kt5nd6y", "BC1SW50QGDZ25J",
    "bc1zw508d6qejxtdg4y5r3zarvaryvaxxpcs", "tb1qqqqqp399et2xygdj5xreqhjjvcmzhxw4aywxecjdzew6hylgvsesrxh6hy",
    "tb1pqqqqp399et2xygdj5xreqhjjvcmzhxw4aywxecjdzew6hylgvsesf3hn0c",
    "bc1p0xlxvlhemja6c4dqv22uapctqupfhlxm9h8z3k2e72q4k9hcz7vqzk5jj0"]
INVALID = [
    "tc1qw508d6qejxtdg4y5r3zarvary0c5xw7kg3g4ty", "bc1qw508d6qejxtdg4y5r3zarvary0c5xw7kv8f3t5",
    "BC13W508D6QEJXTDG4Y5R3ZARVARY0C5XW7KN40WF2", "bc1rw5uspcuh", "bc10w508d6qejxtdg4y5r3zarvary0c5xw7kw508d6qejxtdg4y5r3zarvary0c5xw7kw5rljs90",
    "BC1QR508D6QEJXTDG4Y5R3ZARVARYV98GJ9P", "tb1qrp33g0q5c5txsp9arysrx4k6zdkfs4nce4xj0gdcccefvpysxf3q0sL5k7",
    "bc1zw508d6qejxtdg4y5r3zarvaryvqyzf3du", "tb1qrp33g0q5c5txsp9arysrx4k6zdkfs4nce4xj0gdcccefvpysxf3pjxtptv", "bc1gmk9yu",
    "bc1p0xlxvlhemja6c4dqv22uapctqupfhlxm9h8z3k2e72q4k9hcz7vqh2y7hd", "BC1S0XLXVLHEMJA6C4DQV22UAPCTQUPFHLXM9H8Z3K2E72Q4K9HCZ7VQ54WELL",
    "bc1p38j9r5y49hruaue7wxjce0updqjuyyx0kh56v8s25huc6995vvpql3jow4", "bc1pw5dgrnzv", "bc1", "1", "bc1qqqqqqq"]


def polymod(values):
    chk = 1
    for v in values:
        top = chk >> 25
        chk = (chk & 0x1ffffff) << 5 ^ v
        for i in range(5):
            chk ^= GEN[i] if ((top >> i) & 1) else 0
    return chk


def indep_decode(hrp, addr):
    """independent BIP173/BIP350 segwit decoder: (ver, prog) or None"""
    if any(ord(c) < 33 or ord(c) > 126 for c in addr):
        return None
    if addr.lower() != addr and addr.upper() != addr:
        return None
    addr = addr.lower()
    pos = addr.rfind("1")
    if pos < 1 or pos + 7 > len(addr) or len(addr) > 90:
        return None
    if addr[:pos] != hrp:
        return None
    data = [B32.find(c) for c in addr[pos + 1:]]
    if any(d < 0 for d in data):
        return None
    c = polymod([ord(x) >> 5 for x in hrp] + [0] + [ord(x) & 31 for x in hrp] + data)
    if c not in (1, M_CONST):
        return None
    data = data[:-6]
    if not data:
        return None
    acc = bits = 0
    prog = []
    for v in data[1:]:
        acc = (acc << 5) | v
        bits += 5
        while bits >= 8:
            bits -= 8
            prog.append((acc >> bits) & 0xff)
    if bits >= 5 or (acc & ((1 << bits) - 1)):
        return None
    ver = data[0]
    if ver > 16 or not 2 <= len(prog) <= 40:
        return None
    if ver == 0 and len(prog) not in (20, 32):
        return None
    if (ver == 0) != (c == 1):
        return None
    return ver, prog


def indep_encode(hrp, ver, prog):
    data = [ver]
    acc = bits = 0
    for b in prog:
        acc = (acc << 8) | b
        bits += 8
        while bits >= 5:
            bits -= 5
            data.append((acc >> bits) & 31)
    if bits:
        data.append((acc << (5 - bits)) & 31)
    const = 1 if ver == 0 else M_CONST
    pm = polymod([ord(x) >> 5 for x in hrp] + [0] + [ord(x) & 31 for x in hrp] + data + [0] * 6) ^ const
    data += [(pm >> 5 * (5 - i)) & 31 for i in range(6)]
    return hrp + "1" + "".join(B32[d] for d in data)


def legal(hrp, ver, prog):
    if not hrp or any(ord(c) < 33 or ord(c) > 126 or "A" <= c <= "Z" for c in hrp):
        return False
    if ver > 16 or not 2 <= len(prog) <= 40 or (ver == 0 and len(prog) not in (20, 32)):
        return False
    return len(hrp) + 1 + 1 + (len(prog) * 8 + 4) // 5 + 6 <= 90


def _cases_core(rng, tier):
    rb = lambda n: bytes(rng.getrandbits(8) for _ in range(n))
    for ver in range(0, 18):
        for ln in range(0, 43):
            yield "b32_enc %s %d %s" % (sx(rng.choice(["bc", "tb"])), ver, hx(rb(ln))), "enc-exhaustive"
    for ver in (31, 32, 33, 255):
        yield "b32_enc %s %d %s" % (sx("bc"), ver, hx(rb(20))), "enc-bigver"
    hrps = ["bc", "tb", "BC", "Tb", "", "a", "1", "b1c", "x" * 50, "x" * 51, "x" * 83, "bc ", "é", "~", "!", "bcrt", "B"]
    for h in hrps:
        for ver, ln in ((0, 20), (0, 32), (1, 32), (16, 2), (1, 40)):
            yield "b32_enc %s %d %s" % (sx(h), ver, hx(rb(ln))), "enc-hrp"
    # character-class extremes of the case rule: addresses WITHOUT ANY LETTER (prefix of digits / punctuation, every data
    # and checksum symbol one of the nine digit characters of the charset) — found by search over 3-byte programs —,
    # and their all-letter counterparts
    digit_syms = [i for i, c in enumerate(B32) if c.isdigit()]
    letterless = []
    tries = 0
    while len(letterless) < (6 if tier == "quick" else 60) and tries < 400000:
        tries += 1
        hrp = rng.choice(["42", "?", "2-7", "0", "~!", "99"])
        ver = rng.choice([v for v in digit_syms if 1 <= v <= 16])
        syms = [rng.choice(digit_syms) for _ in range(4)] + [rng.choice([v for v in digit_syms if v % 2 == 0])]
        bits = "".join(format(v, "05b") for v in syms)[:24]
        prog = int(bits, 2).to_bytes(3, "big")
        a = indep_encode(hrp, ver, prog)
        if not any(ch.isalpha() for ch in a):
            letterless.append((hrp, ver, prog, a))
    for hrp, ver, prog, a in letterless:
        yield "b32_enc %s %d %s" % (sx(hrp), ver, hx(prog)), "letterless-encode"
        yield "b32_dec %s %s" % (sx(hrp), sx(a)), "letterless-decode"
        yield "b32_raw " + sx(a), "letterless-raw"
    for hrp in ("42", "?", "2-7", "abc", "a1", "1a"):
        for ver, ln in ((0, 20), (1, 32), (5, 3), (16, 2)):
            pr = rb(ln)
            yield "b32_enc %s %d %s" % (sx(hrp), ver, hx(pr)), "hrp-class"
            if legal(hrp, ver, pr):
                a = indep_encode(hrp, ver, pr)
                yield "b32_dec %s %s" % (sx(hrp), sx(a)), "hrp-class-decode"
                yield "b32_dec %s %s" % (sx(hrp.upper()), sx(a.upper())), "hrp-class-decode-upper"
    # total length around the 90-character limit for EVERY program length: the prefix length is chosen so that the
    # address has 88 .. 92 characters
    for ln in ([20, 32, 2, 3, 33, 39, 40] if tier == "quick" else list(range(2, 41))):
        ver = 0 if ln in (20, 32) else rng.choice([1, 2, 16])
        for total in (89, 90, 91, 92):
            hl = total - (1 + 1 + (ln * 8 + 4) // 5 + 6)
            if 1 <= hl <= 90:
                hrp = "".join(rng.choice("abcdefgh") for _ in range(hl))
                pr = rb(ln)
                yield "b32_enc %s %d %s" % (sx(hrp), ver, hx(pr)), "length-limit-%d" % total
                yield "b32_dec %s %s" % (sx(hrp), sx(indep_encode(hrp, ver, pr))), "length-limit-decode-%d" % total
    for a in VALID + INVALID:
        for h in ("bc", "tb"):
            yield "b32_dec %s %s" % (sx(h), sx(a)), "dec-vector"
        yield "b32_raw " + sx(a), "raw-vector"
    n = 700 if tier == "quick" else 60000
    for _ in range(n):
        hrp = rng.choice(["bc", "tb"]) if rng.random() < 0.8 else "".join(
            rng.choice("abcxyz019!~") for _ in range(rng.randint(1, 10)))
        ver = rng.choice([0, 0, 1, 1, 2, 16, rng.randint(0, 16)])
        ln = rng.choice([20, 32]) if ver == 0 else rng.choice([2, 20, 32, 33, 40, rng.randint(2, 40)])
        if len(hrp) + 8 + (ln * 8 + 4) // 5 > 90:
            continue
        addr = indep_encode(hrp, ver, rb(ln))
        s = list(addr)
        pos = addr.rfind("1")
        r = rng.random()
        if r < 0.08:
            branch = "dec-valid"
        elif r < 0.55:
            w = rng.choice([1, 1, 2, 2, 3, 3, 4, 4, 4, 5])
            idxs = rng.sample(range(pos + 1, len(s)), w)
            for j in idxs:
                s[j] = rng.choice([c for c in B32 if c != s[j]])
            branch = "dec-subst-%d" % w
        elif r < 0.62:
            j = rng.randrange(len(s))
            s[j] = rng.choice("bio1BIO!_ Q")
            branch = "dec-subst-foreign"
        elif r < 0.7:
            s.insert(rng.randrange(len(s) + 1), rng.choice(B32))
            branch = "dec-insert"
        elif r < 0.78:
            del s[rng.randrange(len(s))]
            branch = "dec-delete"
        elif r < 0.85:
            k = rng.random()
            if k < 0.15:
                s = list(addr[:pos].upper() + addr[pos:])          # case changes exactly at the separator
            elif k < 0.3:
                s = list(addr[:pos + 1] + addr[pos + 1:].upper())
            elif k < 0.4:
                s = list(addr.upper())
            elif k < 0.7:
                j = rng.randrange(len(s))
                s[j] = s[j].upper()
            else:
                s = [c.upper() if rng.random() < 0.5 else c for c in s]
            branch = "dec-case"
        elif r < 0.92:
            # re-checksum with the other constant
            data = [B32.find(c) for c in addr[pos + 1:-6]]
            const = M_CONST if ver == 0 else 1
            pm = polymod([ord(x) >> 5 for x in hrp] + [0] + [ord(x) & 31 for x in hrp] + data + [0] * 6) ^ const
            s = list(hrp + "1" + "".join(B32[d] for d in data + [(pm >> 5 * (5 - i)) & 31 for i in range(6)]))
            branch = "dec-const-swap"
        else:
            # valid checksum over tampered padding / version / length
            data = [B32.find(c) for c in addr[pos + 1:-6]]
            k = rng.random()
            if k < 0.3 and len(data) > 1:
                data[-1] ^= rng.choice([1, 2, 3])
            elif k < 0.5:
                data.append(0)                       # one more all-zero group: over-long (>= 5 bit) zero padding
            elif k < 0.7:
                data.append(rng.randrange(32))
            else:
                data[0] = rng.choice([17, 18, 31])
            const = 1 if data[0] == 0 else M_CONST
            pm = polymod([ord(x) >> 5 for x in hrp] + [0] + [ord(x) & 31 for x in hrp] + data + [0] * 6) ^ const
            s = list(hrp + "1" + "".join(B32[d] for d in data + [(pm >> 5 * (5 - i)) & 31 for i in range(6)]))
            branch = "dec-tampered-rechecksummed"
        s = "".join(s)
        yield "b32_dec %s %s" % (sx(hrp if rng.random() < 0.9 else rng.choice(["bc", "tb", "x"])), sx(s)), branch
    for _ in range(100 if tier == "quick" else 3000):
        vs = [rng.randrange(32) for _ in range(rng.randint(0, 40))]
        yield "polymod " + impl.lst(str, vs), "polymod"
        f, t = rng.choice([(8, 5), (5, 8)])
        vs = [rng.randrange(1 << f) for _ in range(rng.randint(0, 45))]
        if rng.random() < 0.1 and vs:
            vs[rng.randrange(len(vs))] = 1 << f
        yield "convertbits %s %d %d %s" % (impl.lst(str, vs), f, t, rng.choice("01")), "convertbits"
    # prefix relations: a checksum-valid address whose REAL prefix extends the requested one ("bc" + "1" + more, the
    # separator being the LAST '1'), is a proper prefix of it, or differs in one character — asked for under `hrp`
    for hrp_ in ("bc", "tb", "bcrt"):
        for _ in range(3 if tier == "quick" else 40):
            ver_ = rng.choice([0, 1, 16])
            prog_ = rb(rng.choice([20, 32]) if ver_ == 0 else rng.choice([2, 20, 32, 40]))
            ext = "".join(rng.choice(B32.replace("1", "") + "1") for _ in range(rng.randint(0, 4)))
            for real in (hrp_ + "1" + ext, hrp_ + "11", hrp_[:-1], hrp_ + rng.choice("qpzx"), "1" + hrp_, hrp_ + "1"):
                if not real or len(real) > 60:
                    continue
                a = indep_encode(real, ver_, prog_)
                if a is None:
                    continue
                yield "b32_dec %s %s" % (sx(hrp_), sx(a)), "hrp-prefix-relation"
                yield "b32_dec %s %s" % (sx(hrp_), sx(a.upper())), "hrp-prefix-relation"
                yield "b32_dec %s %s" % (sx(real), sx(a)), "hrp-prefix-relation-own"
    # ZERO checksum register: prefixes after whose expansion the 30-bit register is exactly 0 (solved by linear algebra
    # over GF(2), the register being affine in the input bits), and programs after which it is 0 just before the six
    # checksum symbols — a register value a resumable / short-cut implementation confuses with "not started"
    for hrp_ in zero_register_hrps(rng, 3 if tier == "quick" else 25):
        for ver_ in (0, 1, rng.randrange(2, 17)):
            prog_ = rb(rng.choice([20, 32]) if ver_ == 0 else rng.choice([2, 20, 32, 40]))
            a = indep_encode(hrp_, ver_, prog_)
            yield "b32_enc %s %d %s" % (sx(hrp_), ver_, hx(prog_)), "zero-register-hrp-encode"
            yield "b32_dec %s %s" % (sx(hrp_), sx(a)), "zero-register-hrp-decode"
            j_ = rng.randrange(len(hrp_) + 1, len(a))
            bad = a[:j_] + rng.choice([c for c in B32 if c != a[j_]]) + a[j_ + 1:]
            yield "b32_dec %s %s" % (sx(hrp_), sx(bad)), "zero-register-hrp-decode-bad"
        yield "polymod " + impl.lst(str, [ord(x) >> 5 for x in hrp_] + [0] + [ord(x) & 31 for x in hrp_]), "zero-register-polymod"
    for hrp_ in ("bc", "tb"):
        for ver_, nb in ((0, 20), (0, 32), (1, 32)) if tier == "quick" else ((0, 20), (0, 32), (1, 32), (16, 40), (2, 20)):
            prog_ = zero_register_program(rng, hrp_, ver_, nb)
            if prog_ is None:
                continue
            a = indep_encode(hrp_, ver_, prog_)
            yield "b32_enc %s %d %s" % (sx(hrp_), ver_, hx(prog_)), "zero-register-program-encode"
            yield "b32_dec %s %s" % (sx(hrp_), sx(a)), "zero-register-program-decode"
            j_ = rng.randrange(len(hrp_) + 1, len(a))
            bad = a[:j_] + rng.choice([c for c in B32 if c != a[j_]]) + a[j_ + 1:]
            yield "b32_dec %s %s" % (sx(hrp_), sx(bad)), "zero-register-program-decode-bad"
    # a valid address with one line terminator / blank / control / invisible character in front of it or behind it
    for hrp_, ver_, ln_ in (("bc", 0, 20), ("tb", 0, 32), ("bc", 1, 32), ("bcrt", 16, 2)):
        good = indep_encode(hrp_, ver_, rb(ln_))
        for bad in common.edge_variants(good):
            yield "b32_dec %s %s" % (sx(hrp_), sx(bad)), "edge-character"
            yield "b32_raw " + sx(bad), "edge-character-raw"
        yield "b32_dec %s %s" % (sx(hrp_ + "\n"), sx(good)), "edge-character-hrp"
    long_ = indep_encode("x" * 40, 1, rb(26))
    yield "b32_dec %s %s" % (sx("x" * 40), sx(long_)), "dec-len-%d" % len(long_)
    long_ = indep_encode("x" * 41, 1, rb(26))
    yield "b32_dec %s %s" % (sx("x" * 41), sx(long_)), "dec-len-%d" % len(long_)


def nontrivial(line, out):
    return True


def oracle(line, out):
    tok = line.split(" ")
    op = tok[0]
    v = ok_val(out)
    if op == "b32_enc":
        hrp, ver, prog = unstr(tok[1]), int(tok[2]), unhex(tok[3])
        if not legal(hrp, ver, prog):
            return None if v is None else "address produced for an illegal hrp/version/length combination"
        if v is None:
            return "no address for a legal version/program"
        s = unstr(v)
        if s != indep_encode(hrp, ver, prog):
            return "address differs from BIP173/BIP350 reference encoding (wrong constant or layout)"
        if indep_decode(hrp, s) != (ver, list(prog)):
            return "address does not decode back (independent decoder)"
        back = impl.run("b32_dec %s %s" % (tok[1], v))
        if back != "ok %d %s" % (ver, impl.lst(str, prog)):
            return "decode(encode(v, prog)) != (v, prog): %s" % back[:80]
        return None
    if op == "convertbits":
        vals, f, t, pad = impl.unlist(int, tok[1]), int(tok[2]), int(tok[3]), tok[4] == "1"
        if any(x >> f for x in vals):
            return None if v is None else "out-of-range symbol accepted by convertbits"
        bits = "".join(format(x, "0%db" % f) for x in vals)
        if pad:
            full = bits + "0" * (-len(bits) % t)
            want = [int(full[i:i + t], 2) for i in range(0, len(full), t)]
        else:
            rem = len(bits) % t
            if rem >= f or (rem and int(bits[-rem:], 2) != 0):
                want = None
            else:
                want = [int(bits[i:i + t], 2) for i in range(0, len(bits) - rem, t)]
        if want is None:
            return None if v is None else "convertbits accepted non-zero or over-long padding (%d leftover bits)" % (len(bits) % t)
        if v is None or impl.unlist(int, v) != want:
            return "convertbits result differs from plain bit regrouping"
        return None
    if op == "b32_dec":
        hrp, s = unstr(tok[1]), unstr(tok[2])
        want = indep_decode(hrp, s)
        if want is None:
            return None if v is None else "invalid segwit address accepted: %r -> %s" % (s, v[:60])
        if v is None:
            return "valid segwit address rejected: %r" % s
        if v != "%d %s" % (want[0], impl.lst(str, want[1])):
            return "decoded to a different version/program"
        return None
    return None


def extra_checks(rng, tier, g, info):
    """End-to-end confirmation of the error-detection clause on sampled addresses, against the real decoder:
    <=3 substitutions are always rejected; 4 only with a version-0 <-> non-zero switch."""
    import btc_hd_wallet.bech32 as b
    n = 1500 if tier == "quick" else 100000
    tried = 0
    for _ in range(n):
        hrp = rng.choice(["bc", "tb"])
        ver = rng.choice([0, 1, 2, 16])
        prog = bytes(rng.getrandbits(8) for _ in range(rng.choice([20, 32]) if ver == 0 else rng.choice([2, 20, 32, 40])))
        addr = b.encode(hrp, ver, prog)
        if addr is None:
            continue
        w = rng.choice([1, 2, 3, 4])
        s = list(addr)
        for j in rng.sample(range(3, len(s)), w):
            s[j] = rng.choice([c for c in B32 if c != s[j]])
        s2 = "".join(s)
        tried += 1
        got = b.decode(hrp, s2)
        if got != (None, None):
            v2 = got[0]
            if w <= 3 or (ver == 0) == (v2 == 0):
                yield ("b32_dec %s %s" % (sx(hrp), sx(s2)),
                       "%d-character substitution of valid address %s accepted as version %s" % (w, addr, v2))
    info["substitution_samples"] = tried
    # exhaustive over the WHOLE printable alphabet (not only the 32 data characters): every single substitution at
    # every position, and every substitution of two ADJACENT characters inside the checksum and across the
    # data/checksum boundary (thorough: at every position) — characters outside the charset must reject, whatever
    # stands next to them
    printable = [chr(c) for c in range(33, 127)]
    ex = 0
    samples = [("bc", 0, bytes(range(20))), ("tb", 1, bytes(rng.getrandbits(8) for _ in range(32)))]
    if tier == "thorough":
        samples += [(rng.choice(["bc", "tb"]), rng.choice([0, 1, 16]), bytes(rng.getrandbits(8) for _ in range(20)))
                    for _ in range(4)]
    for hrp, ver, prog in samples:
        if ver == 0 and len(prog) not in (20, 32):
            continue
        addr = b.encode(hrp, ver, prog)
        if addr is None:
            continue
        want = b.decode(hrp, addr)
        L = len(addr)
        pos = list(range(L))
        pair_pos = range(L - 8, L - 1) if tier == "quick" else range(0, L - 1)

        def bad(s2, why):
            got = b.decode(hrp, s2)
            if got != (None, None) and not (s2.lower() == addr and got == want):
                return ("b32_dec %s %s" % (sx(hrp), sx(s2)), "%s of valid address %s accepted as %s" % (why, addr, got[0]))
            return None
        for j in pos:
            for c in printable:
                if c != addr[j]:
                    ex += 1
                    r = bad(addr[:j] + c + addr[j + 1:], "1-character substitution (full printable alphabet)")
                    if r:
                        yield r
        for j in pair_pos:
            found = 0
            for c in printable:
                if c == addr[j]:
                    continue
                for d in printable:
                    if d == addr[j + 1]:
                        continue
                    ex += 1
                    r = bad(addr[:j] + c + d + addr[j + 2:], "2 adjacent substitutions (full printable alphabet)")
                    if r and found < 2:
                        found += 1
                        yield r
    info["exhaustive_printable_substitutions"] = ex
    # characters that only LOOK right to a str method: every character of the address (lower- and upper-case form)
    # replaced by each non-ASCII character that lower()/upper()/casefold()/NFKC maps onto it or onto its other case
    look = common.unicode_lookalikes()
    nl = 0
    for hrp, ver, prog in samples[:2 if tier == "quick" else 6]:
        addr = b.encode(hrp, ver, prog)
        if addr is None:
            continue
        for form in (addr, addr.upper()):
            want = b.decode(hrp, form)
            for j, ch in enumerate(form):
                for target in {ch, ch.lower(), ch.upper()}:
                    for sub in look.get(target, []):
                        s2 = form[:j] + sub + form[j + 1:]
                        nl += 1
                        got = b.decode(hrp, s2)
                        if got != (None, None):
                            yield ("b32_dec %s %s" % (sx(hrp), sx(s2)),
                                   "address with the non-ASCII character U+%04X in place of %r accepted as version %s"
                                   % (ord(sub), ch, got[0]))
                            break
    info["unicode_lookalike_substitutions"] = nl


def deep_search(rng, tier, g, cand):
    """Something broke.  (1) the oracle on the disagreeing cases; (2) if the generator words or the Bech32m constant
    differ from the BIP173/BIP350 values, a meet-in-the-middle search over the IMPLEMENTATION's own polymod for an
    undetected error pattern of weight <= 4 at length 71, turned into a concrete address pair."""
    import btc_hd_wallet.bech32 as b
    for l in cand:
        msg = oracle(l, impl.run(l))
        if msg:
            yield l, msg
            return
    if g and list(g.get("polymodGen", GEN)) == GEN and g.get("bech32mConst", M_CONST) == M_CONST:
        return
    L = 71
    zero = b.bech32_polymod([0] * L)
    single = []                                   # (syndrome, position, symbol-difference)
    base = [0] * L
    for i in range(L):
        for a in range(1, 32):
            base[i] = a
            single.append((b.bech32_polymod(base) ^ zero, i, a))
            base[i] = 0
    hit = None
    seen1 = {}
    for s1, i, a in single:
        if s1 == 0:
            hit = {i: a}
            break
        seen1.setdefault(s1, (i, a))
    if hit is None:
        pairs = {}
        for x in range(len(single)):
            s1, i1, a1 = single[x]
            for y in range(x + 1, len(single)):
                s2, i2, a2 = single[y]
                if i1 == i2:
                    continue
                sm = s1 ^ s2
                if sm == 0:
                    hit = {i1: a1, i2: a2}
                    break
                if sm in seen1 and seen1[sm][0] not in (i1, i2):
                    hit = {i1: a1, i2: a2, seen1[sm][0]: seen1[sm][1]}
                    break
                q = pairs.get(sm)
                if q is not None and not ({q[0], q[2]} & {i1, i2}):
                    hit = {i1: a1, i2: a2, q[0]: q[1], q[2]: q[3]}
                    break
                if q is None:
                    pairs[sm] = (i1, a1, i2, a2)
            if hit:
                break
    if not hit:
        return
    hrp = "bc"
    addr = b.encode(hrp, 1, bytes(range(40)))     # 71 data symbols
    if not addr:
        return
    pos = addr.rfind("1")
    s = list(addr)
    for i, a in hit.items():
        j = pos + 1 + i
        s[j] = b.CHARSET[b.CHARSET.find(s[j]) ^ a]
    s2 = "".join(s)
    if s2 != addr and b.decode(hrp, s2) != (None, None):
        yield ("b32_dec %s %s" % (sx(hrp), sx(s2)),
               "undetected %d-symbol substitution: %s and %s both decode" % (len(hit), addr, s2))


known_match = common.no_known


def literal_ops(lit):
    if lit <= 45:
        yield "b32_enc %s 1 %s" % (sx("bc"), hx(bytes(range(lit))))
        yield "b32_enc %s 0 %s" % (sx("tb"), hx(bytes(lit)))
    if lit <= 40:
        yield "b32_enc %s %d %s" % (sx("bc"), lit, hx(bytes(20)))
    if lit <= 84:
        yield "b32_enc %s 1 %s" % (sx("x" * lit), hx(bytes(20)))


def _gf2_solve(cols, target, nbits=30):
    """x (bit list) with XOR of cols[j] for x[j]=1 equal to target; returns (particular solution, nullspace basis) or None"""
    rows = []           # (vector, combination mask)
    piv = {}
    null = []
    for j, c in enumerate(cols):
        v, m = c, 1 << j
        for b in range(nbits - 1, -1, -1):
            if not (v >> b) & 1:
                continue
            if b in piv:
                pv, pm_ = piv[b]
                v ^= pv
                m ^= pm_
            else:
                piv[b] = (v, m)
                break
        if v == 0:
            null.append(m)
    v, m = target, 0
    for b in range(nbits - 1, -1, -1):
        if (v >> b) & 1:
            if b not in piv:
                return None
            pv, pm_ = piv[b]
            v ^= pv
            m ^= pm_
    return m, null


def zero_register_hrps(rng, count, L=8):
    """lower-case prefixes of L letters with polymod(hrp_expand(prefix)) == 0"""
    def f(lows):
        return polymod([3] * L + [0] + lows)
    base = f([0] * L)
    cols = []
    for i in range(L):
        for b in range(5):
            lows = [0] * L
            lows[i] = 1 << b
            cols.append(f(lows) ^ base)
    sol = _gf2_solve(cols, base)
    if sol is None:
        return []
    m0, null = sol
    out = []
    for _ in range(4000):
        m = m0
        for nv in null:
            if rng.random() < 0.5:
                m ^= nv
        lows = [(m >> (5 * i)) & 31 for i in range(L)]
        if all(1 <= v <= 26 for v in lows):
            h = "".join(chr(96 + v) for v in lows)
            if polymod([ord(x) >> 5 for x in h] + [0] + [ord(x) & 31 for x in h]) == 0 and h not in out:
                out.append(h)
                if len(out) >= count:
                    break
    return out


def zero_register_program(rng, hrp, ver, nbytes):
    """a witness program of nbytes bytes such that the register is 0 after prefix + version + program symbols"""
    nsym = (nbytes * 8 + 4) // 5
    pad = nsym * 5 - nbytes * 8
    head = [ord(x) >> 5 for x in hrp] + [0] + [ord(x) & 31 for x in hrp] + [ver]
    for _ in range(40):
        free = [rng.randrange(32) for _ in range(nsym - 7)]

        def f(tail):
            return polymod(head + free + tail)
        base = f([0] * 7)
        cols = []
        for i in range(7):
            for b in range(5):
                if i == 6 and b < pad:
                    continue            # padding bits stay zero
                t_ = [0] * 7
                t_[i] = 1 << b
                cols.append((f(t_) ^ base, i, b))
        sol = _gf2_solve([c[0] for c in cols], base)
        if sol is None:
            continue
        m = sol[0]
        tail = [0] * 7
        for j, (_, i, b) in enumerate(cols):
            if (m >> j) & 1:
                tail[i] |= 1 << b
        syms = free + tail
        if polymod(head + syms) != 0:
            continue
        bits = 0
        for v in syms:
            bits = (bits << 5) | v
        return (bits >> pad).to_bytes(nbytes, "big")
    return None


def cases(rng, tier):
    from . import extra
    yield from _cases_core(rng, tier)
    yield from extra.cases_for('b32addr', rng, tier)
