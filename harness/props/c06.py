"""C06 — Paper-wallet records are mutually consistent and follow BIP44/49/84."""
import hashlib
import json
from .common import *  # noqa: F401,F403
from . import common
from .c01 import spec_ckd_priv
from .c03 import indep_seed, indep_master, nf
from .c05 import expected, h160
from .c09 import point, sec_c
from .c11 import indep_decode
import impl

PID = "C06"
LEAN_MODULES = ["BtcHd.Props.C06", "BtcHd.Props.C06Json"]
LEAN_MODULES_THOROUGH = ['BtcHd.Props.TrWallet', 'BtcHd.Props.TrPaper', 'BtcHd.Props.TrText']
TRUSTED_BASE = common.CORE_TRUSTED + [
    "the JSON text layer is modelled (Model/JsonText.lean: dumps with CPython's ensure_ascii escaping and indent "
    "layout, loads for the emitted subset), proved to round-trip for every value, and compared with CPython's "
    "json.dumps / json.loads text-for-text on generated reports with Unicode passphrases"]
ASSUMPTIONS = ["CPython json round-trips str/list/dict/None values"]
RULE = ("wallets from mnemonic/entropy/seed on both networks; accounts {0,1,2^31-2,2^31-1,random}; intervals empty, "
        "single, (0,k), large offsets, ending at 2^31; non-trivial = distinct report with at least one row")
H = 2 ** 31
SLIP = {(44, False): (0x0488B21E, 0x0488ADE4), (49, False): (0x049D7CB2, 0x049D7878), (84, False): (0x04B24746, 0x04B2430C),
        (44, True): (0x043587CF, 0x04358394), (49, True): (0x044A5262, 0x044A4E28), (84, True): (0x045F1CF6, 0x045F18BC)}
MN = "abandon abandon abandon abandon abandon abandon abandon abandon abandon abandon abandon about"


def wspecs(rng, n):
    out = []
    for _ in range(n):
        r = rng.random()
        t = rng.choice("01")
        if r < 0.4:
            p = rng.choice(["", "TREZOR", "é", "pass phrase", " lead", "trail ", "\ttab\n", "  "])
            out.append("mn:%s:%s:%s:%s:%s" % (sx(MN), sx(MN), sx(p), sx(nf(p)), t))
        elif r < 0.7:
            e = bytes(rng.getrandbits(8) for _ in range(rng.choice([16, 24, 32]))).hex()
            out.append("ent:%s:-:-:%s" % (sx(e), t))
        else:
            out.append("seedb:%s:%s" % (hx(bytes(rng.getrandbits(8) for _ in range(rng.choice([16, 32, 64])))), t))
    return out


def intervals(rng):
    if rng.random() < 0.5:
        a = rng.choice([0, 0, 1, 7, 2 ** 31 - 9])
        return (a, a + rng.randint(0, 8))       # every small row count, incl. 4 (= number of columns of a row)
    return rng.choice([(0, 0), (0, 1), (0, 2), (0, 3), (5, 5), (5, 6), (7, 9), (H - 2, H), (H - 1, H), (1000000, 1000002),
                       (3, 2), (rng.randrange(H - 3), 0)])


def fp_leading_zero_seeds(rng, n):
    """seeds whose master fingerprint starts with a zero nibble / zero byte (formatting corner)"""
    out = []
    i = 0
    while len(out) < n and i < 3000:
        i += 1
        sd = bytes(rng.getrandbits(8) for _ in range(16))
        mk = indep_master(sd)
        if mk is None:
            continue
        x, y = point(int.from_bytes(mk[0], "big"))
        fp = h160(sec_c(x, y))[:4]
        if fp[0] < 16:
            out.append(sd)
    return out


def _cases_core(rng, tier):
    n = 14 if tier == "quick" else 600
    for sd in fp_leading_zero_seeds(rng, 2 if tier == "quick" else 20):
        yield "wasabi seedb:%s:%s" % (hx(sd), rng.choice("01")), "wasabi-fp-leading-zero"
    for ln in range(0, 9):
        w = wspecs(rng, 1)[0]
        yield "generate %s %d %d %d" % (w, rng.choice([0, 1]), 3, 3 + ln), "generate-rows-%d" % ln
    for p in (" lead", "trail ", "\ttab\n"):       # the passphrase is used and echoed verbatim
        yield "generate mn:%s:%s:%s:%s:%s 0 0 1" % (sx(MN), sx(MN), sx(p), sx(nf(p)), rng.choice("01")), "passphrase-edge-whitespace"
    for _ in range(2 if tier == "quick" else 40):
        w = wspecs(rng, 1)[0]
        ops = []
        for _ in range(rng.randint(3, 5)):
            a = rng.choice([0, 1, 2, 5])
            ops.append("rep:%d:%d:%d" % (rng.choice([0, 0, 1]), a, a + rng.choice([0, 1, 2, 4])))
            if rng.random() < 0.5:
                ops.append("bp:" + sx("m/%d'/%d'/0'/0/%d" % (rng.choice([44, 49, 84]), 1 if w.endswith(":1") else 0,
                                                             rng.choice([0, 3, 9]))))
        yield "hist %s %s" % (w, ";".join(ops)), "one-wallet-object-many-reports"
    # JSON text layer: the rendered text must equal the model's dumps and parse back (both directions)
    for p in ["", "TREZOR", "é \" \\ \n \t \x7f \u2028 日本 🔑", "\x01\x1f/"]:
        w = "mn:%s:%s:%s:%s:%s" % (sx(MN), sx(MN), sx(p), sx(nf(p)), rng.choice("01"))
        for ind in ("-", "4", "0"):
            yield "json_text %s 0 0 %d %s" % (w, rng.choice([0, 1, 2]), ind), "json-text"
    for w in wspecs(rng, n):
        acct = rng.choice([0, 0, 1, H - 2, H - 1, rng.randrange(H)])
        a, b = intervals(rng)
        if b == 0 and a > 0:
            b = a + rng.randint(0, 2)
        yield "generate %s %d %d %d" % (w, acct, a, b), "generate"
        if rng.random() < 0.5:
            yield "wasabi %s" % w, "wasabi"


def nontrivial(line, out):
    return "[[" in out


def derive(k, chain, path):
    cur = (k, chain, 0, 0, None)
    for i in path:
        cur = spec_ckd_priv(cur[0], cur[1], cur[2], i)
    return cur


def master_of(wspec):
    parts = wspec.split(":")
    if parts[0] == "mn":
        seed = indep_seed(unstr(parts[1]), unstr(parts[3]))
        return seed, parts[5] == "1", unstr(parts[1]), unstr(parts[3])
    if parts[0] == "ent":
        from .c12 import mnemonic
        m = mnemonic(bytes.fromhex(unstr(parts[1])))
        return indep_seed(m, unstr(parts[2])), parts[4] == "1", m, unstr(parts[2])
    if parts[0] == "seedb":
        return unhex(parts[1]), parts[2] == "1", None, None
    if parts[0] == "seedh":         # the seed as hex TEXT (bytes.fromhex's language: blanks between byte pairs allowed)
        return bytes.fromhex(unstr(parts[1])), parts[2] == "1", None, None
    if parts[0] == "xkey":          # a depth-0 extended PRIVATE key: the master key is given directly
        pl = b58check_dec(unstr(parts[1]))
        ver = int.from_bytes(pl[:4], "big")
        return ("mk", pl[46:78], pl[13:45]), ver in (0x04358394, 0x044A4E28, 0x045F18BC), None, None
    raise KeyError(parts[0])


def _mk(seed):
    """(master key bytes, chain code) of a wallet: from its seed, or given directly (wallets restored from a key)"""
    return (seed[1], seed[2]) if isinstance(seed, tuple) else indep_master(seed)


def xkey(ver, depth, fp, index, chain, key33):
    return b58check_enc(ver.to_bytes(4, "big") + bytes([depth]) + fp + index.to_bytes(4, "big") + chain + key33)


def check_report(rep, seed, testnet, mn, pw, acct, a, b, filtered=False):
    """Independent recomputation of every row; returns message or None."""
    mk = _mk(seed)
    k0, c0 = int.from_bytes(mk[0], "big"), mk[1]
    coin = 1 if testnet else 0
    if not filtered:
        if rep["MASTER"] != {"mnemonic": mn, "password": pw}:
            return "master block does not echo mnemonic/passphrase"
    for purpose, kind in ((44, "p2pkh"), (49, "p2sh_p2wpkh"), (84, "p2wpkh")):
        blk = rep["BIP%d" % purpose]
        keys = blk["account_extended_keys"]
        path = "m/%d'/%d'/%d'" % (purpose, coin, acct)
        if keys["path"] != path:
            return "account path is %s, expected %s" % (keys["path"], path)
        an = derive(k0, c0, [purpose + H, coin + H, acct + H])
        pubv, prvv = SLIP[(purpose, testnet)]
        x, y = point(an[0])
        if keys["pub"] != xkey(pubv, 3, an[4], acct + H, an[1], sec_c(x, y)):
            return "BIP%d account extended public key is not the SLIP-132 encoding of the account node" % purpose
        if not filtered and keys["prv"] != xkey(prvv, 3, an[4], acct + H, an[1], b"\x00" + an[0].to_bytes(32, "big")):
            return "BIP%d account extended private key wrong" % purpose
        ext = spec_ckd_priv(an[0], an[1], an[2], 0)
        rows = blk["groups"]
        want_idx = list(range(a, b))
        if len(rows) != len(want_idx):
            return "BIP%d has %d rows for interval [%d,%d)" % (purpose, len(rows), a, b)
        for row, i in zip(rows, want_idx):
            shown = "%d'" % (i - H) if i >= H else "%d" % i      # an index >= 2^31 is printed as a hardened component
            if row[0] != "%s/0/%s" % (path, shown):
                return "row path %s, expected %s/0/%s" % (row[0], path, shown)
            ch = spec_ckd_priv(ext[0], ext[1], ext[2], i)
            x, y = point(ch[0])
            sec = sec_c(x, y)
            if row[2] != sec.hex():
                return "row SEC is not the compressed public key at %s" % row[0]
            codec, tag, h = expected(kind, sec, testnet)
            if codec == "b58":
                try:
                    pl = b58check_dec(row[1])
                except ValueError:
                    return "row address is not Base58Check"
                if pl != bytes([tag]) + h:
                    return "BIP%d row address is not the %s address of the key at %s" % (purpose, kind, row[0])
            else:
                d = indep_decode(tag, row[1])
                if d is None or d[0] != 0 or bytes(d[1]) != h:
                    return "BIP%d row address is not the %s address of the key at %s" % (purpose, kind, row[0])
            if not filtered:
                want_wif = b58check_enc((b"\xef" if testnet else b"\x80") + ch[0].to_bytes(32, "big") + b"\x01")
                if row[3] != want_wif:
                    return "row WIF does not decode to the private key at %s" % row[0]
    return None


def from_canon(s):
    """inverse of impl.jsonS"""
    pos = [0]

    def val():
        c = s[pos[0]]
        if c == "n":
            pos[0] += 1
            return None
        if c == "s":
            j = pos[0] + 1
            while j < len(s) and s[j] not in ",]}:":
                j += 1
            tok = s[pos[0] + 1:j]
            pos[0] = j
            return unstr(tok)
        if c == "[":
            pos[0] += 1
            out = []
            while s[pos[0]] != "]":
                out.append(val())
                if s[pos[0]] == ",":
                    pos[0] += 1
            pos[0] += 1
            return out
        if c == "{":
            pos[0] += 1
            out = {}
            while s[pos[0]] != "}":
                j = s.index(":", pos[0])
                k = unstr(s[pos[0]:j])
                pos[0] = j + 1
                out[k] = val()
                if s[pos[0]] == ",":
                    pos[0] += 1
            pos[0] += 1
            return out
        raise ValueError(s[pos[0]:pos[0] + 10])
    return val()


def oracle(line, out):
    tok = line.split(" ")
    v = ok_val(out)
    if tok[0] == "hist":
        if v is None:
            return "history failed"
        seed, testnet, mn, pw = master_of(tok[1])
        if _mk(seed) is None:
            return None
        for o, res in zip(tok[2].split(";"), v.split(" ; ")):
            if o.startswith("rep:"):
                _, acct, a, b = o.split(":")
                if res == "err":
                    return "report request %s on a reused wallet object failed" % o
                msg = check_report(from_canon(res), seed, testnet, mn, pw, int(acct), int(a), int(b))
                if msg:
                    return "on a wallet object used before (%s): %s" % (tok[2], msg)
        return None
    if tok[0] == "generate_seq":
        if v is None:
            return "two reports in a row failed"
        r1, r2 = v.split(" ")
        w2 = tok[1] if tok[5] == "same" else tok[5]
        for which, args, r in (("first (inspected after the second was produced)", tok[1:5], r1),
                               ("second", [w2] + tok[6:9], r2)):
            seed, testnet, mn, pw = master_of(args[0])
            if _mk(seed) is None:
                continue
            msg = check_report(from_canon(r), seed, testnet, mn, pw, int(args[1]), int(args[2]), int(args[3]))
            if msg:
                return "%s report: %s" % (which, msg)
        return None
    if tok[0] == "json_text":
        if v is None:
            return "JSON rendering failed"
        text = unstr(v)
        wal = impl.make_wallet(tok[1])
        data = wal.generate(account=int(tok[2]), interval=(int(tok[3]), int(tok[4])))
        if json.loads(text) != json.loads(json.dumps(data)):
            return "the JSON rendering does not parse back to the generated data"
        back = impl.run("json_loads " + sx(text))
        if back != "ok " + impl.jsonS(data):
            return "json.loads of the rendering differs from the data"
        return None
    if tok[0] == "paper_text":
        # the text layer: json() / pprint() (standard output) / export_wallet() (the file as read back; for half of the
        # cases the path already held an older, longer export) must parse back to exactly the data
        kind, w, dspec = tok[1], tok[2], tok[3]
        if v is None or dspec.startswith("p:"):
            return None
        try:
            wal = impl.make_wallet(w)
        except Exception:
            return None
        if dspec in ("-", "empty"):
            data = wal.generate()
        else:
            acct, lo, hi = dspec.split(":")
            data = wal.generate(account=int(acct), interval=(int(lo), int(hi)))
        text = unstr(v)
        try:
            back = json.loads(text)
        except ValueError as e:
            return "what %s wrote is not a JSON document (%s): ...%r" % (kind, e, text[-40:])
        if back != json.loads(json.dumps(data)):
            return "what %s wrote does not parse back to the report data" % kind
        return None
    if tok[0] == "generate":
        w, acct, a, b = tok[1], int(tok[2]), int(tok[3]), int(tok[4])
        seed, testnet, mn, pw = master_of(w)
        if _mk(seed) is None:
            return None
        if v is None:
            return "generate failed for a valid wallet/account/interval"
        rep = from_canon(v)
        msg = check_report(rep, seed, testnet, mn, pw, acct, a, b)
        if msg:
            return msg
        wal = impl.make_wallet(w)
        data = wal.generate(account=acct, interval=(a, b))
        if json.loads(wal.json(data)) != json.loads(json.dumps(data)) or json.loads(wal.json(data)) != rep:
            return "JSON rendering does not parse back to the same data"
        return None
    if tok[0] == "wasabi":
        seed, testnet, mn, pw = master_of(tok[1])
        mk = indep_master(seed)
        if mk is None:
            return None
        if v is None:
            return "wasabi export failed"
        rep = from_canon(v)
        k0 = int.from_bytes(mk[0], "big")
        an = derive(k0, mk[1], [84 + H, H, H])
        x, y = point(an[0])
        pubv = 0x043587CF if testnet else 0x0488B21E
        if rep.get("ExtPubKey") != xkey(pubv, 3, an[4], H, an[1], sec_c(x, y)):
            return "Wasabi ExtPubKey is not the extended public key at m/84'/0'/0'"
        x0, y0 = point(k0)
        if rep.get("MasterFingerprint") != h160(sec_c(x0, y0))[:4].hex().upper():
            return "Wasabi MasterFingerprint is not the master key's fingerprint"
        return None
    return None


known_match = common.no_known


def _seq_cases(rng, tier):
    """two reports in one process (other wallet, or the same wallet object); the first is looked at afterwards"""
    n = 2 if tier == "quick" else 40
    ws = wspecs(rng, 2 * n)
    for i in range(n):
        yield "generate_seq %s 0 0 2 %s %d 0 3" % (ws[2 * i], ws[2 * i + 1], rng.choice([0, 1])), "held-report-other-wallet"
        yield "generate_seq %s 0 0 2 same %d %d %d" % (ws[2 * i], rng.choice([0, 1]), *rng.choice([(0, 2), (1, 4)])), "held-report-same-wallet"
    # wallets whose MASTER keys share the 4-byte fingerprint (corpus of colliding keys, restored from depth-0 extended
    # private keys), reports for the same account back to back in one process: nothing may be remembered per fingerprint
    pairs = common.fp_pairs()
    for ka, kb in (pairs[:2] if tier == "quick" else pairs[:10]):
        for ca, cb in ((bytes(range(32)), bytes(range(32))), (bytes(range(32)), bytes(range(1, 33)))):
            t = rng.random() < 0.3
            ver = 0x04358394 if t else 0x0488ADE4
            xa = xkey(ver, 0, bytes(4), 0, ca, b"\x00" + ka.to_bytes(32, "big"))
            xb = xkey(ver, 0, bytes(4), 0, cb, b"\x00" + kb.to_bytes(32, "big"))
            acct = rng.choice([0, 1, 7])
            yield "generate_seq xkey:%s %d 0 2 xkey:%s %d 0 2" % (sx(xa), acct, sx(xb), acct), "fingerprint-collision-wallets"


def extra_checks(rng, tier, g, info):
    """long-lived wallet object: the chain nodes a report runs through are used heavily first (S distinct children
    derived under each external-chain node, S above every small literal of the source, common.soak_size), then
    reports for early / middle / late intervals are produced on the SAME wallet object and recomputed independently"""
    # LONG intervals whose length is a power of two / a size literal of the source (a page or batch size in the code is
    # met exactly): one row per index, in order
    import check as _check
    lens_ = sorted(set([1024] + [v for v in _check.source_literals(PID) + _check.source_literals("C01") if 256 <= v <= 2048]))
    lens_ = lens_ if tier == "thorough" else [1024]
    for L_ in lens_:
        w_ = impl.make_wallet("seedb:%s:%s" % (hx(bytes(range(32))), rng.choice("01")))
        a_ = rng.choice([0, 7])
        rep_ = w_.generate(account=0, interval=(a_, a_ + L_))
        for pu in ("BIP44", "BIP49", "BIP84"):
            rows = rep_[pu]["groups"]
            idxs = [r[0].rsplit("/", 1)[1] for r in rows]
            if idxs != [str(i_) for i_ in range(a_, a_ + L_)]:
                yield ("generate seedb:%s:%s 0 %d %d" % (hx(bytes(range(32))), "1" if w_.testnet else "0", a_, a_ + L_),
                       "%s lists %d rows for the %d indexes of the interval (not exactly one per index, in order)" % (
                           pu, len(rows), L_))
                return
    info["long_interval_lengths"] = lens_
    S = common.soak_size(PID, tier)
    sd = bytes(rng.getrandbits(8) for _ in range(32))
    t = rng.choice("01")
    spec = "seedb:%s:%s" % (hx(sd), t)
    w = impl.make_wallet(spec)
    coin = 1 if t == "1" else 0
    pumped = 0
    for purpose in (44, 49, 84):
        node = w.by_path("m/%d'/%d'/0'/0" % (purpose, coin))
        for i in range(S if purpose == 84 else S // 8):
            node.ckd(i)
            pumped += 1
    # also through generate itself (fewer rows: each row costs three addresses)
    w.generate(account=0, interval=(0, 40 if tier == "quick" else 400))
    seed, testnet, mn, pw = master_of(spec)
    for a, b in ((0, 2), (5, 8), (S // 8 - 2, S // 8 + 1), (S - 3, S), (S, S + 2)):
        try:
            rep = json.loads(json.dumps(w.generate(account=0, interval=(a, b))))
        except Exception as e:
            yield ("# soak: wallet %s after %d derivations, generate(0, (%d, %d))" % (spec, pumped, a, b),
                   "report failed on a heavily used wallet object: %r" % e)
            break
        msg = check_report(rep, seed, testnet, mn, pw, 0, a, b)
        if msg:
            yield ("# soak: wallet %s, %d children derived under its external-chain nodes, then generate(0, (%d, %d))"
                   % (spec, pumped, a, b), "on a heavily used wallet object: " + msg)
            break
    info["soak_children_per_node"] = S
    info["soak_derivations"] = pumped


def literal_str_ops(txt):
    """string literals of the source (markers, separators, key names; placeholders filled in) as passphrase: the report
    and its JSON text must treat them like any other text"""
    try:
        n_ = nf(txt)
        txt.encode("utf-8")
    except Exception:
        return
    w = "mn:%s:%s:%s:%s:0" % (sx(MN), sx(MN), sx(txt), sx(n_))
    yield "json_text %s 0 0 1 4" % w
    yield "json_text %s 0 0 2 -" % w


LITERAL_STR_BUDGET = 60


def literal_ops(lit):
    """account numbers and row indexes equal to the integer literals of the source (purpose numbers, coin types, …)"""
    w = "seedb:%s:%s" % (hx(bytes(range(16, 48))), "01"[lit % 2])
    if lit < 2 ** 31:
        yield "generate %s %d %d %d" % (w, lit, lit, lit + 1)
    if 2 <= lit <= 4096:
        # ... and interval LENGTHS equal to the literal (and to twice it): a page / batch size in the code is met exactly
        yield "generate %s 0 %d %d" % (w, 7, 7 + lit)
        if lit <= 1024:
            yield "generate %s 1 0 %d" % (w, 2 * lit)


LITERAL_BUDGET = 40


def _hex_text_wallets(rng, tier):
    """wallets from hex TEXT with the white space bytes.fromhex tolerates (seed and entropy routes): the records are
    those of the bytes"""
    for _ in range(1 if tier == "quick" else 10):
        sd = bytes(rng.getrandbits(8) for _ in range(rng.choice([16, 32, 64]))).hex()
        e = bytes(rng.getrandbits(8) for _ in range(rng.choice([16, 32]))).hex()
        vs = common.hex_blank_variants(rng, sd, many=(tier == "thorough"))
        ve = common.hex_blank_variants(rng, e, many=(tier == "thorough"))
        if tier == "quick":
            vs, ve = rng.sample(vs, 2), rng.sample(ve, 1)
        for v_ in vs:
            yield "generate seedh:%s:%s %d 0 1" % (sx(v_), rng.choice("01"), rng.choice([0, 3])), "seed-hex-with-blanks"
        for v_ in ve:
            yield "generate ent:%s:-:-:%s 0 0 1" % (sx(v_), rng.choice("01")), "entropy-hex-with-blanks"


def cases(rng, tier):
    from . import extra
    yield from _cases_core(rng, tier)
    yield from _hex_text_wallets(rng, tier)
    yield from _seq_cases(rng, tier)
    yield from extra.cases_for('papertext', rng, tier)
