"""C17 — Path strings are honoured component by component or rejected."""
from .common import *  # noqa: F401,F403
from . import common
import impl

PID = "C17"
LEAN_MODULES = ["BtcHd.Props.C17"]
LEAN_MODULES_THOROUGH = ['BtcHd.Props.TrPath', 'BtcHd.Props.TrWallet', 'BtcHd.Props.TrVersion']
TRUSTED_BASE = common.CORE_TRUSTED
ASSUMPTIONS = ["str.split / int() / str.isdigit / str.isascii of CPython as documented",
               "by-path lookups are compared through the derived node's fields (derivation itself is C01/C02)"]
RULE = ("index lists of length 0..5 over {0,1,2^31-1,2^31,2^31+1,2^32-1,random}, both markers, both roots, "
        "trailing slash; single-fault grammar (sign, blank, underscore, non-ASCII digit, hex, empty inner token, "
        "wrong root, marker only, out-of-range with/without marker); 6..12 levels; non-trivial = distinct "
        "string with at least one component")

VALS = [0, 1, 7, 44, 2 ** 31 - 1, 2 ** 31, 2 ** 31 + 1, 2 ** 32 - 1]
XPRV = "xprv9s21ZrQH143K3QTDL4LXw2F7HEK3wJUD2nW2nRk4stbPy6cq3jPPqjiChkVvvNKmPGJxWUtg6LnF5kejMRNNU3TGtRBeJgk33yuGBxrMPHi"
XPUB = "xpub661MyMwAqRbcFtXgS5sYJABqqG9YLmC4Q1Rdap9gSE8NqtwybGhePY2gZ29ESFjqJoCu1Rupje8YtGqsefD265TMg7usUDFdp6W1EGMcet8"


def _fmt(i, marker):
    return ("%d%s" % (i - 2 ** 31, marker)) if i >= 2 ** 31 else str(i)


def _rand_levels(rng, n):
    return [rng.choice(VALS) if rng.random() < 0.6 else rng.getrandbits(32) for _ in range(n)]


FAULTS = ["-1", "-1'", "-0", "+5", " 5", "5 ", "1_0", "0x10", "1e3", "٣", "²", "１", "", "'", "h", "''", "1''",
          "1h'", "4294967296", "4294967295'", "2147483648'", "2147483648h", "99999999999999999999", "1.0",
          "abc", "m", "１'", "\t1"]


def _cases_core(rng, tier):
    n_rand = 300 if tier == "quick" else 20000
    seen = set()
    for root in ("m", "M"):
        yield "path_parse " + sx(root), "root-only"
        yield "path_parse " + sx(root + "/"), "root-slash"
    for n in range(0, 6):
        for _ in range(8 if tier == "quick" else 200):
            ls = _rand_levels(rng, n)
            marker = rng.choice(["'", "h"])
            root = rng.choice(["m", "M"])
            s = "/".join([root] + [_fmt(i, rng.choice(["'", "h"]) if rng.random() < 0.3 else marker) for i in ls])
            if rng.random() < 0.2:
                s += "/"
            yield "path_parse " + sx(s), "valid-%d" % n
            yield "path_fmt %s %s" % (rng.choice("01"), impl.lst(str, ls)), "fmt-%d" % n
            yield "w_bypath xkey:%s %s" % (sx(XPRV), sx("m" + s[1:])), "bypath-prv"
            if all(i < 2 ** 31 for i in ls):
                yield "w_bypath xkey:%s %s" % (sx(XPUB), sx(s)), "bypath-pub"
    # single faults
    for _ in range(n_rand):
        n = rng.randint(1, 5)
        comps = [_fmt(i, "'") for i in _rand_levels(rng, n)]
        j = rng.randrange(n)
        kind = rng.random()
        root = "m"
        if kind < 0.75:
            comps[j] = rng.choice(FAULTS)
            branch = "fault-component"
        elif kind < 0.85:
            root = rng.choice(["", "x", "mm", "m ", " m", "n", "M'", "/"])
            branch = "fault-root"
        else:
            comps.insert(j, "")
            branch = "fault-empty-inner"
        s = "/".join([root] + comps)
        yield "path_parse " + sx(s), branch
        if rng.random() < 0.3:
            yield "w_bypath xkey:%s %s" % (sx(XPRV), sx(s)), branch + "-bypath"
    # a valid path (and each of its components) with one line terminator / blank / control / invisible character in
    # front of it or behind it
    for good in ("m/44'/0'/0'/0/7", "M/0/1", "m/1h", "m"):
        for bad in common.edge_variants(good):
            yield "path_parse " + sx(bad), "edge-character"
        if tier == "thorough" or good == "M/0/1":
            for bad in common.edge_variants(good):
                yield "w_bypath xkey:%s %s" % (sx(XPRV if good[0] == "m" else XPUB), sx(bad)), "edge-character-bypath"
    parts_ = "m/44'/1/2h".split("/")
    for j_ in range(1, len(parts_)):
        for bad_c in common.edge_variants(parts_[j_]):
            yield "path_parse " + sx("/".join(parts_[:j_] + [bad_c] + parts_[j_ + 1:])), "edge-character-component"
    # look-alikes / case variants of the grammar's own characters (h, ', /, m, M): `44H`, a typographic apostrophe, a
    # full-width solidus, ... must be refused, never read as something else
    look_ = common.unicode_lookalikes()
    marks = ["H", "\u2019", "\u2032", "\u02b9", "`", "\u00b4", "\u02bc", "\uff07"] + look_.get("h", []) + look_.get("H", []) + look_.get("'", [])
    for mk in marks:
        for s_ in ("m/0%s" % mk, "m/44%s/0'/0'" % mk, "m/44'/1%s/2" % mk, "M/7%s" % mk):
            yield "path_parse " + sx(s_), "marker-lookalike"
        yield "w_bypath xkey:%s %s" % (sx(XPRV), sx("m/0%s/1" % mk)), "marker-lookalike-bypath"
    for sl in ["\\", "\uff0f", "\u2215", "\u2044", "|"] + look_.get("/", []):
        yield "path_parse " + sx("m%s0%s1" % (sl, sl)), "separator-lookalike"
    for rt in ["\uff4d", "\uff2d", "\u217f", "\u2133"] + look_.get("m", []) + look_.get("M", []):
        yield "path_parse " + sx(rt + "/0"), "root-lookalike"
    # LONG spellings of ordinary paths: components padded with leading zeros (2..60 digits: int() reads them), so that
    # a five-level path is 60, 100, 300 characters long — every component still counts; and a fault placed far behind
    # the start of such a text (a bad last component, an out-of-range last number) is still a fault
    for _ in range(10 if tier == "quick" else 300):
        n = rng.randint(1, 5)
        ls = _rand_levels(rng, n)
        pads = [rng.choice([1, 2, 9, 10, 11, 20, 60]) for _ in ls]
        comps = []
        for i, pd in zip(ls, pads):
            c_ = _fmt(i, rng.choice(["'", "h"]))
            digits = c_.rstrip("'h")
            comps.append("0" * pd + digits + c_[len(digits):])
        root = rng.choice(["m", "M"])
        s = "/".join([root] + comps)
        yield "path_parse " + sx(s), "zero-padded-long"
        yield "w_bypath xkey:%s %s" % (sx(XPRV), sx("m" + s[1:])), "zero-padded-long-bypath"
        bad_last = rng.choice(["x", "4294967296", "2147483648'", "-1", "", "1 ", "7''"])
        if bad_last == "" and n == 1:
            bad_last = "x"
        yield "path_parse " + sx("/".join([root] + comps[:-1] + ["0" * pads[-1] + bad_last]) if bad_last != "" else
                                 "/".join([root] + comps[:-1] + ["", "1"])), "zero-padded-long-fault-at-end"
        yield "w_bypath xkey:%s %s" % (sx(XPRV), sx("/".join(["m"] + comps[:-1] + ["0" * 30 + "x"]))), "zero-padded-long-fault-bypath"
    # deep paths (K1)
    for depth in range(6, 13):
        for _ in range(3 if tier == "quick" else 40):
            ls = [rng.choice([0, 1, 2, 44]) for _ in range(depth)]
            s = "/".join(["m"] + [str(i) for i in ls])
            yield "path_parse " + sx(s), "deep-%d" % depth
            yield "w_bypath xkey:%s %s" % (sx(XPRV), sx(s)), "deep-bypath"
        yield "path_parse " + sx("m/0/0/0/0/0" + "/" * (depth - 5)), "deep-empty-tail"
        yield "path_parse " + sx("m/0/0/0/0/0" + "/x" * (depth - 5)), "deep-junk-tail"


def nontrivial(line, out):
    return "/" in unstr(line.split(" ")[-1]) if line.startswith(("path_parse", "w_bypath")) else True


def _strict_parse(s):
    """The property's grammar, independently: returns (levels, n_components) or None."""
    parts = s.split("/")
    if parts[0] not in ("m", "M"):
        return None
    comps = parts[1:]
    while comps and comps[-1] == "":      # trailing slash(es): not *inner* empties
        comps = comps[:-1]
    out = []
    for c in comps:
        h = c[-1:] in ("'", "h")
        d = c[:-1] if h else c
        if not d or not all(ch in "0123456789" for ch in d):
            return None
        v = int(d)
        if v >= (2 ** 31 if h else 2 ** 32):
            return None
        out.append(v + 2 ** 31 if h else v)
    return out


def oracle(line, out):
    op = line.split(" ")[0]
    v = ok_val(out)
    if op == "path_parse":
        s = unstr(line.split(" ")[1])
        want = _strict_parse(s)
        if want is None:
            return None if v is None else "malformed path accepted: %r -> %s" % (s, v)
        if v is None:
            # rejecting a well-formed path of more than five levels is allowed ("honoured or rejected")
            return None if len(want) > 5 else "well-formed path of <= 5 levels rejected: %r" % s
        mark, ls = v.split(" ")
        got = impl.unlist(int, ls)
        if mark != s[0]:
            return "root marker not honoured"
        if got != want:
            return "path not honoured component by component: %r -> %s (expected %s)" % (s, got, want)
        # format∘parse identity
        back = impl.run("path_fmt %s %s" % ("1" if mark == "m" else "0", ls))
        canon = "/".join([mark] + [_fmt(i, "'") for i in want])
        if back != "ok " + sx(canon):
            return "formatting the parsed path gives %s, expected %r" % (back, canon)
        return None
    if op == "path_fmt":
        _, pv, ls = line.split(" ")
        levels = impl.unlist(int, ls)
        if v is None:
            return "formatting a valid level list raised"
        back = impl.run("path_parse " + v)
        if back != "ok %s %s" % ("m" if pv == "1" else "M", ls):
            return "parse(format(path)) != path: %s" % back
        return None
    if op == "w_bypath":
        _, w, ps = line.split(" ")
        s = unstr(ps)
        want = _strict_parse(s)
        if want is None:
            return None if v is None else "lookup by malformed path derived a key: %r" % s
        is_pub = unstr(w.split(":")[1]).startswith("xpub")
        if is_pub and any(i >= 2 ** 31 for i in want):
            return None if v is None else "hardened lookup on public wallet produced a key"
        if v is None:
            return None if len(want) > 5 else "lookup by well-formed path failed: %r" % s
        # apply each component in order as a child derivation on a fresh wallet
        wal = impl.make_wallet(w)
        node = wal.master
        for i in want:
            node = node.ckd(i)
        if impl.nodeS(node).split(" ")[:8] != ("N " + v[2:]).split(" ")[:8] and impl.nodeS(node) != v:
            return "by_path(%r) differs from applying each component in order (levels %s)" % (s, want)
        # the node PRINTS as the path it was looked up by (relative to the wallet's root key, whatever that key is)
        if len(want) <= 5:
            shown = unstr(v.split(" ")[8])
            expect = ("M" if is_pub else "m") + "".join(
                "/%d'" % (i - 2 ** 31) if i >= 2 ** 31 else "/%d" % i for i in want)
            if shown != expect:
                return "node looked up by %r prints as %r (expected %r)" % (s, shown, expect)
        return None
    return None


def known_match(line, out, msg, known):
    """K1: components beyond the fifth are never examined — a string with more than five
    components is treated exactly like its first five components (extra levels silently
    dropped, junk or non-empty text there not noticed), provided those five are acceptable."""
    op = line.split(" ")[0]
    if op not in ("path_parse", "w_bypath"):
        return None
    s = unstr(line.split(" ")[-1])
    parts = s.split("/")
    comps = parts[1:]
    while comps and comps[-1] == "":
        comps = comps[:-1]
    if len(comps) <= 5:
        return None
    head = "/".join(parts[:6])
    if _strict_parse(head) is None:
        return None
    real = impl.run("path_parse " + sx(s))
    real_head = impl.run("path_parse " + sx(head))
    if real.startswith("ok") and real == real_head and oracle("path_parse " + sx(head), real_head) is None:
        for k in known:
            if k.get("id") == "K1":
                return k
    return None


def literal_ops(lit):
    for s in ("m/%d" % lit, "m/%d'" % lit, "m/0/%dh" % lit, "M/%d/1" % lit):
        yield "path_parse " + sx(s)
    yield "w_bypath xkey:%s %s" % (sx(XPRV), sx("m/%d" % lit))


def _collision_wallets(rng, tier):
    """wallets (private and watch-only) whose master keys share the 4-byte fingerprint (corpus common.fp_pairs) or are
    the same key under another chain code, looked up by the SAME path strings back to back in one process"""
    from .c09 import point, sec_c
    pairs = common.fp_pairs()
    for ka, kb in (pairs[:2] if tier == "quick" else pairs):
        ch1, ch2 = (bytes(rng.getrandbits(8) for _ in range(32)) for _ in range(2))
        for watch in (False, True):
            sibs = []
            for k, ch in ((ka, ch1), (kb, ch1), (ka, ch2), (ka, ch1)):
                if watch:
                    x, y = point(k)
                    sibs.append(common.xkey_string(0x0488B21E, 0, bytes(4), 0, ch, sec_c(x, y)))
                else:
                    sibs.append(common.xkey_string(0x0488ADE4, 0, bytes(4), 0, ch, b"\x00" + k.to_bytes(32, "big")))
            paths = ["M/0/7", "M/1/2/3", "M/5"] if watch else ["m/84'/0'/0'/0/7", "m/84h/0h/0h/1/0", "m/44'/1", "m/0"]
            for pth in paths:
                for xk in sibs:
                    yield "w_bypath xkey:%s %s" % (sx(xk), sx(pth)), "fp-collision-wallets" + ("-watch" if watch else "")


def _deep_root_wallets(rng, tier):
    """wallets restored from a NON-ROOT extended key (depth 1..5, arbitrary child number), looked up by paths whose
    components are drawn from the key's own metadata (its child number, its depth) as well as other values, at every
    position: what by_path does must not depend on what the wallet key says about itself"""
    from .c09 import point, sec_c
    for _ in range(4 if tier == "quick" else 60):
        k = rng.randrange(1, N)
        chain = bytes(rng.getrandbits(8) for _ in range(32))
        depth = rng.choice([1, 2, 3, 5])
        for watch in (False, True):
            idx = rng.choice([0, 1, 7, 2 ** 31 - 1] + ([] if watch else [2 ** 31, 2 ** 31 + 44]))
            fp = bytes(rng.getrandbits(8) for _ in range(4))
            if watch:
                x, y = point(k)
                xk = common.xkey_string(0x0488B21E, depth, fp, idx, chain, sec_c(x, y))
            else:
                xk = common.xkey_string(0x0488ADE4, depth, fp, idx, chain, b"\x00" + k.to_bytes(32, "big"))

            def comp(v):
                return "%d'" % (v - 2 ** 31) if v >= 2 ** 31 else str(v)
            own = [idx, depth]
            other = [3, 11] + ([] if watch else [2 ** 31 + 2])
            for ln in range(1, 6):
                for _ in range(2 if tier == "quick" else 6):
                    comps = [rng.choice(own if rng.random() < 0.6 else other) for _ in range(ln)]
                    pth = ("M" if watch else "m") + "".join("/" + comp(c) for c in comps)
                    yield "w_bypath xkey:%s %s" % (sx(xk), sx(pth)), "deep-root-wallet" + ("-watch" if watch else "")


def _same_text_across_entry_points(rng, tier):
    """the SAME path text handed to the parser, to by_path of a watch-only wallet (which must refuse a hardened level),
    to the parser again, to by_path of a private wallet, to the parser again — in one process: what one entry point did
    with a text (also when it refused it) must not change what the text means afterwards"""
    for _ in range(6 if tier == "quick" else 80):
        comps = [rng.choice(["44'", "0'", "1h", "84'", "0", "7", "2147483647"]) for _ in range(rng.randint(1, 5))]
        if not any(c.endswith(("'", "h")) for c in comps):
            comps[rng.randrange(len(comps))] = "0'"
        for root in ("m", "M"):
            s_ = root + "/" + "/".join(comps)
            yield "path_parse " + sx(s_), "same-text-parse"
            yield "w_bypath xkey:%s %s" % (sx(XPUB), sx(s_)), "same-text-watch-refusal"
            yield "path_parse " + sx(s_), "same-text-parse-after-refusal"
            yield "w_bypath xkey:%s %s" % (sx(XPRV), sx(s_)), "same-text-private"
            yield "path_parse " + sx(s_), "same-text-parse-after-lookup"


def cases(rng, tier):
    from . import extra
    yield from _cases_core(rng, tier)
    yield from _same_text_across_entry_points(rng, tier)
    yield from _collision_wallets(rng, tier)
    yield from _deep_root_wallets(rng, tier)
    yield from extra.cases_for('paths', rng, tier)


def extra_checks(rng, tier, g, info):
    """a wallet whose root is a node DERIVED in this process (it has a parent object and a depth): a path string is
    applied component by component to the wallet's root — the given node — not to some other node of the tree"""
    from .c13 import soak as _soak13
    yield from _soak13(rng, tier, info)
    n = 0
    for _ in range(2 if tier == "quick" else 30):
        base = impl.make_wallet("xkey:" + sx(XPRV))
        for up in ([44 + 2 ** 31, 2 ** 31, 2 ** 31], [0], [1, 2, 3, 4, 5, 6]):
            node = base.master.derive_path(up)
            w = type(base)(master=node)
            pub = type(base)(master=impl.bip32.PubKeyNode(key=node.public_key.sec(), chain_code=node.chain_code,
                                                          index=node.index, depth=node.depth, parent=node.parent
                                                          if hasattr(node, "parent") else None))
            for root, wal in (("m", w), ("M", pub)):
                ls = [rng.choice([0, 1, 7, 2 ** 31 - 1]) for _ in range(rng.randint(0, 4))]
                text = "/".join([root] + [str(i) for i in ls])
                n += 1
                try:
                    got = wal.by_path(text)
                    want = wal.master.derive_path(ls)
                    same = (got.public_key.sec(), got.chain_code, got.depth, got.index) == \
                        (want.public_key.sec(), want.chain_code, want.depth, want.index)
                except Exception as e:
                    same = False
                    got = e
                if not same:
                    yield ("# wallet built on the node at %s below %s; by_path(%r)" % (up, XPRV, text),
                           "the path was not applied to the wallet's own root component by component (%r)" % (got,))
                    return
    info["derived_root_lookups"] = n
