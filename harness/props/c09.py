"""C09 — Key encodings (WIF, SEC) round-trip and out-of-range keys are rejected."""
from .common import *  # noqa: F401,F403
from . import common
import impl
import ecdsa

PID = "C09"
LEAN_MODULES = ["BtcHd.Props.C09", "BtcHd.Props.RealInst.C09"]
LEAN_MODULES_THOROUGH = ['BtcHd.Props.TrAddr', 'BtcHd.Props.TrWallet']
TRUSTED_BASE = common.CORE_TRUSTED + [
    "curve facts are CurveLaws hypotheses; the concrete Lean secp256k1 (scalar multiplication, square roots, "
    "on-curve test) is compared with python-ecdsa used directly, on every case (testing, not proof)"]
ASSUMPTIONS = ["python-ecdsa implements secp256k1 correctly (it is the curve library the repository itself delegates to)"]
RULE = ("scalars {1,2,n-1,n-2,2^i,2^i-1,leading-zero,random}; rejection: 0,n,n+1,2^256-1,2^256, lengths 0..40; "
        "SEC: both forms, hybrid, wrong prefixes 00..07, x without square root, y off curve; WIF: 4 flavours, "
        "mutated strings; non-trivial = distinct case")

G = ecdsa.SECP256k1.generator


def point(k):
    pt = G * k
    return pt.x(), pt.y()


def sec_c(x, y):
    return bytes([2 + (y & 1)]) + x.to_bytes(32, "big")


def sec_u(x, y):
    return b"\x04" + x.to_bytes(32, "big") + y.to_bytes(32, "big")


def scalars(rng, n):
    out = [1, 2, 3, N - 1, N - 2, 2 ** 255, 2 ** 128, 255, 256]
    for _ in range(n):
        r = rng.random()
        if r < 0.3:
            i = rng.randrange(1, 256)
            out.append(rng.choice([2 ** i, 2 ** i - 1]) % N or 1)
        elif r < 0.5:
            out.append(rng.getrandbits(rng.choice([8, 32, 100, 200, 240, 248])) or 1)
        else:
            out.append(rng.randrange(1, N))
    return out


def _cases_core(rng, tier):
    n = 60 if tier == "quick" else 4000
    for k in scalars(rng, n):
        kb = k.to_bytes(32, "big")
        yield "priv_new " + hx(kb), "priv-valid"
        yield "priv_int %d" % k, "priv-int"
        for c in "01":
            for t in "01":
                yield "wif %s %s %s" % (hx(kb), c, t), "wif-%s%s" % (c, t)
                pre = b"\xef" if t == "1" else b"\x80"
                w = b58check_enc(pre + kb + (b"\x01" if c == "1" else b""))
                yield "from_wif " + sx(w), "from-wif-%s%s" % (c, t)
        x, y = point(k)
        yield "sec_parse " + hx(sec_c(x, y)), "sec-compressed"
        yield "sec_parse " + hx(sec_u(x, y)), "sec-uncompressed"
        if rng.random() < 0.3:
            yield "sec_parse " + hx(bytes([6 + (y & 1)]) + sec_u(x, y)[1:]), "sec-hybrid"
            yield "sec_parse " + hx(bytes([7 - (y & 1)]) + sec_u(x, y)[1:]), "sec-hybrid-wrong-parity"
            yield "sec_parse " + hx(sec_u(x, y)[1:]), "sec-raw64"
            yield "sec_parse " + hx(sec_u(x, (y + 1) % P)), "sec-off-curve"
            yield "sec_parse " + hx(bytes([rng.choice([0, 1, 5, 8, 0xff])]) + sec_c(x, y)[1:]), "sec-bad-prefix"
            yield "sec_parse " + hx(sec_c(x, y)[:rng.randint(0, 32)]), "sec-short"
            yield "sec_parse " + hx(sec_c(x, y) + b"\x00"), "sec-long"
    # scalars that agree under a projection (hash(int), low/high bits), constructed back to back in one process
    for ka, kb, why in common.projection_siblings(rng, 6 if tier == "quick" else 60):
        for k in (ka, kb, ka):
            yield "priv_new " + hx(k.to_bytes(32, "big")), "projection-siblings-" + why
        for k in (kb, ka):
            yield "priv_int %d" % k, "projection-siblings-int"
            yield "from_wif " + sx(b58check_enc(b"\x80" + k.to_bytes(32, "big") + b"\x01")), "projection-siblings-wif"
    # points at the boundaries of the coordinate range
    for sec33 in common.boundary_points():
        yield "sec_parse " + hx(sec33), "sec-boundary-x"
        vk = ecdsa.VerifyingKey.from_string(sec33, curve=ecdsa.SECP256k1)
        yield "sec_parse " + hx(vk.to_string("uncompressed")), "sec-boundary-x-uncompressed"
    # scalars constructed so that the WIF text has an interior, aligned block of the zero digit '1'
    for c in common.zero_block_cases(rng, 6 if tier == "quick" else 60):
        if c[0] == "wif":
            k, comp, test = c[1], c[2], c[3]
            kb = k.to_bytes(32, "big")
            yield "wif %s %s %s" % (hx(kb), "1" if comp else "0", "1" if test else "0"), "zero-digit-block-wif"
            w = b58check_enc((b"\xef" if test else b"\x80") + kb + (b"\x01" if comp else b""))
            yield "from_wif " + sx(w), "zero-digit-block-from-wif"
    # rejection of scalars
    for v in (0, N, N + 1, 2 ** 256 - 1, 2 ** 256, 2 ** 256 + 5, N + 2 ** 200):
        yield "priv_int %d" % v, "priv-int-reject"
        if v < 2 ** 256:
            yield "priv_new " + hx(v.to_bytes(32, "big")), "priv-reject"
            yield "wif %s 1 0" % hx(v.to_bytes(32, "big")), "wif-reject"
            for pre, suf in ((b"\x80", b"\x01"), (b"\xef", b""), (b"\x80", b""), (b"\xef", b"\x01")):
                yield "from_wif " + sx(b58check_enc(pre + v.to_bytes(32, "big") + suf)), "from-wif-reject"
    for ln in range(0, 41):
        yield "priv_new " + hx(bytes([1] * ln)), "priv-length"
    # x without square root
    cnt = 0
    x = rng.randrange(1, P)
    while cnt < (10 if tier == "quick" else 300):
        x = (x + 1) % P
        rhs = (pow(x, 3, P) + 7) % P
        if pow(rhs, (P - 1) // 2, P) != 1:
            yield "sec_parse " + hx(b"\x02" + x.to_bytes(32, "big")), "sec-no-root"
            cnt += 1
    yield "sec_parse " + hx(b"\x02" + P.to_bytes(32, "big")), "sec-x-ge-p"
    yield "sec_parse " + hx(b"\x02" + (2 ** 256 - 1).to_bytes(32, "big")), "sec-x-max"
    # mutated WIF strings
    for _ in range(n):
        k = rng.randrange(1, N)
        c, t = rng.random() < 0.5, rng.random() < 0.5
        w = list(b58check_enc((b"\xef" if t else b"\x80") + k.to_bytes(32, "big") + (b"\x01" if c else b"")))
        r = rng.random()
        if r < 0.4:
            j = rng.randrange(len(w))
            w[j] = rng.choice(B58 + "0OIl")
        elif r < 0.6:
            del w[rng.randrange(len(w))]
        elif r < 0.8:
            w.insert(rng.randrange(len(w)), rng.choice(B58))
        else:
            # compressed flag byte wrong
            w = list(b58check_enc((b"\xef" if t else b"\x80") + k.to_bytes(32, "big") + bytes([rng.choice([0, 2, 255])])))
        yield "from_wif " + sx("".join(w)), "from-wif-mutated"
    # payloads of every length around the two standard ones (33 / 34 bytes): shorter, and LONGER by 1..40 bytes
    for k in [1, N - 1] + [rng.randrange(1, N) for _ in range(1 if tier == "quick" else 10)]:
        for pre in (0x80, 0xef):
            for extra in (b"", b"\x01", b"\x01\x01", b"\x00", b"\x01\x00", bytes(4), b"\x01" * 7, bytes(range(40))):
                yield "from_wif " + sx(b58check_enc(bytes([pre]) + k.to_bytes(32, "big") + extra)), "from-wif-payload-length"
            for cut in (1, 2, 31):
                yield "from_wif " + sx(b58check_enc(bytes([pre]) + k.to_bytes(32, "big")[:cut])), "from-wif-payload-length"
    # a key IMPORTED from a WIF text and then EXPORTED in every flavour (twice, mixed order) on the same object: what was
    # imported must not colour what is exported.  Imports include payloads with a foreign version byte, a missing / odd
    # compression flag — whatever from_wif accepts
    for k in [1, 0x101, N - 1] + [rng.randrange(1, N) for _ in range(3 if tier == "quick" else 60)]:
        for pre in (0x80, 0xef, 0xb0, 0x00, 0x9e, 0xff):
            for suf in (b"\x01", b""):
                yield "wif_cycle " + sx(b58check_enc(bytes([pre]) + k.to_bytes(32, "big") + suf)), "import-then-export"
    # a valid WIF with one line terminator / blank / control / invisible character in front of it or behind it
    for k in [1, N - 1] + [rng.randrange(1, N) for _ in range(1 if tier == "quick" else 20)]:
        for pre, suf in ((b"\x80", b"\x01"), (b"\xef", b""), (b"\x80", b""), (b"\xef", b"\x01")):
            good = b58check_enc(pre + k.to_bytes(32, "big") + suf)
            for bad in common.edge_variants(good):
                yield "from_wif " + sx(bad), "from-wif-edge-character"


def nontrivial(line, out):
    return True


def oracle(line, out):
    tok = line.split(" ")
    op = tok[0]
    v = ok_val(out)
    if op in ("priv_new", "priv_int"):
        if op == "priv_new":
            b = unhex(tok[1])
            k = int.from_bytes(b, "big")
            valid = len(b) == 32 and 1 <= k < N
        else:
            k = int(tok[1])
            valid = 1 <= k < N
        if not valid:
            return None if v is None else "out-of-range / wrong-length secret accepted"
        if v is None:
            return "valid scalar rejected"
        f = v.split(" ")
        if unhex(f[0]) != k.to_bytes(32, "big"):
            return "private key bytes differ"
        if op == "priv_new":
            x, y = point(k)
            if unhex(f[1]) != sec_c(x, y) or unhex(f[2]) != sec_u(x, y):
                return "public key is not k*G"
        return None
    if op == "wif":
        b = unhex(tok[1])
        k = int.from_bytes(b, "big")
        if not (len(b) == 32 and 1 <= k < N):
            return None if v is None else "WIF produced for an invalid key"
        c, t = tok[2] == "1", tok[3] == "1"
        want = b58check_enc((b"\xef" if t else b"\x80") + b + (b"\x01" if c else b""))
        if v is None or unstr(v) != want:
            return "WIF does not have the standard payload"
        back = impl.run("from_wif " + v)
        if back != "ok " + hx(b):
            return "from_wif(wif(k)) != k: %s" % back
        return None
    if op == "from_wif":
        s = unstr(tok[1])
        try:
            pl = b58check_dec(s)
        except ValueError:
            pl = None
        if pl is None:
            return None if v is None else "WIF with bad checksum/characters accepted"
        # standard reading: 0x80/0xef + 32 bytes (+ 0x01)
        if len(pl) == 34 and pl[-1] == 1 and pl[0] in (0x80, 0xef):
            kb = pl[1:33]
        elif len(pl) == 33 and pl[0] in (0x80, 0xef):
            kb = pl[1:]
        else:
            kb = None
        # "wrong length": whatever the version byte, the secret part (payload minus version byte, minus the flag byte of
        # a text starting with K / L / c) must be exactly 32 bytes long, else no key may come out
        secret_part = pl[1:-1] if s[:1] in ("K", "L", "c") else pl[1:]
        if len(secret_part) != 32:
            return None if v is None else ("WIF payload whose secret part has %d bytes (not 32) yielded the key %s"
                                           % (len(secret_part), v[:16]))
        if kb is None:
            # non-standard payloads: must not yield a key that differs from the payload's 32 bytes
            if v is not None and unhex(v) not in (pl[1:33], pl[1:]):
                return "non-standard WIF payload decoded to an unrelated key"
            return None
        k = int.from_bytes(kb, "big")
        if not 1 <= k < N:
            return None if v is None else "WIF of an out-of-range scalar accepted"
        if v is None:
            return "valid WIF rejected"
        if unhex(v) != kb:
            return "WIF decoded to a different key"
        return None
    if op == "wif_cycle":
        if v is None:
            return None
        f = v.split(" ")
        kb = unhex(f[0])
        order = ((1, 1), (0, 0), (1, 0), (0, 1), (0, 0), (1, 1), (1, 0), (0, 1))
        for (c, t), got in zip(order, f[1:]):
            want = b58check_enc((b"\xef" if t else b"\x80") + kb + (b"\x01" if c else b""))
            if unstr(got) != want:
                return ("wif(compressed=%s, testnet=%s) of a key imported from %s is %s, not the standard payload %s"
                        % (bool(c), bool(t), unstr(tok[1]), unstr(got), want))
        return None
    if op == "sec_parse":
        b = unhex(tok[1])
        try:
            vk = ecdsa.VerifyingKey.from_string(b, curve=ecdsa.SECP256k1)
            want = vk.to_string("compressed"), vk.to_string("uncompressed")
        except Exception:
            want = None
        on_curve_std = None
        if len(b) == 33 and b[0] in (2, 3):
            x = int.from_bytes(b[1:], "big")
            rhs = (pow(x, 3, P) + 7) % P
            on_curve_std = x < P and pow(rhs, (P - 1) // 2, P) == 1
        elif len(b) == 65 and b[0] == 4:
            x, y = int.from_bytes(b[1:33], "big"), int.from_bytes(b[33:], "big")
            on_curve_std = x < P and y < P and (y * y - x ** 3 - 7) % P == 0
        if on_curve_std is False:
            return None if v is None else "SEC encoding that is not a curve point was accepted"
        if on_curve_std is True:
            if v is None:
                return "valid SEC encoding rejected"
            f = v.split(" ")
            if (unhex(f[0]), unhex(f[1])) != want:
                return "SEC parse/serialise does not round-trip"
            if b not in (unhex(f[0]), unhex(f[1])):
                return "re-encoding the parsed key does not reproduce the input"
        else:
            # other lengths/prefixes: only require that an accepted value is a curve point
            if v is not None:
                f = v.split(" ")
                u = unhex(f[1])
                x, y = int.from_bytes(u[1:33], "big"), int.from_bytes(u[33:], "big")
                if (y * y - x ** 3 - 7) % P != 0:
                    return "accepted key is not on the curve"
                if len(b) == 65 and b[0] in (6, 7):
                    # the hybrid form carries x, y AND the parity of y: an accepted one must be that point, and a
                    # string whose parity byte contradicts its own y encodes no point at all
                    if (x, y) != (int.from_bytes(b[1:33], "big"), int.from_bytes(b[33:], "big")):
                        return "hybrid SEC encoding parsed to another point than the one it spells out"
                    if (b[0] & 1) != (y & 1):
                        return "hybrid SEC encoding whose parity byte contradicts its y coordinate was accepted"
        return None
    return None


known_match = common.no_known


def cases(rng, tier):
    from . import extra
    yield from _cases_core(rng, tier)
    yield from extra.cases_for('keyeq', rng, tier)
