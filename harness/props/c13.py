"""C13 — Derivation is a pure function of root key and path, whatever happened before."""
import sys
import threading
from .common import *  # noqa: F401,F403
from . import common
import impl

PID = "C13"
LEAN_MODULES = ["BtcHd.Props.C13"]
LEAN_MODULES_THOROUGH = ['BtcHd.Props.TrBip32', 'BtcHd.Props.TrWallet', 'BtcHd.Props.TrPaper', 'BtcHd.Props.TrText']
TRUSTED_BASE = common.CORE_TRUSTED + [
    "thread schedules below the granularity of one API call are not modelled: CPython's atomic list.append and "
    "re-entrant hashlib/ecdsa are trusted; the multi-threaded run only samples schedules"]
ASSUMPTIONS = ["CPython executes list.append and attribute reads atomically under the GIL"]
RULE = ("random histories (5-60 ops quick, up to 400 thorough) of by-path lookup, ckd, bulk generation, derive_path, "
        "address/ext-key/BIP85/report/Wasabi/root requests and address generators with and without send, on shared "
        "objects; each history is also re-run stateless (fresh objects per request) and multi-threaded; "
        "non-trivial = distinct history with at least 3 successful node-creating ops")
H = 2 ** 31
KINDS = ["p2pkh", "p2wpkh", "p2sh_p2wpkh", "p2wsh", "p2sh_p2wsh"]


def gen_history(rng, n, watch=False):
    """ops referring only to handles that will exist; tracks successes optimistically (failures are fine)"""
    ops = []
    nh, ng = 1, 0
    idxs = [0, 1, 2, 5, 2 ** 31 - 1] + ([] if watch else [H, H + 1, H + 44, 2 ** 32 - 1])
    for _ in range(n):
        r = rng.random()
        # on a watch-only wallet a hardened step must be REFUSED; such failing requests are part of the history too
        # (now and then), because what was handed out before must be unaffected by a later refusal
        hard = watch and rng.random() < 0.25
        if hard:
            idxs_now = idxs + [H, H + 1]
        else:
            idxs_now = idxs
        if rng.random() < 0.12:
            # interaction templates: DIFFERENT kinds of request on the SAME node with overlapping index ranges, in an
            # order that is neither ascending nor consecutive (single step / bulk / path / address generator)
            h = rng.randrange(nh)
            i = rng.choice([0, 1, 5])
            tpl = rng.randrange(6)
            if tpl == 0:
                seq = ["ckd:%d:%d" % (h, i), "ckd:%d:%d" % (h, i + rng.choice([2, 5])), "gc:%d:%d:%d" % (h, i, i + 3)]
                nh += 2 + 3
            elif tpl == 1:
                seq = ["gc:%d:%d:%d" % (h, i, i + 3), "ckd:%d:%d" % (h, i + 1), "gc:%d:%d:%d" % (h, i, i + 2)]
                nh += 3 + 1 + 2
            elif tpl == 2:
                kind = rng.choice(KINDS)
                seq = ["ng:%d:%s" % (h, kind), "nx:%d" % ng, "sd:%d:%d" % (ng, rng.choice([2, 5])), "gc:%d:0:3" % h]
                ng += 1
                nh += 3
            elif tpl == 3:
                seq = ["dp:%d:%s" % (h, impl.lst(str, [i + 2, 1])), "gc:%d:%d:%d" % (h, i, i + 3), "dp:%d:%s" % (h, impl.lst(str, [i + 1]))]
                nh += 1 + 3 + 1
            elif tpl == 4:
                seq = ["gc:%d:5:8" % h, "gc:%d:0:3" % h, "gc:%d:0:8" % h]
                nh += 3 + 3 + 8
            else:
                seq = ["ckd:%d:%d" % (h, i + 1), "ckd:%d:%d" % (h, i), "ckd:%d:%d" % (h, i + 1), "gc:%d:%d:%d" % (h, i, i + 2)]
                nh += 3 + 2
            ops += seq
            continue
        if r < 0.12:
            comps = [rng.choice(["0", "1", "2", "7"] + (["1'", "0h"] if hard else []) + ([] if watch else ["44'", "0'", "1h", "84'"]))
                     for _ in range(rng.randint(0, 5))]
            ops.append("bp:" + sx("/".join(["M" if watch else "m"] + comps)))
            nh += 1 if comps else 0
        elif r < 0.3:
            ops.append("ckd:%d:%d" % (rng.randrange(nh), rng.choice(idxs_now)))
            nh += 1
        elif r < 0.38:
            # bulk intervals also straddle the hardened boundary 2^31 (and sit just below 2^32) on private nodes
            a = rng.choice([0, 1, 5] + ([H - 2, H - 1] if watch else [H - 1, H - 2, H, 2 ** 32 - 3]))
            b = a + rng.randint(0, 3)
            ops.append("gc:%d:%d:%d" % (rng.randrange(nh), a, b))
            nh += b - a
        elif r < 0.46:
            is_ = [rng.choice(idxs_now) for _ in range(rng.randint(0, 3))]
            ops.append("dp:%d:%s" % (rng.randrange(nh), impl.lst(str, is_)))
            nh += 1 if is_ else 0
        elif r < 0.6:
            ops.append("ad:%d:%s" % (rng.randrange(nh), rng.choice(KINDS)))
        elif r < 0.68:
            ops.append("xk:%d" % rng.randrange(nh))
        elif r < 0.74:
            ops.append("ng:%d:%s" % (rng.randrange(nh), rng.choice(KINDS)))
            ng += 1
        elif r < 0.86 and ng:
            g = rng.randrange(ng)
            ops.append(rng.choice(["nx:%d" % g, "nx:%d" % g, "sd:%d:%d" % (g, rng.choice([0, 1, 2, 3, 10]))]))
        elif r < 0.9 and not watch:
            ops.append("b85:%d:%d:%d" % rng.choice([(0, 12, 0), (1, 0, 1), (2, 0, 0), (3, 32, 5), (4, 21, 2), (1, 0, -1)]))
        elif r < 0.93 and not watch:
            ops.append("rep:%d:%d:%d" % (rng.choice([0, 1]), 0, rng.choice([0, 1, 2])))
            if rng.random() < 0.5:
                # ... and exports to the client's one output file: a long report first, shorter ones later
                ops.append("exp:%d:%d:%d" % (rng.choice([0, 1]), 0, rng.choice([3, 2])))
                ops.append("exp:%d:%d:%d" % (rng.choice([0, 1]), 0, rng.choice([0, 1])))
        elif r < 0.96 and not watch:
            ops.append("was")
        elif r < 0.98:
            ops.append("nw:" + rng.choice("01"))
        else:
            ops.append("root")
    # held results: a sample of the nodes handed out during the history is looked at again at its end
    for h in sorted(set(rng.randrange(max(1, min(nh, 12))) for _ in range(4))):
        ops.append("xk:%d" % h)
    return ops


def wspec(rng):
    t = rng.choice("01")
    e = bytes(rng.getrandbits(8) for _ in range(16)).hex()
    return "ent:%s:-:-:%s" % (sx(e), t)


def cases(rng, tier):
    n_hist = 12 if tier == "quick" else 300
    for i in range(n_hist):
        w = wspec(rng)
        watch = rng.random() < 0.25
        if watch:
            full = impl.make_wallet(w)
            node = full.master.derive_path([44 + H, H, H])
            w = "xkey:" + sx(node.extended_public_key())
        n = rng.randint(5, 60) if tier == "quick" else rng.randint(5, 400 if i % 10 == 0 else 80)
        yield "hist %s %s" % (w, ";".join(gen_history(rng, n, watch))), "history-watch" if watch else "history"
    # the client's output file over a history: long export, short export, the same again after other requests
    for _ in range(1 if tier == "quick" else 10):
        a = rng.choice([0, 1])
        yield "hist %s %s" % (wspec(rng), ";".join(
            ["exp:%d:0:%d" % (a, rng.choice([2, 3, 5])), "exp:%d:0:%d" % (rng.choice([0, 1]), rng.choice([0, 1])),
             "rep:0:0:1", "exp:0:0:1", "exp:1:0:2", "exp:0:0:0"] + gen_history(rng, 5, False))), "history-export-file"
        # an address generator is started, other requests derive children under the SAME node, the generator is closed
        # (it is never used again), and the nodes those other requests received are looked at afterwards
        yield "hist %s %s" % (wspec(rng), ";".join(
            ["ckd:0:3", "ng:0:p2pkh", "nx:0", "ckd:0:5", "nx:0", "ckd:0:6", "gc:0:8:10", "cl:0", "xk:1", "xk:2", "xk:3", "xk:4",
             "ad:2:p2wpkh", "ckd:2:1", "dp:0:5,1", "ng:2:p2wpkh", "nx:1", "ckd:2:2", "cl:1", "xk:5", "xk:6", "root"])), \
            "history-generator-closed"
        # reports for several accounts in a row, the default account before, between and after the others
        accts = [0, rng.choice([1, 7, 2 ** 31 - 1]), 0, rng.choice([2, 100]), rng.choice([1, 7]), 0]
        yield "hist %s %s" % (wspec(rng), ";".join(["rep:%d:0:1" % a_ for a_ in accts] + ["xk:0", "was"])), "history-account-sequence"
    yield from _collision_cases(rng, tier)


def _collision_cases(rng, tier):
    """the SAME history on wallets whose root keys share the 4-byte fingerprint and the chain code (private and
    watch-only), back to back in one process: nothing may be remembered under the fingerprint"""
    from .c09 import point, sec_c
    pairs = common.fp_pairs()
    pairs = pairs[:1] if tier == "quick" else pairs[:8]
    for ka, kb in pairs:
        chain = bytes(rng.getrandbits(8) for _ in range(32))
        for watch in (False, True):
            ops = ";".join(gen_history(rng, rng.randint(8, 25), watch))
            for k in (ka, kb, ka):
                if watch:
                    x, y = point(k)
                    xk = common.xkey_string(0x0488B21E, 0, bytes(4), 0, chain, sec_c(x, y))
                else:
                    xk = common.xkey_string(0x0488ADE4, 0, bytes(4), 0, chain, b"\x00" + k.to_bytes(32, "big"))
                yield "hist xkey:%s %s" % (sx(xk), ops), "history-fp-collision" + ("-watch" if watch else "")


def nontrivial(line, out):
    return out.count(" N ") + out.startswith("ok N ") >= 3


def stateless(wspec_, ops):
    """Answer every request from FRESH objects: a new wallet per op; node handles are replaced by
    the recorded index path from the root (derived step by step on the fresh wallet)."""
    shared = impl.HistCtx(impl.make_wallet(wspec_))
    paths = [[]]                      # path of every handle
    gens = []                         # (path, kind, started, index, dead)
    outs = []
    for o in ops:
        t = o.split(":")
        k = t[0]
        fresh = impl.HistCtx(impl.make_wallet(wspec_))

        def node_at(p):
            return fresh.w.master.derive_path(p)
        try:
            if k == "bp":
                res = fresh.do(o)
                if res != "err":
                    lv = fresh.nodes[-1]
                    from btc_hd_wallet.wallet_utils import Bip32Path
                    p = Bip32Path.parse(unstr(t[1])).to_list()
                    if p:
                        paths.append(p)
            elif k in ("ckd", "dp", "gc", "ad", "xk"):
                h = int(t[1])
                fresh.nodes = [node_at(paths[h])] if h < len(paths) else []
                res = fresh.do(":".join([k, "0"] + t[2:]))
                if res != "err":
                    if k == "ckd":
                        paths.append(paths[h] + [int(t[2])])
                    elif k == "dp" and impl.unlist(int, t[2]):
                        paths.append(paths[h] + impl.unlist(int, t[2]))
                    elif k == "gc":
                        for i in range(int(t[2]), int(t[3])):
                            paths.append(paths[h] + [i])
            elif k == "ng":
                h = int(t[1])
                if h < len(paths):
                    gens.append([paths[h], t[2], False, 0, False])
                    res = "g%d" % (len(gens) - 1)
                else:
                    res = "err"
            elif k in ("nx", "sd"):
                g = gens[int(t[1])]
                sent = int(t[2]) if k == "sd" else None
                if g[4] or (not g[2] and sent is not None):
                    res = "err"
                else:
                    idx = (g[3] + ((sent or 1) if sent is not None else 1)) if g[2] else 0
                    try:
                        child = node_at(g[0]).ckd(idx)
                        res = "p%s %s" % (sx(str(child)), sx(impl.addr_fn(fresh.w, g[1])(child)))
                        g[2], g[3] = True, idx
                    except Exception:
                        g[4] = True
                        res = "err"
            elif k in ("nw", "cl"):
                res = fresh.do("root")
            else:
                res = fresh.do(o)
        except Exception:
            res = "err"
        outs.append(res)
    return outs


def oracle(line, out):
    tok = line.split(" ")
    if tok[0] != "hist":
        return None
    v = ok_val(out)
    if v is None:
        return "history could not be run"
    ops = tok[2].split(";")
    got = v.split(" ; ")
    want = stateless(tok[1], ops)
    for i, (a, b) in enumerate(zip(got, want)):
        if a != b:
            return "request %d (%s) answered differently on shared objects than from fresh ones: %s vs %s" % (
                i, ops[i], a[:80], b[:80])
    # root key unchanged
    w = impl.make_wallet(tok[1])
    before = impl.nodeS(w.master)
    impl.hist_run(w, ops)
    if impl.nodeS(w.master) != before:
        return "a request altered the root key"
    return None


def extra_checks(rng, tier, g, info):
    """Multi-threaded variant: 2-8 threads run their own histories on ONE shared wallet object; each thread's
    outputs must equal the stateless answers."""
    n_runs = 3 if tier == "quick" else 40
    old = sys.getswitchinterval()
    sys.setswitchinterval(1e-6)
    total = 0
    try:
        for _ in range(n_runs):
            ws = wspec(rng)
            w = impl.make_wallet(ws)
            nthreads = rng.randint(2, 8)
            hists = [gen_history(rng, rng.randint(5, 40)) for _ in range(nthreads)]
            outs = [None] * nthreads
            barrier = threading.Barrier(nthreads)

            def work(i):
                ctx = impl.HistCtx(w)
                barrier.wait()
                outs[i] = [ctx.do(o) for o in hists[i]]
            ts = [threading.Thread(target=work, args=(i,)) for i in range(nthreads)]
            for t in ts:
                t.start()
            for t in ts:
                t.join()
            for i in range(nthreads):
                total += len(hists[i])
                want = stateless(ws, hists[i])
                for j, (a, b) in enumerate(zip(outs[i], want)):
                    if a != b:
                        yield ("hist %s %s" % (ws, ";".join(hists[i])),
                               "thread %d/%d: request %d (%s) answered differently under concurrency: %s vs %s" % (
                                   i, nthreads, j, hists[i][j], a[:60], b[:60]))
                        break
    finally:
        sys.setswitchinterval(old)
    info["threaded_ops"] = total


# ---------------------------------------------------------------------------------------------------------------
# schedules: contended shared nodes, and systematic single-preemption exploration

class _Preempt:
    """Runs operation A in a thread under sys.settrace and suspends it at the `point`-th source line it executes inside
    the package; operation B then runs to completion in a second thread on the SAME objects; then A resumes.  This
    enumerates, deterministically, every schedule with one preemption at line granularity (no library code is
    patched)."""

    def __init__(self, point, max_visits=2):
        self.max_visits = max_visits
        self.point, self.count, self.fired = point, 0, False
        self.visits = {}        # a source line is a preemption point the first max_visits times it runs (loops are not unrolled)
        self.go_b, self.b_done = threading.Event(), threading.Event()

    def tracer(self, frame, event, arg):
        if self.fired or "btc_hd_wallet" not in frame.f_code.co_filename:
            return None
        return self.local

    def local(self, frame, event, arg):
        if self.fired:
            return None
        if event == "line":
            key = (frame.f_code.co_filename, frame.f_lineno)
            v = self.visits.get(key, 0)
            self.visits[key] = v + 1
            if v >= self.max_visits:
                return self.local
            self.count += 1
            if self.count == self.point and not self.fired:
                self.fired = True
                sys.settrace(None)          # nothing left to observe: run the rest of A at full speed
                self.go_b.set()
                self.b_done.wait(60)
                return None
        return self.local

    def run(self, op_a, op_b):
        res = [None, None]

        def ta():
            sys.settrace(self.tracer)
            try:
                res[0] = _safe(op_a)
            finally:
                sys.settrace(None)
                self.go_b.set()

        def tb():
            self.go_b.wait(60)
            try:
                res[1] = _safe(op_b)
            finally:
                self.b_done.set()
        a, b = threading.Thread(target=ta), threading.Thread(target=tb)
        a.start()
        b.start()
        a.join()
        b.join()
        return res


def _safe(f):
    try:
        return f()
    except Exception as e:      # an exception is an answer too (compared with the sequential one)
        return "err"


def _scenarios(rng):
    """(name, build() -> shared objects, opA(shared), opB(shared)); results are canonical strings"""
    ent = bytes(rng.getrandbits(8) for _ in range(16)).hex()
    t = rng.choice("01")
    spec = "ent:%s:-:-:%s" % (sx(ent), t)
    i, j = rng.sample([0, 1, 2, 5, 6, 77, 2 ** 31 - 1], 2)

    def chain():
        w = impl.make_wallet(spec)
        return w, w.by_path("m/84'/0'/0'/0")

    def pub():
        from btc_hd_wallet.bip32 import PubKeyNode
        w, x = chain()
        return w, PubKeyNode.parse(x.extended_public_key(), testnet=(t == "1"))

    def wal():
        w = impl.make_wallet(spec)
        return w, w.master
    yield ("prv-node ckd(%d) || ckd(%d)" % (i, j), chain,
           lambda s: impl.nodeS(s[1].ckd(i)), lambda s: impl.nodeS(s[1].ckd(j)))
    yield ("prv-node ckd(%d) || ckd(hardened)" % i, chain,
           lambda s: impl.nodeS(s[1].ckd(i)), lambda s: impl.nodeS(s[1].ckd(H + j % 1000)))
    yield ("pub-node ckd(%d) || ckd(%d)" % (i, j), pub,
           lambda s: impl.nodeS(s[1].ckd(i)), lambda s: impl.nodeS(s[1].ckd(j)))
    yield ("wallet by_path || by_path", wal,
           lambda s: impl.nodeS(s[0].by_path("m/44'/0'/0'/0/%d" % (i % 1000))),
           lambda s: impl.nodeS(s[0].by_path("m/44'/0'/0'/1/%d" % (j % 1000))))
    yield ("wallet bip85.wif || bip85.hex", wal,
           lambda s: s[0].bip85.wif(i % 1000), lambda s: s[0].bip85.hex(32, j % 1000))
    yield ("prv-node address(ckd) || generate_children", chain,
           lambda s: s[0].p2wpkh_address(s[1].ckd(i)),
           lambda s: " ".join(impl.nodeS(c) for c in s[1].generate_children((j % 1000, j % 1000 + 2))))
    yield ("master ckd(normal) || derive_path", wal,
           lambda s: impl.nodeS(s[1].ckd(i)), lambda s: impl.nodeS(s[1].derive_path([j, H + 1])))


def explore_preemptions(rng, tier, info):
    budget = 400 if tier == "quick" else 4000       # preemption points per scenario
    runs = 0
    for name, build, op_a, op_b in _scenarios(rng):
        want = [_safe(lambda: op_a(build())), _safe(lambda: op_b(build()))]      # sequential, fresh objects
        mv = 1 if tier == "quick" else 2     # quick: every distinct source line once; thorough: also its first repetition
        probe = _Preempt(-1, mv)
        sh = build()
        probe.run(lambda: op_a(sh), lambda: op_b(sh))
        total = probe.count
        pts = range(1, total + 1) if total <= budget else sorted(set(
            list(range(1, 8)) + [1 + (k * (total - 1)) // (budget - 8) for k in range(budget - 7)]))
        for n_, pt in enumerate(pts):
            if n_ % 20 == 0:        # objects are rebuilt now and then only: an answer that depends on the earlier
                sh = build()        # schedules run on the same objects is a violation of this property as well
            got = _Preempt(pt, mv).run(lambda: op_a(sh), lambda: op_b(sh))
            runs += 1
            if got != want:
                yield ("# schedule: %s, thread A suspended at its source line no. %d of %d inside the package while "
                       "thread B ran" % (name, pt, total),
                       "results under this interleaving differ from the sequential ones: %s vs %s" % (
                           [str(x)[:70] for x in got], [str(x)[:70] for x in want]))
                break
    info["preemption_schedules_explored"] = runs


def contended_nodes(rng, tier, info):
    """several threads derive DIFFERENT children from the SAME node objects at once (tiny switch interval)"""
    rounds = 2 if tier == "quick" else 12
    per = 120 if tier == "quick" else 600
    nthreads = 4
    done = 0
    old = sys.getswitchinterval()
    sys.setswitchinterval(1e-6)
    try:
        for _ in range(rounds):
            ent = bytes(rng.getrandbits(8) for _ in range(16)).hex()
            spec = "ent:%s:-:-:%s" % (sx(ent), rng.choice("01"))
            w = impl.make_wallet(spec)
            from btc_hd_wallet.bip32 import PubKeyNode
            x = w.by_path("m/84'/0'/0'/0")
            nodes = [w.master, x, PubKeyNode.parse(x.extended_public_key(), testnet=w.testnet)]
            idx = [[rng.choice([rng.randrange(0, 1000), rng.randrange(0, 2 ** 31)]) for _ in range(per)]
                   for _ in range(nthreads)]
            outs = [[None] * per for _ in range(nthreads)]
            barrier = threading.Barrier(nthreads)

            def work(ti):
                barrier.wait()
                for k, i in enumerate(idx[ti]):
                    nd = nodes[(k + ti) % len(nodes)]
                    outs[ti][k] = _safe(lambda: impl.nodeS(nd.ckd(i)))
            ts = [threading.Thread(target=work, args=(ti,)) for ti in range(nthreads)]
            for t_ in ts:
                t_.start()
            for t_ in ts:
                t_.join()
            fw = impl.make_wallet(spec)
            fx = fw.by_path("m/84'/0'/0'/0")
            fresh = [fw.master, fx, PubKeyNode.parse(fx.extended_public_key(), testnet=fw.testnet)]
            for ti in range(nthreads):
                for k, i in enumerate(idx[ti]):
                    done += 1
                    want = _safe(lambda: impl.nodeS(fresh[(k + ti) % len(fresh)].ckd(i)))
                    if outs[ti][k] != want:
                        yield ("# %d threads deriving different children from one shared node object (wallet %s), "
                               "thread %d request %d: ckd(%d)" % (nthreads, spec, ti, k, i),
                               "answered differently under concurrency: %s vs %s" % (outs[ti][k][:80], want[:80]))
                        return
    finally:
        sys.setswitchinterval(old)
        info["contended_node_derivations"] = done


def soak(rng, tier, info):
    """a long-lived node: S distinct children derived under ONE node object (private and public), then earlier
    requests repeated — through ckd, derive_path, by_path and the wallet's address calls — and compared with fresh
    objects.  S exceeds every small integer literal of the source (common.soak_size)."""
    S = common.soak_size(PID, tier)
    ent = bytes(rng.getrandbits(8) for _ in range(16)).hex()
    spec = "ent:%s:-:-:%s" % (sx(ent), rng.choice("01"))
    from btc_hd_wallet.bip32 import PubKeyNode
    n = 0
    for kind in ("prv", "pub"):
        w = impl.make_wallet(spec)
        x = w.by_path("m/84'/0'/0'/0")
        if kind == "pub":
            x = PubKeyNode.parse(x.extended_public_key(), testnet=w.testnet)
        first = {}
        probe = sorted(set([0, 1, 2, 5, 7, S // 2, S - 1] + [v for v in (255, 256, 1023, 1024, 2047, 2048, 4095, 4096)
                                                             if v < S] + [rng.randrange(S) for _ in range(12)]))
        kept = {}
        once = []
        for i in range(S):
            c = x.ckd(i)
            n += 1
            if i in probe:
                first[i] = impl.nodeS(c)
                kept[i] = (c, c.public_key.sec(), impl.addr_fn(w, "p2wpkh")(c))     # the child OBJECT is kept, looked at later
            elif i % 3 == 0:
                once.append((i, c, c.public_key.sec()))                             # (read once now, once at the end)
        fw = impl.make_wallet(spec)
        fx = fw.by_path("m/84'/0'/0'/0")
        if kind == "pub":
            fx = PubKeyNode.parse(fx.extended_public_key(), testnet=fw.testnet)
        for i in probe:
            want = impl.nodeS(fx.ckd(i))
            viadp = impl.nodeS(x.derive_path([i]))       # (looked up BEFORE the child is derived again: a repeated
            again = impl.nodeS(x.ckd(i))                 # derivation may refresh what a lookup structure remembers)
            if not (first[i] == want == again == viadp):
                yield ("# soak: %d children derived under one %s node object of wallet %s, then index %d requested again"
                       % (S, kind, spec, i),
                       "child %d differs from the stateless answer (first %s / repeated %s / derive_path %s / fresh %s)"
                       % (i, first[i][5:40], again[5:40], viadp[5:40], want[5:40]))
                break
        for i in probe:
            c, sec0, addr0 = kept[i]
            sec1, addr1 = c.public_key.sec(), impl.addr_fn(w, "p2wpkh")(c)
            g1 = impl.nodeS(c.ckd(1))
            g2 = impl.nodeS(fx.ckd(i).ckd(1))
            if (sec1, addr1) != (sec0, addr0) or g1 != g2:
                yield ("# soak: %d children derived under one %s node object of wallet %s; the child object %d kept from the "
                       "start is looked at again" % (S, kind, spec, i),
                       "a kept child answers differently than at first (public key %s, then %s; address %s, then %s; its "
                       "child %s vs fresh %s)" % (sec0.hex()[:16], sec1.hex()[:16], addr0, addr1, g1[5:30], g2[5:30]))
                break
        for i, c, sec0 in once:
            sec1 = c.public_key.sec()
            if sec1 != sec0:
                yield ("# soak: %d children derived under one %s node object of wallet %s; the public key of every third "
                       "child was read once when it was derived and is read again at the end" % (S, kind, spec),
                       "child %d (a kept object) now reports the public key %s, at first %s" % (i, sec1.hex(), sec0.hex()))
                break
        if kind == "prv":
            for i in probe[:6]:
                a = impl.nodeS(w.by_path("m/84'/0'/0'/0/%d" % i))
                b = impl.nodeS(fw.by_path("m/84'/0'/0'/0/%d" % i))
                if a != b:
                    yield ("# soak: by_path after %d derivations on wallet %s" % (S, spec),
                           "by_path(.../%d) differs from a fresh wallet" % i)
                    break
    info["soak_children_per_node"] = S
    info["soak_derivations"] = n


_threaded_histories = extra_checks


def api_sweep(rng, tier, info):
    """"whatever happened before": EVERY public method of a wallet, of its BIP85 object and of its root node is called
    with simple and degenerate arguments (root path, empty path / interval / byte string, zero, None, ...); whatever
    they answer, the root key and a set of reference requests must afterwards be what they were before"""
    import contextlib
    import io
    pool = [(), ("m",), ("M",), ("m/",), ("m/0",), ("M/0",), ("m/0'",), ([],), ([0],), ((0, 0),), ((0, 1),), (0,), (1,),
            (b"",), (bytes(32),), ("",), (None,), (True,), (0, 0), ("m", "m")]
    skip = {"pprint", "export_wallet", "export_wasabi", "export_to_file", "new_wallet", "from_entropy_bits"}
    n_calls = 0
    e = bytes(rng.getrandbits(8) for _ in range(16)).hex()
    full = impl.make_wallet("ent:%s:-:-:%s" % (sx(e), rng.choice("01")))
    xpub = full.master.derive_path([84 + H, H, H]).extended_public_key()
    for label, mk in (("private wallet", lambda: impl.make_wallet("ent:%s:-:-:0" % sx(e))),
                      ("watch-only wallet", lambda: impl.make_wallet("xkey:" + sx(xpub)))):
        w = mk()

        def snap():
            out = [impl.nodeS(w.master), str(w.testnet), str(w.watch_only)]
            root = "M" if w.watch_only else "m"
            out.append(impl.nodeS(type(w)(master=w.master, testnet=w.testnet).by_path(root + "/0/1")))
            out.append(w.master.extended_public_key())
            if not w.watch_only:
                out.append(w.master.extended_private_key())
                out.append(w.bip85.wif(0))
                out.append(w.bip85.entropy("m/83696968'/0'/0'").hex())
            return out
        before = snap()
        for oname, obj in (("wallet", w), ("wallet.bip85", w.bip85), ("wallet.master", w.master)):
            if obj is None:
                continue
            for name in sorted(dir(obj)):
                if name.startswith("_") or name in skip:
                    continue
                try:
                    attr = getattr(obj, name)
                except Exception:
                    continue
                if not callable(attr):
                    continue
                used = pool if tier == "thorough" else pool[:14]
                for args in used:
                    n_calls += 1
                    try:
                        with contextlib.redirect_stdout(io.StringIO()):
                            r = attr(*args)
                            if hasattr(r, "__next__"):
                                next(r)
                    except (KeyboardInterrupt, SystemExit):
                        raise
                    except BaseException:
                        pass
                try:
                    after = snap()
                except Exception as ex:
                    after = ["snapshot failed: %r" % ex]
                if after != before:
                    diff = next((i for i, (a, b) in enumerate(zip(before, after)) if a != b), len(before))
                    # which argument tuple did it?  replay on a fresh wallet, one call at a time
                    culprit = None
                    for args in used:
                        w2 = mk()
                        o2 = {"wallet": w2, "wallet.bip85": w2.bip85, "wallet.master": w2.master}[oname]
                        try:
                            with contextlib.redirect_stdout(io.StringIO()):
                                getattr(o2, name)(*args)
                        except BaseException:
                            pass
                        try:
                            ok2 = impl.nodeS(w2.master) == before[0]
                        except Exception:
                            ok2 = False
                        if not ok2:
                            culprit = args
                            break
                    yield ("# %s: after the call(s) %s.%s%s" % (label, oname, name, repr(culprit) if culprit is not None else
                                                                 " with each of %r" % (used,)),
                           "a request changed what later requests return (item %d of the reference set: %s -> %s)" % (
                               diff, str(before[diff])[:50] if diff < len(before) else "-",
                               str(after[diff])[:60] if diff < len(after) else "-"))
                    return
    info["api_sweep_calls"] = n_calls


def extra_checks(rng, tier, g, info):       # noqa: F811
    yield from api_sweep(rng, tier, info)
    yield from _threaded_histories(rng, tier, g, info)
    yield from contended_nodes(rng, tier, info)
    yield from explore_preemptions(rng, tier, info)
    yield from soak(rng, tier, info)


known_match = common.no_known
